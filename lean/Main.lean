import EyeballVerif.Driver.Text
import EyeballVerif.Driver.Vec
import EyeballVerif.Driver.Adp
import EyeballVerif.Driver.Obs
import EyeballVerif.Driver.Conc
import EyeballVerif.Driver.Own
open EV

structure DState where
  adp : AdpSt := {}
  obs : ObsDrv := {}
  conc : CS := CS.init true 0 1 0 []
  own : Ledger := Ledger.init
  rbox : RB := RB.new ⟨0, 0, false⟩

def stepLine (st : DState) (line : String) : DState × String :=
  let toks := (line.trimAscii.toString.splitOn " ").filter (· ≠ "")
  match toks with
  | ["diff.apply", d, l] =>
    match parseDiff d, parseList l with
    | some d, some l => (st, showOptList (d.apply l))
    | _, _ => (st, "bad-op")
  | ["diff.mapapply", f, d, l] =>
    match f.toNat?.bind mapFn, parseDiff d, parseList l with
    | some f, some d, some l => (st, (d.map f).show ++ " " ++ showOptList ((d.map f).apply (l.map f)))
    | _, _, _ => (st, "bad-op")
  | _ =>
    match rboxStep st.rbox toks with
    | some (rbox, out) => ({ st with rbox }, out)
    | none =>
    match ownStep st.own toks with
    | some (own, out) => ({ st with own }, out)
    | none =>
    match concStep st.conc toks with
    | some (conc, out) => ({ st with conc }, out)
    | none =>
    match obsStep st.obs toks with
    | some (obs, out) => ({ st with obs }, out)
    | none =>
    match adpStep st.adp toks with
    | some (adp, out) => ({ st with adp }, out)
    | none => (st, "bad-op")

partial def loop (h : IO.FS.Stream) (out : IO.FS.Stream) (st : DState) : IO Unit := do
  let line ← h.getLine
  if line.isEmpty then return ()
  if line.startsWith "#" then
    out.putStr line
    loop h out {}
  else
    let (st', o) := stepLine st line
    out.putStrLn o
    loop h out st'

def main : IO Unit := do
  loop (← IO.getStdin) (← IO.getStdout) {}
