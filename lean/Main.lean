import EyeballVerif.Driver.Text
open EV

def stepLine (line : String) : String :=
  match line.trimAscii.toString.splitOn " " with
  | ["diff.apply", d, l] =>
    match parseDiff d, parseList l with
    | some d, some l => showOptList (d.apply l)
    | _, _ => "bad-op"
  | ["diff.mapapply", f, d, l] =>
    match f.toNat?.bind mapFn, parseDiff d, parseList l with
    | some f, some d, some l => (d.map f).show ++ " " ++ showOptList ((d.map f).apply (l.map f))
    | _, _, _ => "bad-op"
  | _ => "bad-op"

partial def loop (h : IO.FS.Stream) (out : IO.FS.Stream) : IO Unit := do
  let line ← h.getLine
  if line.isEmpty then return ()
  if line.startsWith "#" then out.putStr line else out.putStrLn (stepLine line)
  loop h out

def main : IO Unit := do
  loop (← IO.getStdin) (← IO.getStdout)
