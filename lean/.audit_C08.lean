import EyeballVerif.Props.C08
import EyeballVerif.Props.StreamReach
open EV
#print axioms handleLag_open_ne_none
#print axioms c08_no_early_end
#print axioms c08_end_consumed_all
#print axioms c08_lagged_after_drop_gets_final
#print axioms c08_drop_wakes
#print axioms reach_inv
#print axioms reach_step
#print axioms c05_replay_inv
#print axioms c05_caught_up_equal
#print axioms c05_never_panics
#print axioms c06_pending_synced
#print axioms c08_end_final
#print axioms c06_lagged_reset_current
#print axioms c05_delivered_applicable
#print axioms reach_restIn
#print axioms c06_reset_only_when_lagged
#print axioms poll_isSome
#print axioms c05_drain_delivers_owed
