import EyeballVerif.Model.Diff
