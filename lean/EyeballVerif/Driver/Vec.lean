/- Driver half of engine `vec`: executes the line protocol on the `OV` model. -/
import EyeballVerif.Driver.Text
import EyeballVerif.Model.OVec
import EyeballVerif.Model.OVecStep
namespace EV

def Ret.show : Ret Nat → String
  | .unit => "-"
  | .opt o => showOptNat o
  | .val v => toString v

def Item.show : Item Nat → String
  | .one d => "Ready(" ++ d.show ++ ")"
  | .batch ds => "Ready" ++ showDiffs ds
  | .pending => "Pending"
  | .done => "End"
  | .panic => "panic"

def RK.show : RK → String
  | .none => "-"
  | .ok => "Ok"
  | .empty => "Empty"
  | .closed => "Closed"
  | .lagged => "Lagged"

def showWoke (w : List Nat) : String := " woke=" ++ showList w

def parseVOp : List String → Option (VOp Nat)
  | ["append", l] => (parseList l).map .append
  | ["clear"] => some .clear
  | ["pushf", v] => v.toNat?.map .pushFront
  | ["pushb", v] => v.toNat?.map .pushBack
  | ["popf"] => some .popFront
  | ["popb"] => some .popBack
  | ["ins", i, v] => do some (.insert (← i.toNat?) (← v.toNat?))
  | ["set", i, v] => do some (.set (← i.toNat?) (← v.toNat?))
  | ["rem", i] => i.toNat?.map .remove
  | ["trunc", n] => n.toNat?.map .truncate
  | _ => none

/-- decisions: `k` keep, `s<v>` set, `r` remove, `x<v>` set-then-remove, `q` stop; comma separated -/
def parseDecs (s : String) : Option (List (Dec Nat)) :=
  if s = "-" then some [] else
  (s.splitOn ",").mapM fun t =>
    if t = "k" then some .keep
    else if t = "r" then some .remove
    else if t = "q" then some .stop
    else if t.startsWith "s" then (t.drop 1).toString.toNat?.map .set
    else if t.startsWith "x" then (t.drop 1).toString.toNat?.map .setRemove
    else none

def showSeen (l : List (Nat × Nat)) : String :=
  "[" ++ ",".intercalate (l.map fun (i, v) => toString i ++ ":" ++ toString v) ++ "]"

/-- poll until `Pending`/`End`/`panic`, collecting the items (fuel: everything pending is finite) -/
def drainLoop : Nat → OV Nat → Nat → List String → OV Nat × List String
  | 0, s, _, acc => (s, acc)
  | fuel + 1, s, i, acc =>
    match s.poll i with
    | none => (s, acc ++ ["bad-sub"])
    | some (it, s') =>
      match it with
      | .one _ | .batch _ => drainLoop fuel s' i (acc ++ [it.show])
      | _ => (s', acc ++ [it.show])

def tvalsStr (s : OV Nat) : String :=
  match s.txn with
  | some t => " tvals=" ++ showList t.working
  | none => " tvals=?"

/-- one protocol line on the vec engine; `none` = not a vec-engine line -/
def vecStep (s : OV Nat) (toks : List String) : Option (OV Nat × String) :=
  match toks with
  | ["newvec", c] =>
    match c.toNat? with
    | some c => some (OV.new c, "ok")
    | none => some (s, "bad-op")
  | ["sub", k] =>
    if k = "plain" || k = "batched" then
      let (s', id, snap) := s.subscribe (k = "batched")
      some (s', toString id ++ " vals=" ++ showList snap)
    else some (s, "bad-op")
  | ["poll", r] =>
    match r.toNat? with
    | none => some (s, "bad-op")
    | some i =>
      match s.poll i with
      | none => some (s, "bad-sub")
      | some (it, s') => some (s', it.show)
  | "vcdone" :: _ => some (s, "ok")     -- engine vconc: no trace to replay (free-running threads), oracles only
  | ["replica", r] =>     -- the ghost replica of the stream invariant (Lemmas/StreamInv.lean)
    match r.toNat?.bind (s.subs[·]?) with
    | none => some (s, "bad-sub")
    | some sub => some (s, match sub.replica with | some rep => showList rep | none => "undefined")
  | ["drain", r] =>
    match r.toNat? with
    | none => some (s, "bad-op")
    | some i =>
      let (s', items) := drainLoop (s.log.length * 64 + 64) s i []
      some (s', " ".intercalate items)
  | ["dropsub", r] =>
    match r.toNat? with
    | none => some (s, "bad-op")
    | some i => some (s.dropSub i, "ok")
  | ["dropvec"] =>
    let (s', w) := s.dropVec
    some (s', "ok" ++ showWoke w)
  | ["txn"] => some (s.txnBegin, "ok")
  | ["t.rollback"] => some (s.txnRollback, "ok" ++ tvalsStr s.txnRollback)
  | ["t.drop"] => let s' := s.txnDrop; some (s', "ok vals=" ++ showList s'.vals)
  | ["t.commit"] =>
    let (s', w) := s.txnCommit
    some (s', "ok vals=" ++ showList s'.vals ++ showWoke w)
  | ["foreach", d] =>
    match parseDecs d with
    | none => some (s, "bad-op")
    | some decs =>
      let ((s', w), seen) := s.forEach decs
      some (s', "seen=" ++ showSeen seen ++ " vals=" ++ showList s'.vals ++ showWoke w)
  | ["t.foreach", d] =>
    match parseDecs d with
    | none => some (s, "bad-op")
    | some decs =>
      let (s', seen) := s.txnForEach decs
      some (s', "seen=" ++ showSeen seen ++ tvalsStr s')
  | "entry" :: rest =>
    -- `entry i set v` / `entry i rem`: `ObservableVector::entry` bounds-checks, then the entry forwards
    match rest with
    | [i, "set", v] =>
      match i.toNat?, v.toNat? with
      | some i, some v =>
        match s.direct (.set i v) with
        | some (s', r, w) => some (s', r.show ++ " vals=" ++ showList s'.vals ++ showWoke w)
        | none => some (s, "panic vals=" ++ showList s.vals ++ showWoke [])
      | _, _ => some (s, "bad-op")
    | [i, "rem"] =>
      match i.toNat? with
      | some i =>
        match s.direct (.remove i) with
        | some (s', r, w) => some (s', r.show ++ " vals=" ++ showList s'.vals ++ showWoke w)
        | none => some (s, "panic vals=" ++ showList s.vals ++ showWoke [])
      | none => some (s, "bad-op")
    | [i, "none"] =>      -- `ObservableVector::entry(i)` taken and dropped unused: only the bounds check
      match i.toNat? with
      | some i => some (s, if i < s.vals.length then "ok" else "panic")
      | none => some (s, "bad-op")
    | _ => some (s, "bad-op")
  | ["t.entry", i] =>     -- `ObservableVectorTransaction::entry(i)` taken and dropped unused
    match i.toNat?, s.txn with
    | some i, some t => some (s, if i < t.working.length then "ok" else "panic")
    | _, _ => some (s, "bad-op")
  | ["t.eset", i, v] =>   -- through `entry(i)`: forwards to `set`
    match i.toNat?, v.toNat? with
    | some i, some v =>
      match s.txnOp (.set i v) with
      | some (s', r) => some (s', r.show ++ tvalsStr s')
      | none => some (s, "panic" ++ tvalsStr s)
    | _, _ => some (s, "bad-op")
  | ["t.erem", i] =>
    match i.toNat? with
    | some i =>
      match s.txnOp (.remove i) with
      | some (s', r) => some (s', r.show ++ tvalsStr s')
      | none => some (s, "panic" ++ tvalsStr s)
    | none => some (s, "bad-op")
  | t :: rest =>
    if t.startsWith "t." then
      match parseVOp ((t.drop 2).toString :: rest) with
      | none => none
      | some op =>
        match s.txnOp op with
        | some (s', r) => some (s', r.show ++ tvalsStr s')
        | none => some (s, "panic" ++ tvalsStr s)
    else
      match parseVOp (t :: rest) with
      | none => none
      | some op =>
        match s.direct op with
        | some (s', r, w) => some (s', r.show ++ " vals=" ++ showList s'.vals ++ showWoke w)
        | none => some (s, "panic vals=" ++ showList s.vals ++ showWoke [])
  | _ => none

end EV
