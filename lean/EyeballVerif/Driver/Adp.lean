/- Driver half of engine `adp`: adapter pipelines over the `OV` model. -/
import EyeballVerif.Driver.Vec
import EyeballVerif.Model.Pipe
import EyeballVerif.Model.OVecStep
namespace EV

/-- filter table: `fid = mask + 256 * sel`; an item passes iff bit `x % 8` of `mask` is set;
    `sel = 0` keeps the item itself (`Filter`), `sel = k + 1` maps it with `mapFn k` (`FilterMap`) -/
def filtTable (fid : Nat) (x : Nat) : Option Nat :=
  let mask := fid % 256
  let sel := fid / 256
  if (mask >>> (x % 8)) % 2 = 1 then
    match sel with
    | 0 => some x
    | k + 1 => match mapFn k with | some f => some (f x) | none => some x
  else none

/-- comparator table: 0 `Ord` (Sort), 1 key `x % 4` (SortByKey), 2 reversed (SortBy), 3 by `x / 2` (SortBy, ties) -/
def cmpTable (cid : Nat) (a b : Nat) : Ordering :=
  match cid with
  | 0 => compare a b
  | 1 => compare (a % 4) (b % 4)
  | 2 => compare b a
  | _ => compare (a / 2) (b / 2)

structure Hint where
  cid : Nat
  vals : List Nat
  perm : List Nat
  deriving Repr

def isPerm (p : List Nat) (n : Nat) : Bool :=
  p.length = n && (List.range n).all (fun i => p.contains i)

def sortedBy (cmp : Nat → Nat → Ordering) : List Nat → Bool
  | [] => true
  | [_] => true
  | a :: b :: rest => cmp a b != .gt && sortedBy cmp (b :: rest)

def hintOk (h : Hint) : Bool :=
  isPerm h.perm h.vals.length && sortedBy (cmpTable h.cid) (h.perm.filterMap (h.vals[·]?))

/-- `Vector::sort_by` as observed on the implementation (a validated sorted permutation), else a stable sort -/
def sortWith (hints : List Hint) (cid : Nat) (l : List (Nat × Nat)) : List (Nat × Nat) :=
  match hints.find? (fun h => h.cid = cid && h.vals = l.map (·.2)) with
  | some h => h.perm.filterMap (l[·]?)
  | none => Srt.stableSort (cmpTable cid) l

def tablesOf (hints : List Hint) : Tables Nat :=
  { filt := filtTable, cmp := cmpTable, sort := sortWith hints }

structure AdpSt where
  w : PWorld Nat := { ov := OV.new 16, lims := [] }
  stages : List (Stage Nat) := []
  batched : Bool := false
  sub : Nat := 0
  hints : List Hint := []
  hasPipe : Bool := false
  /-- engine `vstep`: where each receiver is inside its `poll_next`, and the item of a poll that has returned in the model
      but whose `mret` line has not come yet -/
  ph : Nat → Phase Nat := fun _ => .idle
  stash : Option String := none

def parseSpec (s : String) : Option StageSpec :=
  match s.splitOn ":" with
  | ["head", l] => l.toNat?.map .head
  | ["dhead", k] => k.toNat?.map .dhead
  | ["dheadi", l, k] => do some (.dheadi (← l.toNat?) (← k.toNat?))
  | ["tail", l] => l.toNat?.map .tail
  | ["dtail", k] => k.toNat?.map .dtail
  | ["dtaili", l, k] => do some (.dtaili (← l.toNat?) (← k.toNat?))
  | ["skip", c] => c.toNat?.map .skip
  | ["dskip", k] => k.toNat?.map .dskip
  | ["dskipi", c, k] => do some (.dskipi (← c.toNat?) (← k.toNat?))
  | ["filter", m] => m.toNat?.map fun m => .filter (m % 256)
  | ["fmap", m, f] => do some (.filter ((← m.toNat?) % 256 + 256 * ((← f.toNat?) + 1)))
  | ["sort", c] => c.toNat?.map .sort
  | _ => none

def specIsPureDynamic : StageSpec → Bool
  | .dhead _ | .dtail _ | .dskip _ => true
  | _ => false

def specLims : StageSpec → Option Nat
  | .dhead k | .dheadi _ k | .dtail k | .dtaili _ k | .dskip k | .dskipi _ k => some k
  | _ => none

def pdrainLoop (T : Tables Nat) (batched : Bool) (sub : Nat) :
    Nat → List (Stage Nat) → PWorld Nat → List String → List (Stage Nat) × PWorld Nat × List String
  | 0, sts, w, acc => (sts, w, acc)
  | fuel + 1, sts, w, acc =>
    match pollStages T batched sub 100000 sts w with
    | (it, sts', w') =>
      match it with
      | .one _ | .batch _ => pdrainLoop T batched sub fuel sts' w' (acc ++ [it.show])
      | _ => (sts', w', acc ++ [it.show])

def adpStep (st : AdpSt) (toks : List String) : Option (AdpSt × String) :=
  let T := tablesOf st.hints
  match toks with
  | "pipe" :: flavour :: specs =>
    if flavour ≠ "plain" && flavour ≠ "batched" then some (st, "bad-op") else
    match specs.mapM parseSpec with
    | none => some (st, "bad-op")
    | some sps =>
      let batched := flavour = "batched"
      let (ov', id, snap) := st.w.ov.subscribe batched
      let nl := (sps.filterMap specLims).foldl (fun m k => max m (k + 1)) 0
      let lims := List.replicate nl ({ q := [], closed := false, waiting := false } : Lim)
      let (stages, init) := mkPipe T snap sps
      let shown := match sps.getLast? with
        | some sp => if specIsPureDynamic sp then [] else init
        | none => init
      some ({ st with w := { ov := ov', lims }, stages, batched, sub := id, hasPipe := true },
            "init=" ++ showList shown)
  | ["stack", spec] =>
    -- use the current outermost adapter itself as the observer for one more stage
    if !st.hasPipe then some (st, "bad-op") else
    match parseSpec spec, st.stages with
    | some sp, top :: _ =>
      match top.intoParts with
      | none => some (st, "bad-op")
      | some init =>
        let nl := match specLims sp with | some k => max st.w.lims.length (k + 1) | none => st.w.lims.length
        let lims := st.w.lims ++ List.replicate (nl - st.w.lims.length) ({ q := [], closed := false, waiting := false } : Lim)
        let (ns, v) := mkStage T init sp
        let shown := if specIsPureDynamic sp then [] else v
        some ({ st with w := { st.w with lims }, stages := ns :: st.stages }, "handed=" ++ showList init ++ " init=" ++ showList shown)
    | _, _ => some (st, "bad-op")
  | ["ppoll"] =>
    if !st.hasPipe then some (st, "bad-op") else
    match pollStages T st.batched st.sub 100000 st.stages st.w with
    | (it, sts', w') => some ({ st with stages := sts', w := w' }, it.show)
  | ["pdrain"] =>
    if !st.hasPipe then some (st, "bad-op") else
    let (sts', w', items) := pdrainLoop T st.batched st.sub 100000 st.stages st.w []
    some ({ st with stages := sts', w := w' }, " ".intercalate items)
  | ["limit", k, v] =>
    match k.toNat?, v.toNat? with
    | some k, some v =>
      let (w', woke) := st.w.limPush k v
      some ({ st with w := w' }, "ok w=" ++ (if woke then "1" else "0"))
    | _, _ => some (st, "bad-op")
  | ["limclose", k] =>
    match k.toNat? with
    | some k =>
      let (w', woke) := st.w.limClose k
      some ({ st with w := w' }, "ok w=" ++ (if woke then "1" else "0"))
    | none => some (st, "bad-op")
  | ["sorthint", c, vs, p] =>
    match c.toNat?, parseList vs, parseList p with
    | some c, some vs, some p =>
      let h : Hint := { cid := c, vals := vs, perm := p }
      if hintOk h then some ({ st with hints := h :: st.hints }, "ok") else some (st, "bad-perm")
    | _, _, _ => some (st, "bad-op")
  | ["mrecv", r] =>       -- engine `vstep`: one receive operation of receiver `r`'s current `poll_next`
    match r.toNat? with
    | none => some (st, "bad-op")
    | some i =>
      if st.stash.isSome then some (st, "norecv") else
      match ({ ov := st.w.ov, ph := st.ph } : SOV Nat).micro i with
      | none => some (st, "bad-sub")
      | some (k, it, s') =>
        if k = .none then some (st, "norecv")      -- the model performs no receive operation here
        else some ({ st with w := { st.w with ov := s'.ov }, ph := s'.ph, stash := it.map Item.show }, k.show)
  | ["mret", r] =>        -- `poll_next` of receiver `r` returns
    match r.toNat? with
    | none => some (st, "bad-op")
    | some i =>
      match st.stash with
      | some t => some ({ st with stash := none }, t)
      | none =>
        match ({ ov := st.w.ov, ph := st.ph } : SOV Nat).micro i with
        | none => some (st, "bad-sub")
        | some (k, some it, s') =>
          if k = .none then some ({ st with w := { st.w with ov := s'.ov }, ph := s'.ph }, it.show) else some (st, "unfinished")
        | some (_, none, _) => some (st, "unfinished")
  | _ =>
    match vecStep st.w.ov toks with
    | some (ov', out) => some ({ st with w := { st.w with ov := ov' } }, out)
    | none => none

end EV
