/- Driver half of engine `obs`: the `eyeball` observable model. Values are naturals standing for a type whose
   `PartialEq` compares `v % 8` and whose `Hash` feeds `v / 8`; `Default` is 0. -/
import EyeballVerif.Driver.Text
import EyeballVerif.Model.Obs
namespace EV
open OWorld

def eqvT (a b : Nat) : Bool := a % 8 == b % 8
def hashT (a : Nat) : Nat := a / 8

def PollRes.show : PollRes Nat → String
  | .ready v => "Ready(" ++ toString v ++ ")"
  | .pending => "Pending"
  | .done => "End"

def OWorld.WRet.show : OWorld.WRet Nat → String
  | .unit => "-"
  | .val v => toString v
  | .opt o => showOptNat o

/-- woken waker ids, canonical: sorted, without duplicates, and only wakers of subscribers that still exist
    (waking the stale waker of a dropped subscriber is not observable) -/
def showWokeO (w : OWorld Nat) (wk : List Nat) : String :=
  " woke=" ++ showList (dedupSorted (wk.filter w.subAlive))

structure ObsDrv where
  w : OWorld Nat := OWorld.newUnique 0
  /-- async-lock flavour: every subscriber holds two references to the state (known finding D8) -/
  async : Bool := false

def parseWOp : List String → Option (WOp Nat)
  | ["set", v] => v.toNat?.map .set
  | ["sne", v] => v.toNat?.map .setIfNotEq
  | ["shne", v] => v.toNat?.map .setIfHashNotEq
  | ["take"] => some .take
  | ["upd", f] => (f.toNat?.bind mapFn).map .update
  | ["updif", f, n] => do
    let g ← f.toNat?.bind mapFn
    if n = "1" then some (.updateIf g true) else if n = "0" then some (.updateIf g false) else none
  | _ => none

def obsStep (d : ObsDrv) (toks : List String) : Option (ObsDrv × String) :=
  let w := d.w
  let bad := some (d, "bad-op")
  let extra := if d.async then 1 else 0     -- extra state references per subscriber
  match toks with
  | ["onew", k, fl, v] =>
    match v.toNat? with
    | some v =>
      let async := fl = "async"
      if k = "unique" then some ({ w := OWorld.newUnique v, async }, "ok")
      else if k = "shared" then some ({ w := OWorld.newShared v, async }, "ok") else bad
    | none => bad
  | kind :: h :: rest =>
    if kind = "w" || kind = "g" then
      match h.toNat?, parseWOp rest with
      | some h, some op =>
        match w.write eqvT hashT 0 h op with
        | some (w', r, wk) => some ({ d with w := w' }, r.show ++ showWokeO w' wk)
        | none => bad
      | _, _ => bad
    else
    match kind, h.toNat?, rest with
    | "osub", some h, [] =>
      match w.subscribe h false with
      | some (w', id) => some ({ d with w := { w' with arcState := w'.arcState + extra } }, toString id)
      | none => bad
    | "osubr", some h, [] =>
      match w.subscribe h true with
      | some (w', id) => some ({ d with w := { w' with arcState := w'.arcState + extra } }, toString id)
      | none => bad
    | "opoll", some i, [] =>
      match w.poll i with
      | some (w', r) => some ({ d with w := w' }, r.show)
      | none => bad
    | "onext", some i, [] =>
      match w.nextNow i with
      | some (w', v) => some ({ d with w := w' }, toString v)
      | none => bad
    | "oget", some i, [] =>
      match w.get i with
      | some v => some (d, toString v)
      | none => bad
    | "oreset", some i, [] =>
      match w.reset i with
      | some w' => some ({ d with w := w' }, "ok")
      | none => bad
    | "oclone", some i, [] =>
      match w.subClone i false with
      | some (w', id) => some ({ d with w := { w' with arcState := w'.arcState + extra } }, toString id)
      | none => bad
    | "ocloner", some i, [] =>
      match w.subClone i true with
      | some (w', id) => some ({ d with w := { w' with arcState := w'.arcState + extra } }, toString id)
      | none => bad
    | "osdrop", some i, [] =>
      match w.subDrop i with
      | some w' => some ({ d with w := { w' with arcState := w'.arcState - extra } }, "ok")
      | none => bad
    | "hget", some h, [] => if w.ownerAlive h then some (d, toString w.st.value) else bad
    | "hclone", some h, [] =>
      match w.cloneOwner h with
      | some (w', id) => some ({ d with w := w' }, toString id)
      | none => bad
    | "hdrop", some h, [] =>
      match w.dropOwner h with
      | some (w', wk) => some ({ d with w := w' }, "ok" ++ showWokeO w' wk)
      | none => bad
    | "hdown", some h, [] =>
      match w.downgrade h with
      | some (w', id) => some ({ d with w := w' }, toString id)
      | none => bad
    | "hup", some k, [] =>
      match w.upgrade k with
      | some (w', r) => some ({ d with w := w' }, showOptNat r)
      | none => bad
    | "hdropw", some k, [] =>
      match w.dropWeak k with
      | some w' => some ({ d with w := w' }, "ok")
      | none => bad
    | "hcounts", some h, [] =>
      if w.unique then
        if h == 0 then some (d, "u " ++ toString w.uniqueSubscriberCount) else bad
      else if w.ownerAlive h then
        let c := w.counts
        some (d, s!"{c.observable} {c.subscriber} {c.strong} {c.weak}")
      else bad
    | _, _, _ => none
  | ["hinto"] =>
    match w.intoShared with
    | some (w', id) => some ({ d with w := w' }, toString id)
    | none => bad
  | _ => none

end EV
