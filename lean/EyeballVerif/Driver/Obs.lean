/- Driver half of engine `obs`: the `eyeball` observable model. Values are naturals standing for a type whose
   `PartialEq` compares `v % 8` and whose `Hash` feeds `v / 8`; `Default` is 0. -/
import EyeballVerif.Driver.Text
import EyeballVerif.Model.Obs
import EyeballVerif.Model.ObsAsync
namespace EV
open OWorld

def eqvT (a b : Nat) : Bool := a % 8 == b % 8
def hashT (a : Nat) : Nat := a / 8

def PollRes.show : PollRes Nat → String
  | .ready v => "Ready(" ++ toString v ++ ")"
  | .pending => "Pending"
  | .done => "End"

def OWorld.WRet.show : OWorld.WRet Nat → String
  | .unit => "-"
  | .val v => toString v
  | .opt o => showOptNat o

/-- woken waker ids, canonical: sorted, without duplicates, and only wakers of subscribers that still exist
    (waking the stale waker of a dropped subscriber is not observable) -/
def showWokeO (w : OWorld Nat) (wk : List Nat) : String :=
  " woke=" ++ showList (dedupSorted (wk.filter fun id => (900 ≤ id && id < 1000) || w.subAlive id))

structure ObsDrv where
  w : OWorld Nat := OWorld.newUnique 0
  /-- async-lock flavour: every subscriber holds two references to the state (known finding D8) -/
  async : Bool := false
  /-- async-lock flavour: the tokio RwLock (permit semaphore), pending futures, held guards -/
  sem : ASem := { max := 1000, avail := 1000, queue := [] }
  subLock : List FSt := []
  futs : List AFut := []
  guards : List Nat := []
  /-- per subscriber: identity of the waker stored in its reusable lock future (who polled it last) -/
  lockWk : List (Nat × Nat) := []

def ObsDrv.aw (d : ObsDrv) : AWorld := { w := d.w, sem := d.sem, subLock := d.subLock, futs := d.futs, guards := d.guards }
def ObsDrv.ofAw (d : ObsDrv) (a : AWorld) : ObsDrv :=
  { d with w := a.w, sem := a.sem, subLock := a.subLock, futs := a.futs, guards := a.guards }

def showGrants (wk : List AOwner) : String :=
  let fs := wk.filterMap fun o => match o with | .fut k => some k | _ => none
  if fs.isEmpty then "" else " wokef=" ++ showList (dedupSorted fs)
def grantSubs (wk : List AOwner) : List Nat := wk.filterMap fun o => match o with | .sub i => some i | _ => none

def ObsDrv.lockWaker (d : ObsDrv) (i : Nat) : Nat := ((d.lockWk.find? (·.1 == i)).map (·.2)).getD i
def ObsDrv.setLockWaker (d : ObsDrv) (i id : Nat) : ObsDrv := { d with lockWk := (i, id) :: d.lockWk.filter (·.1 != i) }

/-- all waker identities woken by a step: the wakers of the version wait list plus the wakers stored in the
    lock futures that were granted the lock -/
def ObsDrv.wakeIds (d : ObsDrv) (wk : List Nat) (lw : List AOwner) : List Nat :=
  wk ++ lw.map fun o => match o with | .sub i => d.lockWaker i | .fut k => futWaker k

/-- canonical display: subscriber wakers (stream polls) that still exist, then wakers of futures that are still pending -/
def showWakes (a : AWorld) (ids : List Nat) (subsAlways : Bool := true) : String :=
  let ss := dedupSorted ((ids.filter (· < 1000)).filter fun id => 900 ≤ id || a.w.subAlive id)
  let fs := dedupSorted (((ids.filter (· ≥ 1000)).map (· - 1000)).filter fun k =>
    match a.futs[k]? with | some f => f.st != .done | none => false)
  (if subsAlways then " woke=" ++ showList ss else "") ++ (if fs.isEmpty then "" else " wokef=" ++ showList fs)

def parseWOp : List String → Option (WOp Nat)
  | ["set", v] => v.toNat?.map .set
  | ["sne", v] => v.toNat?.map .setIfNotEq
  | ["shne", v] => v.toNat?.map .setIfHashNotEq
  | ["take"] => some .take
  | ["upd", f] => (f.toNat?.bind mapFn).map .update
  | ["updif", f, n] => do
    let g ← f.toNat?.bind mapFn
    if n = "1" then some (.updateIf g true) else if n = "0" then some (.updateIf g false) else none
  | _ => none

def obsStep (d : ObsDrv) (toks : List String) : Option (ObsDrv × String) :=
  let w := d.w
  let bad := some (d, "bad-op")
  let extra := if d.async then 1 else 0     -- extra state references per subscriber
  match toks with
  | ["onew", k, fl, v] =>
    match v.toNat? with
    | some v =>
      let async := fl = "async"
      if k = "unique" then some ({ w := OWorld.newUnique v, async }, "ok")
      else if k = "shared" then some ({ w := OWorld.newShared v, async }, "ok") else bad
    | none => bad
  | ["afpoll", k] =>
    match k.toNat? with
    | none => bad
    | some k =>
      match d.futs[k]? with
      | none => bad
      | some f =>
        match f.kind with
        | .nextRef i =>
          let d := if f.st = .idle then d.setLockWaker i (futWaker k) else d
          match d.aw.pollNextRef eqvT hashT k with
          | some (a, r, lw) => some (d.ofAw a, r.getD ("Pending(" ++ toString k ++ ")") ++ showWakes a (d.wakeIds [] lw))
          | none => bad
        | _ =>
        if f.st = .queued then some (d, "Pending(" ++ toString k ++ ")")
        else
          match d.aw.finishFut eqvT hashT k with
          | some (a, r, lw, wk) => some (d.ofAw a, r ++ showWakes a (d.wakeIds wk lw))
          | none => bad
  | ["afdrop", k] =>
    match k.toNat?.bind d.aw.dropFut with
    | some (a, lw) => some (d.ofAw a, "ok" ++ showWakes a (d.wakeIds [] lw))
    | none => bad
  | ["agdrop", g] =>
    match g.toNat?.bind d.aw.dropGuard with
    | some (a, lw) => some (d.ofAw a, "ok" ++ showWakes a (d.wakeIds [] lw))
    | none => bad
  | "xcf" :: _ => some (d, "ok")     -- two observables: outside the one-observable model, oracles only
  | ["anextnow", i] =>
    match i.toNat? with
    | none => bad
    | some i =>
      if !w.subAlive i then bad else
      let (a, k, ok) := d.aw.startFut (.nextNow i)
      if ok then
        match a.finishFut eqvT hashT k with
        | some (a', r, lw, wk) => some (d.ofAw a', r ++ showWakes a' (d.wakeIds wk lw))
        | none => bad
      else some (d.ofAw a, "Pending(" ++ toString k ++ ")")
  | ["asub", h] =>
    match h.toNat? with
    | none => bad
    | some h =>
      if !w.ownerAlive h then bad else
      let (a, k, ok) := d.aw.startFut (.subscribe h)
      if ok then
        match a.finishFut eqvT hashT k with
        | some (a', r, lw, wk) => some (d.ofAw a', r ++ showWakes a' (d.wakeIds wk lw))
        | none => bad
      else some (d.ofAw a, "Pending(" ++ toString k ++ ")")
  | ["anext", i] =>
    match i.toNat? with
    | none => bad
    | some i =>
      if !w.subAlive i then bad else
      let (a0, k) := d.aw.newNextRef i
      let d := d.setLockWaker i (futWaker k)
      match a0.pollNextRef eqvT hashT k with
      | some (a, r, lw) => some (d.ofAw a, r.getD ("Pending(" ++ toString k ++ ")") ++ showWakes a (d.wakeIds [] lw))
      | none => bad
  | ["atryr", _] => some (d, if d.sem.avail ≥ 1 then "some" else "none")
  | ["atryw", _] => some (d, if d.sem.avail = d.sem.max then "some" else "none")
  | "agset" :: g :: rest =>
    match g.toNat?, parseWOp rest with
    | some g, some op =>
      if d.guards.getD g 0 ≠ d.sem.max then bad else
      match w.write eqvT hashT 0 ((List.range w.clones.length).find? (w.ownerAlive ·) |>.getD 0) op with
      | some (w', r, wk) => some ({ d with w := w' }, r.show ++ showWakes { d.aw with w := w' } wk)
      | none => bad
    | _, _ => bad
  | kind :: h :: rest =>
    if (kind = "awg" || kind = "arg") && rest = [] then
      let (a, k, ok) := d.aw.startFut (if kind = "awg" then .wguard else .rguard)
      if ok then
        match a.finishFut eqvT hashT k with
        | some (a', r, _, _) => some (d.ofAw a', r)
        | none => bad
      else some (d.ofAw a, "Pending(" ++ toString k ++ ")")
    else
    if d.async && (kind = "w" || kind = "g") then
      match h.toNat?, parseWOp rest with
      | some h, some op =>
        if !w.ownerAlive h then bad else
        let (a, k, ok) := d.aw.startFut (.write h op)
        if ok then
          match a.finishFut eqvT hashT k with
          | some (a', r, lw, wk) => some (d.ofAw a', r ++ showWakes a' (d.wakeIds wk lw))
          | none => bad
        else some (d.ofAw a, "Pending(" ++ toString k ++ ")")
      | _, _ => bad
    else if d.async && (kind = "opoll" || kind = "opollt" || kind = "onextf" || kind = "onextrf") && rest = [] then
      match h.toNat? with
      | none => bad
      | some i =>
        let wkid := if kind = "opollt" then 900 else i
        let d := d.setLockWaker i wkid
        match d.aw.pollSub i wkid with
        | some (a, r, lw) => some (d.ofAw a, r.show ++ showWakes a (d.wakeIds [] lw) false)
        | none => bad
    else if d.async && kind = "osdrop" && rest = [] then
      match h.toNat? with
      | none => bad
      | some i =>
        let (a, lw) := d.aw.dropSubLock i
        match a.w.subDrop i with
        | some w' => some ({ d.ofAw a with w := { w' with arcState := w'.arcState - 1 } }, "ok" ++ showWakes a (d.wakeIds [] lw) false)
        | none => bad
    else
    if kind = "w" || kind = "g" then
      match h.toNat?, parseWOp rest with
      | some h, some op =>
        match w.write eqvT hashT 0 h op with
        | some (w', r, wk) => some ({ d with w := w' }, r.show ++ showWokeO w' wk)
        | none => bad
      | _, _ => bad
    else
    match kind, h.toNat?, rest with
    | "osub", some h, [] =>
      match w.subscribe h false with
      | some (w', id) => some ({ d with w := { w' with arcState := w'.arcState + extra } }, toString id)
      | none => bad
    | "osubr", some h, [] =>
      match w.subscribe h true with
      | some (w', id) => some ({ d with w := { w' with arcState := w'.arcState + extra } }, toString id)
      | none => bad
    | "opoll", some i, [] =>
      match w.poll i with
      | some (w', r) => some ({ d with w := w' }, r.show)
      | none => bad
    | "onextf", some i, [] =>     -- the `next()` future polled once: the same `poll_update`
      match w.poll i with
      | some (w', r) => some ({ d with w := w' }, r.show)
      | none => bad
    | "onextrf", some i, [] =>    -- the `next_ref()` future polled once (uncontended): likewise
      match w.poll i with
      | some (w', r) => some ({ d with w := w' }, r.show)
      | none => bad
    | "opollt", some i, [] =>     -- polled by the task that polls several subscribers with one waker (identity 900)
      match w.pollW i 900 with
      | some (w', r) => some ({ d with w := w' }, r.show)
      | none => bad
    | "onext", some i, [] =>
      match w.nextNow i with
      | some (w', v) => some ({ d with w := w' }, toString v)
      | none => bad
    | "oget", some i, [] =>
      match w.get i with
      | some v => some (d, toString v)
      | none => bad
    | "oreset", some i, [] =>
      match w.reset i with
      | some w' => some ({ d with w := w' }, "ok")
      | none => bad
    | "oclone", some i, [] =>
      match w.subClone i false with
      | some (w', id) => some ({ d with w := { w' with arcState := w'.arcState + extra } }, toString id)
      | none => bad
    | "ocloner", some i, [] =>
      match w.subClone i true with
      | some (w', id) => some ({ d with w := { w' with arcState := w'.arcState + extra } }, toString id)
      | none => bad
    | "osdrop", some i, [] =>
      match w.subDrop i with
      | some w' => some ({ d with w := { w' with arcState := w'.arcState - extra } }, "ok")
      | none => bad
    | "hget", some h, [] => if w.ownerAlive h then some (d, toString w.st.value) else bad
    | "hclone", some h, [] =>
      match w.cloneOwner h with
      | some (w', id) => some ({ d with w := w' }, toString id)
      | none => bad
    | "hdrop", some h, [] =>
      match w.dropOwner h with
      | some (w', wk) => some ({ d with w := w' }, "ok" ++ showWokeO w' wk)
      | none => bad
    | "hdropu", some h, [] =>     -- dropped by unwinding: the same drop
      match w.dropOwner h with
      | some (w', wk) => some ({ d with w := w' }, "ok" ++ showWokeO w' wk)
      | none => bad
    | "hdown", some h, [] =>
      match w.downgrade h with
      | some (w', id) => some ({ d with w := w' }, toString id)
      | none => bad
    | "hup", some k, [] =>
      match w.upgrade k with
      | some (w', r) => some ({ d with w := w' }, showOptNat r)
      | none => bad
    | "hclonew", some k, [] =>
      match w.cloneWeak k with
      | some (w', id) => some ({ d with w := w' }, toString id)
      | none => bad
    | "hdropw", some k, [] =>
      match w.dropWeak k with
      | some w' => some ({ d with w := w' }, "ok")
      | none => bad
    | "hcounts", some h, [] =>
      if w.unique then
        if h == 0 then some (d, "u " ++ toString w.uniqueSubscriberCount) else bad
      else if w.ownerAlive h then
        let c := w.counts
        some (d, s!"{c.observable} {c.subscriber} {c.strong} {c.weak}")
      else bad
    | _, _, _ => none
  | ["hinto"] =>
    match w.intoShared with
    | some (w', id) => some ({ d with w := w' }, toString id)
    | none => bad
  | _ => none

end EV
