/- Driver half of engine `conc`: replays forced schedules on the lock-level model. -/
import EyeballVerif.Driver.Text
import EyeballVerif.Model.Conc
namespace EV

def PRes.show : PRes → String
  | .ready v => "Ready(" ++ toString v ++ ")"
  | .pending => "Pending"
  | .done => "End"

def Pc.show : Pc → String
  | .start => "start"
  | .pollBeforeMeta => "PollBeforeMeta"
  | .pollHoldingMeta => "PollHoldingMeta"
  | .pollAfterCheck _ => "PollAfterCheck"
  | .writeBeforeNotify _ => "WriteBeforeNotify"
  | .writeAfterNotify _ => "WriteAfterNotify"
  | .closeBeforeMeta => "CloseBeforeMeta"
  | .closeHoldingMeta => "CloseHoldingMeta"
  | .dropAfterDecision _ => "DropAfterDecision"
  | .upgradeBetween => "UpgradeBetween"
  | .finished => "finished"

def CRes.show : CRes → String
  | .none => "-"
  | .poll r => r.show
  | .prev v => toString v
  | .value v => toString v
  | .upgraded ok => if ok then "some" else "none"
  | .optPrev o => match o with
    | Option.none => "none"
    | some v => "some(" ++ toString v ++ ")"

def parseCOp (s : String) : Option (COp × Bool) :=
  match s.splitOn ":" with
  | ["poll"] => some (.poll, false)
  | ["pollf"] => some (.poll, true)
  | ["set", v] => v.toNat?.map fun v => (.set v, false)
  | ["get"] => some (.get, false)
  | ["drop"] => some (.dropClone, false)
  | ["up"] => some (.upgrade, false)
  | ["sne", v] => v.toNat?.map fun v => (.sne v, false)
  | ["upd", k] => k.toNat?.map fun k => (.update k, false)
  | ["nextnow"] => some (.nextNow, false)
  | _ => none

def concStep (s : CS) (toks : List String) : Option (CS × String) :=
  match toks with
  | ["cnew", a, v, clones, subs, ops] =>
    match v.toNat?, clones.toNat?, subs.toNat?, (ops.splitOn ";").mapM parseCOp with
    | some v, some c, some n, some ops => some (CS.init (a = "1") v c n ops, "ok")
    | _, _, _, _ => some (s, "bad-op")
  | ["adv", t] =>
    match t.toNat? with
    | none => some (s, "bad-op")
    | some t =>
      match s.adv t with
      | none => some (s, "blocked")
      | some s' =>
        match s'.ths[t]? with
        | some th =>
          if th.pc = .finished then some (s', "done " ++ th.res.show) else some (s', "at " ++ th.pc.show)
        | none => some (s, "bad-op")
  | ["cfinal"] =>
    let woken := (List.range s.ths.length).filter fun i => match s.ths[i]? with | some th => th.woken | none => false
    some (s, "value=" ++ toString s.value ++ " closed=" ++ (if s.version = 0 then "1" else "0") ++ " woken=" ++ showList woken)
  | ["cfinalq"] =>     -- programs without a monitor subscriber whose state is gone: nobody can read the value
    let woken := (List.range s.ths.length).filter fun i => match s.ths[i]? with | some th => th.woken | none => false
    some (s, "closed=" ++ (if s.version = 0 then "1" else "0") ++ " woken=" ++ showList woken)
  | _ => none

end EV
