/- Driver half of engine `own`: the ownership ledger. -/
import EyeballVerif.Driver.Text
import EyeballVerif.Model.Own
namespace EV

def ownStep (l : Ledger) (toks : List String) : Option (Ledger × String) :=
  let show_ (l : Ledger) := "held=" ++ showList l.held ++ " next=" ++ toString l.next
  match toks with
  | ["lnew"] => some (Ledger.init, show_ Ledger.init)
  | ["l.set"] => let l' := l.step .set; some (l', show_ l')
  | ["l.skip"] => let l' := l.step .setSkipped; some (l', show_ l')
  | ["l.take"] => let l' := l.step .take; some (l', show_ l')
  | ["l.clone"] => let l' := l.step .cloneOut; some (l', show_ l')
  | ["l.update"] => let l' := l.step .update; some (l', show_ l')
  | ["l.drop"] => let l' := l.step .dropState; some (l', show_ l')
  | ["l.into"] => let l' := l.step .intoShared; some (l', show_ l')
  | ["l.none"] => some (l, show_ l)
  | ["lvecend"] => some (l, "live=0 double=0")
  | _ => none

end EV
