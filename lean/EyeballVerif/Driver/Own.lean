/- Driver half of engine `own`: the ownership ledger. -/
import EyeballVerif.Driver.Text
import EyeballVerif.Model.Own
import EyeballVerif.Model.RBox
namespace EV

def ownStep (l : Ledger) (toks : List String) : Option (Ledger × String) :=
  let show_ (l : Ledger) := "held=" ++ showList l.held ++ " next=" ++ toString l.next
  match toks with
  | ["lnew"] => some (Ledger.init, show_ Ledger.init)
  | ["l.set"] => let l' := l.step .set; some (l', show_ l')
  | ["l.skip"] => let l' := l.step .setSkipped; some (l', show_ l')
  | ["l.take"] => let l' := l.step .take; some (l', show_ l')
  | ["l.clone"] => let l' := l.step .cloneOut; some (l', show_ l')
  | ["l.update"] => let l' := l.step .update; some (l', show_ l')
  | ["l.drop"] => let l' := l.step .dropState; some (l', show_ l')
  | ["l.into"] => let l' := l.step .intoShared; some (l', show_ l')
  | ["l.none"] => some (l, show_ l)
  | ["lvecend"] => some (l, "live=0 double=0")
  | _ => none

/-- engine `rbox`: the reusable boxed future. `rnew id layout panics`, `rset id layout panics`, `rpoll`, `rdrop`, `rend`. -/
def rboxStep (b : RB) (toks : List String) : Option (RB × String) :=
  let fut (i l p : String) : Option Fut := do some { id := ← i.toNat?, layout := ← l.toNat?, dropPanics := p = "1" }
  let stored (b : RB) : String := match b.cur with | some f => toString f.id | none => "-"
  match toks with
  | ["rnew", i, l, p] =>
    match fut i l p with
    | some f => some (RB.new f, "ok")
    | none => some (b, "bad-op")
  | ["rset", i, l, p] =>
    match fut i l p with
    | some f =>
      if !b.alive then some (b, "bad-op") else
      let (b', pan) := b.set f
      some (b', (if pan then "panic" else "ok") ++ " dropped=" ++ showList b'.dropped ++ " stored=" ++ stored b' ++
                (if pan then "" else " alloc=" ++ toString (b'.allocs - b.allocs)))
    | none => some (b, "bad-op")
  | ["rpoll"] => some (b, match b.cur with | some f => "Ready(" ++ toString f.id ++ ")" | none => "Pending")
  | ["rdrop"] =>
    if !b.alive then some (b, "bad-op") else
    let (b', pan) := b.drop
    some (b', (if pan then "panic" else "ok") ++ " dropped=" ++ showList b'.dropped)
  | ["rend"] => some (b, "dropped=" ++ showList b.dropped ++ " leaked=" ++ showList b.leaked ++ " allocs_alive=" ++ toString b.allocLive)
  | _ => none

end EV
