/-
  Line-protocol text layer for the model driver: parsing and canonical printing.
  Values are decimal naturals; lists print as `[1,2,3]` (no spaces); diffs print as
  `Append[1,2] Clear PushFront(3) PushBack(3) PopFront PopBack Insert(i,v) Set(i,v) Remove(i)
   Truncate(n) Reset[1,2]`.  Malformed input is rejected (`none`), never defaulted.
-/
import EyeballVerif.Model.Diff
namespace EV

def showList (l : List Nat) : String := "[" ++ ",".intercalate (l.map toString) ++ "]"

def showOptNat : Option Nat → String
  | none => "none"
  | some v => "some(" ++ toString v ++ ")"

def Diff.show : Diff Nat → String
  | .append vs => "Append" ++ showList vs
  | .clear => "Clear"
  | .pushFront v => "PushFront(" ++ toString v ++ ")"
  | .pushBack v => "PushBack(" ++ toString v ++ ")"
  | .popFront => "PopFront"
  | .popBack => "PopBack"
  | .insert i v => "Insert(" ++ toString i ++ "," ++ toString v ++ ")"
  | .set i v => "Set(" ++ toString i ++ "," ++ toString v ++ ")"
  | .remove i => "Remove(" ++ toString i ++ ")"
  | .truncate n => "Truncate(" ++ toString n ++ ")"
  | .reset vs => "Reset" ++ showList vs

def showDiffs (ds : List (Diff Nat)) : String := "{" ++ ";".intercalate (ds.map Diff.show) ++ "}"

def showOptList : Option (List Nat) → String
  | none => "panic"
  | some l => showList l

/-- parse `a,b,c` (possibly empty) -/
def parseNats (s : String) : Option (List Nat) :=
  if s.isEmpty then some [] else (s.splitOn ",").mapM String.toNat?

/-- parse `[a,b,c]` -/
def parseList (s : String) : Option (List Nat) :=
  if s.startsWith "[" && s.endsWith "]" then parseNats ((s.drop 1).dropEnd 1).toString else none

/-- `Name(args)` → args -/
def stripCall (name s : String) : Option (List Nat) :=
  if s.startsWith (name ++ "(") && s.endsWith ")" then
    parseNats ((s.drop (name.length + 1)).dropEnd 1).toString
  else none

def parseDiff (s : String) : Option (Diff Nat) :=
  if s = "Clear" then some .clear
  else if s = "PopFront" then some .popFront
  else if s = "PopBack" then some .popBack
  else if s.startsWith "Append[" then (parseList (s.drop 6).toString).map .append
  else if s.startsWith "Reset[" then (parseList (s.drop 5).toString).map .reset
  else match stripCall "PushFront" s with
  | some [v] => some (.pushFront v)
  | some _ => none
  | none => match stripCall "PushBack" s with
  | some [v] => some (.pushBack v)
  | some _ => none
  | none => match stripCall "Insert" s with
  | some [i, v] => some (.insert i v)
  | some _ => none
  | none => match stripCall "Set" s with
  | some [i, v] => some (.set i v)
  | some _ => none
  | none => match stripCall "Remove" s with
  | some [i] => some (.remove i)
  | some _ => none
  | none => match stripCall "Truncate" s with
  | some [n] => some (.truncate n)
  | _ => none

/-- the shared table of element mappings (`diff.map`, FilterMap): id ↦ function -/
def mapFn : Nat → Option (Nat → Nat)
  | 0 => some (· + 1)
  | 1 => some (· * 2)
  | 2 => some (· % 2)
  | 3 => some (fun _ => 7)
  | _ => none

end EV
