/-
  Third reachable-state invariant of the vector streams: along everything still owed to a receiver, and along an
  open transaction's batch, every Truncate really shortens (TInv) — so what a receiver is handed is a *valid*
  container for the adapters sitting on it, not just an applicable one.
-/
import EyeballVerif.Props.ChainSound
import EyeballVerif.Lemmas.RestInv
namespace EV

theorem truncOK_split {α} (a b : List (Diff α)) : ∀ v v', applyAll a v = some v' → TruncOK (a ++ b) v → TruncOK a v ∧ TruncOK b v' := by
  induction a with
  | nil => intro v v' h ht; simp [applyAll] at h; subst h; exact ⟨trivial, ht⟩
  | cons d ds ih =>
    intro v v' h ht
    simp only [List.cons_append, TruncOK] at ht
    simp only [applyAll] at h
    split at h
    · cases hd : d.apply v with
      | none => simp [hd] at h
      | some w =>
        simp [hd] at h
        obtain ⟨g1, g2⟩ := ih w v' h (ht.2 w hd)
        exact ⟨⟨ht.1, fun w' hw' => by rw [hd] at hw'; cases hw'; exact g1⟩, g2⟩
    · cases h

theorem truncOK_single {α} (d : Diff α) (v : List α) (h : d.validOn v = true) : TruncOK [d] v :=
  ⟨((validOn_iff d v).mp h).2, fun _ _ => trivial⟩

/-- third reachable-state invariant of the vector streams: along everything still owed to a receiver (and along
    an open transaction's batch) every `Truncate` really shortens -/
structure TInv {α} (s : OV α) : Prop where
  subs : ∀ (i : Nat) (r : Sub α) (rep : List α), s.subs[i]? = some r → r.alive = true → r.replica = some rep →
    TruncOK (owed s.log r) rep
  txn : ∀ t, s.txn = some t → s.rxCount ≠ 0 → TruncOK t.batch s.vals

/-- publishing a message whose diffs are valid on the contents keeps the invariant -/
theorem tinv_publish {α} (s : OV α) (hv : VInv s) (hi : TInv s) (v' : List α) (ds : List (Diff α)) (many : Bool)
    (ht : s.rxCount ≠ 0 → TruncOK ds s.vals) (htx : s.txn = none) :
    TInv (({ s with vals := v' } : OV α).send { diffs := ds, many, state := v' }).1 := by
  unfold OV.send
  have hrxeq : ({ s with vals := v' } : OV α).rxCount = s.rxCount := rfl
  by_cases hrx : s.rxCount ≠ 0
  · simp only [hrxeq, hrx, ne_eq, not_false_eq_true, if_true]
    constructor
    · intro i r rep hr ha hrep
      simp only [OV.unparkAll, List.getElem?_map] at hr
      cases hr0 : s.subs[i]? with
      | none => simp [hr0] at hr
      | some r0 =>
        simp [hr0] at hr; subst hr
        obtain ⟨g1, g2, rep0, g3, g4⟩ := hv.subs i r0 hr0 (by simpa using ha)
        have hrep0 : r0.replica = some rep := by simpa using hrep
        rw [g3] at hrep0
        have hreq : rep0 = rep := Option.some.inj hrep0
        subst hreq
        have : owed (s.log ++ [{ diffs := ds, many := many, state := v' }]) { r0 with waiting := false } = owed s.log r0 ++ ds := by
          have := owed_append s.log { diffs := ds, many := many, state := v' } r0 g2
          simpa [owed] using this
        rw [this]
        exact truncOK_append _ _ _ _ g4 (hi.subs i r0 rep0 hr0 (by simpa using ha) g3) (ht hrx)
    · intro t ht'; simp [OV.unparkAll, htx] at ht'
  · have hrx0 : s.rxCount = 0 := by
      cases h : s.rxCount with
      | zero => rfl
      | succ n => exact absurd (by omega) hrx
    simp only [hrxeq, hrx0, ne_eq, not_true_eq_false, if_false]
    constructor
    · intro i r rep hr ha _
      exact absurd hrx0 (rx_of_alive s i r hr ha)
    · intro t ht'; simp [htx] at ht'

theorem tinv_direct {α} (s s' : OV α) (op : VOp α) (ret : Ret α) (w : List Nat) (hv : VInv s) (hi : TInv s) (htx : s.txn = none)
    (h : s.direct op = some (s', ret, w)) : TInv s' := by
  unfold OV.direct at h
  cases he : op.exec s.vals with
  | none => simp [he] at h
  | some r =>
    simp only [he] at h
    have hf := c05_exec_faithful op s.vals r he
    cases hd : r.diff with
    | none =>
      have hvv : r.vals = s.vals := hf.2.1 hd
      simp [hd] at h
      obtain ⟨rfl, _, _⟩ := h
      have : ({ s with vals := r.vals } : OV α) = s := by rw [hvv]
      rw [this]; exact hi
    | some d =>
      simp only [hd] at h
      have hp := tinv_publish s hv hi r.vals [d] false (fun _ => truncOK_single d s.vals (hf.2.2 d hd)) htx
      simp at h
      obtain ⟨rfl, _, _⟩ := h
      exact hp


theorem tinv_subscribe {α} (s : OV α) (b : Bool) (hi : TInv s) (htx : s.txn = none) : TInv (s.subscribe b).1 := by
  simp only [OV.subscribe]
  constructor
  · intro i r rep hr ha hrep
    simp only [List.getElem?_append] at hr
    split at hr
    · exact hi.subs i r rep hr ha hrep
    · cases hi2 : i - s.subs.length with
      | zero => simp [hi2] at hr; subst hr; simp [owed, TruncOK]
      | succ n => simp [hi2] at hr
  · intro t ht; simp [htx] at ht

theorem tinv_dropSub {α} (s : OV α) (i : Nat) (hi : TInv s) : TInv (s.dropSub i) := by
  have hle := rxCount_dropSub_le s i
  constructor
  · intro j r rep hr ha hrep
    simp only [OV.dropSub, List.getElem?_modify] at hr
    by_cases hij : i = j
    · subst hij
      cases hr0 : s.subs[i]? with
      | none => simp [hr0] at hr
      | some r0 => simp [hr0] at hr; subst hr; simp at ha
    · simp [hij] at hr; exact hi.subs j r rep hr ha hrep
  · intro t ht hrx
    exact hi.txn t ht (by omega)

theorem tinv_dropVec {α} (s : OV α) (hi : TInv s) : TInv s.dropVec.1 := by
  simp only [OV.dropVec, OV.unparkAll]
  constructor
  · intro i r rep hr ha hrep
    simp only [List.getElem?_map] at hr
    cases hr0 : s.subs[i]? with
    | none => simp [hr0] at hr
    | some r0 =>
      simp [hr0] at hr; subst hr
      have := hi.subs i r0 rep hr0 (by simpa using ha) (by simpa using hrep)
      simpa [owed] using this
  · intro t ht hrx
    apply hi.txn t ht
    simpa [OV.rxCount, List.filter_map, Function.comp_def] using hrx

/-- anything that changes only the `txn` field keeps the receiver clause -/
theorem tinv_of_outside {α} (s s' : OV α) (hi : TInv s) (ho : s'.outside = s.outside)
    (ht : ∀ t, s'.txn = some t → s'.rxCount ≠ 0 → TruncOK t.batch s'.vals) : TInv s' := by
  have hl : s'.log = s.log := by simpa [OV.outside] using congrArg (·.2.2.2.1) ho
  have hs : s'.subs = s.subs := by simpa [OV.outside] using congrArg (·.2.2.2.2) ho
  exact ⟨by rw [hs, hl]; exact hi.subs, ht⟩

theorem tinv_txnOp {α} (s s' : OV α) (o : VOp α) (r : Ret α) (hv : VInv s) (hi : TInv s) (h : s.txnOp o = some (s', r)) : TInv s' := by
  have hout := (txnOp_outside s s' o r h).1
  apply tinv_of_outside s s' hi hout
  intro t' ht' hrx
  have hvv : s'.vals = s.vals := by simpa [OV.outside] using congrArg (·.1) hout
  have hsubs : s'.subs = s.subs := by simpa [OV.outside] using congrArg (·.2.2.2.2) hout
  have hrx' : s.rxCount ≠ 0 := by simpa [OV.rxCount, hsubs] using hrx
  rw [hvv]
  unfold OV.txnOp at h
  cases ht : s.txn with
  | none => simp [ht] at h
  | some t =>
    have hinv := hv.txn t ht hrx'
    have htr := hi.txn t ht hrx'
    simp only [ht] at h
    by_cases hc : o = .clear
    · subst hc
      simp at h; obtain ⟨rfl, _⟩ := h
      simp at ht'; subst ht'
      simp only [hrx', ne_eq, not_false_eq_true, if_true]
      exact ⟨fun n hn => (by cases hn), fun _ _ => trivial⟩
    · have hgen : (match o.exec t.working with
          | none => none
          | some r => some ({ s with txn := some { working := r.vals, batch :=
              match r.diff with
              | some d => if s.rxCount ≠ 0 then t.batch ++ [d] else t.batch
              | none => t.batch } }, r.ret)) = some (s', r) := by
        rw [← h]; cases o <;> first | rfl | exact absurd rfl hc
      cases he : o.exec t.working with
      | none => simp [he] at hgen
      | some res =>
        simp [he] at hgen
        obtain ⟨rfl, _⟩ := hgen
        simp at ht'; subst ht'
        have hf := c05_exec_faithful o t.working res he
        cases hd : res.diff with
        | none => simpa [hd] using htr
        | some d =>
          simp only [hd, hrx', ne_eq, not_false_eq_true, if_true]
          exact truncOK_append _ _ _ _ hinv htr (truncOK_single d t.working (hf.2.2 d hd))

theorem tinv_txnCommit {α} (s : OV α) (hv : VInv s) (hi : TInv s) : TInv s.txnCommit.1 := by
  unfold OV.txnCommit
  cases ht : s.txn with
  | none => exact hi
  | some t =>
    simp only
    have hv0 : VInv ({ s with txn := none } : OV α) :=
      vinv_of_outside s _ hv rfl (by intro t' ht'; simp at ht') (by intro t' ht'; simp at ht')
    have hi0 : TInv ({ s with txn := none } : OV α) :=
      tinv_of_outside s _ hi rfl (by intro t' ht'; simp at ht')
    split
    · -- empty batch: only the contents change, and nothing was recorded because … either nobody listens or nothing changed
      rename_i hb
      constructor
      · intro i r rep hr ha hrep
        have hrx : s.rxCount ≠ 0 := rx_of_alive s i r hr ha
        have := hv.txn t ht hrx
        have hb' : t.batch = [] := List.isEmpty_iff.mp hb
        rw [hb'] at this; simp [applyAll] at this
        exact hi.subs i r rep hr ha hrep
      · intro t' ht'; simp at ht'
    · have := tinv_publish ({ s with txn := none } : OV α) hv0 hi0 t.working t.batch true
        (fun hrx => hi.txn t ht hrx) rfl
      exact this


theorem tinv_txnBegin {α} (s : OV α) (hi : TInv s) : TInv s.txnBegin :=
  tinv_of_outside s s.txnBegin hi rfl (by intro t ht _; simp [OV.txnBegin] at ht; subst ht; trivial)

theorem tinv_txnRollback {α} (s : OV α) (hi : TInv s) : TInv s.txnRollback := by
  unfold OV.txnRollback
  cases ht : s.txn with
  | none => simpa [ht] using hi
  | some t => exact tinv_of_outside s _ hi rfl (by intro t' ht' _; simp at ht'; subst ht'; trivial)

theorem tinv_txnDrop {α} (s : OV α) (hi : TInv s) : TInv s.txnDrop :=
  tinv_of_outside s s.txnDrop hi rfl (by intro t ht; simp [OV.txnDrop] at ht)

theorem tinv_poll {α} (s s' : OV α) (i : Nat) (it : Item α) (hv : VInv s) (hi : TInv s) (h : s.poll i = some (it, s')) : TInv s' := by
  obtain ⟨r0, hs0, ha0, hit, hs'⟩ := poll_unfold s s' i it h
  obtain ⟨r, r', rep, h1, h2, h3, h4, ⟨h5, ha'⟩, hc⟩ := poll_cases s s' i it hv h
  have hil : i < s.subs.length := by
    rcases List.getElem?_eq_some_iff.mp h1 with ⟨g, _⟩; exact g
  have hlog : s'.log = s.log := by rw [hs']
  have hvals : s'.vals = s.vals := by rw [hs']
  have htxn : s'.txn = s.txn := by rw [hs']
  have hrx : s'.rxCount = s.rxCount := by
    rw [hs']; simp only [OV.rxCount]
    exact filter_length_set (fun x : Sub α => x.alive) s.subs i r0 _ hs0 (by
      simp only; rw [h1] at hs0; cases hs0
      rw [hs'] at h2; simp only [List.getElem?_set_self hil] at h2; cases h2; simpa using ha'.trans ha0.symm)
  have hold := hi.subs i r rep h1 (by rw [hs0] at h1; cases h1; exact ha0) h3
  constructor
  · intro j rj repj hj haj hrepj
    by_cases hij : i = j
    · subst hij
      rw [h2] at hj; cases hj
      rw [hlog]
      rcases hc with ⟨_, ho, ho'⟩ | ⟨ds, hds, _, ho⟩ | ⟨_, _, _, ho'⟩
      · rw [ho']; trivial
      · rw [ho] at hold h4
        have hrep' : ghostRep it (some rep) = applyAll ds rep := by
          rcases hds with rfl | ⟨d, rfl, rfl⟩ <;> simp [ghostRep]
        rw [h5, hrep'] at hrepj
        exact (truncOK_split ds _ rep repj hrepj hold).2
      · rw [ho']; trivial
    · have hj' : s.subs[j]? = some rj := by
        rw [hs'] at hj; simp only [List.getElem?_set, hij, if_false] at hj; exact hj
      rw [hlog]
      exact hi.subs j rj repj hj' haj hrepj
  · intro t ht hrx'
    rw [hvals]
    exact hi.txn t (htxn ▸ ht) (hrx ▸ hrx')


theorem tinv_forEach {α} (s : OV α) (decs : List (Dec α)) (hv : VInv s) (hi : TInv s) (htx : s.txn = none) :
    TInv (s.forEach decs).1.1 := by
  unfold OV.forEach
  have := forEachLoop_preserves (fun st : OV α × List Nat => st.1.vals)
    (fun st i v => (match st.1.direct (.set i v) with | some (s', _, w) => (s', st.2 ++ w) | none => st))
    (fun st i => (match st.1.direct (.remove i) with | some (s', _, w) => (s', st.2 ++ w) | none => st))
    (fun st => VInv st.1 ∧ TInv st.1 ∧ st.1.txn = none)
    (by
      intro st i v ⟨h1, h2, h3⟩
      cases hd : st.1.direct (.set i v) with
      | none => exact ⟨h1, h2, h3⟩
      | some p => obtain ⟨s', r, w⟩ := p; exact ⟨vinv_direct st.1 s' _ r w h1 h3 hd, tinv_direct st.1 s' _ r w h1 h2 h3 hd, (direct_txn _ _ _ _ _ hd).trans h3⟩)
    (by
      intro st i ⟨h1, h2, h3⟩
      cases hd : st.1.direct (.remove i) with
      | none => exact ⟨h1, h2, h3⟩
      | some p => obtain ⟨s', r, w⟩ := p; exact ⟨vinv_direct st.1 s' _ r w h1 h3 hd, tinv_direct st.1 s' _ r w h1 h2 h3 hd, (direct_txn _ _ _ _ _ hd).trans h3⟩)
    s.vals.length 0 decs (s, []) [] ⟨hv, hi, htx⟩
  exact this.2.1

theorem tinv_txnForEach {α} (s : OV α) (decs : List (Dec α)) (hv : VInv s) (hi : TInv s) : TInv (s.txnForEach decs).1 := by
  unfold OV.txnForEach
  refine (forEachLoop_preserves (P := fun st : OV α => VInv st ∧ TInv st) _ _ _ ?_ ?_ _ _ _ _ _ ⟨hv, hi⟩).2
  · intro st i v ⟨h1, h2⟩
    show VInv (match st.txnOp (.set i v) with | some (s', _) => s' | none => st) ∧ TInv (match st.txnOp (.set i v) with | some (s', _) => s' | none => st)
    cases h : st.txnOp (.set i v) with
    | none => exact ⟨h1, h2⟩
    | some p => obtain ⟨s', r⟩ := p; exact ⟨vinv_txnOp st s' _ r h1 h, tinv_txnOp st s' _ r h1 h2 h⟩
  · intro st i ⟨h1, h2⟩
    show VInv (match st.txnOp (.remove i) with | some (s', _) => s' | none => st) ∧ TInv (match st.txnOp (.remove i) with | some (s', _) => s' | none => st)
    cases h : st.txnOp (.remove i) with
    | none => exact ⟨h1, h2⟩
    | some p => obtain ⟨s', r⟩ := p; exact ⟨vinv_txnOp st s' _ r h1 h, tinv_txnOp st s' _ r h1 h2 h⟩

theorem tinv_vstep {α} (s : OV α) (e : VEv α) (hv : VInv s) (hi : TInv s) : TInv (s.vstep e) := by
  cases e with
  | direct op =>
    simp only [OV.vstep]
    split
    · rename_i hg
      simp at hg
      cases hd : s.direct op with
      | none => exact hi
      | some p => obtain ⟨s', r, w⟩ := p; exact tinv_direct s s' op r w hv hi hg.2 hd
    · exact hi
  | forEach decs =>
    simp only [OV.vstep]
    split
    · rename_i hg; simp at hg; exact tinv_forEach s decs hv hi hg.2
    · exact hi
  | subscribe b =>
    simp only [OV.vstep]
    split
    · rename_i hg; simp at hg; exact tinv_subscribe s b hi hg.2
    · exact hi
  | dropSub i => exact tinv_dropSub s i hi
  | dropVec => simp only [OV.vstep]; split; exact tinv_dropVec s hi; exact hi
  | txnBegin => simp only [OV.vstep]; split; exact tinv_txnBegin s hi; exact hi
  | txnOp op =>
    simp only [OV.vstep]
    cases h : s.txnOp op with
    | none => exact hi
    | some p => obtain ⟨s', r⟩ := p; exact tinv_txnOp s s' op r hv hi h
  | txnForEach decs => simp only [OV.vstep]; split; exact tinv_txnForEach s decs hv hi; exact hi
  | txnRollback => exact tinv_txnRollback s hi
  | txnDrop => exact tinv_txnDrop s hi
  | txnCommit => exact tinv_txnCommit s hv hi
  | poll i =>
    simp only [OV.vstep]
    cases h : s.poll i with
    | none => exact hi
    | some p => obtain ⟨it, s'⟩ := p; exact tinv_poll s s' i it hv hi h

theorem tinv_run {α} (c : Nat) (hc : c ≤ 2 ^ 64) (evs : List (VEv α)) : TInv (evs.foldl OV.vstep (OV.new c)) := by
  have key : ∀ (evs : List (VEv α)) (s : OV α), VInv s → TInv s → TInv (evs.foldl OV.vstep s) := by
    intro evs
    induction evs with
    | nil => intro s _ h; exact h
    | cons e es ih => intro s hv h; exact ih _ (vinv_vstep s e hv) (tinv_vstep s e hv h)
  exact key evs _ (vinv_new c hc) ⟨by intro i r rep h; simp [OV.new] at h, by intro t h; simp [OV.new] at h⟩

end EV
