/-
  What one poll of a subscriber stream delivers, in terms of what the log still owes the receiver.
-/
import EyeballVerif.Props.C06
import EyeballVerif.Props.C13
import EyeballVerif.Lemmas.ApplyAll
namespace EV

/-- everything still owed to a receiver: the rest of a partly delivered batch, then every message from its
    cursor on -/
def owed {α} (log : List (Msg α)) (r : Sub α) : List (Diff α) := r.rest ++ (log.drop r.next).flatMap (·.diffs)

theorem last_of_lagged {α} (log : List (Msg α)) (B n : Nat) (hl : n + B < log.length) :
    ∃ m, log.getLast? = some m := by
  have hne : log ≠ [] := by intro e; simp [e] at hl
  cases hx : log.getLast? with
  | none => simp at hx; exact absurd hx hne
  | some m => exact ⟨m, rfl⟩

/-- **What a plain poll delivers.** Either nothing (Pending / End: nothing was owed), or the first owed diff
    (the rest stays owed), or — only when lagged — a `Reset` to the newest recorded state, after which nothing
    is owed. It never panics on a log without empty messages. -/
theorem pollPlain_delivers {α} (B : Nat) (log : List (Msg α)) (c : Bool) (r : Sub α) (hB : 0 < B)
    (hne : NoEmptyMsg log) :
    let it := (pollPlain B log c r).1
    let r' := (pollPlain B log c r).2
    (it = .pending ∨ it = .done) ∧ owed log r = [] ∧ owed log r' = [] ∧ log.length ≤ r.next ∨
    (∃ d, it = .one d ∧ ¬ (r.rest = [] ∧ r.next + B < log.length) ∧ owed log r = d :: owed log r') ∨
    (∃ m, it = .one (.reset m.state) ∧ r.rest = [] ∧ r.next + B < log.length ∧ log.getLast? = some m ∧ owed log r' = []) := by
  simp only
  unfold pollPlain
  cases hr : r.rest with
  | cons d ds =>
    right; left
    exact ⟨d, rfl, by simp [hr], by simp [owed, hr]⟩
  | nil =>
    simp only
    by_cases hl : r.next + B < log.length
    · right; right
      obtain ⟨m, hm⟩ := last_of_lagged log B r.next hl
      have htr : tryRecv B log c r.next = (.lagged, log.length - B) := by simp [tryRecv, hl]
      have hd := handleLag_drain B log c B (log.length - B) (B + 2) none (by omega) (by omega) (by omega) (by omega)
      have hfm : finalMsg log (log.length - B) none = log.getLast? := by simp [finalMsg]; omega
      rw [hfm, hm] at hd
      refine ⟨m, ?_, trivial, hl, hm, ?_⟩
      · simp only [htr, hd]; cases c <;> simp
      · simp only [htr, hd]; cases c <;> simp [owed]
    · cases hm : log[r.next]? with
      | none =>
        left
        have hlen : log.length ≤ r.next := by simpa using hm
        have : tryRecv B log c r.next = (if c then .closed else .empty, r.next) := by simp [tryRecv, hl, hm]
        rw [this]
        cases c <;> simp [owed, hr, hlen, List.drop_of_length_le hlen]
      | some m =>
        right; left
        rw [tryRecv_ok B log c r.next hl m hm]
        simp only
        have hlt : r.next < log.length := by
          rcases List.getElem?_eq_some_iff.mp hm with ⟨h1, _⟩; exact h1
        have hmem : m ∈ log := List.mem_of_getElem? hm
        cases hd : m.diffs with
        | nil => exact absurd hd (hne m hmem)
        | cons d ds =>
          refine ⟨d, rfl, by simp [hl], ?_⟩
          have hm' : log[r.next] = m := by
            rcases List.getElem?_eq_some_iff.mp hm with ⟨_, h2⟩; exact h2
          simp [owed, hr, List.drop_eq_getElem_cons hlt, hm', hd]

/-- **What a batched poll delivers**: nothing (nothing owed), everything owed, or — only when lagged — `[Reset newest]`. -/
theorem pollBatched_delivers {α} (B : Nat) (log : List (Msg α)) (c : Bool) (r : Sub α) (hB : 0 < B)
    (hrest : r.rest = []) :
    let it := (pollBatched B log c r).1
    let r' := (pollBatched B log c r).2
    r'.rest = [] ∧
    ((it = .pending ∨ it = .done) ∧ owed log r = [] ∧ owed log r' = [] ∧ log.length ≤ r.next ∨
     (∃ ds, it = .batch ds ∧ ¬ r.next + B < log.length ∧ owed log r = ds ∧ owed log r' = []) ∨
     (∃ m, it = .batch [.reset m.state] ∧ r.next + B < log.length ∧ log.getLast? = some m ∧ owed log r' = [])) := by
  simp only
  unfold pollBatched
  by_cases hl : r.next + B < log.length
  · obtain ⟨m, hm⟩ := last_of_lagged log B r.next hl
    have htr : tryRecv B log c r.next = (.lagged, log.length - B) := by simp [tryRecv, hl]
    have hd := handleLag_drain B log c B (log.length - B) (B + 2) none (by omega) (by omega) (by omega) (by omega)
    have hfm : finalMsg log (log.length - B) none = log.getLast? := by simp [finalMsg]; omega
    rw [hfm, hm] at hd
    simp only [htr, hd]
    cases c <;> simp [hrest, owed, hl, hm]
  · cases hm : log[r.next]? with
    | none =>
      have hlen : log.length ≤ r.next := by simpa using hm
      have : tryRecv B log c r.next = (if c then .closed else .empty, r.next) := by simp [tryRecv, hl, hm]
      rw [this]
      cases c <;> simp [owed, hrest, hlen, List.drop_of_length_le hlen]
    | some m =>
      rw [tryRecv_ok B log c r.next hl m hm]
      have hlt : r.next < log.length := by
        rcases List.getElem?_eq_some_iff.mp hm with ⟨h1, _⟩; exact h1
      have hm' : log[r.next] = m := by
        rcases List.getElem?_eq_some_iff.mp hm with ⟨_, h2⟩; exact h2
      simp only
      rw [batchLoop_spec B log c (log.length - (r.next + 1)) (r.next + 1) _ m.diffs rfl (by omega) (by omega) (by omega)]
      simp [hrest, owed, hl, List.drop_eq_getElem_cons hlt, hm']

/-- a poll only moves the cursor forward, inside the log, and never touches liveness, flavour or the ghost -/
theorem pollPlain_frame {α} (B : Nat) (log : List (Msg α)) (c : Bool) (r : Sub α) (hB : 0 < B) (hn : r.next ≤ log.length) :
    let r' := (pollPlain B log c r).2
    r'.alive = r.alive ∧ r'.batched = r.batched ∧ r'.replica = r.replica ∧ r.next ≤ r'.next ∧ r'.next ≤ log.length := by
  simp only
  unfold pollPlain
  cases hr : r.rest with
  | cons d ds => simp [hn]
  | nil =>
    simp only
    by_cases hl : r.next + B < log.length
    · have htr : tryRecv B log c r.next = (.lagged, log.length - B) := by simp [tryRecv, hl]
      have hd := handleLag_drain B log c B (log.length - B) (B + 2) none (by omega) (by omega) (by omega) (by omega)
      have hne : log ≠ [] := by intro e; simp [e] at hl
      have hfm : finalMsg log (log.length - B) none = log.getLast? := by simp [finalMsg]; omega
      obtain ⟨m, hm⟩ := last_of_lagged log B r.next hl
      rw [hfm, hm] at hd
      simp only [htr, hd]
      cases c <;> simp <;> omega
    · cases hm : log[r.next]? with
      | none =>
        have : tryRecv B log c r.next = (if c then .closed else .empty, r.next) := by simp [tryRecv, hl, hm]
        rw [this]; cases c <;> simp [hn]
      | some m =>
        rw [tryRecv_ok B log c r.next hl m hm]
        have hlt : r.next < log.length := by
          rcases List.getElem?_eq_some_iff.mp hm with ⟨h1, _⟩; exact h1
        simp only
        cases m.diffs <;> simp <;> omega

theorem pollBatched_frame {α} (B : Nat) (log : List (Msg α)) (c : Bool) (r : Sub α) (hB : 0 < B) (hn : r.next ≤ log.length) :
    let r' := (pollBatched B log c r).2
    r'.alive = r.alive ∧ r'.batched = r.batched ∧ r'.replica = r.replica ∧ r.next ≤ r'.next ∧ r'.next ≤ log.length := by
  simp only
  unfold pollBatched
  by_cases hl : r.next + B < log.length
  · have htr : tryRecv B log c r.next = (.lagged, log.length - B) := by simp [tryRecv, hl]
    have hd := handleLag_drain B log c B (log.length - B) (B + 2) none (by omega) (by omega) (by omega) (by omega)
    have hfm : finalMsg log (log.length - B) none = log.getLast? := by simp [finalMsg]; omega
    obtain ⟨m, hm⟩ := last_of_lagged log B r.next hl
    rw [hfm, hm] at hd
    simp only [htr, hd]
    cases c <;> simp <;> omega
  · cases hm : log[r.next]? with
    | none =>
      have : tryRecv B log c r.next = (if c then .closed else .empty, r.next) := by simp [tryRecv, hl, hm]
      rw [this]; cases c <;> simp [hn]
    | some m =>
      rw [tryRecv_ok B log c r.next hl m hm]
      have hlt : r.next < log.length := by
        rcases List.getElem?_eq_some_iff.mp hm with ⟨h1, _⟩; exact h1
      simp only
      rw [batchLoop_spec B log c (log.length - (r.next + 1)) (r.next + 1) _ m.diffs rfl (by omega) (by omega) (by omega)]
      simp; omega
end EV
