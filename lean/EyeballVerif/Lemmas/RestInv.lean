/-
  Second reachable-state invariant of the vector streams: the `YieldBatch` remainder of a plain receiver only ever
  holds diffs of logged messages (`RestIn`), hence never a `Reset`.
-/
import EyeballVerif.Lemmas.StreamInv
namespace EV

/-- every diff waiting in a plain receiver's `YieldBatch` remainder comes out of a message of the log -/
def RestIn {α} (s : OV α) : Prop :=
  ∀ (i : Nat) (r : Sub α), s.subs[i]? = some r → ∀ d ∈ r.rest, ∃ m ∈ s.log, d ∈ m.diffs

/-- frame: the log only grew and every receiver's remainder is an old one or comes from the log -/
theorem restIn_frame {α} (s s' : OV α) (hi : RestIn s) (hl : ∀ m ∈ s.log, m ∈ s'.log)
    (hs : ∀ (i : Nat) (r' : Sub α), s'.subs[i]? = some r' →
      (∀ d ∈ r'.rest, (∃ r, s.subs[i]? = some r ∧ d ∈ r.rest) ∨ ∃ m ∈ s'.log, d ∈ m.diffs)) : RestIn s' := by
  intro i r' h d hd
  rcases hs i r' h d hd with ⟨r, hr, hdr⟩ | hm
  · obtain ⟨m, hm, hdm⟩ := hi i r hr d hdr
    exact ⟨m, hl m hm, hdm⟩
  · exact hm

theorem restIn_send {α} (s : OV α) (m : Msg α) (hi : RestIn s) : RestIn (s.send m).1 := by
  unfold OV.send
  split
  · apply restIn_frame s _ hi
    · intro x hx; simp [OV.unparkAll, hx]
    · intro i r' h d hd
      simp only [OV.unparkAll, List.getElem?_map] at h
      cases hr : s.subs[i]? with
      | none => simp [hr] at h
      | some r => simp [hr] at h; subst h; exact Or.inl ⟨r, rfl, hd⟩
  · exact hi

theorem restIn_vals {α} (s : OV α) (v : List α) (hi : RestIn s) : RestIn { s with vals := v } := hi

theorem restIn_direct {α} (s s' : OV α) (op : VOp α) (ret : Ret α) (w : List Nat) (hi : RestIn s)
    (h : s.direct op = some (s', ret, w)) : RestIn s' := by
  unfold OV.direct at h
  cases he : op.exec s.vals with
  | none => simp [he] at h
  | some r =>
    simp only [he] at h
    cases hd : r.diff with
    | none => simp [hd] at h; obtain ⟨rfl, _, _⟩ := h; exact hi
    | some d =>
      simp [hd] at h; obtain ⟨rfl, _, _⟩ := h
      exact restIn_send _ _ (restIn_vals s r.vals hi)

theorem restIn_of_outside {α} (s s' : OV α) (hi : RestIn s) (ho : s'.outside = s.outside) : RestIn s' := by
  simp only [OV.outside, Prod.mk.injEq] at ho
  obtain ⟨_, _, _, hl, hs⟩ := ho
  intro i r h d hd
  rw [hs] at h; rw [hl]
  exact hi i r h d hd

theorem restIn_poll {α} (s s' : OV α) (i : Nat) (it : Item α) (hv : VInv s) (hi : RestIn s) (h : s.poll i = some (it, s')) :
    RestIn s' := by
  obtain ⟨r, hs, ha, hit, hs'⟩ := poll_unfold s s' i it h
  have hil : i < s.subs.length := by
    rcases List.getElem?_eq_some_iff.mp hs with ⟨g, _⟩; exact g
  apply restIn_frame s s' hi (by rw [hs']; intro m hm; exact hm)
  intro j r' hj d hd
  rw [hs'] at hj ⊢
  simp only [List.getElem?_set] at hj
  by_cases hij : i = j
  · subst hij
    simp [hil] at hj; subst hj
    simp only [OV.pollOf] at hd
    split at hd
    · rename_i hb
      have h0 : (pollBatched s.B s.log (!s.alive) r).2.rest = [] :=
        (pollBatched_delivers s.B s.log (!s.alive) r hv.window ((hv.subs i r hs ha).1 hb)).1
      rw [h0] at hd; cases hd
    · unfold pollPlain at hd
      split at hd
      · rename_i d0 ds hr
        exact Or.inl ⟨r, hs, by rw [hr]; exact List.mem_cons_of_mem _ hd⟩
      · rename_i hr
        split at hd
        · simp [hr] at hd
        · simp [hr] at hd
        · rename_i m n ht
          split at hd
          · simp [hr] at hd
          · rename_i d0 ds hm
            simp at hd
            refine Or.inr ⟨m, ?_, by rw [hm]; exact List.mem_cons_of_mem _ hd⟩
            unfold tryRecv at ht
            split at ht
            · cases ht
            · split at ht
              · rename_i m' hm'
                simp at ht; obtain ⟨rfl, _⟩ := ht
                exact List.mem_of_getElem? hm'
              · split at ht <;> cases ht
        · split at hd <;> simp [hr] at hd
  · simp only [hij, if_false] at hj
    exact Or.inl ⟨r', hj, hd⟩


theorem restIn_subscribe {α} (s : OV α) (b : Bool) (hi : RestIn s) : RestIn (s.subscribe b).1 := by
  apply restIn_frame s _ hi (by intro m hm; exact hm)
  intro i r' h d hd
  simp only [OV.subscribe] at h
  by_cases hlt : i < s.subs.length
  · rw [List.getElem?_append_left hlt] at h
    exact Or.inl ⟨r', h, hd⟩
  · rw [List.getElem?_append_right (by omega)] at h
    cases hk : i - s.subs.length with
    | zero => simp [hk] at h; subst h; simp at hd
    | succ k => simp [hk] at h

theorem restIn_dropSub {α} (s : OV α) (i : Nat) (hi : RestIn s) : RestIn (s.dropSub i) := by
  apply restIn_frame s _ hi (by intro m hm; exact hm)
  intro j r' h d hd
  simp only [OV.dropSub, List.getElem?_modify] at h
  cases hr : s.subs[j]? with
  | none => simp [hr] at h
  | some r =>
    simp [hr] at h
    by_cases hij : i = j
    · simp [hij] at h; subst h; exact Or.inl ⟨r, rfl, hd⟩
    · simp [hij] at h; subst h; exact Or.inl ⟨r, rfl, hd⟩

theorem restIn_dropVec {α} (s : OV α) (hi : RestIn s) : RestIn s.dropVec.1 := by
  apply restIn_frame s _ hi (by intro m hm; exact hm)
  intro i r' h d hd
  simp only [OV.dropVec, OV.unparkAll, List.getElem?_map] at h
  cases hr : s.subs[i]? with
  | none => simp [hr] at h
  | some r => simp [hr] at h; subst h; exact Or.inl ⟨r, rfl, hd⟩

theorem restIn_txnCommit {α} (s : OV α) (hi : RestIn s) : RestIn s.txnCommit.1 := by
  unfold OV.txnCommit
  split
  · exact hi
  · split
    · exact hi
    · exact restIn_send _ _ hi

theorem restIn_forEach {α} (s : OV α) (decs : List (Dec α)) (hi : RestIn s) : RestIn (s.forEach decs).1.1 := by
  unfold OV.forEach
  apply forEachLoop_preserves (P := fun st : OV α × List Nat => RestIn st.1)
  · intro st i v hst
    show RestIn (match st.1.direct (.set i v) with | some (s', _, w) => (s', st.2 ++ w) | none => st).1
    cases hd : st.1.direct (.set i v) with
    | none => exact hst
    | some p => obtain ⟨s', r, w⟩ := p; exact restIn_direct st.1 s' _ r w hst hd
  · intro st i hst
    show RestIn (match st.1.direct (.remove i) with | some (s', _, w) => (s', st.2 ++ w) | none => st).1
    cases hd : st.1.direct (.remove i) with
    | none => exact hst
    | some p => obtain ⟨s', r, w⟩ := p; exact restIn_direct st.1 s' _ r w hst hd
  · exact hi

theorem restIn_txnForEach {α} (s : OV α) (decs : List (Dec α)) (hi : RestIn s) : RestIn (s.txnForEach decs).1 := by
  unfold OV.txnForEach
  apply forEachLoop_preserves (P := fun st : OV α => RestIn st)
  · intro st i v hst
    show RestIn (match st.txnOp (.set i v) with | some (s', _) => s' | none => st)
    cases h : st.txnOp (.set i v) with
    | none => exact hst
    | some p => obtain ⟨s', r⟩ := p; exact restIn_of_outside st s' hst (txnOp_outside st s' _ r h).1
  · intro st i hst
    show RestIn (match st.txnOp (.remove i) with | some (s', _) => s' | none => st)
    cases h : st.txnOp (.remove i) with
    | none => exact hst
    | some p => obtain ⟨s', r⟩ := p; exact restIn_of_outside st s' hst (txnOp_outside st s' _ r h).1
  · exact hi

theorem restIn_vstep {α} (s : OV α) (e : VEv α) (hv : VInv s) (hi : RestIn s) : RestIn (s.vstep e) := by
  cases e with
  | direct op =>
    simp only [OV.vstep]
    split
    · cases hd : s.direct op with
      | none => exact hi
      | some p => obtain ⟨s', r, w⟩ := p; exact restIn_direct s s' op r w hi hd
    · exact hi
  | forEach decs => simp only [OV.vstep]; split; exact restIn_forEach s decs hi; exact hi
  | subscribe b => simp only [OV.vstep]; split; exact restIn_subscribe s b hi; exact hi
  | dropSub i => exact restIn_dropSub s i hi
  | dropVec => simp only [OV.vstep]; split; exact restIn_dropVec s hi; exact hi
  | txnBegin => simp only [OV.vstep]; split; exact hi; exact hi
  | txnOp op =>
    simp only [OV.vstep]
    cases h : s.txnOp op with
    | none => exact hi
    | some p => obtain ⟨s', r⟩ := p; exact restIn_of_outside s s' hi (txnOp_outside s s' _ r h).1
  | txnForEach decs => simp only [OV.vstep]; split; exact restIn_txnForEach s decs hi; exact hi
  | txnRollback => simp only [OV.vstep, OV.txnRollback]; split <;> exact hi
  | txnDrop => exact hi
  | txnCommit => exact restIn_txnCommit s hi
  | poll i =>
    simp only [OV.vstep]
    cases h : s.poll i with
    | none => exact hi
    | some p => obtain ⟨it, s'⟩ := p; exact restIn_poll s s' i it hv hi h

theorem restIn_run {α} (c : Nat) (hc : c ≤ 2 ^ 64) (evs : List (VEv α)) : RestIn (evs.foldl OV.vstep (OV.new c)) := by
  have key : ∀ (evs : List (VEv α)) (s : OV α), VInv s → RestIn s → RestIn (evs.foldl OV.vstep s) := by
    intro evs
    induction evs with
    | nil => intro s _ h; exact h
    | cons e es ih => intro s hv h; exact ih _ (vinv_vstep s e hv) (restIn_vstep s e hv h)
  exact key evs _ (vinv_new c hc) (by intro i r h; simp [OV.new] at h)

/-- a diff waiting in a remainder is never a `Reset` -/
theorem rest_no_reset {α} (s : OV α) (hv : VInv s) (hi : RestIn s) (i : Nat) (r : Sub α) (h : s.subs[i]? = some r)
    (d : Diff α) (hd : d ∈ r.rest) (vs : List α) : d ≠ .reset vs := by
  obtain ⟨m, hm, hdm⟩ := hi i r h d hd
  exact hv.no_reset m hm d hdm vs

/-- nothing owed to a receiver is a `Reset` -/
theorem owed_no_reset {α} (s : OV α) (hv : VInv s) (hi : RestIn s) (i : Nat) (r : Sub α) (h : s.subs[i]? = some r)
    (d : Diff α) (hd : d ∈ owed s.log r) (vs : List α) : d ≠ .reset vs := by
  simp only [owed, List.mem_append, List.mem_flatMap] at hd
  rcases hd with hd | ⟨m, hm, hdm⟩
  · exact rest_no_reset s hv hi i r h d hd vs
  · exact hv.no_reset m (List.mem_of_mem_drop hm) d hdm vs

end EV
