/-
  Helper lemmas about polling a pipeline of adapter stages (`pollStages`).
-/
import EyeballVerif.Model.Pipe
namespace EV

theorem emit_nonempty {α} (b : Bool) (ds : List (Diff α)) (xs rest : List (Diff α))
    (h : emit b ds = some (.batch xs, rest)) : xs ≠ [] := by
  unfold emit at h
  cases ds with
  | nil => simp at h
  | cons d r => cases b <;> simp at h; obtain ⟨rfl, _⟩ := h; simp

theorem emit_kind {α} (b : Bool) (ds : List (Diff α)) (it : Item α) (rest : List (Diff α))
    (h : emit b ds = some (it, rest)) : (∃ d, it = .one d) ∨ (∃ xs, it = .batch xs ∧ xs ≠ []) := by
  unfold emit at h
  cases ds with
  | nil => simp at h
  | cons d r =>
    cases b <;> simp at h
    · exact Or.inl ⟨d, h.1.symm⟩
    · exact Or.inr ⟨d :: r, h.1.symm, by simp⟩

/-- polling never touches the channel log, the contents, the window or the liveness of the vector -/
theorem ov_poll_frame {α} (s s' : OV α) (i : Nat) (it : Item α) (h : s.poll i = some (it, s')) :
    s'.log = s.log ∧ s'.vals = s.vals ∧ s'.B = s.B ∧ s'.alive = s.alive ∧ s'.txn = s.txn := by
  unfold OV.poll at h
  cases hs : s.subs[i]? with
  | none => simp [hs] at h
  | some r =>
    simp only [hs] at h
    split at h
    · simp at h
    · simp at h; obtain ⟨_, rfl⟩ := h; simp

theorem limPoll_frame {α} (w : PWorld α) (k : Option Nat) : (limPoll w k).2.ov = w.ov := by
  unfold limPoll
  cases k with
  | none => rfl
  | some k =>
    simp only
    cases w.lims[k]? with
    | none => rfl
    | some l =>
      simp only
      cases l.q with
      | nil => simp only; split <;> rfl
      | cons v r => rfl

/-- **Invariant principle for polling a pipeline.** Whatever is preserved by polling a limit stream and by
    polling the receiver is preserved by polling the whole chain. -/
theorem pollStages_preserves {α} (T : Tables α) (b : Bool) (sub : Nat) (P : PWorld α → Prop)
    (hlim : ∀ w k, P w → P (limPoll w k).2)
    (hov : ∀ (w : PWorld α) it ov', w.ov.poll sub = some (it, ov') → P w → P { w with ov := ov' }) :
    ∀ (fuel : Nat) (sts : List (Stage α)) (w : PWorld α), P w → P (pollStages T b sub fuel sts w).2.2 := by
  intro fuel
  induction fuel with
  | zero => intro sts w hw; simpa [pollStages] using hw
  | succ n ih =>
    intro sts w hw
    cases sts with
    | nil =>
      simp only [pollStages]
      cases h : w.ov.poll sub with
      | none => simpa using hw
      | some p => obtain ⟨it, ov'⟩ := p; simpa using hov w it ov' h hw
    | cons st inner =>
      simp only [pollStages]
      split
      · exact hw
      · have h1 := hlim w st.limOf hw
        split
        · rename_i v w1 heq
          rw [heq] at h1
          split
          · exact h1
          · exact ih _ _ h1
        · rename_i res w1 _ heq
          rw [heq] at h1
          have h2 := ih inner w1 h1
          split
          · exact h2
          · split
            · exact h2
            · split
              · exact h2
              · exact ih _ _ h2

/-- item principle: a property of items that holds for what the receiver yields, for buffered diffs, for
    `panic` and for whatever `emit` wraps holds for what the chain yields -/
theorem pollStages_item {α} (T : Tables α) (b : Bool) (sub : Nat) (P : PWorld α → Prop) (Q : Item α → Prop)
    (hlim : ∀ w k, P w → P (limPoll w k).2)
    (hov : ∀ (w : PWorld α) it ov', w.ov.poll sub = some (it, ov') → P w → P { w with ov := ov' })
    (hbase : ∀ (w : PWorld α) it ov', P w → w.ov.poll sub = some (it, ov') → Q it)
    (hone : ∀ d, Q (.one d)) (hpanic : Q .panic)
    (hemit : ∀ ds it rest, emit b ds = some (it, rest) → Q it) :
    ∀ (fuel : Nat) (sts : List (Stage α)) (w : PWorld α), P w → Q (pollStages T b sub fuel sts w).1 := by
  intro fuel
  induction fuel with
  | zero => intro sts w _; simpa [pollStages] using hpanic
  | succ n ih =>
    intro sts w hw
    cases sts with
    | nil =>
      simp only [pollStages]
      cases h : w.ov.poll sub with
      | none => simpa using hpanic
      | some p => obtain ⟨it, ov'⟩ := p; simpa using hbase w it ov' hw h
    | cons st inner =>
      simp only [pollStages]
      split
      · exact hone _
      · have h1 := hlim w st.limOf hw
        split
        · rename_i v w1 heq
          rw [heq] at h1
          split
          · rename_i it rest he; exact hemit _ _ _ he
          · exact ih _ _ h1
        · rename_i res w1 _ heq
          rw [heq] at h1
          have h2 := pollStages_preserves T b sub P hlim hov n inner w1 h1
          split
          · exact ih inner w1 h1
          · split
            · exact hpanic
            · split
              · rename_i it rest he; exact hemit _ _ _ he
              · exact ih _ _ h2

/-- **fuel is only a termination device**: once a poll of the pipeline comes back without `panic`, more fuel gives
    exactly the same result -/
theorem pollStages_fuel_succ {α} (T : Tables α) (b : Bool) (sub : Nat) :
    ∀ (n : Nat) (sts : List (Stage α)) (w : PWorld α), (pollStages T b sub n sts w).1 ≠ .panic →
      pollStages T b sub (n + 1) sts w = pollStages T b sub n sts w := by
  intro n
  induction n with
  | zero => intro sts w h; simp [pollStages] at h
  | succ n ih =>
    intro sts w h
    cases sts with
    | nil => simp only [pollStages]
    | cons st inner =>
      simp only [pollStages] at h ⊢
      split
      · rfl
      · rename_i hready
        simp only [hready] at h
        split
        · rename_i v w1 hlp
          simp only [hlp] at h
          split
          · rfl
          · rename_i hem
            simp only [hem] at h
            exact ih _ _ h
        · rename_i lres w1 hnv hlp
          -- the inner call did not panic (otherwise the whole poll would have)
          have hin : (pollStages T b sub n inner w1).1 ≠ .panic := by
            intro hp
            apply h
            rw [hlp]
            cases lres with
            | value v => exact absurd rfl (hnv v)
            | pending => simp only [hp, itemDiffs]
            | ended => simp only [hp, itemDiffs]
          rw [ih inner w1 hin]
          have h' : (match itemDiffs (pollStages T b sub n inner w1).1 with
              | none => ((pollStages T b sub n inner w1).1, st :: (pollStages T b sub n inner w1).2.1, (pollStages T b sub n inner w1).2.2)
              | some ds =>
                match st.onDiffs T ds with
                | none => (Item.panic, st :: (pollStages T b sub n inner w1).2.1, (pollStages T b sub n inner w1).2.2)
                | some (out, st2) =>
                  match emit b out with
                  | some (it', rest) => (it', st2.setReady rest :: (pollStages T b sub n inner w1).2.1, (pollStages T b sub n inner w1).2.2)
                  | none => pollStages T b sub n (st2 :: (pollStages T b sub n inner w1).2.1) (pollStages T b sub n inner w1).2.2).1 ≠ .panic := by
            rw [hlp] at h
            cases lres with
            | value v => exact absurd rfl (hnv v)
            | pending => exact h
            | ended => exact h
          split
          · rfl
          · split
            · rfl
            · split
              · rfl
              · rename_i hds _ _ _ hod _ hem
                simp only [hds, hod, hem] at h'
                exact ih _ _ h'

theorem pollStages_fuel_stable {α} (T : Tables α) (b : Bool) (sub : Nat) (n : Nat) (sts : List (Stage α)) (w : PWorld α)
    (h : (pollStages T b sub n sts w).1 ≠ .panic) : ∀ m, n ≤ m → pollStages T b sub m sts w = pollStages T b sub n sts w := by
  intro m hm
  induction m with
  | zero => have : n = 0 := by omega
            subst this; rfl
  | succ k ih =>
    by_cases hk : n ≤ k
    · have e := ih hk
      rw [pollStages_fuel_succ T b sub k sts w (by rw [e]; exact h), e]
    · have : n = k + 1 := by omega
      subst this; rfl

end EV
