/-
  Events and step function of the observable model, counting lemmas.
-/
import EyeballVerif.Model.Obs
namespace EV
open OWorld

/-- calls on an observable, its owners, subscribers and weak references -/
inductive OEv (α : Type) where
  | write (h : Nat) (op : WOp α)
  | subscribe (h : Nat) (reset : Bool)
  | poll (i : Nat)
  | nextNow (i : Nat)
  | reset (i : Nat)
  | subClone (i : Nat) (reset : Bool)
  | subDrop (i : Nat)
  | cloneOwner (h : Nat)
  | dropOwner (h : Nat)
  | downgrade (h : Nat)
  | upgrade (k : Nat)
  | dropWeak (k : Nat)
  | cloneWeak (k : Nat)
  | intoShared

/-- one call; a call on a handle that does not exist (any more) is not a call: the world is unchanged -/
def OWorld.step {α} (eqv : α → α → Bool) (hash : α → Nat) (dflt : α) (w : OWorld α) : OEv α → OWorld α
  | .write h op => match w.write eqv hash dflt h op with | some (w', _, _) => w' | none => w
  | .subscribe h r => match w.subscribe h r with | some (w', _) => w' | none => w
  | .poll i => match w.poll i with | some (w', _) => w' | none => w
  | .nextNow i => match w.nextNow i with | some (w', _) => w' | none => w
  | .reset i => (w.reset i).getD w
  | .subClone i r => match w.subClone i r with | some (w', _) => w' | none => w
  | .subDrop i => (w.subDrop i).getD w
  | .cloneOwner h => match w.cloneOwner h with | some (w', _) => w' | none => w
  | .dropOwner h => match w.dropOwner h with | some (w', _) => w' | none => w
  | .downgrade h => match w.downgrade h with | some (w', _) => w' | none => w
  | .upgrade k => match w.upgrade k with | some (w', _) => w' | none => w
  | .dropWeak k => (w.dropWeak k).getD w
  | .cloneWeak k => match w.cloneWeak k with | some (w', _) => w' | none => w
  | .intoShared => match w.intoShared with | some (w', _) => w' | none => w

/-- number of `true` entries -/
def cnt (l : List Bool) : Nat := (l.filter id).length

theorem cnt_append (a b : List Bool) : cnt (a ++ b) = cnt a + cnt b := by simp [cnt]

theorem cnt_set_false (l : List Bool) (h : Nat) (ht : l.getD h false = true) : cnt (l.set h false) + 1 = cnt l := by
  induction l generalizing h with
  | nil => simp at ht
  | cons x xs ih =>
    cases h with
    | zero => simp at ht; subst ht; simp [cnt]
    | succ n =>
      simp at ht
      have := ih n (by simpa using ht)
      cases x <;> simp [cnt] at this ⊢ <;> omega

def subCnt (l : List SubSt) : Nat := (l.filter (·.alive)).length

theorem subCnt_set_dead (l : List SubSt) (i : Nat) (s : SubSt) (hs : l[i]? = some s) (ha : s.alive = true)
    (s' : SubSt) (hd : s'.alive = false) : subCnt (l.set i s') + 1 = subCnt l := by
  induction l generalizing i with
  | nil => simp at hs
  | cons x xs ih =>
    cases i with
    | zero => simp at hs; subst hs; simp [subCnt, ha, hd]
    | succ n =>
      simp at hs
      have := ih n hs
      by_cases hx : x.alive <;> simp [subCnt, hx] at this ⊢ <;> omega

theorem subCnt_set_alive (l : List SubSt) (i : Nat) (s : SubSt) (hs : l[i]? = some s) (ha : s.alive = true)
    (s' : SubSt) (hd : s'.alive = true) : subCnt (l.set i s') = subCnt l := by
  induction l generalizing i with
  | nil => simp at hs
  | cons x xs ih =>
    cases i with
    | zero => simp at hs; subst hs; simp [subCnt, ha, hd]
    | succ n =>
      simp at hs
      have := ih n hs
      by_cases hx : x.alive <;> simp [subCnt, hx] at this ⊢ <;> omega

theorem subCnt_map (l : List SubSt) (f : SubSt → SubSt) (hf : ∀ s, (f s).alive = s.alive) :
    subCnt (l.map f) = subCnt l := by
  induction l with
  | nil => rfl
  | cons x xs ih =>
    simp only [subCnt, List.map_cons, List.filter_cons, hf] at ih ⊢
    split <;> simp [ih]

end EV
