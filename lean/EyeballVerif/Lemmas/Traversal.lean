/-
  Helper lemmas about the `entries()` loop model (`forEachLoop`) and its list-level specification `travSpec`.
-/
import EyeballVerif.Model.OVec
namespace EV

/-! generic facts about the entries loop -/

/-- anything preserved by the two entry operations is preserved by the traversal -/
theorem forEachLoop_preserves {α σ} (vals : σ → List α) (doSet : σ → Nat → α → σ) (doRemove : σ → Nat → σ)
    (P : σ → Prop) (hs : ∀ st i v, P st → P (doSet st i v)) (hr : ∀ st i, P st → P (doRemove st i))
    (fuel idx : Nat) (decs : List (Dec α)) (st : σ) (seen : List (Nat × α)) (h : P st) :
    P (forEachLoop vals doSet doRemove fuel idx decs st seen).1 := by
  induction fuel generalizing idx decs st seen with
  | zero => simpa [forEachLoop]
  | succ n ih =>
    unfold forEachLoop
    cases hv : (vals st)[idx]? with
    | none => simpa
    | some x =>
      simp only
      cases hd : decs.headD .keep <;> simp only
      · exact ih _ _ _ _ h
      · exact ih _ _ _ _ (hs _ _ _ h)
      · exact ih _ _ _ _ (hr _ _ h)
      · exact ih _ _ _ _ (hr _ _ (hs _ _ _ h))
      · exact h

/-- the traversal only looks at the state through `vals`: a simulation between two carriers -/
theorem forEachLoop_sim {α σ τ} (vals : σ → List α) (doSet : σ → Nat → α → σ) (doRemove : σ → Nat → σ)
    (vals' : τ → List α) (doSet' : τ → Nat → α → τ) (doRemove' : τ → Nat → τ)
    (R : σ → τ → Prop) (hv : ∀ a b, R a b → vals a = vals' b)
    (hs : ∀ a b i v, R a b → R (doSet a i v) (doSet' b i v))
    (hr : ∀ a b i, R a b → R (doRemove a i) (doRemove' b i))
    (fuel idx : Nat) (decs : List (Dec α)) (a : σ) (b : τ) (seen : List (Nat × α)) (h : R a b) :
    R (forEachLoop vals doSet doRemove fuel idx decs a seen).1 (forEachLoop vals' doSet' doRemove' fuel idx decs b seen).1 ∧
    (forEachLoop vals doSet doRemove fuel idx decs a seen).2 = (forEachLoop vals' doSet' doRemove' fuel idx decs b seen).2 := by
  induction fuel generalizing idx decs a b seen with
  | zero => simpa [forEachLoop]
  | succ n ih =>
    unfold forEachLoop
    rw [hv a b h]
    cases hx : (vals' b)[idx]? with
    | none => simpa
    | some x =>
      simp only
      cases hd : decs.headD .keep <;> simp only
      · exact ih _ _ _ _ _ h
      · exact ih _ _ _ _ _ (hs _ _ _ _ h)
      · exact ih _ _ _ _ _ (hr _ _ _ h)
      · exact ih _ _ _ _ _ (hr _ _ _ (hs _ _ _ _ h))
      · exact ⟨h, trivial⟩

/-- specification of a traversal of `rest` when `k` items have been kept so far:
    (resulting items, list of (reported index, item seen)) -/
def travSpec {α} : List α → List (Dec α) → Nat → List α × List (Nat × α)
  | [], _, _ => ([], [])
  | x :: xs, decs, k =>
    match decs.headD .keep with
    | .keep => let r := travSpec xs decs.tail (k + 1); (x :: r.1, (k, x) :: r.2)
    | .set v => let r := travSpec xs decs.tail (k + 1); (v :: r.1, (k, x) :: r.2)
    | .remove => let r := travSpec xs decs.tail k; (r.1, (k, x) :: r.2)
    | .setRemove _ => let r := travSpec xs decs.tail k; (r.1, (k, x) :: r.2)
    | .stop => (x :: xs, [(k, x)])

/-- the loop on a plain list meets the specification -/
theorem forEachLoop_list {α} (pre rest : List α) (decs : List (Dec α)) (seen : List (Nat × α))
    (fuel : Nat) (hf : rest.length ≤ fuel) :
    forEachLoop (fun l => l) (fun l i v => l.set i v) (fun l i => l.eraseIdx i) fuel pre.length decs (pre ++ rest) seen
      = (pre ++ (travSpec rest decs pre.length).1, seen ++ (travSpec rest decs pre.length).2) := by
  induction rest generalizing pre decs seen fuel with
  | nil => cases fuel <;> simp [forEachLoop, travSpec]
  | cons x xs ih =>
    cases fuel with
    | zero => simp at hf
    | succ n =>
      have hn : xs.length ≤ n := by simpa using hf
      unfold forEachLoop
      simp only [List.getElem?_append_right (Nat.le_refl _), Nat.sub_self, List.getElem?_cons_zero]
      unfold travSpec
      cases hd : decs.headD .keep <;> simp only
      · have := ih (pre ++ [x]) decs.tail (seen ++ [(pre.length, x)]) n hn
        simp only [List.length_append, List.length_cons, List.length_nil, List.append_assoc,
          List.cons_append, List.nil_append] at this
        rw [this]
      · rename_i v
        have := ih (pre ++ [v]) decs.tail (seen ++ [(pre.length, x)]) n hn
        simp only [List.length_append, List.length_cons, List.length_nil, List.append_assoc,
          List.cons_append, List.nil_append] at this
        have e : (pre ++ x :: xs).set pre.length v = pre ++ v :: xs := by
          simp [List.set_append_right]
        rw [e, this]
      · have := ih pre decs.tail (seen ++ [(pre.length, x)]) n hn
        have e : (pre ++ x :: xs).eraseIdx pre.length = pre ++ xs := by
          simp [List.eraseIdx_append_of_length_le]
        rw [e, this]; simp
      · rename_i v
        have := ih pre decs.tail (seen ++ [(pre.length, x)]) n hn
        have e : ((pre ++ x :: xs).set pre.length v).eraseIdx pre.length = pre ++ xs := by
          simp [List.set_append_right, List.eraseIdx_append_of_length_le]
        rw [e, this]; simp
end EV
