/-
  The invariant of the observable model (`OInv`) and its preservation by every call (`oinv_step`).
  The property files C01, C02, C03, C19 state their theorems as consequences.
-/
import EyeballVerif.Lemmas.ObsBasics
namespace EV
open OWorld

structure OInv {α} (w : OWorld α) : Prop where
  /-- C03: open exactly while an owner exists -/
  open_iff : w.st.version ≠ 0 ↔ w.ownerCount > 0
  excl : w.unique = true → cnt w.clones = 0
  /-- C19: the `Arc` counters are the handle counts -/
  arc_nc : w.arcNc = cnt w.clones
  arc_state : w.arcState = w.ownerCount + subCnt w.subs
  arc_weak : w.arcWeak = cnt w.weaks
  /-- C01 / C02, per live subscriber -/
  subs_ok : ∀ i s, w.subs[i]? = some s → s.alive = true →
    (w.st.version ≠ 0 → s.observed ≤ w.st.version ∧ (s.observed < w.st.version ↔ s.fresh = true)) ∧
    (s.parked = true → i ∈ w.st.wakers)

theorem oinv_newUnique {α} (v : α) : OInv (OWorld.newUnique v) := by
  constructor <;> simp [OWorld.newUnique, OWorld.ownerCount, OWorld.cloneCount, cnt, subCnt]

theorem oinv_newShared {α} (v : α) : OInv (OWorld.newShared v) := by
  constructor <;> simp [OWorld.newShared, OWorld.ownerCount, OWorld.cloneCount, cnt, subCnt]

theorem ownerCount_eq {α} (w : OWorld α) : w.ownerCount = (if w.unique then 1 else 0) + cnt w.clones := rfl

/-- a notifying update keeps the invariant -/
theorem oinv_bump {α} (w : OWorld α) (hi : OInv w) (v : α) (hopen : w.st.version ≠ 0) :
    OInv ({ w with st := { value := v, version := w.st.version + 1, wakers := [] } }.markFresh) := by
  obtain ⟨h1, h2, h3, h4, h5, h6⟩ := hi
  constructor
  · simp [OWorld.markFresh, OWorld.ownerCount, OWorld.cloneCount] at *; exact h1.mp hopen
  · simpa [OWorld.markFresh] using h2
  · simpa [OWorld.markFresh] using h3
  · simp only [OWorld.markFresh, OWorld.ownerCount, OWorld.cloneCount] at h4 ⊢
    rw [subCnt_map _ _ (by intro s; rfl)]; exact h4
  · simpa [OWorld.markFresh] using h5
  · intro i s hs ha
    simp only [OWorld.markFresh, List.getElem?_map] at hs
    cases hs0 : w.subs[i]? with
    | none => simp [hs0] at hs
    | some s0 =>
      simp [hs0] at hs; subst hs
      have := (h6 i s0 hs0 (by simpa using ha)).1 hopen
      simp only [OWorld.markFresh]
      simp; omega

theorem cnt_pos_of_getD (l : List Bool) (h : Nat) (ht : l.getD h false = true) : 0 < cnt l := by
  have := cnt_set_false l h ht; omega

theorem ownerAlive_pos {α} (w : OWorld α) (h : Nat) (ha : w.ownerAlive h = true) : w.ownerCount > 0 := by
  unfold OWorld.ownerAlive at ha
  rw [ownerCount_eq]
  by_cases hu : w.unique
  · simp [hu]; omega
  · simp [hu] at ha ⊢; exact cnt_pos_of_getD _ _ ha

/-- changing only the stored value keeps the invariant -/
theorem oinv_value {α} (w : OWorld α) (hi : OInv w) (v : α) :
    OInv { w with st := { w.st with value := v } } := by
  obtain ⟨h1, h2, h3, h4, h5, h6⟩ := hi
  exact ⟨h1, h2, h3, h4, h5, h6⟩

theorem oinv_write {α} (eqv : α → α → Bool) (hash : α → Nat) (dflt : α) (w : OWorld α) (hi : OInv w)
    (h : Nat) (op : WOp α) (w' : OWorld α) (r : WRet α) (wk : List Nat)
    (hw : w.write eqv hash dflt h op = some (w', r, wk)) : OInv w' := by
  unfold OWorld.write at hw
  by_cases ha : w.ownerAlive h
  · have hopen : w.st.version ≠ 0 := hi.open_iff.mpr (ownerAlive_pos w h ha)
    simp only [ha, Bool.not_true, Bool.false_eq_true, if_false] at hw
    cases op with
    | set v =>
      simp [ObsSt.set, ObsSt.bump] at hw; obtain ⟨rfl, _, _⟩ := hw
      exact oinv_bump w hi v hopen
    | take =>
      simp [ObsSt.set, ObsSt.bump] at hw; obtain ⟨rfl, _, _⟩ := hw
      exact oinv_bump w hi dflt hopen
    | setIfNotEq v =>
      simp only [ObsSt.setIfNotEq] at hw
      by_cases he : eqv w.st.value v
      · simp [he] at hw; obtain ⟨rfl, _, _⟩ := hw; exact hi
      · simp [he, ObsSt.set, ObsSt.bump] at hw; obtain ⟨rfl, _, _⟩ := hw
        exact oinv_bump w hi v hopen
    | setIfHashNotEq v =>
      simp only [ObsSt.setIfHashNotEq] at hw
      by_cases he : hash w.st.value = hash v
      · simp [he] at hw; obtain ⟨rfl, _, _⟩ := hw; exact hi
      · simp [he, ObsSt.set, ObsSt.bump] at hw; obtain ⟨rfl, _, _⟩ := hw
        exact oinv_bump w hi v hopen
    | update f =>
      simp [ObsSt.update, ObsSt.bump] at hw; obtain ⟨rfl, _, _⟩ := hw
      exact oinv_bump w hi (f w.st.value) hopen
    | updateIf f n =>
      simp only [ObsSt.updateIf] at hw
      cases n with
      | true =>
        simp [ObsSt.bump] at hw; obtain ⟨rfl, _, _⟩ := hw
        exact oinv_bump w hi (f w.st.value) hopen
      | false =>
        simp at hw; obtain ⟨rfl, _, _⟩ := hw
        exact oinv_value w hi (f w.st.value)
  · simp [ha] at hw

theorem subCnt_append (a b : List SubSt) : subCnt (a ++ b) = subCnt a + subCnt b := by simp [subCnt]

/-- adding a subscriber (subscribe / clone): invariant kept if the new entry is consistent -/
theorem oinv_addSub {α} (w : OWorld α) (hi : OInv w) (ns : SubSt) (hal : ns.alive = true) (hp : ns.parked = false)
    (hc : w.st.version ≠ 0 → ns.observed ≤ w.st.version ∧ (ns.observed < w.st.version ↔ ns.fresh = true)) :
    OInv { w with subs := w.subs ++ [ns], arcState := w.arcState + 1 } := by
  obtain ⟨h1, h2, h3, h4, h5, h6⟩ := hi
  refine ⟨h1, h2, h3, ?_, h5, ?_⟩
  · simp only [OWorld.ownerCount, OWorld.cloneCount] at h4 ⊢
    rw [subCnt_append]
    have : subCnt [ns] = 1 := by simp [subCnt, hal]
    omega
  · intro i s hs ha
    simp only [List.getElem?_append] at hs
    split at hs
    · exact h6 i s hs ha
    · rename_i hlt
      cases hi2 : i - w.subs.length with
      | zero => simp [hi2] at hs; subst hs; exact ⟨hc, by simp [hp]⟩
      | succ n => simp [hi2] at hs

/-- replacing a live subscriber's entry by another live one -/
theorem oinv_setSub {α} (w : OWorld α) (hi : OInv w) (i : Nat) (s0 ns : SubSt) (hs0 : w.subs[i]? = some s0)
    (ha0 : s0.alive = true) (hal : ns.alive = true)
    (hc : (w.st.version ≠ 0 → ns.observed ≤ w.st.version ∧ (ns.observed < w.st.version ↔ ns.fresh = true)) ∧
          (ns.parked = true → i ∈ w.st.wakers)) :
    OInv { w with subs := w.subs.set i ns } := by
  obtain ⟨h1, h2, h3, h4, h5, h6⟩ := hi
  refine ⟨h1, h2, h3, ?_, h5, ?_⟩
  · simp only [OWorld.ownerCount, OWorld.cloneCount] at h4 ⊢
    rw [subCnt_set_alive _ _ _ hs0 ha0 _ hal]; exact h4
  · intro j s hs ha
    simp only [List.getElem?_set] at hs
    split at hs
    · rename_i hij; subst hij
      split at hs
      · simp at hs; subst hs; exact hc
      · simp at hs
    · exact h6 j s hs ha

/-- registering one more waker keeps the invariant -/
theorem oinv_addWaker {α} (w : OWorld α) (hi : OInv w) (k : Nat) :
    OInv { w with st := { w.st with wakers := w.st.wakers ++ [k] } } := by
  obtain ⟨h1, h2, h3, h4, h5, h6⟩ := hi
  refine ⟨h1, h2, h3, h4, h5, ?_⟩
  intro i s hs ha
  have := h6 i s hs ha
  exact ⟨this.1, fun hp => by simp; exact Or.inl (this.2 hp)⟩

theorem oinv_step {α} (eqv : α → α → Bool) (hash : α → Nat) (dflt : α) (w : OWorld α) (hi : OInv w) (e : OEv α) :
    OInv (w.step eqv hash dflt e) := by
  cases e with
  | write h op =>
    simp only [OWorld.step]
    cases hw : w.write eqv hash dflt h op with
    | none => exact hi
    | some p => obtain ⟨w', r, wk⟩ := p; exact oinv_write eqv hash dflt w hi h op w' r wk hw
  | subscribe h r =>
    simp only [OWorld.step, OWorld.subscribe]
    by_cases ha : w.ownerAlive h
    · simp only [ha, Bool.not_true, Bool.false_eq_true, if_false]
      apply oinv_addSub w hi _ rfl rfl
      intro hopen
      cases r <;> simp <;> omega
    · simp [ha]; exact hi
  | poll i =>
    simp only [OWorld.step, OWorld.poll]
    cases hs : w.subs[i]? with
    | none => exact hi
    | some s =>
      simp only
      by_cases ha : s.alive
      · simp only [ha, Bool.not_true, Bool.false_eq_true, if_false]
        have h6 := hi.subs_ok i s hs ha
        unfold ObsSt.pollUpdate
        by_cases hv : w.st.version = 0
        · simp only [hv, if_true]
          have := oinv_setSub w hi i s { s with observed := s.observed, fresh := s.fresh, parked := false } hs ha ha
            ⟨by intro h; exact absurd hv h, by simp⟩
          simpa [ha] using this
        · simp only [hv, if_false]
          by_cases hlt : s.observed < w.st.version
          · simp only [hlt, if_true]
            have := oinv_setSub w hi i s { s with observed := w.st.version, fresh := false, parked := false } hs ha ha
              ⟨by intro _; simp, by simp⟩
            simpa [ha] using this
          · simp only [hlt, if_false]
            -- Pending: the waker is pushed
            have h1 := oinv_addWaker w hi i
            have := oinv_setSub _ h1 i s { s with observed := s.observed, fresh := s.fresh, parked := true } hs ha ha
              ⟨h6.1, by intro _; simp⟩
            simpa [ha] using this
      · simp [ha]; exact hi
  | nextNow i =>
    simp only [OWorld.step, OWorld.nextNow]
    cases hs : w.subs[i]? with
    | none => exact hi
    | some s =>
      simp only
      by_cases ha : s.alive
      · simp only [ha, Bool.not_true, Bool.false_eq_true, if_false]
        have h6 := hi.subs_ok i s hs ha
        have := oinv_setSub w hi i s { s with observed := w.st.version, fresh := false } hs ha ha
          ⟨by intro _; simp, h6.2⟩
        simpa [ha] using this
      · simp [ha]; exact hi
  | reset i =>
    simp only [OWorld.step, OWorld.reset]
    cases hs : w.subs[i]? with
    | none => exact hi
    | some s =>
      simp only
      by_cases ha : s.alive
      · simp only [ha, Bool.not_true, Bool.false_eq_true, if_false, Option.getD_some]
        have h6 := hi.subs_ok i s hs ha
        have := oinv_setSub w hi i s { s with observed := 0, fresh := true } hs ha ha
          ⟨by intro h; simp; omega, h6.2⟩
        simpa [ha] using this
      · simp [ha]; exact hi
  | subClone i r =>
    simp only [OWorld.step, OWorld.subClone]
    cases hs : w.subs[i]? with
    | none => exact hi
    | some s =>
      simp only
      by_cases ha : s.alive
      · simp only [ha, Bool.not_true, Bool.false_eq_true, if_false]
        have h6 := hi.subs_ok i s hs ha
        apply oinv_addSub w hi _ rfl rfl
        intro hopen
        cases r
        · simpa using h6.1 hopen
        · simp; omega
      · simp [ha]; exact hi
  | subDrop i =>
    simp only [OWorld.step, OWorld.subDrop]
    cases hs : w.subs[i]? with
    | none => exact hi
    | some s =>
      simp only
      by_cases ha : s.alive
      · simp only [ha, Bool.not_true, Bool.false_eq_true, if_false, Option.getD_some]
        obtain ⟨h1, h2, h3, h4, h5, h6⟩ := hi
        refine ⟨h1, h2, h3, ?_, h5, ?_⟩
        · simp only [OWorld.ownerCount, OWorld.cloneCount] at h4 ⊢
          have := subCnt_set_dead w.subs i s hs ha { s with alive := false } rfl
          omega
        · intro j sj hsj haj
          simp only [List.getElem?_set] at hsj
          split at hsj
          · split at hsj
            · simp at hsj; subst hsj; simp at haj
            · simp at hsj
          · exact h6 j sj hsj haj
      · simp [ha]; exact hi
  | cloneOwner h =>
    simp only [OWorld.step, OWorld.cloneOwner]
    cases hc : (w.unique || !w.ownerAlive h) with
    | true => simp; exact hi
    | false =>
      simp only [Bool.false_eq_true, if_false]
      simp at hc
      have hpos := ownerAlive_pos w h hc.2
      obtain ⟨h1, h2, h3, h4, h5, h6⟩ := hi
      refine ⟨?_, by simp [hc.1], ?_, ?_, h5, h6⟩
      · rw [ownerCount_eq] at hpos ⊢
        simp only [cnt_append]
        exact ⟨fun _ => by omega, fun _ => h1.mpr (by rw [ownerCount_eq]; exact hpos)⟩
      · simp [cnt_append, cnt] at h3 ⊢; omega
      · rw [ownerCount_eq] at h4 ⊢; simp only [cnt_append] at h4 ⊢; simp [cnt] at h4 ⊢; omega
  | downgrade h =>
    simp only [OWorld.step, OWorld.downgrade]
    cases hc : (w.unique || !w.ownerAlive h) with
    | true => simp; exact hi
    | false =>
      simp only [Bool.false_eq_true, if_false]
      obtain ⟨h1, h2, h3, h4, h5, h6⟩ := hi
      exact ⟨h1, h2, h3, h4, by simp [cnt_append, cnt] at h5 ⊢; omega, h6⟩
  | cloneWeak k =>
    simp only [OWorld.step, OWorld.cloneWeak]
    cases hc : w.weaks.getD k false with
    | false => simp; exact hi
    | true =>
      simp only [Bool.not_true, Bool.false_eq_true, if_false]
      obtain ⟨h1, h2, h3, h4, h5, h6⟩ := hi
      exact ⟨h1, h2, h3, h4, by simp [cnt_append, cnt] at h5 ⊢; omega, h6⟩
  | dropWeak k =>
    simp only [OWorld.step, OWorld.dropWeak]
    cases hc : w.weaks.getD k false with
    | true =>
      simp only [Bool.not_true, Bool.false_eq_true, if_false, Option.getD_some]
      obtain ⟨h1, h2, h3, h4, h5, h6⟩ := hi
      have := cnt_set_false w.weaks k hc
      exact ⟨h1, h2, h3, h4, by simp; omega, h6⟩
    | false => simp; exact hi
  | upgrade k =>
    simp only [OWorld.step, OWorld.upgrade]
    cases hc : w.weaks.getD k false with
    | false => simp; exact hi
    | true =>
      simp only [Bool.not_true, Bool.false_eq_true, if_false]
      by_cases h0 : w.arcState = 0
      · simp [h0]; exact hi
      · simp only [h0, if_false]
        by_cases hn : w.arcNc = 0
        · simp [hn]; exact hi
        · simp only [hn, if_false]
          obtain ⟨h1, h2, h3, h4, h5, h6⟩ := hi
          have hnu : w.unique = false := by
            cases hu : w.unique with
            | false => rfl
            | true => have := h2 hu; omega
          have hpos : w.ownerCount > 0 := by rw [ownerCount_eq]; omega
          refine ⟨?_, by simp [hnu], ?_, ?_, h5, h6⟩
          · rw [ownerCount_eq]; simp only [cnt_append]
            exact ⟨fun _ => by omega, fun _ => h1.mpr hpos⟩
          · simp [cnt_append, cnt] at h3 ⊢; omega
          · rw [ownerCount_eq] at h4 ⊢; simp only [cnt_append] at h4 ⊢; simp [cnt] at h4 ⊢; omega
  | intoShared =>
    simp only [OWorld.step, OWorld.intoShared]
    cases hu : w.unique with
    | false => simp; exact hi
    | true =>
      simp only [Bool.not_true, Bool.false_eq_true, if_false]
      obtain ⟨h1, h2, h3, h4, h5, h6⟩ := hi
      have hz := h2 hu
      have hpos : w.ownerCount > 0 := by rw [ownerCount_eq]; simp [hu]; omega
      refine ⟨?_, by simp, ?_, ?_, h5, h6⟩
      · rw [ownerCount_eq]; simp only [cnt_append]
        exact ⟨fun _ => by simp [cnt], fun _ => h1.mpr hpos⟩
      · simp [cnt_append, cnt] at hz ⊢; omega
      · rw [ownerCount_eq] at h4 ⊢; simp only [cnt_append, hu] at h4 ⊢; simp [cnt] at h4 hz ⊢; omega
  | dropOwner h =>
    simp only [OWorld.step, OWorld.dropOwner]
    cases ha : w.ownerAlive h with
    | false => simp; exact hi
    | true =>
      simp only [Bool.not_true, Bool.false_eq_true, if_false]
      obtain ⟨h1, h2, h3, h4, h5, h6⟩ := hi
      cases hu : w.unique with
      | true =>
        simp only [if_true, ObsSt.close, OWorld.unparkAll]
        have hz := h2 hu
        refine ⟨?_, by simp, by simpa using h3, ?_, h5, ?_⟩
        · rw [ownerCount_eq]; simp [hz]
        · rw [ownerCount_eq] at h4 ⊢
          simp only [hu, if_true] at h4
          rw [subCnt_map _ _ (by intro s; rfl)]
          simp [hz] at h4 ⊢; omega
        · intro i s hs _
          simp only [List.getElem?_map] at hs
          cases hs0 : w.subs[i]? with
          | none => simp [hs0] at hs
          | some s0 => simp [hs0] at hs; subst hs; simp
      | false =>
        simp only [Bool.false_eq_true, if_false]
        have hget : w.clones.getD h false = true := by simpa [OWorld.ownerAlive, hu] using ha
        have hc := cnt_set_false w.clones h hget
        by_cases hl : w.arcNc = 1
        · simp only [hl, if_true, ObsSt.close, OWorld.unparkAll]
          refine ⟨?_, by simp, by simp; omega, ?_, h5, ?_⟩
          · rw [ownerCount_eq]; simp; omega
          · rw [ownerCount_eq] at h4 ⊢
            simp only [hu, Bool.false_eq_true, if_false] at h4
            rw [subCnt_map _ _ (by intro s; rfl)]
            simp; omega
          · intro i s hs _
            simp only [List.getElem?_map] at hs
            cases hs0 : w.subs[i]? with
            | none => simp [hs0] at hs
            | some s0 => simp [hs0] at hs; subst hs; simp
        · simp only [hl, if_false]
          have hpos := ownerAlive_pos w h ha
          refine ⟨?_, by simp [hu], by simp; omega, ?_, h5, h6⟩
          · rw [ownerCount_eq]; simp only [hu, Bool.false_eq_true, if_false]
            exact ⟨fun _ => by omega, fun _ => h1.mpr hpos⟩
          · rw [ownerCount_eq] at h4 ⊢
            simp only [hu, Bool.false_eq_true, if_false] at h4 ⊢
            omega


/-- every world reachable from a fresh observable by any sequence of calls satisfies the invariant -/
theorem oinv_run {α} (eqv : α → α → Bool) (hash : α → Nat) (dflt : α) (w0 : OWorld α) (h0 : OInv w0)
    (evs : List (OEv α)) : OInv (evs.foldl (OWorld.step eqv hash dflt) w0) := by
  induction evs generalizing w0 with
  | nil => exact h0
  | cons e es ih => exact ih _ (oinv_step eqv hash dflt w0 h0 e)

end EV
