/- Helper lemmas about strict replay (`applyAll`). -/
import EyeballVerif.Model.Diff
namespace EV

@[simp] theorem applyAll_nil {α} (l : List α) : applyAll ([] : List (Diff α)) l = some l := rfl

theorem applyAll_cons {α} (d : Diff α) (ds : List (Diff α)) (l : List α) :
    applyAll (d :: ds) l = if d.applicable l then (d.apply l).bind (applyAll ds) else none := rfl

theorem applyAll_append {α} (a b : List (Diff α)) (l : List α) :
    applyAll (a ++ b) l = (applyAll a l).bind (applyAll b) := by
  induction a generalizing l with
  | nil => simp [applyAll]
  | cons d ds ih =>
    simp only [List.cons_append, applyAll]
    split
    · cases h : d.apply l <;> simp [ih]
    · simp

theorem applyAll_single {α} (d : Diff α) (l : List α) :
    applyAll [d] l = if d.applicable l then d.apply l else none := by
  simp only [applyAll]; split
  · cases d.apply l <;> simp [applyAll]
  · rfl

theorem applyAll_popBacks {α} (k : Nat) (l : List α) (h : k ≤ l.length) :
    applyAll (List.replicate k .popBack) l = some (l.take (l.length - k)) := by
  induction k generalizing l with
  | zero => simp [applyAll]
  | succ k ih =>
    simp only [List.replicate_succ, applyAll, Diff.applicable, Diff.apply]
    have hne : l ≠ [] := by intro h'; simp [h'] at h
    simp [hne]
    rw [ih _ (by simp; omega)]
    simp [List.dropLast_eq_take, List.take_take]
    congr 1; omega

theorem applyAll_popFronts {α} (k : Nat) (l : List α) (h : k ≤ l.length) :
    applyAll (List.replicate k .popFront) l = some (l.drop k) := by
  induction k generalizing l with
  | zero => simp [applyAll]
  | succ k ih =>
    simp only [List.replicate_succ, applyAll, Diff.applicable, Diff.apply]
    have hne : l ≠ [] := by intro h'; simp [h'] at h
    simp [hne]
    rw [ih _ (by simp; omega)]
    simp [List.drop_drop]

theorem applyAll_pushFronts {α} (xs l : List α) :
    applyAll (xs.map .pushFront) l = some (xs.reverse ++ l) := by
  induction xs generalizing l with
  | nil => simp [applyAll]
  | cons x xs ih => simp [applyAll, Diff.applicable, Diff.apply, ih]

end EV
