/-
  Filter / FilterMap: the bookkeeping invariant `FInv` and one lemma per `handle_*` function (used by
  Props/C10.lean, which states the property theorem `filter_handle` over all arms).
-/
import EyeballVerif.Lemmas.FilterIdx
namespace EV
open Filter

/-- the adapter's bookkeeping is right for the source `src`: `original_len` is its length and
    `filtered_indices` are exactly the source positions of the items that pass, ascending -/
def FInv {α β} (f : α → Option β) (st : FilterSt) (src : List α) : Prop :=
  st.olen = src.length ∧ st.idx = idxFrom f 0 src

/-- what one arm must establish -/
def ArmOK {α β} (f : α → Option β) (d : Diff α) (src src' : List α) (st : FilterSt) : Prop :=
  FInv f (Filter.handle f d st).2 src' ∧
  applyAll (Filter.handle f d st).1.toList (src.filterMap f) = some (src'.filterMap f)

theorem filter_append {α β} (f : α → Option β) (vs src : List α) (st : FilterSt) (hi : FInv f st src) :
    ArmOK f (.append vs) src (src ++ vs) st := by
  obtain ⟨h1, h2⟩ := hi
  simp only [ArmOK, Filter.handle, appendFilter, FInv]
  refine ⟨⟨by simp [h1], by simp [h2, h1, idxFrom_append]⟩, ?_⟩
  by_cases he : (vs.filterMap f).isEmpty
  · have he' : vs.filterMap f = [] := by simpa using he
    simp [he, he']
  · simp [he, applyAll, Diff.applicable, Diff.apply]

theorem filter_clear {α β} (f : α → Option β) (src : List α) (st : FilterSt) :
    ArmOK f .clear src [] st := by
  simp [ArmOK, Filter.handle, FInv, idxFrom, applyAll, Diff.applicable, Diff.apply]

theorem filter_reset {α β} (f : α → Option β) (vs src : List α) (st : FilterSt) :
    ArmOK f (.reset vs) src vs st := by
  simp only [ArmOK, Filter.handle, appendFilter, FInv]
  refine ⟨⟨by simp, by simp⟩, ?_⟩
  by_cases he : (vs.filterMap f).isEmpty
  · have he' : vs.filterMap f = [] := by simpa using he
    simp [he, he', applyAll, Diff.applicable, Diff.apply]
  · simp [he, applyAll, Diff.applicable, Diff.apply]

theorem filter_pushFront {α β} (f : α → Option β) (v : α) (src : List α) (st : FilterSt) (hi : FInv f st src) :
    ArmOK f (.pushFront v) src (v :: src) st := by
  obtain ⟨h1, h2⟩ := hi
  simp only [ArmOK, Filter.handle, FInv]
  cases hf : f v with
  | none => simp [hf, idxFrom, h1, h2, idxFrom_succ]
  | some w => simp [hf, idxFrom, h1, h2, idxFrom_succ, applyAll, Diff.applicable, Diff.apply]

theorem filter_pushBack {α β} (f : α → Option β) (v : α) (src : List α) (st : FilterSt) (hi : FInv f st src) :
    ArmOK f (.pushBack v) src (src ++ [v]) st := by
  obtain ⟨h1, h2⟩ := hi
  simp only [ArmOK, Filter.handle, FInv]
  cases hf : f v with
  | none => simp [hf, idxFrom, h1, h2, idxFrom_append]
  | some w => simp [hf, idxFrom, h1, h2, idxFrom_append, applyAll, Diff.applicable, Diff.apply]

theorem filter_popFront {α β} (f : α → Option β) (a : α) (t : List α) (st : FilterSt) (hi : FInv f st (a :: t)) :
    ArmOK f .popFront (a :: t) t st := by
  obtain ⟨h1, h2⟩ := hi
  simp only [ArmOK, Filter.handle, FInv]
  have hb := idxFrom_bounds f 1 t
  cases hf : f a with
  | none =>
    have hidx : st.idx = idxFrom f 1 t := by simp [h2, idxFrom, hf]
    have hh : st.idx.head? ≠ some 0 := by
      rw [hidx]; intro h
      have := List.mem_of_mem_head? h
      have := hb 0 this; omega
    rw [hidx] at hh
    simp [hh, hf, h1, hidx, idxFrom_pred]
  | some w =>
    have hidx : st.idx = 0 :: idxFrom f 1 t := by simp [h2, idxFrom, hf]
    simp [hidx, hf, h1, idxFrom_pred, applyAll, Diff.applicable, Diff.apply]

theorem filter_popBack {α β} (f : α → Option β) (a : α) (t : List α) (st : FilterSt) (hi : FInv f st (t ++ [a])) :
    ArmOK f .popBack (t ++ [a]) t st := by
  obtain ⟨h1, h2⟩ := hi
  simp only [ArmOK, Filter.handle, FInv]
  have hb := idxFrom_bounds f 0 t
  have holen : st.olen - 1 = t.length := by simp [h1]
  cases hf : f a with
  | none =>
    have hidx : st.idx = idxFrom f 0 t := by simp [h2, idxFrom_append, idxFrom, hf]
    have hh : (idxFrom f 0 t).getLast? ≠ some t.length := by
      intro h
      have := List.mem_of_getLast? h
      have := hb _ this; omega
    simp [holen, hidx, hh, hf]
  | some w =>
    have hidx : st.idx = idxFrom f 0 t ++ [t.length] := by simp [h2, idxFrom_append, idxFrom, hf]
    simp [holen, hidx, hf, applyAll, Diff.applicable, Diff.apply, List.dropLast_concat]

/-- index list and view of a source split around position `S1.length` -/
theorem idxFrom_mid {α β} (f : α → Option β) (S1 S2 : List α) (a : α) :
    idxFrom f 0 (S1 ++ a :: S2) =
      idxFrom f 0 S1 ++ (if (f a).isSome then [S1.length] else []) ++ idxFrom f (S1.length + 1) S2 := by
  rw [idxFrom_append]; simp only [idxFrom, Nat.zero_add]; split <;> simp

theorem idx_lt_of_mem_left {α β} (f : α → Option β) (S1 : List α) : ∀ x ∈ idxFrom f 0 S1, x < S1.length := by
  intro x hx; have := idxFrom_bounds f 0 S1 x hx; omega

theorem filter_insert {α β} (f : α → Option β) (v : α) (S1 S2 : List α) (st : FilterSt)
    (hi : FInv f st (S1 ++ S2)) :
    ArmOK f (.insert S1.length v) (S1 ++ S2) (S1 ++ v :: S2) st := by
  obtain ⟨h1, h2⟩ := hi
  have hidx : st.idx = idxFrom f 0 S1 ++ idxFrom f S1.length S2 := by simp [h2, idxFrom_append]
  have hpp : ppoint st.idx S1.length = (idxFrom f 0 S1).length := by
    rw [hidx]; apply ppoint_split
    · exact idx_lt_of_mem_left f S1
    · intro x hx; have := idxFrom_bounds f _ S2 x hx; omega
  simp only [ArmOK, Filter.handle, FInv, hpp]
  rw [hidx]
  simp only [List.take_left', List.drop_left', List.take_append_of_le_length, Nat.le_refl]
  cases hf : f v with
  | none =>
    simp [hf, h1, idxFrom_mid, idxFrom_succ]; omega
  | some w =>
    simp [hf, h1, idxFrom_mid, idxFrom_succ, applyAll, Diff.applicable, Diff.apply, idxFrom_length]
    omega

theorem eraseIdx_mid {γ} (A B : List γ) (x : γ) (n : Nat) (hn : n = A.length) :
    (A ++ x :: B).eraseIdx n = A ++ B := by
  subst hn; rw [List.eraseIdx_append_of_length_le (Nat.le_refl _)]; simp

theorem ppoint_mid {α β} (f : α → Option β) (S1 S2 : List α) (a : α) :
    ppoint (idxFrom f 0 (S1 ++ a :: S2)) S1.length = (idxFrom f 0 S1).length := by
  rw [idxFrom_mid, List.append_assoc]
  apply ppoint_split
  · exact idx_lt_of_mem_left f S1
  · intro x hx
    simp only [List.mem_append] at hx
    rcases hx with hx | hx
    · split at hx <;> simp at hx; omega
    · have := idxFrom_bounds f _ S2 x hx; omega

theorem filter_set {α β} (f : α → Option β) (v a : α) (S1 S2 : List α) (st : FilterSt)
    (hi : FInv f st (S1 ++ a :: S2)) :
    ArmOK f (.set S1.length v) (S1 ++ a :: S2) (S1 ++ v :: S2) st := by
  obtain ⟨h1, h2⟩ := hi
  have hpp : ppoint st.idx S1.length = (idxFrom f 0 S1).length := by rw [h2]; exact ppoint_mid f S1 S2 a
  have hb2 := idxFrom_bounds f (S1.length + 1) S2
  simp only [ArmOK, Filter.handle, FInv, hpp]
  rw [h2, idxFrom_mid]
  cases hfa : f a with
  | some fa =>
    simp only [Option.isSome_some, if_true]
    have hget : (idxFrom f 0 S1 ++ [S1.length] ++ idxFrom f (S1.length + 1) S2)[(idxFrom f 0 S1).length]? = some S1.length := by
      simp [List.getElem?_append]
    simp only [hget, if_true]
    cases hf : f v with
    | none =>
      have hl := idxFrom_length f 0 S1
      simp [hf, hfa, h1, idxFrom_mid, applyAll, Diff.applicable, Diff.apply, hl,
        eraseIdx_mid _ _ _ _ hl.symm, eraseIdx_mid _ _ _ _ rfl]
    | some w =>
      simp [hf, hfa, h1, h2, idxFrom_mid, applyAll, Diff.applicable, Diff.apply, idxFrom_length]
  | none =>
    simp only [Option.isSome_none, Bool.false_eq_true, if_false, List.append_nil]
    have hget : (idxFrom f 0 S1 ++ idxFrom f (S1.length + 1) S2)[(idxFrom f 0 S1).length]? ≠ some S1.length := by
      intro h
      rw [List.getElem?_append_right (Nat.le_refl _)] at h
      simp at h
      have := List.mem_of_getElem? h
      have := hb2 _ this; omega
    simp only [hget, if_false]
    cases hf : f v with
    | none => simp [hf, hfa, h1, h2, idxFrom_mid]
    | some w =>
      simp [hf, hfa, h1, idxFrom_mid, applyAll, Diff.applicable, Diff.apply, idxFrom_length]

theorem filter_remove {α β} (f : α → Option β) (a : α) (S1 S2 : List α) (st : FilterSt)
    (hi : FInv f st (S1 ++ a :: S2)) :
    ArmOK f (.remove S1.length) (S1 ++ a :: S2) (S1 ++ S2) st := by
  obtain ⟨h1, h2⟩ := hi
  have hpp : ppoint st.idx S1.length = (idxFrom f 0 S1).length := by rw [h2]; exact ppoint_mid f S1 S2 a
  have hb2 := idxFrom_bounds f (S1.length + 1) S2
  have hl := idxFrom_length f 0 S1
  simp only [ArmOK, Filter.handle, FInv, hpp]
  rw [h2, idxFrom_mid]
  cases hfa : f a with
  | some fa =>
    simp only [Option.isSome_some, if_true]
    have hget : (idxFrom f 0 S1 ++ [S1.length] ++ idxFrom f (S1.length + 1) S2)[(idxFrom f 0 S1).length]? = some S1.length := by
      simp
    simp only [hget, if_true]
    simp [hfa, h1, idxFrom_append, applyAll, Diff.applicable, Diff.apply, hl,
      eraseIdx_mid _ _ _ _ hl.symm, eraseIdx_mid _ _ _ _ rfl, idxFrom_pred]
  | none =>
    simp only [Option.isSome_none, Bool.false_eq_true, if_false, List.append_nil]
    have hget : (idxFrom f 0 S1 ++ idxFrom f (S1.length + 1) S2)[(idxFrom f 0 S1).length]? ≠ some S1.length := by
      intro h
      rw [List.getElem?_append_right (Nat.le_refl _)] at h
      simp at h
      have := List.mem_of_getElem? h
      have := hb2 _ this; omega
    simp only [hget, if_false]
    simp [hfa, h1, idxFrom_append, idxFrom_pred]

theorem filter_truncate {α β} (f : α → Option β) (S1 S2 : List α) (st : FilterSt)
    (hi : FInv f st (S1 ++ S2)) :
    ArmOK f (.truncate S1.length) (S1 ++ S2) S1 st := by
  obtain ⟨h1, h2⟩ := hi
  have hidx : st.idx = idxFrom f 0 S1 ++ idxFrom f S1.length S2 := by simp [h2, idxFrom_append]
  have htw : st.idx.takeWhile (· < S1.length) = idxFrom f 0 S1 := by
    rw [hidx]; apply takeWhile_split
    · exact idx_lt_of_mem_left f S1
    · intro x hx; have := idxFrom_bounds f _ S2 x hx; omega
  have hl := idxFrom_length f 0 S1
  have hl2 := idxFrom_length f S1.length S2
  simp only [ArmOK, Filter.handle, FInv, htw]
  rw [hidx]
  by_cases hk : (idxFrom f 0 S1).length < (idxFrom f 0 S1 ++ idxFrom f S1.length S2).length
  · simp only [hk, if_true]
    simp [applyAll, Diff.applicable, Diff.apply, hl]
  · simp only [hk, if_false]
    have hi2 : idxFrom f S1.length S2 = [] := by simpa using hk
    have : (S2.filterMap f) = [] := by
      apply List.eq_nil_of_length_eq_zero; rw [← hl2, hi2]; rfl
    simp [this, hi2]

end EV
