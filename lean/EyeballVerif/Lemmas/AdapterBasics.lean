/-
  Helper lemmas relating the adapters' private vector helpers to list operations.
-/
import EyeballVerif.Model.Adapters
import EyeballVerif.Lemmas.ApplyAll
import EyeballVerif.Lemmas.ListExtra
namespace EV

theorem truncateFromEnd_eq {α} (l : List α) (n : Nat) : truncateFromEnd l n = lastN n l := by
  unfold truncateFromEnd lastN
  by_cases h : n = 0
  · subst h; simp
  · simp only [h, if_false]
    by_cases h2 : l.length - n = 0
    · simp [h2]
    · simp [h2]

theorem skeep_eq {α} (l : List α) (c : Nat) : skeep l c = l.drop c := by
  unfold skeep
  by_cases h : c = 0
  · subst h; simp
  · simp only [h, if_false]
    by_cases h2 : c ≥ l.length
    · simp [h2]
    · simp [h2]

end EV
