/-
  The stream-level invariant of `ObservableVector` + its subscribers (`VInv`) and its preservation by every
  event (`vinv_vstep`), hence at every reachable state (`vinv_run`); `poll_cases`: what one poll does in such a
  state. The property theorems drawn from it are in Props/StreamReach.lean.
-/
import EyeballVerif.Lemmas.Delivers
import EyeballVerif.Props.C07
import EyeballVerif.Props.C08
namespace EV

/-- everything that can happen to an `ObservableVector` and its subscribers -/
inductive VEv (α : Type) where
  | direct (op : VOp α)
  | forEach (decs : List (Dec α))
  | subscribe (batched : Bool)
  | dropSub (i : Nat)
  | dropVec
  | txnBegin
  | txnOp (op : VOp α)
  | txnForEach (decs : List (Dec α))
  | txnRollback
  | txnDrop
  | txnCommit
  | poll (i : Nat)

/-- one event; events the borrow checker rules out (touching the vector while a transaction borrows it,
    using a dropped vector) and panicking calls leave the world unchanged -/
def OV.vstep {α} (s : OV α) : VEv α → OV α
  | .direct op => if s.alive && s.txn.isNone then (match s.direct op with | some (s', _, _) => s' | none => s) else s
  | .forEach decs => if s.alive && s.txn.isNone then (s.forEach decs).1.1 else s
  | .subscribe b => if s.alive && s.txn.isNone then (s.subscribe b).1 else s
  | .dropSub i => s.dropSub i
  | .dropVec => if s.alive && s.txn.isNone then s.dropVec.1 else s
  | .txnBegin => if s.alive && s.txn.isNone then s.txnBegin else s
  | .txnOp op => match s.txnOp op with | some (s', _) => s' | none => s
  | .txnForEach decs => if s.txn.isSome then (s.txnForEach decs).1 else s
  | .txnRollback => s.txnRollback
  | .txnDrop => s.txnDrop
  | .txnCommit => s.txnCommit.1
  | .poll i => match s.poll i with | some (_, s') => s' | none => s

/-- the stream-level invariant -/
structure VInv {α} (s : OV α) : Prop where
  window : 0 < s.B
  no_reset : NoReset s.log
  no_empty : NoEmptyMsg s.log
  txn : TxnInv s
  txn_nr : ∀ t, s.txn = some t → ∀ d ∈ t.batch, ∀ vs, d ≠ .reset vs
  /-- per live receiver: it is inside the log, a batched one keeps no remainder, and replaying everything
      still owed to it on its replica yields the vector's contents -/
  subs : ∀ (i : Nat) (r : Sub α), s.subs[i]? = some r → r.alive = true →
    (r.batched = true → r.rest = []) ∧ r.next ≤ s.log.length ∧
    ∃ rep, r.replica = some rep ∧ applyAll (owed s.log r) rep = some s.vals
  /-- if anything is pending for a live receiver, the newest message carries the current contents -/
  last : ∀ (i : Nat) (r : Sub α), s.subs[i]? = some r → r.alive = true → r.next < s.log.length →
    (s.log.getLast?).map (·.state) = some s.vals

theorem vinv_new {α} (c : Nat) (hc : c ≤ 2 ^ 64) : VInv (OV.new (α := α) c) := by
  constructor
  · exact (c06_window_ge_capacity c hc).2
  · intro m hm; simp [OV.new] at hm
  · intro m hm; simp [OV.new] at hm
  · intro t ht; simp [OV.new] at ht
  · intro t ht; simp [OV.new] at ht
  · intro i r h; simp [OV.new] at h
  · intro i r h; simp [OV.new] at h


theorem rx_of_alive {α} (s : OV α) (i : Nat) (r : Sub α) (h : s.subs[i]? = some r) (ha : r.alive = true) : s.rxCount ≠ 0 := by
  unfold OV.rxCount
  have hm : r ∈ s.subs := List.mem_of_getElem? h
  have : r ∈ s.subs.filter (·.alive) := List.mem_filter.mpr ⟨hm, ha⟩
  intro h0
  have := List.eq_nil_of_length_eq_zero h0
  simp_all

theorem owed_append {α} (log : List (Msg α)) (m : Msg α) (r : Sub α) (h : r.next ≤ log.length) :
    owed (log ++ [m]) r = owed log r ++ m.diffs := by
  simp [owed, List.drop_append_of_le_length h, List.flatMap_append, List.append_assoc]

/-- publishing a message that takes the contents from `s.vals` to `v'` keeps the invariant -/
theorem vinv_publish {α} (s : OV α) (hi : VInv s) (v' : List α) (ds : List (Diff α)) (many : Bool)
    (happ : s.rxCount ≠ 0 → applyAll ds s.vals = some v') (hne : ds ≠ []) (hnr : ∀ d ∈ ds, ∀ vs, d ≠ .reset vs) (htx : s.txn = none) :
    VInv (({ s with vals := v' } : OV α).send { diffs := ds, many, state := v' }).1 := by
  obtain ⟨h1, h2, h3, h4, h4n, h5, h6⟩ := hi
  unfold OV.send
  have hrxeq : ({ s with vals := v' } : OV α).rxCount = s.rxCount := rfl
  by_cases hrx : s.rxCount ≠ 0
  · simp only [hrxeq, hrx, ne_eq, not_false_eq_true, if_true]
    constructor
    · exact h1
    · intro m hm d hd vs
      simp only [OV.unparkAll, List.mem_append, List.mem_singleton] at hm
      rcases hm with hm | rfl
      · exact h2 m hm d hd vs
      · exact hnr d hd vs
    · intro m hm
      simp only [OV.unparkAll, List.mem_append, List.mem_singleton] at hm
      rcases hm with hm | rfl
      · exact h3 m hm
      · exact hne
    · intro t ht; simp [OV.unparkAll, htx] at ht
    · intro t ht; simp [OV.unparkAll, htx] at ht
    · intro i r hr ha
      simp only [OV.unparkAll, List.getElem?_map] at hr
      cases hr0 : s.subs[i]? with
      | none => simp [hr0] at hr
      | some r0 =>
        simp [hr0] at hr; subst hr
        obtain ⟨g1, g2, rep, g3, g4⟩ := h5 i r0 hr0 (by simpa using ha)
        refine ⟨g1, by simp; omega, rep, g3, ?_⟩
        have : owed (s.log ++ [{ diffs := ds, many := many, state := v' }]) { r0 with waiting := false } = owed s.log r0 ++ ds := by
          have := owed_append s.log { diffs := ds, many := many, state := v' } r0 g2
          simpa [owed] using this
        simp only [OV.unparkAll]
        rw [this, applyAll_append, g4]; simpa using happ hrx
    · intro i r hr ha _
      simp [OV.unparkAll]
  · have hrx0 : s.rxCount = 0 := by simpa using hrx
    simp only [hrxeq, hrx0, ne_eq, not_true_eq_false, if_false]
    refine ⟨h1, h2, h3, ?_, ?_, ?_, ?_⟩
    · intro t ht; simp [htx] at ht
    · intro t ht; simp [htx] at ht
    · intro i r hr ha; exact absurd hrx0 (rx_of_alive s i r hr ha)
    · intro i r hr ha; exact absurd hrx0 (rx_of_alive s i r hr ha)


theorem exec_no_reset {α} (op : VOp α) (l : List α) (r : OpRes α) (h : op.exec l = some r) (d : Diff α)
    (hd : r.diff = some d) (vs : List α) : d ≠ .reset vs := by
  cases op <;> simp only [VOp.exec] at h <;>
    first
    | (simp at h; subst h; simp at hd; subst hd; simp)
    | (split at h <;> simp at h <;> subst h <;> simp at hd <;> (try subst hd) <;> simp)

/-- a direct mutator keeps the invariant -/
theorem vinv_direct {α} (s s' : OV α) (op : VOp α) (ret : Ret α) (w : List Nat) (hi : VInv s) (htx : s.txn = none)
    (h : s.direct op = some (s', ret, w)) : VInv s' := by
  unfold OV.direct at h
  cases he : op.exec s.vals with
  | none => simp [he] at h
  | some r =>
    simp only [he] at h
    have hf := c05_exec_faithful op s.vals r he
    cases hd : r.diff with
    | none =>
      have hv : r.vals = s.vals := hf.2.1 hd
      simp [hd] at h
      obtain ⟨rfl, _, _⟩ := h
      have : ({ s with vals := r.vals } : OV α) = s := by rw [hv]
      rw [this]; exact hi
    | some d =>
      simp only [hd] at h
      have hp := vinv_publish s hi r.vals [d] false (fun _ => by simpa [hd] using hf.1) (by simp)
        (by intro x hx vs; simp at hx; subst hx; exact exec_no_reset op s.vals r he x hd vs) htx
      simp at h
      obtain ⟨rfl, _, _⟩ := h
      exact hp

theorem vinv_subscribe {α} (s : OV α) (b : Bool) (hi : VInv s) (htx : s.txn = none) : VInv (s.subscribe b).1 := by
  obtain ⟨h1, h2, h3, h4, h4n, h5, h6⟩ := hi
  simp only [OV.subscribe]
  refine ⟨h1, h2, h3, ?_, h4n, ?_, ?_⟩
  · intro t ht; simp [htx] at ht
  · intro i r hr ha
    simp only [List.getElem?_append] at hr
    split at hr
    · exact h5 i r hr ha
    · cases hi2 : i - s.subs.length with
      | zero => simp [hi2] at hr; subst hr; simp [owed]
      | succ n => simp [hi2] at hr
  · intro i r hr ha hlt
    simp only [List.getElem?_append] at hr
    split at hr
    · exact h6 i r hr ha hlt
    · cases hi2 : i - s.subs.length with
      | zero => simp [hi2] at hr; subst hr; simp at hlt
      | succ n => simp [hi2] at hr


theorem rxCount_dropSub_le {α} (s : OV α) (i : Nat) : (s.dropSub i).rxCount ≤ s.rxCount := by
  unfold OV.dropSub OV.rxCount
  simp only
  induction s.subs generalizing i with
  | nil => simp
  | cons x xs ih =>
    cases i with
    | zero => simp [List.modify, List.filter_cons]; split <;> simp
    | succ n =>
      have := ih n
      simp only [List.modify_succ_cons, List.filter_cons]
      split <;> simp <;> omega

theorem vinv_dropSub {α} (s : OV α) (i : Nat) (hi : VInv s) : VInv (s.dropSub i) := by
  obtain ⟨h1, h2, h3, h4, h4n, h5, h6⟩ := hi
  have hle := rxCount_dropSub_le s i
  refine ⟨h1, h2, h3, ?_, h4n, ?_, ?_⟩
  · intro t ht hrx
    exact h4 t ht (by omega)
  · intro j r hr ha
    simp only [OV.dropSub, List.getElem?_modify] at hr
    by_cases hij : i = j
    · subst hij
      cases hr0 : s.subs[i]? with
      | none => simp [hr0] at hr
      | some r0 => simp [hr0] at hr; subst hr; simp at ha
    · simp [hij] at hr; exact h5 j r hr ha
  · intro j r hr ha hlt
    simp only [OV.dropSub, List.getElem?_modify] at hr
    by_cases hij : i = j
    · subst hij
      cases hr0 : s.subs[i]? with
      | none => simp [hr0] at hr
      | some r0 => simp [hr0] at hr; subst hr; simp at ha
    · simp [hij] at hr; exact h6 j r hr ha hlt

theorem vinv_dropVec {α} (s : OV α) (hi : VInv s) : VInv s.dropVec.1 := by
  obtain ⟨h1, h2, h3, h4, h4n, h5, h6⟩ := hi
  simp only [OV.dropVec, OV.unparkAll]
  refine ⟨h1, h2, h3, ?_, h4n, ?_, ?_⟩
  · intro t ht hrx
    apply h4 t ht
    simpa [OV.rxCount, List.filter_map, Function.comp_def] using hrx
  · intro i r hr ha
    simp only [List.getElem?_map] at hr
    cases hr0 : s.subs[i]? with
    | none => simp [hr0] at hr
    | some r0 =>
      simp [hr0] at hr; subst hr
      have := h5 i r0 hr0 (by simpa using ha)
      simpa [owed] using this
  · intro i r hr ha hlt
    simp only [List.getElem?_map] at hr
    cases hr0 : s.subs[i]? with
    | none => simp [hr0] at hr
    | some r0 => simp [hr0] at hr; subst hr; exact h6 i r0 hr0 (by simpa using ha) (by simpa using hlt)

/-- anything that changes only the `txn` field keeps the receiver clauses -/
theorem vinv_of_outside {α} (s s' : OV α) (hi : VInv s) (ho : s'.outside = s.outside) (ht : TxnInv s')
    (hn : ∀ t, s'.txn = some t → ∀ d ∈ t.batch, ∀ vs, d ≠ .reset vs) : VInv s' := by
  obtain ⟨h1, h2, h3, _, _, h5, h6⟩ := hi
  have hv : s'.vals = s.vals := by simpa [OV.outside] using congrArg (·.1) ho
  have hB : s'.B = s.B := by simpa [OV.outside] using congrArg (·.2.2.1) ho
  have hl : s'.log = s.log := by simpa [OV.outside] using congrArg (·.2.2.2.1) ho
  have hs : s'.subs = s.subs := by simpa [OV.outside] using congrArg (·.2.2.2.2) ho
  exact ⟨hB ▸ h1, hl ▸ h2, hl ▸ h3, ht, hn, by rw [hs, hl, hv]; exact h5, by rw [hs, hl, hv]; exact h6⟩


theorem txnOp_no_reset {α} (s s' : OV α) (o : VOp α) (r : Ret α) (h : s.txnOp o = some (s', r))
    (hn : ∀ t, s.txn = some t → ∀ d ∈ t.batch, ∀ vs, d ≠ .reset vs) :
    ∀ t, s'.txn = some t → ∀ d ∈ t.batch, ∀ vs, d ≠ .reset vs := by
  unfold OV.txnOp at h
  cases ht : s.txn with
  | none => simp [ht] at h
  | some t0 =>
    have hn0 := hn t0 ht
    simp only [ht] at h
    by_cases hc : o = .clear
    · subst hc
      simp at h; obtain ⟨rfl, _⟩ := h
      intro t ht' d hd vs
      simp at ht'; subst ht'
      simp at hd; obtain ⟨_, rfl⟩ := hd; simp
    · have hgen : (match o.exec t0.working with
          | none => none
          | some r => some ({ s with txn := some { working := r.vals, batch :=
              match r.diff with
              | some d => if s.rxCount ≠ 0 then t0.batch ++ [d] else t0.batch
              | none => t0.batch } }, r.ret)) = some (s', r) := by
        rw [← h]; cases o <;> first | rfl | exact absurd rfl hc
      cases he : o.exec t0.working with
      | none => simp [he] at hgen
      | some res =>
        simp [he] at hgen
        obtain ⟨rfl, _⟩ := hgen
        intro t ht' d hd vs
        simp at ht'; subst ht'
        cases hdd : res.diff with
        | none => simp [hdd] at hd; exact hn0 d hd vs
        | some d0 =>
          simp [hdd] at hd
          split at hd
          · exact hn0 d hd vs
          · simp at hd
            rcases hd with hd | rfl
            · exact hn0 d hd vs
            · exact exec_no_reset o t0.working res he d hdd vs

theorem vinv_txnOp {α} (s s' : OV α) (o : VOp α) (r : Ret α) (hi : VInv s) (h : s.txnOp o = some (s', r)) : VInv s' :=
  vinv_of_outside s s' hi (txnOp_outside s s' o r h).1 (c07_inv_op s s' o r hi.txn h) (txnOp_no_reset s s' o r h hi.txn_nr)

theorem vinv_txnBegin {α} (s : OV α) (hi : VInv s) : VInv s.txnBegin :=
  vinv_of_outside s s.txnBegin hi rfl (c07_inv_begin s) (by intro t ht; simp [OV.txnBegin] at ht; subst ht; simp)

theorem vinv_txnRollback {α} (s : OV α) (hi : VInv s) : VInv s.txnRollback := by
  apply vinv_of_outside s s.txnRollback hi ?_ (c07_inv_rollback s) ?_
  · unfold OV.txnRollback; cases s.txn <;> rfl
  · intro t ht
    unfold OV.txnRollback at ht
    cases h : s.txn with
    | none => simp [h] at ht
    | some t0 => simp [h] at ht; subst ht; simp

theorem vinv_txnDrop {α} (s : OV α) (hi : VInv s) : VInv s.txnDrop :=
  vinv_of_outside s s.txnDrop hi rfl (by intro t ht; simp [OV.txnDrop] at ht) (by intro t ht; simp [OV.txnDrop] at ht)

theorem vinv_txnCommit {α} (s : OV α) (hi : VInv s) : VInv s.txnCommit.1 := by
  unfold OV.txnCommit
  cases ht : s.txn with
  | none => exact hi
  | some t =>
    simp only
    have h0 : VInv ({ s with txn := none } : OV α) :=
      vinv_of_outside s _ hi rfl (by intro t ht; simp at ht) (by intro t ht; simp at ht)
    have hrep : s.rxCount ≠ 0 → applyAll t.batch s.vals = some t.working := hi.txn t ht
    by_cases hb : t.batch.isEmpty
    · simp only [hb, if_true]
      have hbn : t.batch = [] := by simpa using hb
      obtain ⟨h1, h2, h3, _, _, h5, h6⟩ := h0
      refine ⟨h1, h2, h3, by intro t ht; simp at ht, by intro t ht; simp at ht, ?_, ?_⟩
      · intro i r hr ha
        have hrx := rx_of_alive s i r hr ha
        have := hrep hrx
        rw [hbn] at this; simp at this
        simp only; rw [← this]; exact h5 i r hr ha
      · intro i r hr ha hlt
        have hrx := rx_of_alive s i r hr ha
        have := hrep hrx
        rw [hbn] at this; simp at this
        simp only; rw [← this]; exact h6 i r hr ha hlt
    · simp only [hb, Bool.false_eq_true, if_false]
      have hbn : t.batch ≠ [] := by simpa using hb
      have := vinv_publish ({ s with txn := none } : OV α) h0 t.working t.batch true hrep hbn (hi.txn_nr t ht) rfl
      exact this


theorem filter_length_set {γ} (p : γ → Bool) (l : List γ) (i : Nat) (x y : γ) (h : l[i]? = some x) (hp : p y = p x) :
    ((l.set i y).filter p).length = (l.filter p).length := by
  induction l generalizing i with
  | nil => simp at h
  | cons a as ih =>
    cases i with
    | zero => simp at h; subst h; simp only [List.set_cons_zero, List.filter_cons, hp]; split <;> simp
    | succ n => simp at h; simp [List.filter_cons, ih n h]; split <;> simp [ih n h]

theorem owed_replica {α} (log : List (Msg α)) (r : Sub α) (x : Option (List α)) : owed log { r with replica := x } = owed log r := rfl

/-- a poll keeps the invariant -/
theorem vinv_poll {α} (s s' : OV α) (i : Nat) (it : Item α) (hi : VInv s) (h : s.poll i = some (it, s')) : VInv s' := by
  obtain ⟨h1, h2, h3, h4, h4n, h5, h6⟩ := hi
  unfold OV.poll at h
  cases hs : s.subs[i]? with
  | none => simp [hs] at h
  | some r =>
    simp only [hs] at h
    cases ha : r.alive with
    | false => simp [ha] at h
    | true =>
      simp only [ha, Bool.not_true, Bool.false_eq_true, if_false] at h
      have hil : i < s.subs.length := by
        rcases List.getElem?_eq_some_iff.mp hs with ⟨g, _⟩; exact g
      obtain ⟨g1, g2, rep, g3, g4⟩ := h5 i r hs ha
      have glast := h6 i r hs ha
      -- the facts about the new receiver state, uniformly for both flavours
      have key : ∀ (it0 : Item α) (r' : Sub α),
          (r'.alive = r.alive ∧ r'.batched = r.batched ∧ r'.replica = r.replica ∧ r.next ≤ r'.next ∧ r'.next ≤ s.log.length) →
          (r'.batched = true → r'.rest = []) →
          ((it0 = .pending ∨ it0 = .done) ∧ owed s.log r = [] ∧ owed s.log r' = [] ∨
           (∃ ds, (it0 = .batch ds ∨ ∃ d, it0 = .one d ∧ ds = [d]) ∧ owed s.log r = ds ++ owed s.log r') ∨
           (∃ m, (it0 = .one (.reset m.state) ∨ it0 = .batch [.reset m.state]) ∧ r.next + s.B < s.log.length ∧
              s.log.getLast? = some m ∧ owed s.log r' = [])) →
          VInv { s with subs := s.subs.set i { r' with replica :=
            match it0 with
            | .one d => r'.replica.bind (applyAll [d])
            | .batch ds => r'.replica.bind (applyAll ds)
            | _ => r'.replica } } := by
        intro it0 r' ⟨f1, f2, f3, f4, f5⟩ fb hcase
        refine ⟨h1, h2, h3, ?_, h4n, ?_, ?_⟩
        · intro t ht hrx
          apply h4 t ht
          simp only [OV.rxCount] at hrx ⊢
          rw [filter_length_set (fun x : Sub α => x.alive) s.subs i r _ hs (by simpa using f1)] at hrx
          exact hrx
        · intro j rj hj haj
          simp only [List.getElem?_set] at hj
          by_cases hij : i = j
          · subst hij
            simp [hil] at hj; subst hj
            refine ⟨by simpa using fb, by simpa using f5, ?_⟩
            rcases hcase with ⟨hpd, ho, ho'⟩ | ⟨ds, hds, ho⟩ | ⟨m, hm, hlag, hlast, ho'⟩
            · refine ⟨rep, ?_, ?_⟩
              · rcases hpd with rfl | rfl <;> simp [f3, g3]
              · rw [owed_replica, ho']; rw [ho] at g4; exact g4
            · rw [ho, applyAll_append] at g4
              cases hx : applyAll ds rep with
              | none => simp [hx] at g4
              | some rep1 =>
                simp [hx] at g4
                refine ⟨rep1, ?_, by rw [owed_replica]; exact g4⟩
                rcases hds with rfl | ⟨d, rfl, rfl⟩ <;> simp [f3, g3, hx]
            · have hvals := glast (by omega)
              rw [hlast] at hvals; simp at hvals
              refine ⟨m.state, ?_, by rw [owed_replica, ho']; simp [hvals]⟩
              rcases hm with rfl | rfl <;> simp [f3, g3, applyAll, Diff.applicable, Diff.apply]
          · simp only [hij, if_false] at hj
            exact h5 j rj hj haj
        · intro j rj hj haj hlt
          simp only [List.getElem?_set] at hj
          by_cases hij : i = j
          · subst hij
            simp [hil] at hj; subst hj
            exact glast (by simp at hlt; omega)
          · simp only [hij, if_false] at hj
            exact h6 j rj hj haj hlt
      cases hb : r.batched with
      | true =>
        simp only [hb, if_true] at h
        simp at h; obtain ⟨rfl, rfl⟩ := h
        have hd := pollBatched_delivers s.B s.log (!s.alive) r h1 (g1 hb)
        have hf := pollBatched_frame s.B s.log (!s.alive) r h1 g2
        simp only at hd hf
        apply key _ _ hf (fun _ => hd.1)
        rcases hd.2 with ⟨hpd, ho, ho', _⟩ | ⟨ds, hds, _, ho, ho'⟩ | ⟨m, hm, hlag, hlast, ho'⟩
        · exact Or.inl ⟨hpd, ho, ho'⟩
        · exact Or.inr (Or.inl ⟨ds, Or.inl hds, by rw [ho, ho']; simp⟩)
        · exact Or.inr (Or.inr ⟨m, Or.inr hm, hlag, hlast, ho'⟩)
      | false =>
        simp only [hb, Bool.false_eq_true, if_false] at h
        simp at h; obtain ⟨rfl, rfl⟩ := h
        have hd := pollPlain_delivers s.B s.log (!s.alive) r h1 h3
        have hf := pollPlain_frame s.B s.log (!s.alive) r h1 g2
        simp only at hd hf
        apply key _ _ hf (fun hbt => by rw [hf.2.1, hb] at hbt; cases hbt)
        rcases hd with ⟨hpd, ho, ho', _⟩ | ⟨d, hd1, _, ho⟩ | ⟨m, hm, _, hlag, hlast, ho'⟩
        · exact Or.inl ⟨hpd, ho, ho'⟩
        · exact Or.inr (Or.inl ⟨[d], Or.inr ⟨d, hd1, rfl⟩, by rw [ho]; simp⟩)
        · exact Or.inr (Or.inr ⟨m, Or.inl hm, hlag, hlast, ho'⟩)


theorem direct_txn {α} (s s' : OV α) (op : VOp α) (ret : Ret α) (w : List Nat) (h : s.direct op = some (s', ret, w)) :
    s'.txn = s.txn := by
  unfold OV.direct at h
  cases he : op.exec s.vals with
  | none => simp [he] at h
  | some r =>
    simp only [he] at h
    cases hd : r.diff with
    | none => simp [hd] at h; obtain ⟨rfl, _, _⟩ := h; rfl
    | some d =>
      simp [hd] at h; obtain ⟨rfl, _, _⟩ := h
      unfold OV.send; split <;> simp [OV.unparkAll]

theorem vinv_forEach {α} (s : OV α) (decs : List (Dec α)) (hi : VInv s) (htx : s.txn = none) :
    VInv (s.forEach decs).1.1 := by
  unfold OV.forEach
  have := forEachLoop_preserves (fun st : OV α × List Nat => st.1.vals)
    (fun st i v => (match st.1.direct (.set i v) with | some (s', _, w) => (s', st.2 ++ w) | none => st))
    (fun st i => (match st.1.direct (.remove i) with | some (s', _, w) => (s', st.2 ++ w) | none => st))
    (fun st => VInv st.1 ∧ st.1.txn = none)
    (by
      intro st i v ⟨h1, h2⟩
      cases hd : st.1.direct (.set i v) with
      | none => exact ⟨h1, h2⟩
      | some p => obtain ⟨s', r, w⟩ := p; exact ⟨vinv_direct st.1 s' _ r w h1 h2 hd, (direct_txn _ _ _ _ _ hd).trans h2⟩)
    (by
      intro st i ⟨h1, h2⟩
      cases hd : st.1.direct (.remove i) with
      | none => exact ⟨h1, h2⟩
      | some p => obtain ⟨s', r, w⟩ := p; exact ⟨vinv_direct st.1 s' _ r w h1 h2 hd, (direct_txn _ _ _ _ _ hd).trans h2⟩)
    s.vals.length 0 decs (s, []) [] ⟨hi, htx⟩
  exact this.1

theorem vinv_txnForEach {α} (s : OV α) (decs : List (Dec α)) (hi : VInv s) : VInv (s.txnForEach decs).1 := by
  unfold OV.txnForEach
  apply forEachLoop_preserves (P := fun st : OV α => VInv st)
  · intro st i v hst
    show VInv (match st.txnOp (.set i v) with | some (s', _) => s' | none => st)
    cases h : st.txnOp (.set i v) with
    | none => exact hst
    | some p => obtain ⟨s', r⟩ := p; exact vinv_txnOp st s' _ r hst h
  · intro st i hst
    show VInv (match st.txnOp (.remove i) with | some (s', _) => s' | none => st)
    cases h : st.txnOp (.remove i) with
    | none => exact hst
    | some p => obtain ⟨s', r⟩ := p; exact vinv_txnOp st s' _ r hst h
  · exact hi

/-- **The invariant is preserved by every event.** -/
theorem vinv_vstep {α} (s : OV α) (e : VEv α) (hi : VInv s) : VInv (s.vstep e) := by
  cases e with
  | direct op =>
    simp only [OV.vstep]
    split
    · rename_i hg
      simp at hg
      cases hd : s.direct op with
      | none => exact hi
      | some p => obtain ⟨s', r, w⟩ := p; exact vinv_direct s s' op r w hi hg.2 hd
    · exact hi
  | forEach decs =>
    simp only [OV.vstep]
    split
    · rename_i hg; simp at hg; exact vinv_forEach s decs hi hg.2
    · exact hi
  | subscribe b =>
    simp only [OV.vstep]
    split
    · rename_i hg; simp at hg; exact vinv_subscribe s b hi hg.2
    · exact hi
  | dropSub i => exact vinv_dropSub s i hi
  | dropVec =>
    simp only [OV.vstep]
    split
    · exact vinv_dropVec s hi
    · exact hi
  | txnBegin =>
    simp only [OV.vstep]
    split
    · exact vinv_txnBegin s hi
    · exact hi
  | txnOp op =>
    simp only [OV.vstep]
    cases h : s.txnOp op with
    | none => exact hi
    | some p => obtain ⟨s', r⟩ := p; exact vinv_txnOp s s' op r hi h
  | txnForEach decs =>
    simp only [OV.vstep]
    split
    · exact vinv_txnForEach s decs hi
    · exact hi
  | txnRollback => exact vinv_txnRollback s hi
  | txnDrop => exact vinv_txnDrop s hi
  | txnCommit => exact vinv_txnCommit s hi
  | poll i =>
    simp only [OV.vstep]
    cases h : s.poll i with
    | none => exact hi
    | some p => obtain ⟨it, s'⟩ := p; exact vinv_poll s s' i it hi h

theorem vinv_run {α} (c : Nat) (hc : c ≤ 2 ^ 64) (evs : List (VEv α)) : VInv (evs.foldl OV.vstep (OV.new c)) := by
  have key : ∀ (evs : List (VEv α)) (s : OV α), VInv s → VInv (evs.foldl OV.vstep s) := by
    intro evs
    induction evs with
    | nil => intro s h; exact h
    | cons e es ih => intro s h; exact ih _ (vinv_vstep s e h)
  exact key evs _ (vinv_new c hc)


/-- the ghost update of a poll -/
def ghostRep {α} (it : Item α) (rep : Option (List α)) : Option (List α) :=
  match it with
  | .one d => rep.bind (applyAll [d])
  | .batch ds => rep.bind (applyAll ds)
  | _ => rep

/-- the flavour-specific poll of receiver `r` -/
def OV.pollOf {α} (s : OV α) (r : Sub α) : Item α × Sub α :=
  if r.batched then pollBatched s.B s.log (!s.alive) r else pollPlain s.B s.log (!s.alive) r

theorem poll_unfold {α} (s s' : OV α) (i : Nat) (it : Item α) (h : s.poll i = some (it, s')) :
    ∃ r, s.subs[i]? = some r ∧ r.alive = true ∧ it = (s.pollOf r).1 ∧
      s' = { s with subs := s.subs.set i (Sub.mk (s.pollOf r).2.alive (s.pollOf r).2.batched (s.pollOf r).2.next
        (s.pollOf r).2.rest (s.pollOf r).2.waiting (ghostRep it (s.pollOf r).2.replica)) } := by
  unfold OV.poll at h
  cases hs : s.subs[i]? with
  | none => simp [hs] at h
  | some r =>
    simp only [hs] at h
    cases ha : r.alive with
    | false => simp [ha] at h
    | true =>
      simp only [ha, Bool.not_true, Bool.false_eq_true, if_false] at h
      simp at h
      obtain ⟨rfl, rfl⟩ := h
      exact ⟨r, rfl, ha, rfl, rfl⟩

/-- what one poll of a live receiver does in a state satisfying the invariant (both flavours at once) -/
theorem poll_cases {α} (s s' : OV α) (i : Nat) (it : Item α) (hi : VInv s) (h : s.poll i = some (it, s')) :
    ∃ r r' rep, s.subs[i]? = some r ∧ s'.subs[i]? = some r' ∧ r.replica = some rep ∧
      applyAll (owed s.log r) rep = some s.vals ∧ (r'.replica = ghostRep it (some rep) ∧ r'.alive = true) ∧
      ((it = .pending ∧ s.alive = true ∨ it = .done ∧ s.alive = false) ∧ owed s.log r = [] ∧ owed s.log r' = [] ∨
       (∃ ds, (it = .batch ds ∨ ∃ d, it = .one d ∧ ds = [d]) ∧ ¬ (r.rest = [] ∧ r.next + s.B < s.log.length) ∧
          owed s.log r = ds ++ owed s.log r') ∨
       ((it = .one (.reset s.vals) ∨ it = .batch [.reset s.vals]) ∧ r.rest = [] ∧ r.next + s.B < s.log.length ∧
          owed s.log r' = [])) := by
  obtain ⟨r, hs, ha, hit, hs'⟩ := poll_unfold s s' i it h
  obtain ⟨g1, g2, rep, g3, g4⟩ := hi.subs i r hs ha
  have hil : i < s.subs.length := by
    rcases List.getElem?_eq_some_iff.mp hs with ⟨g, _⟩; exact g
  have hlastv : r.next + s.B < s.log.length → ∀ m, s.log.getLast? = some m → m.state = s.vals := by
    intro hl m hm
    have := hi.last i r hs ha (by omega)
    rw [hm] at this; simpa using this
  cases hb : r.batched with
  | true =>
    simp only [OV.pollOf, hb, if_true] at hit hs'
    have hd := pollBatched_delivers s.B s.log (!s.alive) r hi.window (g1 hb)
    have hf := pollBatched_frame s.B s.log (!s.alive) r hi.window g2
    have hp := (c06_pending_consumed_all s.B s.log (!s.alive) r).2
    have hdn := (c08_end_consumed_all s.B s.log (!s.alive) r hi.window).2
    simp only at hd hf
    refine ⟨r, Sub.mk (pollBatched s.B s.log (!s.alive) r).2.alive (pollBatched s.B s.log (!s.alive) r).2.batched (pollBatched s.B s.log (!s.alive) r).2.next (pollBatched s.B s.log (!s.alive) r).2.rest (pollBatched s.B s.log (!s.alive) r).2.waiting (ghostRep it (pollBatched s.B s.log (!s.alive) r).2.replica), rep, hs, by rw [hs']; simp only [List.getElem?_set_self hil], g3, g4, ⟨by simp only [hf.2.2.1, g3], hf.1.trans ha⟩, ?_⟩
    show _ ∨ (∃ ds, _ ∧ _ ∧ _ = ds ++ owed s.log (pollBatched s.B s.log (!s.alive) r).2) ∨ (_ ∧ _ ∧ _ ∧ owed s.log (pollBatched s.B s.log (!s.alive) r).2 = [])
    rcases hd.2 with ⟨hpd, ho, ho', _⟩ | ⟨ds, hds, hnl, ho, ho'⟩ | ⟨m, hm, hlag, hlast, ho'⟩
    · refine Or.inl ⟨?_, ho, ho'⟩
      rcases hpd with hpd | hpd
      · exact Or.inl ⟨hit.trans hpd, by have := (hp hpd).2; simpa using this⟩
      · exact Or.inr ⟨hit.trans hpd, by have := (hdn hpd).2; simpa using this⟩
    · exact Or.inr (Or.inl ⟨ds, Or.inl (hit.trans hds), fun hh => hnl hh.2, by rw [ho, ho']; simp⟩)
    · have := hlastv hlag m hlast
      exact Or.inr (Or.inr ⟨Or.inr (by rw [← this]; exact hit.trans hm), g1 hb, hlag, ho'⟩)
  | false =>
    simp only [OV.pollOf, hb, Bool.false_eq_true, if_false] at hit hs'
    have hd := pollPlain_delivers s.B s.log (!s.alive) r hi.window hi.no_empty
    have hf := pollPlain_frame s.B s.log (!s.alive) r hi.window g2
    have hp := (c06_pending_consumed_all s.B s.log (!s.alive) r).1
    have hdn := (c08_end_consumed_all s.B s.log (!s.alive) r hi.window).1
    simp only at hd hf
    refine ⟨r, Sub.mk (pollPlain s.B s.log (!s.alive) r).2.alive (pollPlain s.B s.log (!s.alive) r).2.batched (pollPlain s.B s.log (!s.alive) r).2.next (pollPlain s.B s.log (!s.alive) r).2.rest (pollPlain s.B s.log (!s.alive) r).2.waiting (ghostRep it (pollPlain s.B s.log (!s.alive) r).2.replica), rep, hs, by rw [hs']; simp only [List.getElem?_set_self hil], g3, g4, ⟨by simp only [hf.2.2.1, g3], hf.1.trans ha⟩, ?_⟩
    show _ ∨ (∃ ds, _ ∧ _ ∧ _ = ds ++ owed s.log (pollPlain s.B s.log (!s.alive) r).2) ∨ (_ ∧ _ ∧ _ ∧ owed s.log (pollPlain s.B s.log (!s.alive) r).2 = [])
    rcases hd with ⟨hpd, ho, ho', _⟩ | ⟨d, hd1, hnl, ho⟩ | ⟨m, hm, hrest, hlag, hlast, ho'⟩
    · refine Or.inl ⟨?_, ho, ho'⟩
      rcases hpd with hpd | hpd
      · exact Or.inl ⟨hit.trans hpd, by have := (hp hpd).2.2; simpa using this⟩
      · exact Or.inr ⟨hit.trans hpd, by have := (hdn hpd).2.2; simpa using this⟩
    · exact Or.inr (Or.inl ⟨[d], Or.inr ⟨d, hit.trans hd1, rfl⟩, hnl, by rw [ho]; simp⟩)
    · have := hlastv hlag m hlast
      exact Or.inr (Or.inr ⟨Or.inl (by rw [← this]; exact hit.trans hm), hrest, hlag, ho'⟩)

end EV
