/-
  Helper lemmas about the broadcast-receiver model: `tryRecv`, `handleLag`, `batchLoop`.
-/
import EyeballVerif.Model.OVec
namespace EV

theorem tryRecv_lagged_iff {α} (B : Nat) (log : List (Msg α)) (c : Bool) (n : Nat) :
    (tryRecv B log c n).1 = .lagged ↔ n + B < log.length := by
  unfold tryRecv
  split
  · simp [*]
  · cases h : log[n]? <;> simp [*] <;> cases c <;> simp

/-- not behind the window: `try_recv` hands out message `n` if there is one -/
theorem tryRecv_ok {α} (B : Nat) (log : List (Msg α)) (c : Bool) (n : Nat) (h : ¬ n + B < log.length)
    (m : Msg α) (hm : log[n]? = some m) : tryRecv B log c n = (.ok m, n + 1) := by
  simp [tryRecv, h, hm]

theorem tryRecv_end {α} (B : Nat) (log : List (Msg α)) (c : Bool) (n : Nat) (h : log.length ≤ n) :
    tryRecv B log c n = (if c then .closed else .empty, n) := by
  have h1 : ¬ n + B < log.length := by omega
  have h2 : log[n]? = none := by simp [h]
  simp [tryRecv, h1, h2]

/-- the last message among those at positions `≥ n`, else the one carried in -/
def finalMsg {α} (log : List (Msg α)) (n : Nat) (msg : Option (Msg α)) : Option (Msg α) :=
  if n < log.length then log.getLast? else msg

/-- `handle_lag` drains everything retained and lands on the newest message -/
theorem handleLag_drain {α} (B : Nat) (log : List (Msg α)) (c : Bool) (k : Nat) :
    ∀ (n fuel : Nat) (msg : Option (Msg α)), log.length - n = k → n ≤ log.length → ¬ n + B < log.length →
      k + 1 ≤ fuel →
      handleLag B log c fuel n msg =
        (if c then some ((finalMsg log n msg).map (·.state))
         else match finalMsg log n msg with
           | some m => some (some m.state)
           | none => none, log.length) := by
  induction k with
  | zero =>
    intro n fuel msg hk hn hw hf
    have hn' : n = log.length := by omega
    subst hn'
    cases fuel with
    | zero => omega
    | succ f =>
      unfold handleLag
      rw [tryRecv_end B log c _ (Nat.le_refl _)]
      cases c <;> simp [finalMsg]
      cases msg <;> simp
  | succ k ih =>
    intro n fuel msg hk hn hw hf
    have hlt : n < log.length := by omega
    cases fuel with
    | zero => omega
    | succ f =>
      unfold handleLag
      have hm : log[n]? = some log[n] := by simp [hlt]
      rw [tryRecv_ok B log c n hw _ hm]
      simp only
      rw [ih (n + 1) f (some log[n]) (by omega) (by omega) (by omega) (by omega)]
      have hne : log ≠ [] := by intro e; simp [e] at hlt
      by_cases hlast : n + 1 < log.length
      · simp [finalMsg, hlast, hlt]
      · have : n + 1 = log.length := by omega
        have hl : log.getLast? = some log[n] := by
          rw [List.getLast?_eq_getElem?]
          have : log.length - 1 = n := by omega
          simp [this, hlt]
        simp [finalMsg, hlast, hlt, hl]


/-- the `try_recv` loop of the batched stream collects everything retained, in order -/
theorem batchLoop_spec {α} (B : Nat) (log : List (Msg α)) (c : Bool) (k : Nat) :
    ∀ (n fuel : Nat) (acc : List (Diff α)), log.length - n = k → n ≤ log.length → ¬ n + B < log.length →
      k + 1 ≤ fuel →
      batchLoop B log c fuel n acc = (.batch (acc ++ (log.drop n).flatMap (·.diffs)), log.length) := by
  induction k with
  | zero =>
    intro n fuel acc hk hn hw hf
    have hn' : n = log.length := by omega
    subst hn'
    cases fuel with
    | zero => omega
    | succ f =>
      unfold batchLoop
      rw [tryRecv_end B log c _ (Nat.le_refl _)]
      cases c <;> simp
  | succ k ih =>
    intro n fuel acc hk hn hw hf
    have hlt : n < log.length := by omega
    cases fuel with
    | zero => omega
    | succ f =>
      unfold batchLoop
      have hm : log[n]? = some log[n] := by simp [hlt]
      rw [tryRecv_ok B log c n hw _ hm]
      simp only
      rw [ih (n + 1) f _ (by omega) (by omega) (by omega) (by omega)]
      have e : (log.drop n).flatMap (·.diffs) = log[n].diffs ++ (log.drop (n + 1)).flatMap (·.diffs) := by
        rw [List.drop_eq_getElem_cons hlt, List.flatMap_cons]
      rw [e, List.append_assoc]

theorem batchLoop_ne_pending {α} (B : Nat) (log : List (Msg α)) (c : Bool) (fuel n : Nat) (acc : List (Diff α)) :
    (batchLoop B log c fuel n acc).1 ≠ .pending := by
  induction fuel generalizing n acc with
  | zero => simp [batchLoop]
  | succ f ih =>
    unfold batchLoop
    generalize tryRecv B log c n = t
    obtain ⟨a, n'⟩ := t
    cases a <;> simp only
    · exact ih _ _
    · simp
    · simp
    · generalize handleLag B log c (B + 2) n' none = q
      obtain ⟨q1, q2⟩ := q
      rcases q1 with _ | (_ | _) <;> simp

end EV
