/-
  Invariant of the lock-level model (`WInv`): lock discipline, waker registration, clone accounting —
  and its preservation by every step of every thread (`winv_adv`), for any number of threads.
-/
import EyeballVerif.Model.Conc
namespace EV

def Pc.holdsRead : Pc → Bool
  | .pollBeforeMeta | .pollHoldingMeta | .pollAfterCheck _ | .closeBeforeMeta | .closeHoldingMeta => true
  | _ => false
def Pc.holdsWrite : Pc → Bool
  | .writeBeforeNotify _ | .writeAfterNotify _ => true
  | _ => false
def Pc.holdsMeta : Pc → Bool
  | .pollHoldingMeta | .pollAfterCheck _ | .closeHoldingMeta => true
  | _ => false
/-- a subscriber task that has been told `Pending` (or is about to be) and has not been woken -/
def Th.parked (th : Th) : Bool :=
  th.op == .poll && !th.woken && (th.pc == .pollAfterCheck .pending || (th.pc == .finished && th.res == .poll .pending))
/-- the thread's call holds a clone that is counted in the clone counter -/
def Th.holdsClone (th : Th) : Bool :=
  match th.op with
  | .set _ | .get | .sne _ | .update _ => true
  | .dropClone => th.pc == .start
  | .upgrade => th.res == .upgraded true
  | .poll | .nextNow => false
/-- a dropping thread that found itself to be the last clone and has not closed the state yet -/
def Th.closing (th : Th) : Bool := th.op == .dropClone && (th.pc == .closeBeforeMeta || th.pc == .closeHoldingMeta)
/-- holds a state reference beyond its clone-counter reference -/
def Th.extraState (th : Th) : Bool :=
  (th.op == .upgrade && th.pc == .upgradeBetween) ||
  (th.op == .dropClone && (th.pc == .closeBeforeMeta || th.pc == .closeHoldingMeta || th.pc matches .dropAfterDecision _))

def idle : Th := { op := .poll, pc := .start, observed := 0, woken := true, res := .none }
def CS.thAt (s : CS) (t : Nat) : Th := (s.ths[t]?).getD idle

structure WInv (s : CS) : Prop where
  readers_iff : ∀ t, t ∈ s.readers ↔ (t < s.ths.length ∧ (s.thAt t).pc.holdsRead = true)
  readers_nodup : s.readers.Nodup
  writer_iff : ∀ t, s.writer = some t ↔ (t < s.ths.length ∧ (s.thAt t).pc.holdsWrite = true)
  meta_iff : ∀ t, s.metaHeld = some t ↔ (t < s.ths.length ∧ (s.thAt t).pc.holdsMeta = true)
  excl : s.writer.isSome = true → s.readers = []
  reg_ok : ∀ t ∈ s.wakers, s.version ≠ 0 ∧ t < s.ths.length ∧ (s.thAt t).op = .poll ∧ s.version ≤ (s.thAt t).observed
  parked_ok : ∀ t, t < s.ths.length → (s.thAt t).parked = true → t ∈ s.wakers
  atomic : s.atomicDrop = true
  closed_no_owner : s.version = 0 → s.ncStrong = 0
  owner_or_closing : s.ncStrong = 0 → s.version = 0 ∨ ∃ t, t < s.ths.length ∧ (s.thAt t).closing = true
  closing_nc : ∀ t, t < s.ths.length → (s.thAt t).closing = true → s.ncStrong = 0
  holders_le : s.ths.countP Th.holdsClone ≤ s.ncStrong
  st_ok : s.ncStrong + s.ths.countP Th.extraState ≤ s.stStrong
  /-- no thread has observed a version that does not exist yet -/
  obs_le : ∀ t, t < s.ths.length → s.version ≠ 0 → (s.thAt t).observed ≤ s.version

theorem countP_set {γ} (p : γ → Bool) (l : List γ) (t : Nat) (x : γ) (ht : t < l.length) :
    (l.set t x).countP p + (if p l[t] then 1 else 0) = l.countP p + (if p x then 1 else 0) := by
  induction l generalizing t with
  | nil => simp at ht
  | cons y ys ih =>
    cases t with
    | zero => simp [List.countP_cons]; split <;> split <;> omega
    | succ n =>
      simp at ht
      have := ih n ht
      simp [List.countP_cons]; omega

theorem countP_wakeAll (p : Th → Bool) (hp : ∀ th, p { th with woken := true } = p th) (ths : List Th) (wk : List Nat) :
    (wakeAll ths wk).countP p = ths.countP p := by
  unfold wakeAll
  suffices ∀ (k : Nat) (l : List Th), ((l.mapIdx fun i t => if wk.contains (i + k) = true then { t with woken := true } else t).countP p) = l.countP p by
    simpa using this 0 ths
  intro k l
  induction l generalizing k with
  | nil => simp
  | cons y ys ih =>
    simp only [List.mapIdx_cons, List.countP_cons]
    have := ih (k + 1)
    simp only [Nat.add_assoc, Nat.add_comm 1 k] at this ⊢
    rw [← this]
    simp; split <;> simp [hp]

theorem thAt_eq (s : CS) (t : Nat) (th : Th) (h : s.ths[t]? = some th) : s.thAt t = th ∧ t < s.ths.length := by
  constructor
  · simp [CS.thAt, h]
  · rcases List.getElem?_eq_some_iff.mp h with ⟨h1, _⟩; exact h1

theorem wakeAll_getD (ths : List Th) (wk : List Nat) (u : Nat) :
    ((wakeAll ths wk)[u]?).getD idle =
      if u < ths.length ∧ wk.contains u = true then { (ths[u]?).getD idle with woken := true } else (ths[u]?).getD idle := by
  simp only [wakeAll, List.getElem?_mapIdx]
  by_cases hu : u < ths.length
  · simp [hu]
  · simp [hu]

theorem wakeAll_length (ths : List Th) (wk : List Nat) : (wakeAll ths wk).length = ths.length := by simp [wakeAll]

theorem holdsClone_woken (th : Th) : Th.holdsClone { th with woken := true } = Th.holdsClone th := rfl
theorem extraState_woken (th : Th) : Th.extraState { th with woken := true } = Th.extraState th := rfl

set_option maxHeartbeats 4000000 in
theorem winv_adv (s s' : CS) (t : Nat) (hi : WInv s) (h : s.adv t = some s') : WInv s' := by
  unfold CS.adv at h
  cases hth : s.ths[t]? with
  | none => simp [hth] at h
  | some th =>
    obtain ⟨hthe, ht⟩ := thAt_eq s t th hth
    have hget : s.ths[t] = th := by
      rcases List.getElem?_eq_some_iff.mp hth with ⟨_, h2⟩; exact h2
    simp only [hth] at h
    obtain ⟨h1, h2, h3, h4, h5, h6, h7, hat, h9, h10, h13, h11, h12, h14⟩ := hi
    have g1 := h1 t; have g3 := h3 t; have g4 := h4 t
    rw [hthe] at g1 g3 g4
    have c1 := fun x => countP_set Th.holdsClone s.ths t x ht
    have c2 := fun x => countP_set Th.extraState s.ths t x ht
    have c3 := fun x => countP_set Th.holdsClone (wakeAll s.ths s.wakers) t x (by simpa [wakeAll] using ht)
    have c4 := fun x => countP_set Th.extraState (wakeAll s.ths s.wakers) t x (by simpa [wakeAll] using ht)
    have c5 := countP_wakeAll Th.holdsClone holdsClone_woken s.ths s.wakers
    have c6 := countP_wakeAll Th.extraState extraState_woken s.ths s.wakers
    rw [hget] at c1 c2
    have w1 := wakeAll_getD s.ths s.wakers
    have w2 := wakeAll_length s.ths s.wakers
    split at h <;> (try (split at h)) <;> (try (split at h)) <;> simp only [Option.some.injEq, reduceCtorEq] at h <;> (try subst h)
    all_goals (try simp only [Bool.or_eq_true, not_or, Bool.not_eq_true, Option.isSome_eq_false_iff, Option.isNone_iff_eq_none,
      Bool.not_eq_eq_eq_not, Bool.not_true, Bool.not_eq_false, List.isEmpty_iff] at *)
    all_goals (
      constructor <;> (try intro u) <;>
      simp only [CS.thAt, List.getElem?_set, List.length_set, List.mem_cons, List.nodup_cons] at * <;>
      (first
        | grind [Pc.holdsRead, Pc.holdsWrite, Pc.holdsMeta, Th.parked, Th.holdsClone, Th.closing, Th.extraState, idle]
        | (by_cases hu : t = u <;> grind [Pc.holdsRead, Pc.holdsWrite, Pc.holdsMeta, Th.parked, Th.holdsClone, Th.closing, Th.extraState, idle])))
end EV
