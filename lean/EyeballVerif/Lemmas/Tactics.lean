/- Proof automation shared by the adapter proofs: list equalities by extensionality + `grind`. -/
namespace EV

/-- prove `l₁ = l₂` pointwise: `l₁[j]? = l₂[j]?` after normalising the standard list operations -/
macro "list_eq" : tactic => `(tactic| (
  apply List.ext_getElem?; intro j
  simp only [List.getElem?_append, List.getElem?_take, List.getElem?_drop, List.length_take, List.length_drop,
    List.getElem?_cons, List.getElem?_dropLast, List.length_dropLast, List.getElem?_tail, List.length_tail, List.getElem?_set,
    List.getElem?_eraseIdx, List.length_eraseIdx, List.length_append, List.length_cons, List.length_nil, List.getElem?_nil,
    List.length_set, List.getElem?_reverse', List.length_reverse, List.getElem?_map, List.length_map, List.getElem?_replicate,
    List.length_replicate]
  grind))

/-- close a goal that is a conjunction of arithmetic side conditions and list equalities -/
macro "fin" : tactic => `(tactic| (
  (try simp only [List.isEmpty_iff, ← List.length_eq_zero_iff, ne_eq] at *)
  (repeat' apply And.intro) <;> first | omega | list_eq | grind))

end EV
