/-
  Helper lemmas for the Filter bookkeeping: `idxFrom` (source indices of the passing items) and `ppoint`
  (`VecDeque::partition_point`).
-/
import EyeballVerif.Lemmas.AdapterBasics
namespace EV
open Filter

theorem idxFrom_append {α β} (f : α → Option β) (k : Nat) (a b : List α) :
    idxFrom f k (a ++ b) = idxFrom f k a ++ idxFrom f (k + a.length) b := by
  induction a generalizing k with
  | nil => simp [idxFrom]
  | cons x xs ih =>
    simp only [List.cons_append, idxFrom, List.length_cons]
    split <;> simp [ih, Nat.add_assoc, Nat.add_comm 1]

theorem idxFrom_succ {α β} (f : α → Option β) (k : Nat) (l : List α) :
    idxFrom f (k + 1) l = (idxFrom f k l).map (· + 1) := by
  induction l generalizing k with
  | nil => simp [idxFrom]
  | cons x xs ih => simp only [idxFrom]; split <;> simp [ih]

theorem idxFrom_pred {α β} (f : α → Option β) (k : Nat) (l : List α) :
    (idxFrom f (k + 1) l).map (· - 1) = idxFrom f k l := by
  rw [idxFrom_succ]; simp [List.map_map, Function.comp_def]

theorem idxFrom_bounds {α β} (f : α → Option β) (k : Nat) (l : List α) :
    ∀ i ∈ idxFrom f k l, k ≤ i ∧ i < k + l.length := by
  induction l generalizing k with
  | nil => simp [idxFrom]
  | cons x xs ih =>
    intro i hi
    simp only [idxFrom] at hi
    split at hi
    · simp at hi; rcases hi with rfl | h
      · simp
      · have := ih (k + 1) i h; simp; omega
    · have := ih (k + 1) i hi; simp; omega

theorem idxFrom_length {α β} (f : α → Option β) (k : Nat) (l : List α) :
    (idxFrom f k l).length = (l.filterMap f).length := by
  induction l generalizing k with
  | nil => simp [idxFrom]
  | cons x xs ih =>
    simp only [idxFrom, List.filterMap_cons]
    cases h : f x <;> simp [ih]

theorem takeWhile_all {l : List Nat} {n : Nat} (h : ∀ x ∈ l, x < n) : l.takeWhile (· < n) = l := by
  induction l with
  | nil => rfl
  | cons x xs ih => simp_all

theorem takeWhile_none {l : List Nat} {n : Nat} (h : ∀ x ∈ l, n ≤ x) : l.takeWhile (· < n) = [] := by
  cases l with
  | nil => rfl
  | cons x xs =>
    have := h x (by simp)
    have h2 : ¬ x < n := by omega
    simp [List.takeWhile_cons, h2]

/-- partition point of a list that splits into a part below `n` and a part at or above `n` -/
theorem ppoint_split (a b : List Nat) (n : Nat) (ha : ∀ x ∈ a, x < n) (hb : ∀ x ∈ b, n ≤ x) :
    ppoint (a ++ b) n = a.length := by
  unfold ppoint
  rw [List.takeWhile_append_of_pos (by simpa using ha), takeWhile_none hb]
  simp

theorem takeWhile_split (a b : List Nat) (n : Nat) (ha : ∀ x ∈ a, x < n) (hb : ∀ x ∈ b, n ≤ x) :
    (a ++ b).takeWhile (· < n) = a := by
  rw [List.takeWhile_append_of_pos (by simpa using ha), takeWhile_none hb]
  simp

end EV
