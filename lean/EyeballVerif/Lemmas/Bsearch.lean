/-
  imbl's `binary_search_by` loop (as modelled in `Srt.bsLoop` / `Srt.bsearch`) meets its specification on a
  list that is ordered with respect to the probe (`lt* eq* gt*`).
-/
import EyeballVerif.Model.Adapters
namespace EV
open Srt

/-- `l` is ordered w.r.t. the probe `f`: once `gt` always `gt`; before an `lt` only `lt` -/
def Mono {α} (f : α → Ordering) (l : List α) : Prop :=
  ∀ i j, i ≤ j → j < l.length → (probe l f i = .gt → probe l f j = .gt) ∧ (probe l f j = .lt → probe l f i = .lt)

theorem bsLoop_spec {α} (f : α → Ordering) (l : List α) (hm : Mono f l)
    (size base : Nat) (hs : 0 < size) (hb : base + size ≤ l.length)
    (h1 : base = 0 ∨ probe l f base ≠ .gt) (h2 : ∀ j, base + size ≤ j → j < l.length → probe l f j = .gt) :
    let r := bsLoop f l size base
    r < l.length ∧ (r = 0 ∨ probe l f r ≠ .gt) ∧ (∀ j, r + 1 ≤ j → j < l.length → probe l f j = .gt) := by
  induction size using Nat.strongRecOn generalizing base with
  | _ size ih =>
    unfold bsLoop
    by_cases h : size ≤ 1
    · have : size = 1 := by omega
      subst this
      simp only [h, if_true]
      exact ⟨by omega, h1, fun j hj hl => h2 j (by omega) hl⟩
    · simp only [h, if_false]
      by_cases hg : probe l f (base + size / 2) = .gt
      · simp only [hg, if_true]
        apply ih (size - size / 2) (by omega) base (by omega) (by omega) h1
        intro j hj hl
        by_cases hjj : base + size ≤ j
        · exact h2 j hjj hl
        · exact (hm (base + size / 2) j (by omega) hl).1 hg
      · simp only [hg, if_false]
        apply ih (size - size / 2) (by omega) (base + size / 2) (by omega) (by omega) (Or.inr hg)
        intro j hj hl
        exact h2 j (by omega) hl

/-- the index returned by `binary_search_by` splits the list: nothing `gt` before it, nothing `lt` from it on -/
theorem bsearch_spec {α} (f : α → Ordering) (l : List α) (hm : Mono f l) :
    let i := (bsearch f l).2
    i ≤ l.length ∧ (∀ j, j < i → probe l f j ≠ .gt) ∧ (∀ j, i ≤ j → j < l.length → probe l f j ≠ .lt) := by
  unfold bsearch
  by_cases h0 : l.length = 0
  · simp [h0]
  · simp only [h0, if_false]
    have hs := bsLoop_spec f l hm l.length 0 (by omega) (by omega) (Or.inl rfl) (by intro j hj hl; omega)
    simp only at hs
    obtain ⟨hr, hr1, hr2⟩ := hs
    generalize bsLoop f l l.length 0 = r at *
    cases hf : probe l f r <;> simp only
    · refine ⟨by omega, ?_, ?_⟩
      · intro j hj hgt
        have := (hm j r (by omega) hr).1 hgt; simp_all
      · intro j hj hl; have := hr2 j hj hl; simp_all
    · refine ⟨by omega, ?_, ?_⟩
      · intro j hj hgt
        have := (hm j r (by omega) hr).1 hgt; simp_all
      · intro j hj hl hlt
        have := (hm r j hj hl).2 hlt; simp_all
    · have : r = 0 := by rcases hr1 with h | h <;> simp_all
      subst this
      refine ⟨by omega, by intro j hj; omega, ?_⟩
      intro j hj hl hlt
      have := (hm 0 j (by omega) hl).1 hf; simp_all

end EV
