/-
  Initial states and runs of the lock-level model satisfy `WInv`.
-/
import EyeballVerif.Lemmas.ConcInv
namespace EV

def COp.needsClone : COp → Bool
  | .set _ | .get | .dropClone | .sne _ | .update _ => true
  | _ => false

theorem init_thAt (v c n : Nat) (ops : List (COp × Bool)) (t : Nat) (ht : t < ops.length) :
    ∃ op fresh, ops[t]? = some (op, fresh) ∧
      (CS.init true v c n ops).thAt t = { op, pc := .start, observed := if fresh then 0 else 1, woken := false, res := .none } := by
  have : ops[t]? = some ops[t] := by simp [ht]
  refine ⟨ops[t].1, ops[t].2, by simp [this], ?_⟩
  simp [CS.thAt, CS.init, List.getElem?_map, this]

theorem countP_init_holds (ops : List (COp × Bool)) :
    (ops.map fun (p : COp × Bool) => ({ op := p.1, pc := .start, observed := if p.2 then 0 else 1, woken := false, res := .none } : Th)).countP Th.holdsClone
      = (ops.filter fun p => p.1.needsClone).length := by
  induction ops with
  | nil => rfl
  | cons p ps ih =>
    obtain ⟨op, fresh⟩ := p
    simp only [List.map_cons, List.countP_cons, List.filter_cons, ih]
    cases op <;> simp [Th.holdsClone, COp.needsClone]

theorem countP_init_extra (ops : List (COp × Bool)) :
    (ops.map fun (p : COp × Bool) => ({ op := p.1, pc := .start, observed := if p.2 then 0 else 1, woken := false, res := .none } : Th)).countP Th.extraState = 0 := by
  induction ops with
  | nil => rfl
  | cons p ps ih =>
    obtain ⟨op, fresh⟩ := p
    simp only [List.map_cons, List.countP_cons, ih]
    cases op <;> simp [Th.extraState]

/-- the initial state satisfies the invariant, provided every thread whose call needs a clone has one -/
theorem winv_init (v c n : Nat) (ops : List (COp × Bool)) (hc : 1 ≤ c)
    (hh : (ops.filter fun p => p.1.needsClone).length ≤ c) : WInv (CS.init true v c n ops) := by
  have hlen : (CS.init true v c n ops).ths.length = ops.length := by simp [CS.init]
  have hstart : ∀ t, t < ops.length → ((CS.init true v c n ops).thAt t).pc = .start ∧ ((CS.init true v c n ops).thAt t).woken = false := by
    intro t ht
    obtain ⟨op, fresh, _, h2⟩ := init_thAt v c n ops t ht
    rw [h2]; exact ⟨rfl, rfl⟩
  constructor
  · intro t; rw [hlen]
    constructor
    · intro h; simp [CS.init] at h
    · rintro ⟨h1, h2⟩; rw [(hstart t h1).1] at h2; simp [Pc.holdsRead] at h2
  · simp [CS.init]
  · intro t; rw [hlen]
    constructor
    · intro h; simp [CS.init] at h
    · rintro ⟨h1, h2⟩; rw [(hstart t h1).1] at h2; simp [Pc.holdsWrite] at h2
  · intro t; rw [hlen]
    constructor
    · intro h; simp [CS.init] at h
    · rintro ⟨h1, h2⟩; rw [(hstart t h1).1] at h2; simp [Pc.holdsMeta] at h2
  · simp [CS.init]
  · simp [CS.init]
  · intro t ht hp
    rw [hlen] at ht
    have := hstart t ht
    simp [Th.parked, this.1] at hp
  · rfl
  · intro h; simp [CS.init] at h
  · intro h; simp [CS.init] at h; omega
  · intro t ht hcl
    rw [hlen] at ht
    have := hstart t ht
    simp [Th.closing, this.1] at hcl
  · simp only [CS.init]; rw [countP_init_holds]; exact hh
  · simp only [CS.init]; rw [countP_init_extra]; omega
  · intro t ht _
    rw [hlen] at ht
    obtain ⟨op, fresh, _, h2⟩ := init_thAt v c n ops t ht
    rw [h2]; simp only [CS.init]; split <;> omega

/-- runs: any schedule (sequence of thread ids; a step that is not enabled is skipped — the thread is blocked) -/
def CS.run (s : CS) (sched : List Nat) : CS :=
  sched.foldl (fun s t => (s.adv t).getD s) s

theorem winv_run (s : CS) (hi : WInv s) (sched : List Nat) : WInv (s.run sched) := by
  unfold CS.run
  induction sched generalizing s with
  | nil => exact hi
  | cons t ts ih =>
    simp only [List.foldl_cons]
    apply ih
    cases h : s.adv t with
    | none => simpa using hi
    | some s' => simpa using winv_adv s s' t hi h

end EV
