/- Small list lemmas missing from core. -/
namespace EV

theorem map_eraseIdx {α β} (f : α → β) (l : List α) (i : Nat) :
    (l.map f).eraseIdx i = (l.eraseIdx i).map f := by
  simp [List.eraseIdx_eq_take_drop_succ, List.map_take, List.map_drop]

end EV
