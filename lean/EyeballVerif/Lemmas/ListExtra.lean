/- Small list lemmas missing from core. -/
import EyeballVerif.Lemmas.Tactics
namespace EV

theorem map_eraseIdx {α β} (f : α → β) (l : List α) (i : Nat) :
    (l.map f).eraseIdx i = (l.eraseIdx i).map f := by
  simp [List.eraseIdx_eq_take_drop_succ, List.map_take, List.map_drop]

theorem take_eraseIdx_push {α} (v : List α) (i L : Nat) (x : α) (hL : L ≠ 0) (hi : i < L) (hiv : i < v.length)
    (hx : (v.eraseIdx i)[L - 1]? = some x) : (v.take L).eraseIdx i ++ [x] = (v.eraseIdx i).take L := by
  have hlen : L - 1 < (v.eraseIdx i).length := by
    rcases List.getElem?_eq_some_iff.mp hx with ⟨h1, _⟩; exact h1
  rw [List.length_eraseIdx] at hlen
  simp only [hiv, if_true] at hlen
  rw [List.getElem?_eraseIdx] at hx
  apply List.ext_getElem?; intro j
  simp only [List.getElem?_append, List.getElem?_take, List.getElem?_eraseIdx, List.length_eraseIdx, List.length_take,
    List.getElem?_cons, List.getElem?_nil]
  by_cases hj : j = L - 1
  · subst hj
    have : L - 1 + 1 = L := by omega
    grind
  · grind

theorem drop_eraseIdx_push {α} (v : List α) (i L : Nat) (x : α) (hi : i ≥ v.length - L) (hiv : i < v.length)
    (h0 : v.length - L ≠ 0)
    (hx : (v.eraseIdx i)[v.length - L - 1]? = some x) :
    x :: (v.drop (v.length - L)).eraseIdx (i - (v.length - L)) = (v.eraseIdx i).drop ((v.eraseIdx i).length - L) := by
  rw [List.getElem?_eraseIdx] at hx
  have hlen : (v.eraseIdx i).length = v.length - 1 := by rw [List.length_eraseIdx]; simp [hiv]
  rw [hlen]
  apply List.ext_getElem?; intro j
  simp only [List.getElem?_cons, List.getElem?_drop, List.getElem?_eraseIdx]
  by_cases hj : j = 0
  · subst hj
    have e : v.length - 1 - L + 0 = v.length - L - 1 := by omega
    simp only [e, if_true]
    grind
  · grind

end EV
