/-
  The stream invariant at the granularity of single receive operations (`Model/OVecStep`): `StInv` = the stream
  invariant `VInv` of the underlying world (with the ghost replica following the cursor) + one clause per phase of a
  receiver that is inside a `poll_next`. Preserved by every receive operation (`sinv_micro`) and by every other event
  happening in between (`sinv_ev`), hence along every interleaving (`sinv_run`).
-/
import EyeballVerif.Model.OVecStep
import EyeballVerif.Lemmas.StreamInv
namespace EV

/-! ### the receive operation -/

theorem tryRecv_cases {α} (B : Nat) (log : List (Msg α)) (c : Bool) (n : Nat) (hn : n ≤ log.length) :
    (∃ m, tryRecv B log c n = (.ok m, n + 1) ∧ log[n]? = some m ∧ n < log.length ∧ ¬ n + B < log.length) ∨
    (tryRecv B log c n = (.lagged, log.length - B) ∧ n + B < log.length) ∨
    (tryRecv B log c n = (.empty, n) ∧ c = false ∧ n = log.length) ∨
    (tryRecv B log c n = (.closed, n) ∧ c = true ∧ n = log.length) := by
  unfold tryRecv
  by_cases hl : n + B < log.length
  · simp [hl]
  · simp only [hl, if_false]
    by_cases hlt : n < log.length
    · have : log[n]? = some log[n] := by simp [hlt]
      exact Or.inl ⟨log[n], by simp [this], this, hlt, by simp⟩
    · have hn' : n = log.length := by omega
      have : log[n]? = none := by simp [hn']
      cases c <;> simp [this, hn']

theorem flat_split {α} (log : List (Msg α)) (a b : Nat) (hab : a ≤ b) :
    (log.drop a).flatMap (·.diffs) = skipped log a b ++ (log.drop b).flatMap (·.diffs) := by
  unfold skipped
  rw [← List.flatMap_append]
  congr 1
  have : log.drop b = (log.drop a).drop (b - a) := by
    rw [List.drop_drop]; congr 1; omega
  rw [this, List.take_append_drop]

theorem skipped_one {α} (log : List (Msg α)) (n : Nat) (m : Msg α) (h : log[n]? = some m) : skipped log n (n + 1) = m.diffs := by
  have hlt : n < log.length := by
    rcases List.getElem?_eq_some_iff.mp h with ⟨g, _⟩; exact g
  have hm : log[n] = m := by
    rcases List.getElem?_eq_some_iff.mp h with ⟨_, g⟩; exact g
  unfold skipped
  rw [List.drop_eq_getElem_cons hlt]
  simp [hm]

theorem skipped_snoc {α} (log : List (Msg α)) (a n : Nat) (m : Msg α) (han : a ≤ n) (h : log[n]? = some m) :
    skipped log a (n + 1) = skipped log a n ++ m.diffs := by
  have hlt : n < log.length := by
    rcases List.getElem?_eq_some_iff.mp h with ⟨g, _⟩; exact g
  have hm : log[n] = m := by
    rcases List.getElem?_eq_some_iff.mp h with ⟨_, g⟩; exact g
  unfold skipped
  have e1 : n + 1 - a = (n - a) + 1 := by omega
  have hlt' : n - a < (log.drop a).length := by simp; omega
  rw [e1, List.take_succ_eq_append_getElem hlt', List.flatMap_append]
  have : (log.drop a)[n - a] = m := by
    simp only [List.getElem_drop]
    have : a + (n - a) = n := by omega
    simp [this, hm]
  simp [this]

/-- what lies between two cursor positions does not change when the log grows -/
theorem skipped_append {α} (log t : List (Msg α)) (a b : Nat) (hb : b ≤ log.length) : skipped (log ++ t) a b = skipped log a b := by
  unfold skipped
  congr 1
  by_cases hab : a ≤ b
  · rw [List.drop_append_of_le_length (by omega), List.take_append_of_le_length (by simp; omega)]
  · have : b - a = 0 := by omega
    simp [this]

/-- moving the cursor from `a` to `b` with the passed messages replayed on the replica keeps "replica + owed = contents" -/
theorem recv_advance {α} (log : List (Msg α)) (pre : List (Diff α)) (rep v : List α) (a b : Nat) (hab : a ≤ b)
    (h : applyAll (pre ++ (log.drop a).flatMap (·.diffs)) rep = some v) :
    ∃ mid, applyAll (pre ++ skipped log a b) rep = some mid ∧ applyAll ((log.drop b).flatMap (·.diffs)) mid = some v := by
  rw [flat_split log a b hab, ← List.append_assoc, applyAll_append] at h
  cases hx : applyAll (pre ++ skipped log a b) rep with
  | none => simp [hx] at h
  | some mid => exact ⟨mid, rfl, by simpa [hx] using h⟩

/-- replacing one live receiver by one that is further on and still satisfies its clause keeps the invariant -/
theorem vinv_set_sub {α} (s : OV α) (hi : VInv s) (i : Nat) (r r' : Sub α) (hs : s.subs[i]? = some r) (ha : r.alive = true)
    (f1 : r'.alive = true) (f4 : r.next ≤ r'.next) (f5 : r'.next ≤ s.log.length) (fb : r'.batched = true → r'.rest = [])
    (hrep : ∃ rep, r'.replica = some rep ∧ applyAll (owed s.log r') rep = some s.vals) :
    VInv { s with subs := s.subs.set i r' } := by
  obtain ⟨h1, h2, h3, h4, h4n, h5, h6⟩ := hi
  have hil : i < s.subs.length := by
    rcases List.getElem?_eq_some_iff.mp hs with ⟨g, _⟩; exact g
  refine ⟨h1, h2, h3, ?_, h4n, ?_, ?_⟩
  · intro t ht hrx
    apply h4 t ht
    simp only [OV.rxCount] at hrx ⊢
    rw [filter_length_set (fun x : Sub α => x.alive) s.subs i r _ hs (by simp [f1, ha])] at hrx
    exact hrx
  · intro j rj hj haj
    simp only [List.getElem?_set] at hj
    by_cases hij : i = j
    · subst hij
      simp [hil] at hj; subst hj
      exact ⟨fb, f5, hrep⟩
    · simp only [hij, if_false] at hj
      exact h5 j rj hj haj
  · intro j rj hj haj hlt
    simp only [List.getElem?_set] at hj
    by_cases hij : i = j
    · subst hij
      simp [hil] at hj; subst hj
      exact h6 i r hs ha (by simp at hlt; omega)
    · simp only [hij, if_false] at hj
      exact h6 j rj hj haj hlt

/-! ### the invariant -/

/-- what is known about a receiver in phase `p` -/
def PhOK {α} (p : Phase α) (r : Sub α) (log : List (Msg α)) (vals : List α) : Prop :=
  match p with
  | .idle => True
  | .drain acc shown =>
    r.batched = true ∧ acc ≠ [] ∧ (∃ sh rep, shown = some sh ∧ r.replica = some rep ∧ applyAll acc sh = some rep) ∧
      -- the batch consists of WHOLE messages: everything between the cursor position at which the poll started and now
      ∃ a, a ≤ r.next ∧ acc = skipped log a r.next
  | .lag none => r.rest = [] ∧ r.next < log.length
  | .lag (some m) => r.rest = [] ∧ (r.next = log.length → m.state = vals)

structure StInv {α} (s : SOV α) : Prop where
  base : VInv s.ov
  phase : ∀ (i : Nat) (r : Sub α), s.ov.subs[i]? = some r → r.alive = true → PhOK (s.ph i) r s.ov.log s.ov.vals
  fresh : ∀ i, s.ov.subs.length ≤ i → s.ph i = .idle

theorem sinv_init {α} (c : Nat) (hc : c ≤ 2 ^ 64) : StInv (SOV.init (α := α) c) :=
  ⟨vinv_new c hc, by intro i r h; simp [SOV.init, OV.new] at h, by intro i _; rfl⟩

theorem sinv_put {α} (s : SOV α) (hi : StInv s) (i : Nat) (r r' : Sub α) (p : Phase α) (hs : s.ov.subs[i]? = some r)
    (ha : r.alive = true) (f1 : r'.alive = true) (f4 : r.next ≤ r'.next) (f5 : r'.next ≤ s.ov.log.length)
    (fb : r'.batched = true → r'.rest = [])
    (hrep : ∃ rep, r'.replica = some rep ∧ applyAll (owed s.ov.log r') rep = some s.ov.vals)
    (hp : PhOK p r' s.ov.log s.ov.vals) : StInv (s.put i r' p) := by
  have hil : i < s.ov.subs.length := by
    rcases List.getElem?_eq_some_iff.mp hs with ⟨g, _⟩; exact g
  refine ⟨vinv_set_sub s.ov hi.base i r r' hs ha f1 f4 f5 fb hrep, ?_, ?_⟩
  · intro j rj hj haj
    simp only [SOV.put, List.getElem?_set] at hj
    by_cases hij : i = j
    · subst hij
      simp [hil] at hj; subst hj
      simpa [SOV.put, updPh] using hp
    · simp only [hij, if_false] at hj
      have hji : ¬ j = i := fun e => hij e.symm
      simpa [SOV.put, updPh, hji] using hi.phase j rj hj haj
  · intro j hj
    simp only [SOV.put, List.length_set] at hj
    have hji : ¬ j = i := by omega
    simpa [SOV.put, updPh, hji] using hi.fresh j hj

theorem applyAll_split {α} (a b : List (Diff α)) (rep v : List α) (h : applyAll (a ++ b) rep = some v) :
    ∃ mid, applyAll a rep = some mid ∧ applyAll b mid = some v := by
  rw [applyAll_append] at h
  cases hx : applyAll a rep with
  | none => simp [hx] at h
  | some mid => exact ⟨mid, rfl, by simpa [hx] using h⟩

/-- passing message `m` at the cursor -/
theorem adv_ok {α} (log : List (Msg α)) (rep v : List α) (n : Nat) (m : Msg α) (hm : log[n]? = some m)
    (h : applyAll ((log.drop n).flatMap (·.diffs)) rep = some v) :
    ∃ mid, applyAll m.diffs rep = some mid ∧ applyAll ((log.drop (n + 1)).flatMap (·.diffs)) mid = some v := by
  have := recv_advance log [] rep v n (n + 1) (by omega) (by simpa using h)
  simpa [skipped_one log n m hm] using this

/-- jumping over the messages lost by lagging -/
theorem adv_lag {α} (log : List (Msg α)) (rep v : List α) (a b : Nat) (hab : a ≤ b)
    (h : applyAll ((log.drop a).flatMap (·.diffs)) rep = some v) :
    ∃ mid, applyAll (skipped log a b) rep = some mid ∧ applyAll ((log.drop b).flatMap (·.diffs)) mid = some v := by
  simpa using recv_advance log [] rep v a b hab (by simpa using h)

theorem last_of_index {α} (log : List (Msg α)) (n : Nat) (m : Msg α) (hm : log[n]? = some m) (hn : n + 1 = log.length) :
    log.getLast? = some m := by
  rw [List.getLast?_eq_getElem?]
  have : log.length - 1 = n := by omega
  rw [this]; exact hm

/-- **Every receive operation keeps the invariant** — whatever happened since the previous one. -/
theorem sinv_micro {α} (s s' : SOV α) (i : Nat) (k : RK) (it : Option (Item α)) (hi : StInv s)
    (h : s.micro i = some (k, it, s')) : StInv s' := by
  unfold SOV.micro at h
  cases hs : s.ov.subs[i]? with
  | none => simp [hs] at h
  | some r =>
    simp only [hs] at h
    cases ha : r.alive with
    | false => simp [ha] at h
    | true =>
      simp only [ha, Bool.not_true, Bool.false_eq_true, if_false] at h
      obtain ⟨g1, g2, rep, g3, g4⟩ := hi.base.subs i r hs ha
      have glast := hi.base.last i r hs ha
      have hph := hi.phase i r hs ha
      have hB := hi.base.window
      have hne := hi.base.no_empty
      have hcases := tryRecv_cases s.ov.B s.ov.log (!s.ov.alive) r.next g2
      cases hp : s.ph i with
      | idle =>
        simp only [hp] at h
        cases hr : r.rest with
        | cons d ds =>
          simp only [hr] at h
          simp at h; obtain ⟨-, -, rfl⟩ := h
          simp only [owed, hr] at g4
          obtain ⟨mid, e1, e2⟩ := applyAll_split [d] _ rep _ (by simpa using g4)
          refine sinv_put s hi i r _ _ hs ha (by first | rfl | simp [ha]) (Nat.le_refl _) g2 ?_ ?_ ?_
          · intro hb; have := g1 hb; simp [hr] at this
          · exact ⟨mid, by simp [g3, e1], by simpa [owed] using e2⟩
          · trivial
        | nil =>
          simp only [hr] at h
          simp only [owed, hr, List.nil_append] at g4
          rcases hcases with ⟨m, ht, hm, hlt, hnl⟩ | ⟨ht, hl⟩ | ⟨ht, hc, hn⟩ | ⟨ht, hc, hn⟩
          · rw [ht] at h
            obtain ⟨mid, e1, e2⟩ := adv_ok _ rep _ r.next m hm g4
            cases hb : r.batched with
            | true =>
              simp [hb] at h; obtain ⟨-, -, rfl⟩ := h
              refine sinv_put s hi i r _ _ hs ha (by first | rfl | simp [ha]) (by simp) (by simp; omega) ?_ ?_ ?_
              · intro _; first | exact hr | rfl
              · exact ⟨mid, by simp [g3, e1], by simpa [owed, hr] using e2⟩
              · exact ⟨(by first | exact hb | rfl), hne m (List.mem_of_getElem? hm), ⟨rep, mid, g3, by simp [g3, e1], e1⟩,
                  r.next, by simp, (skipped_one _ _ m hm).symm⟩
            | false =>
              simp only [hb, Bool.false_eq_true, if_false] at h
              cases hmd : m.diffs with
              | nil => exact absurd hmd (hne m (List.mem_of_getElem? hm))
              | cons d ds =>
                simp [hmd] at h; obtain ⟨-, -, rfl⟩ := h
                rw [hmd] at e1
                obtain ⟨mid1, e3, e4⟩ := applyAll_split [d] ds rep mid (by simpa using e1)
                refine sinv_put s hi i r _ _ hs ha (by first | rfl | simp [ha]) (by simp) (by simp; omega) ?_ ?_ ?_
                · intro hb'; simp [hb] at hb'
                · refine ⟨mid1, by simp [g3, e3], ?_⟩
                  simp only [owed]
                  rw [applyAll_append, e4]; simpa using e2
                · trivial
          · rw [ht] at h
            simp at h; obtain ⟨-, -, rfl⟩ := h
            obtain ⟨mid, e1, e2⟩ := adv_lag _ rep _ r.next (s.ov.log.length - s.ov.B) (by omega) g4
            refine sinv_put s hi i r _ _ hs ha (by first | rfl | simp [ha]) (by simp; omega) (by simp) ?_ ?_ ?_
            · intro _; first | exact hr | rfl
            · exact ⟨mid, by simp [g3, e1], by simpa [owed, hr] using e2⟩
            · exact ⟨(by first | exact hr | rfl), by simp; omega⟩
          · rw [ht] at h
            simp at h; obtain ⟨-, -, rfl⟩ := h
            refine sinv_put s hi i r _ _ hs ha (by first | rfl | simp [ha]) (Nat.le_refl _) g2 ?_ ?_ ?_
            · intro _; first | exact hr | rfl
            · exact ⟨rep, g3, by simpa [owed, hr] using g4⟩
            · trivial
          · rw [ht] at h
            simp at h; obtain ⟨-, -, rfl⟩ := h
            refine sinv_put s hi i r _ _ hs ha (by first | rfl | simp [ha]) (Nat.le_refl _) g2 ?_ ?_ ?_
            · intro _; first | exact hr | rfl
            · exact ⟨rep, g3, by simpa [owed, hr] using g4⟩
            · trivial
      | drain acc shown =>
        simp only [hp] at h hph
        obtain ⟨hb, hacc, ⟨sh, rep0, hsh, hrep0, happ⟩, a0, ha0, hwhole⟩ := hph
        have hr : r.rest = [] := g1 hb
        simp only [owed, hr, List.nil_append] at g4
        have hrr : rep0 = rep := by rw [g3] at hrep0; exact (Option.some.inj hrep0).symm
        subst hrr
        rcases hcases with ⟨m, ht, hm, hlt, hnl⟩ | ⟨ht, hl⟩ | ⟨ht, hc, hn⟩ | ⟨ht, hc, hn⟩
        · rw [ht] at h
          simp at h; obtain ⟨-, -, rfl⟩ := h
          obtain ⟨mid, e1, e2⟩ := adv_ok _ rep0 _ r.next m hm g4
          refine sinv_put s hi i r _ _ hs ha (by first | rfl | simp [ha]) (by simp) (by simp; omega) ?_ ?_ ?_
          · intro _; first | exact hr | rfl
          · exact ⟨mid, by simp [g3, e1], by simpa [owed, hr] using e2⟩
          · refine ⟨(by first | exact hb | rfl), by simp [hacc], ⟨sh, mid, hsh, by simp [g3, e1], ?_⟩, a0, by simp; omega, ?_⟩
            · rw [applyAll_append, happ]; simpa using e1
            · rw [hwhole]; exact (skipped_snoc _ a0 r.next m ha0 hm).symm
        · rw [ht] at h
          simp at h; obtain ⟨-, -, rfl⟩ := h
          obtain ⟨mid, e1, e2⟩ := adv_lag _ rep0 _ r.next (s.ov.log.length - s.ov.B) (by omega) g4
          refine sinv_put s hi i r _ _ hs ha (by first | rfl | simp [ha]) (by simp; omega) (by simp) ?_ ?_ ?_
          · intro _; first | exact hr | rfl
          · exact ⟨mid, by simp [g3, e1], by simpa [owed, hr] using e2⟩
          · exact ⟨(by first | exact hr | rfl), by simp; omega⟩
        · rw [ht] at h
          simp at h; obtain ⟨-, -, rfl⟩ := h
          refine sinv_put s hi i r r _ hs ha ha (Nat.le_refl _) g2 g1 ⟨rep0, g3, by simpa [owed, hr] using g4⟩ trivial
        · rw [ht] at h
          simp at h; obtain ⟨-, -, rfl⟩ := h
          refine sinv_put s hi i r r _ hs ha ha (Nat.le_refl _) g2 g1 ⟨rep0, g3, by simpa [owed, hr] using g4⟩ trivial
      | lag msg =>
        simp only [hp] at h hph
        have hr : r.rest = [] := by cases msg <;> exact hph.1
        simp only [owed, hr, List.nil_append] at g4
        rcases hcases with ⟨m, ht, hm, hlt, hnl⟩ | ⟨ht, hl⟩ | ⟨ht, hc, hn⟩ | ⟨ht, hc, hn⟩
        · rw [ht] at h
          simp at h; obtain ⟨-, -, rfl⟩ := h
          obtain ⟨mid, e1, e2⟩ := adv_ok _ rep _ r.next m hm g4
          refine sinv_put s hi i r _ _ hs ha (by first | rfl | simp [ha]) (by simp) (by simp; omega) ?_ ?_ ?_
          · intro _; first | exact hr | rfl
          · exact ⟨mid, by simp [g3, e1], by simpa [owed, hr] using e2⟩
          · refine ⟨(by first | exact hr | rfl), ?_⟩
            intro hend
            have hl := glast hlt
            rw [last_of_index _ r.next m hm (by simpa using hend)] at hl
            simpa using hl
        · rw [ht] at h
          simp at h; obtain ⟨-, -, rfl⟩ := h
          obtain ⟨mid, e1, e2⟩ := adv_lag _ rep _ r.next (s.ov.log.length - s.ov.B) (by omega) g4
          refine sinv_put s hi i r _ _ hs ha (by first | rfl | simp [ha]) (by simp; omega) (by simp) ?_ ?_ ?_
          · intro _; first | exact hr | rfl
          · exact ⟨mid, by simp [g3, e1], by simpa [owed, hr] using e2⟩
          · cases msg with
            | none => exact ⟨(by first | exact hr | rfl), by simp; omega⟩
            | some m0 => exact ⟨(by first | exact hr | rfl), by intro hend; simp at hend; omega⟩
        · -- Empty
          rw [ht] at h
          cases msg with
          | none => exact absurd hph.2 (by omega)
          | some m0 =>
            simp at h; obtain ⟨-, -, rfl⟩ := h
            have hv : m0.state = s.ov.vals := hph.2 hn
            refine sinv_put s hi i r _ _ hs ha (by first | rfl | simp [ha]) (Nat.le_refl _) g2 ?_ ?_ ?_
            · intro _; first | exact hr | rfl
            · refine ⟨m0.state, by simp [g3, applyAll, Diff.applicable, Diff.apply], ?_⟩
              simp [owed, hr, hn, hv]
            · trivial
        · -- Closed
          rw [ht] at h
          cases msg with
          | none => exact absurd hph.2 (by omega)
          | some m0 =>
            simp at h; obtain ⟨-, -, rfl⟩ := h
            have hv : m0.state = s.ov.vals := hph.2 hn
            refine sinv_put s hi i r _ _ hs ha (by first | rfl | simp [ha]) (Nat.le_refl _) g2 ?_ ?_ ?_
            · intro _; first | exact hr | rfl
            · refine ⟨m0.state, by simp [g3, applyAll, Diff.applicable, Diff.apply], ?_⟩
              simp [owed, hr, hn, hv]
            · trivial


/-! ### everything else that can happen between two receive operations -/

/-- `s'` comes after `s` by events other than polls: receivers keep cursor, remainder, replica and flavour (and do not
    come back to life); the log only grows; and for a receiver alive in `s'` either nothing was published and the
    contents are the same, or the log is strictly longer. -/
structure Ext {α} (s s' : OV α) : Prop where
  pre : ∃ t, s'.log = s.log ++ t
  len : s.log.length ≤ s'.log.length
  slen : s.subs.length ≤ s'.subs.length
  subs : ∀ (j : Nat) (r : Sub α), s.subs[j]? = some r →
    ∃ r', s'.subs[j]? = some r' ∧ r'.next = r.next ∧ r'.rest = r.rest ∧ r'.replica = r.replica ∧ r'.batched = r.batched ∧
      (r'.alive = true → r.alive = true)
  same : ∀ (j : Nat) (r' : Sub α), j < s.subs.length → s'.subs[j]? = some r' → r'.alive = true →
    (s'.log = s.log ∧ s'.vals = s.vals) ∨ s.log.length < s'.log.length

theorem ext_refl {α} (s : OV α) : Ext s s :=
  ⟨⟨[], by simp⟩, Nat.le_refl _, Nat.le_refl _, fun j r h => ⟨r, h, rfl, rfl, rfl, rfl, id⟩, fun _ _ _ _ _ => Or.inl ⟨rfl, rfl⟩⟩

theorem ext_trans {α} {a b c : OV α} (h1 : Ext a b) (h2 : Ext b c) : Ext a c := by
  refine ⟨(by obtain ⟨t1, e1⟩ := h1.pre; obtain ⟨t2, e2⟩ := h2.pre; exact ⟨t1 ++ t2, by rw [e2, e1, List.append_assoc]⟩), Nat.le_trans h1.len h2.len, Nat.le_trans h1.slen h2.slen, ?_, ?_⟩
  · intro j r hj
    obtain ⟨r1, e1, f1, f2, f3, f4, f5⟩ := h1.subs j r hj
    obtain ⟨r2, e2, g1, g2, g3, g4, g5⟩ := h2.subs j r1 e1
    exact ⟨r2, e2, g1.trans f1, g2.trans f2, g3.trans f3, g4.trans f4, fun h => f5 (g5 h)⟩
  · intro j r2 hj e2 ha2
    have hjb : j < b.subs.length := Nat.lt_of_lt_of_le hj h1.slen
    have hb : b.subs[j]? = some b.subs[j] := by simp [hjb]
    obtain ⟨r2', e2', _, _, _, _, g5⟩ := h2.subs j _ hb
    have : r2' = r2 := by rw [e2] at e2'; exact (Option.some.inj e2').symm
    subst this
    have hab := h1.same j _ hj hb (g5 ha2)
    have hbc := h2.same j r2' hjb e2 ha2
    have l1 := h1.len
    have l2 := h2.len
    rcases hab with ⟨x1, x2⟩ | x <;> rcases hbc with ⟨y1, y2⟩ | y
    · exact Or.inl ⟨y1.trans x1, y2.trans x2⟩
    · right; rw [x1] at y; exact y
    · right; rw [y1]; exact x
    · right; omega

/-- only the transaction changed -/
theorem ext_of_outside {α} (s s' : OV α) (h : s'.outside = s.outside) : Ext s s' := by
  simp only [OV.outside, Prod.mk.injEq] at h
  obtain ⟨hv, _, _, hl, hsb⟩ := h
  refine ⟨⟨[], by simp [hl]⟩, by rw [hl]; exact Nat.le_refl _, by rw [hsb]; exact Nat.le_refl _, ?_, ?_⟩
  · intro j r hj; exact ⟨r, by rw [hsb]; exact hj, rfl, rfl, rfl, rfl, id⟩
  · intro _ _ _ _ _; exact Or.inl ⟨hl, hv⟩

theorem ext_send {α} (s : OV α) (v' : List α) (m : Msg α) : Ext s (({ s with vals := v' } : OV α).send m).1 := by
  unfold OV.send
  have hrxeq : ({ s with vals := v' } : OV α).rxCount = s.rxCount := rfl
  by_cases hrx : s.rxCount ≠ 0
  · simp only [hrxeq, hrx, ne_eq, not_false_eq_true, if_true]
    refine ⟨⟨[m], by simp [OV.unparkAll]⟩, by simp [OV.unparkAll], by simp [OV.unparkAll], ?_, ?_⟩
    · intro j r hj
      exact ⟨{ r with waiting := false }, by simp [OV.unparkAll, hj], rfl, rfl, rfl, rfl, id⟩
    · intro _ _ _ _ _; right; simp [OV.unparkAll]
  · have hrx0 : s.rxCount = 0 := by simpa using hrx
    simp only [hrxeq, hrx0, ne_eq, not_true_eq_false, if_false]
    refine ⟨⟨[], by simp⟩, Nat.le_refl _, Nat.le_refl _, fun j r hj => ⟨r, hj, rfl, rfl, rfl, rfl, id⟩, ?_⟩
    intro j r' _ hj ha
    exact absurd hrx0 (rx_of_alive s j r' hj ha)

theorem ext_direct {α} (s s' : OV α) (op : VOp α) (ret : Ret α) (w : List Nat) (h : s.direct op = some (s', ret, w)) :
    Ext s s' := by
  unfold OV.direct at h
  cases he : op.exec s.vals with
  | none => simp [he] at h
  | some r =>
    simp only [he] at h
    cases hd : r.diff with
    | none =>
      simp [hd] at h; obtain ⟨rfl, _, _⟩ := h
      have := (c05_exec_faithful op s.vals r he).2.1 hd
      refine ⟨⟨[], by simp⟩, Nat.le_refl _, Nat.le_refl _, fun j r hj => ⟨r, hj, rfl, rfl, rfl, rfl, id⟩, ?_⟩
      intro _ _ _ _ _; exact Or.inl ⟨rfl, this⟩
    | some d =>
      simp [hd] at h; obtain ⟨rfl, _, _⟩ := h
      exact ext_send s r.vals _


theorem ext_forEach {α} (s : OV α) (decs : List (Dec α)) : Ext s (s.forEach decs).1.1 := by
  unfold OV.forEach
  exact forEachLoop_preserves (fun st : OV α × List Nat => st.1.vals)
    (fun st i v => (match st.1.direct (.set i v) with | some (s', _, w) => (s', st.2 ++ w) | none => st))
    (fun st i => (match st.1.direct (.remove i) with | some (s', _, w) => (s', st.2 ++ w) | none => st))
    (fun st => Ext s st.1)
    (by
      intro st i v h1
      cases hd : st.1.direct (.set i v) with
      | none => exact h1
      | some p => obtain ⟨s', r, w⟩ := p; exact ext_trans h1 (ext_direct st.1 s' _ r w hd))
    (by
      intro st i h1
      cases hd : st.1.direct (.remove i) with
      | none => exact h1
      | some p => obtain ⟨s', r, w⟩ := p; exact ext_trans h1 (ext_direct st.1 s' _ r w hd))
    s.vals.length 0 decs (s, []) [] (ext_refl s)

theorem ext_subscribe {α} (s : OV α) (b : Bool) : Ext s (s.subscribe b).1 := by
  refine ⟨⟨[], by simp [OV.subscribe]⟩, Nat.le_refl _, by simp [OV.subscribe], ?_, ?_⟩
  · intro j r hj
    have hjl : j < s.subs.length := by
      rcases List.getElem?_eq_some_iff.mp hj with ⟨g, _⟩; exact g
    exact ⟨r, by simp [OV.subscribe, List.getElem?_append_left hjl, hj], rfl, rfl, rfl, rfl, id⟩
  · intro _ _ _ _ _; exact Or.inl ⟨rfl, rfl⟩

theorem ext_dropSub {α} (s : OV α) (i : Nat) : Ext s (s.dropSub i) := by
  refine ⟨⟨[], by simp [OV.dropSub]⟩, Nat.le_refl _, by simp [OV.dropSub], ?_, ?_⟩
  · intro j r hj
    by_cases hij : i = j
    · subst hij
      exact ⟨{ r with alive := false, waiting := false }, by simp [OV.dropSub, List.getElem?_modify, hj], rfl, rfl, rfl, rfl,
        by intro h; simp at h⟩
    · exact ⟨r, by simp [OV.dropSub, List.getElem?_modify, hij, hj], rfl, rfl, rfl, rfl, id⟩
  · intro _ _ _ _ _; exact Or.inl ⟨rfl, rfl⟩

theorem ext_dropVec {α} (s : OV α) : Ext s s.dropVec.1 := by
  refine ⟨⟨[], by simp [OV.dropVec, OV.unparkAll]⟩, Nat.le_refl _, by simp [OV.dropVec, OV.unparkAll], ?_, ?_⟩
  · intro j r hj
    exact ⟨{ r with waiting := false }, by simp [OV.dropVec, OV.unparkAll, hj], rfl, rfl, rfl, rfl, id⟩
  · intro _ _ _ _ _; exact Or.inl ⟨rfl, rfl⟩

theorem ext_txnCommit {α} (s : OV α) (hi : VInv s) : Ext s s.txnCommit.1 := by
  unfold OV.txnCommit
  cases ht : s.txn with
  | none => exact ext_refl s
  | some t =>
    simp only
    by_cases hb : t.batch.isEmpty = true
    · simp only [hb, if_true]
      refine ⟨⟨[], by simp⟩, Nat.le_refl _, Nat.le_refl _, fun j r hj => ⟨r, hj, rfl, rfl, rfl, rfl, id⟩, ?_⟩
      intro j r' _ hj ha
      have hrx := rx_of_alive s j r' hj ha
      have := hi.txn t ht hrx
      have hbe : t.batch = [] := by simpa using hb
      rw [hbe] at this
      simp at this
      exact Or.inl ⟨rfl, this.symm⟩
    · simp only [hb]
      have := ext_send { s with txn := none } t.working { diffs := t.batch, many := true, state := t.working }
      refine ⟨this.pre, this.len, this.slen, this.subs, this.same⟩


/-- every event other than a poll extends the world -/
theorem ext_vstep {α} (s : OV α) (e : VEv α) (hi : VInv s) (hne : ∀ i, e ≠ .poll i) : Ext s (s.vstep e) := by
  cases e with
  | direct op =>
    simp only [OV.vstep]
    split
    · cases hd : s.direct op with
      | none => exact ext_refl s
      | some p => obtain ⟨s', r, w⟩ := p; exact ext_direct s s' op r w hd
    · exact ext_refl s
  | forEach decs =>
    simp only [OV.vstep]
    split
    · exact ext_forEach s decs
    · exact ext_refl s
  | subscribe b =>
    simp only [OV.vstep]
    split
    · exact ext_subscribe s b
    · exact ext_refl s
  | dropSub i => exact ext_dropSub s i
  | dropVec =>
    simp only [OV.vstep]
    split
    · exact ext_dropVec s
    · exact ext_refl s
  | txnBegin =>
    simp only [OV.vstep]
    split
    · exact ext_of_outside _ _ rfl
    · exact ext_refl s
  | txnOp op =>
    simp only [OV.vstep]
    cases h : s.txnOp op with
    | none => exact ext_refl s
    | some p => obtain ⟨s', r⟩ := p; exact ext_of_outside _ _ (txnOp_outside s s' op r h).1
  | txnForEach decs =>
    simp only [OV.vstep]
    split
    · rename_i ht
      exact ext_of_outside _ _ (txnEv_outside s (.forEach decs) ht).1
    · exact ext_refl s
  | txnRollback =>
    simp only [OV.vstep, OV.txnRollback]
    cases s.txn with
    | none => exact ext_refl s
    | some t => exact ext_of_outside _ _ rfl
  | txnDrop => exact ext_of_outside _ _ rfl
  | txnCommit => exact ext_txnCommit s hi
  | poll i => exact absurd rfl (hne i)

/-! ### the interleaved world -/

/-- an event between two receive operations. Polls are taken apart into `SOV.micro` steps; a stream that is inside
    `poll_next` is mutably borrowed, so it cannot be dropped. -/
def SOV.ev {α} (s : SOV α) (e : VEv α) : SOV α :=
  match e with
  | .poll _ => s
  | .dropSub i => (match s.ph i with | .idle => { s with ov := s.ov.dropSub i } | _ => s)
  | e => { s with ov := s.ov.vstep e }

inductive SEv (α : Type) where
  | ev (e : VEv α)
  | micro (i : Nat)

def SOV.step {α} (s : SOV α) : SEv α → SOV α
  | .ev e => s.ev e
  | .micro i => match s.micro i with | some (_, _, s') => s' | none => s

theorem phok_ext {α} (p : Phase α) (r r' : Sub α) (s s' : OV α) (h : PhOK p r s.log s.vals)
    (hpre : ∃ t, s'.log = s.log ++ t) (hlen : s.log.length ≤ s'.log.length) (hn : r.next ≤ s.log.length)
    (hsame : (s'.log = s.log ∧ s'.vals = s.vals) ∨ s.log.length < s'.log.length)
    (f1 : r'.next = r.next) (f2 : r'.rest = r.rest) (f3 : r'.replica = r.replica) (f4 : r'.batched = r.batched) :
    PhOK p r' s'.log s'.vals := by
  cases p with
  | idle => trivial
  | drain acc shown =>
    simp only [PhOK] at h ⊢
    rw [f1, f3, f4]
    obtain ⟨t, ht⟩ := hpre
    refine ⟨h.1, h.2.1, h.2.2.1, ?_⟩
    obtain ⟨a, ha, hw⟩ := h.2.2.2
    exact ⟨a, ha, by rw [ht, skipped_append _ _ _ _ hn]; exact hw⟩
  | lag msg =>
    cases msg with
    | none =>
      simp only [PhOK] at h ⊢
      rw [f1, f2]; exact ⟨h.1, by omega⟩
    | some m =>
      simp only [PhOK] at h ⊢
      rw [f1, f2]
      refine ⟨h.1, ?_⟩
      intro hend
      rcases hsame with ⟨e1, e2⟩ | hlt
      · rw [e2]; apply h.2; rw [← e1]; exact hend
      · omega

/-- the invariant is preserved by everything that is not a poll -/
theorem sinv_of_ext {α} (s : SOV α) (ov' : OV α) (hi : StInv s) (hv : VInv ov') (hx : Ext s.ov ov') : StInv { s with ov := ov' } := by
  refine ⟨hv, ?_, ?_⟩
  · intro j r' hj ha'
    by_cases hjl : j < s.ov.subs.length
    · have hb : s.ov.subs[j]? = some s.ov.subs[j] := by simp [hjl]
      obtain ⟨r2, e2, f1, f2, f3, f4, f5⟩ := hx.subs j _ hb
      have : r2 = r' := by
        have hj' : ov'.subs[j]? = some r' := hj
        rw [hj'] at e2; exact (Option.some.inj e2).symm
      subst this
      have ha := f5 ha'
      have hph := hi.phase j _ hb ha
      have hn := (hi.base.subs j _ hb ha).2.1
      exact phok_ext _ _ _ s.ov ov' hph hx.pre hx.len hn (hx.same j r2 hjl hj ha') f1 f2 f3 f4
    · have := hi.fresh j (by omega)
      show PhOK (s.ph j) r' ov'.log ov'.vals
      rw [this]; trivial
  · intro j hj
    exact hi.fresh j (Nat.le_trans hx.slen hj)

theorem sinv_ev {α} (s : SOV α) (e : VEv α) (hi : StInv s) : StInv (s.ev e) := by
  have key : ∀ e : VEv α, (∀ i, e ≠ .poll i) → StInv { s with ov := s.ov.vstep e } :=
    fun e hne => sinv_of_ext s _ hi (vinv_vstep s.ov e hi.base) (ext_vstep s.ov e hi.base hne)
  cases e with
  | poll i => exact hi
  | dropSub i =>
    simp only [SOV.ev]
    cases hp : s.ph i with
    | idle => exact key (.dropSub i) (by intro j h; cases h)
    | drain a b => exact hi
    | lag m => exact hi
  | direct op => exact key _ (by intro j h; cases h)
  | forEach decs => exact key _ (by intro j h; cases h)
  | subscribe b => exact key _ (by intro j h; cases h)
  | dropVec => exact key _ (by intro j h; cases h)
  | txnBegin => exact key _ (by intro j h; cases h)
  | txnOp op => exact key _ (by intro j h; cases h)
  | txnForEach decs => exact key _ (by intro j h; cases h)
  | txnRollback => exact key _ (by intro j h; cases h)
  | txnDrop => exact key _ (by intro j h; cases h)
  | txnCommit => exact key _ (by intro j h; cases h)

/-- **One step of the interleaved world — a receive operation of any receiver, or any other event — keeps the invariant.** -/
theorem sinv_step {α} (s : SOV α) (e : SEv α) (hi : StInv s) : StInv (s.step e) := by
  cases e with
  | ev e => exact sinv_ev s e hi
  | micro i =>
    simp only [SOV.step]
    cases h : s.micro i with
    | none => exact hi
    | some p => obtain ⟨k, it, s'⟩ := p; exact sinv_micro s s' i k it hi h

/-- … hence along every interleaving, from any capacity -/
theorem sinv_run {α} (c : Nat) (hc : c ≤ 2 ^ 64) (evs : List (SEv α)) : StInv (evs.foldl SOV.step (SOV.init c)) := by
  have key : ∀ (evs : List (SEv α)) (s : SOV α), StInv s → StInv (evs.foldl SOV.step s) := by
    intro evs
    induction evs with
    | nil => intro s h; exact h
    | cons e es ih => intro s h; exact ih _ (sinv_step s e h)
  exact key evs _ (sinv_init c hc)

end EV
