/-
  C11: the permutation form of the sort invariant (`SInvP`: the buffer is a permutation of the position-tagged
  source, in order), comparator / sort-function hypotheses, and one lemma per arm of
  `handle_diff_and_update_buffered_vector`.
-/
import EyeballVerif.Props.C11
import EyeballVerif.Lemmas.ListExtra
import EyeballVerif.Lemmas.ApplyAll
import EyeballVerif.Lemmas.Tactics
namespace EV
open Srt
open List (Perm)
open scoped List

/-- the source tagged with its positions: what the sorted buffer is a permutation of -/
def tagged {α} (l : List α) : List (Nat × α) := l.mapIdx fun i v => (i, v)

@[simp] theorem tagged_length {α} (l : List α) : (tagged l).length = l.length := by simp [tagged]

theorem tagged_getElem? {α} (l : List α) (k : Nat) : (tagged l)[k]? = l[k]?.map (fun v => (k, v)) := by
  simp [tagged]

theorem mem_tagged {α} (l : List α) (p : Nat × α) : p ∈ tagged l ↔ l[p.1]? = some p.2 := by
  rw [List.mem_iff_getElem?]
  constructor
  · rintro ⟨k, hk⟩
    rw [tagged_getElem?] at hk
    cases h : l[k]? with
    | none => simp [h] at hk
    | some v => simp [h] at hk; subst hk; simpa using h
  · intro h
    exact ⟨p.1, by rw [tagged_getElem?, h]; rfl⟩

theorem tagged_nil {α} : tagged ([] : List α) = [] := rfl

theorem tagged_cons {α} (v : α) (l : List α) : tagged (v :: l) = (0, v) :: (tagged l).map (fun p => (p.1 + 1, p.2)) := by
  apply List.ext_getElem?; intro k
  cases k with
  | zero => simp [tagged]
  | succ k => simp [tagged_getElem?]; cases l[k]? <;> simp

theorem tagged_append {α} (l m : List α) : tagged (l ++ m) = tagged l ++ (tagged m).map (fun p => (p.1 + l.length, p.2)) := by
  apply List.ext_getElem?; intro k
  simp only [tagged_getElem?, List.getElem?_append, tagged_length, List.getElem?_map]
  split
  · rfl
  · rename_i h
    cases m[k - l.length]? with
    | none => simp
    | some v => simp; omega

theorem tagged_concat {α} (l : List α) (v : α) : tagged (l ++ [v]) = tagged l ++ [(l.length, v)] := by
  rw [tagged_append]; simp [tagged]

/-- shifting the tags at or after `i` up by one -/
def shiftUp (i : Nat) {α} (p : Nat × α) : Nat × α := (if p.1 ≥ i then p.1 + 1 else p.1, p.2)
/-- shifting the tags after `i` down by one -/
def shiftDown (i : Nat) {α} (p : Nat × α) : Nat × α := (if p.1 > i then p.1 - 1 else p.1, p.2)

theorem tagged_insert {α} (l : List α) (i : Nat) (v : α) (hi : i ≤ l.length) :
    tagged (l.take i ++ v :: l.drop i) ~ (i, v) :: (tagged l).map (shiftUp i) := by
  have : tagged (l.take i ++ v :: l.drop i) = (tagged l).take i ++ (i, v) :: ((tagged l).drop i).map (shiftUp i) := by
    apply List.ext_getElem?; intro k
    simp only [tagged_getElem?, List.getElem?_append, List.getElem?_take, List.length_take, tagged_length,
      List.getElem?_cons, List.getElem?_map, List.getElem?_drop, shiftUp]
    by_cases h1 : k < i
    · have : k < min i l.length := by omega
      simp [this, h1]
    · have : ¬ k < min i l.length := by omega
      simp only [this, if_false, h1]
      have hm : min i l.length = i := by omega
      rw [hm]
      by_cases h2 : k = i
      · subst h2; simp
      · have : k - i ≠ 0 := by omega
        simp only [this, if_false]
        have e : i + (k - i - 1) = k - 1 := by omega
        rw [e]
        cases l[k - 1]? with
        | none => simp
        | some x => simp [shiftUp]; split <;> omega
  rw [this]
  have h2 : (tagged l).map (shiftUp i) = (tagged l).take i ++ ((tagged l).drop i).map (shiftUp i) := by
    conv => lhs; rw [← List.take_append_drop i (tagged l)]
    rw [List.map_append]
    congr 1
    apply List.ext_getElem?; intro k
    simp only [List.getElem?_map, List.getElem?_take, tagged_getElem?, shiftUp]
    by_cases hk : k < i
    · simp only [hk, if_true]
      cases l[k]? with
      | none => simp
      | some x => simp [shiftUp]; omega
    · simp [hk]
  rw [h2]
  exact List.perm_middle

theorem tagged_erase {α} (l : List α) (i : Nat) (x : α) (hx : l[i]? = some x) :
    tagged l ~ (i, x) :: (tagged (l.eraseIdx i)).map (shiftUp i) := by
  have hlt : i < l.length := by
    rcases List.getElem?_eq_some_iff.mp hx with ⟨g, _⟩; exact g
  have hl : l = (l.eraseIdx i).take i ++ x :: (l.eraseIdx i).drop i := by
    apply List.ext_getElem?; intro k
    simp only [List.getElem?_append, List.getElem?_take, List.length_take, List.getElem?_cons, List.getElem?_drop,
      List.getElem?_eraseIdx, List.length_eraseIdx]
    grind
  have := tagged_insert (l.eraseIdx i) i x (by simp [List.length_eraseIdx]; split <;> omega)
  rw [← hl] at this
  exact this



/-- what `Ord` / a `sort_by` comparator must satisfy (a total preorder) -/
structure LawfulCmp {α} (cmp : α → α → Ordering) : Prop where
  swap : ∀ a b, cmp a b = .lt ↔ cmp b a = .gt
  trans : ∀ a b c, cmp a b ≠ .gt → cmp b c ≠ .gt → cmp a c ≠ .gt

/-- what `Vector::sort_by` must satisfy on index-tagged values -/
def SortSpec {α} (cmp : α → α → Ordering) (sortFn : List (Nat × α) → List (Nat × α)) : Prop :=
  ∀ l, sortFn l ~ l ∧ SortedBy cmp ((sortFn l).map (·.2))

/-- the invariant in permutation form: the buffer is a permutation of the tagged source, in order -/
def SInvP {α} (cmp : α → α → Ordering) (buf : List (Nat × α)) (src : List α) : Prop :=
  buf ~ tagged src ∧ SortedBy cmp (buf.map (·.2))

theorem tagged_nodup {α} (l : List α) : ((tagged l).map (·.1)).Nodup := by
  have : (tagged l).map (·.1) = List.range l.length := by
    apply List.ext_getElem?; intro k
    simp only [List.getElem?_map, tagged_getElem?]
    by_cases hk : k < l.length
    · simp [hk]
    · simp [hk]
  rw [this]; exact List.nodup_range

/-- the permutation form gives the pointwise form: every position exactly once, with its item -/
theorem sinvP_sinv {α} (cmp : α → α → Ordering) (buf : List (Nat × α)) (src : List α) (h : SInvP cmp buf src) :
    SInv cmp buf src := by
  obtain ⟨hp, hs⟩ := h
  refine ⟨?_, ?_, ?_, hs⟩
  · exact (hp.map (·.1)).nodup_iff.mpr (tagged_nodup src)
  · rw [hp.length_eq, tagged_length]
  · intro p hpm; exact (mem_tagged src p).mp (hp.mem_iff.mp hpm)

theorem cmp_eq_symm {α} {cmp : α → α → Ordering} (hc : LawfulCmp cmp) (a b : α) : cmp a b = .eq → cmp b a = .eq := by
  intro h
  cases hb : cmp b a with
  | eq => rfl
  | lt => have := (hc.swap b a).mp hb; simp_all
  | gt => have := (hc.swap a b).mpr hb; simp_all

theorem cmp_ge_of_not_lt {α} {cmp : α → α → Ordering} (hc : LawfulCmp cmp) (a b : α) : cmp a b ≠ .lt → cmp b a ≠ .gt := by
  intro h hg; exact h ((hc.swap a b).mpr hg)

/-- a sorted buffer is ordered w.r.t. the probe `x ↦ cmp x v` -/
theorem mono_of_sorted {α} {cmp : α → α → Ordering} (hc : LawfulCmp cmp) (buf : List (Nat × α)) (v : α)
    (hs : SortedBy cmp (buf.map (·.2))) : Mono (fun p : Nat × α => cmp p.2 v) buf := by
  intro i j hij hj
  have hi : i < buf.length := by omega
  simp only [probe, List.getElem?_eq_getElem hi, List.getElem?_eq_getElem hj]
  by_cases he : i = j
  · subst he; exact ⟨id, id⟩
  · have hlt : i < j := by omega
    have hle : cmp buf[i].2 buf[j].2 ≠ .gt := by
      have := List.pairwise_iff_getElem.mp hs i j (by simpa using hi) (by simpa using hj) hlt
      simpa using this
    constructor
    · intro hg
      cases hjv : cmp buf[j].2 v with
      | gt => rfl
      | lt => exact absurd hg (hc.trans _ _ _ hle (by rw [hjv]; decide))
      | eq => exact absurd hg (hc.trans _ _ _ hle (by rw [hjv]; decide))
    · intro hl
      cases hiv : cmp buf[i].2 v with
      | lt => rfl
      | eq =>
        have h1 : cmp v buf[i].2 ≠ .gt := by rw [cmp_eq_symm hc _ _ hiv]; decide
        have := hc.trans _ _ _ h1 hle
        exact absurd ((hc.swap _ _).mp hl) this
      | gt =>
        have h1 : cmp v buf[i].2 ≠ .gt := by rw [(hc.swap _ _).mpr hiv]; decide
        have := hc.trans _ _ _ h1 hle
        exact absurd ((hc.swap _ _).mp hl) this

/-- `findPos` splits a sorted buffer around `v` -/
theorem findPos_spec {α} {cmp : α → α → Ordering} (hc : LawfulCmp cmp) (buf : List (Nat × α)) (v : α)
    (hs : SortedBy cmp (buf.map (·.2))) :
    findPos cmp buf v ≤ buf.length ∧
    (∀ j (hj : j < buf.length), j < findPos cmp buf v → cmp buf[j].2 v ≠ .gt) ∧
    (∀ j (hj : j < buf.length), findPos cmp buf v ≤ j → cmp v buf[j].2 ≠ .gt) := by
  have := bsearch_spec (fun p : Nat × α => cmp p.2 v) buf (mono_of_sorted hc buf v hs)
  simp only at this
  obtain ⟨h1, h2, h3⟩ := this
  refine ⟨h1, ?_, ?_⟩
  · intro j hj hlt
    have := h2 j hlt
    simpa [probe, List.getElem?_eq_getElem hj] using this
  · intro j hj hle
    have := h3 j hle hj
    simp only [probe, List.getElem?_eq_getElem hj] at this
    exact cmp_ge_of_not_lt hc _ _ this

/-- inserting `x` at a position that splits the sorted list around it keeps it sorted -/
theorem sorted_insert {α} {cmp : α → α → Ordering} (l : List α) (x : α) (pos : Nat)
    (hs : SortedBy cmp l) (hp : pos ≤ l.length)
    (hb : ∀ j (hj : j < l.length), j < pos → cmp l[j] x ≠ .gt)
    (ha : ∀ j (hj : j < l.length), pos ≤ j → cmp x l[j] ≠ .gt) :
    SortedBy cmp (l.take pos ++ x :: l.drop pos) := by
  unfold SortedBy at *
  rw [List.pairwise_append]
  refine ⟨hs.sublist (List.take_sublist _ _), ?_, ?_⟩
  · rw [List.pairwise_cons]
    refine ⟨?_, hs.sublist (List.drop_sublist _ _)⟩
    intro b hb'
    obtain ⟨k, hk, rfl⟩ := List.getElem_of_mem hb'
    simp only [List.getElem_drop]
    exact ha (pos + k) (by simp at hk; omega) (by omega)
  · intro a ha' b hb'
    obtain ⟨k, hk, rfl⟩ := List.getElem_of_mem ha'
    simp only [List.length_take] at hk
    simp only [List.getElem_take]
    rcases List.mem_cons.mp hb' with rfl | hb''
    · exact hb k (by omega) (by omega)
    · obtain ⟨m, hm, rfl⟩ := List.getElem_of_mem hb''
      simp only [List.getElem_drop]
      simp at hm
      exact List.pairwise_iff_getElem.mp hs k (pos + m) (by omega) (by omega) (by omega)


theorem map_snd_take_insert {α} (buf : List (Nat × α)) (pos : Nat) (x : Nat × α) :
    (buf.take pos ++ x :: buf.drop pos).map (·.2) = (buf.map (·.2)).take pos ++ x.2 :: (buf.map (·.2)).drop pos := by
  simp [List.map_take, List.map_drop]

/-- the three-way insertion at the binary-search position: permutation, order and emitted diff -/
theorem insert_core {α} {cmp : α → α → Ordering} (hc : LawfulCmp cmp) (buf : List (Nat × α)) (ui : Nat) (v : α)
    (hs : SortedBy cmp (buf.map (·.2))) :
    let r := insertAt buf (findPos cmp buf v) ui v
    r.2 ~ (ui, v) :: buf ∧ SortedBy cmp (r.2.map (·.2)) ∧ applyAll r.1 (buf.map (·.2)) = some (r.2.map (·.2)) := by
  obtain ⟨hp, hb, ha⟩ := findPos_spec hc buf v hs
  have he := sort_insertAt_emits buf (findPos cmp buf v) ui v hp
  simp only
  refine ⟨?_, ?_, he.1⟩
  · rw [he.2]
    have : buf.take (findPos cmp buf v) ++ (ui, v) :: buf.drop (findPos cmp buf v) ~ (ui, v) :: (buf.take (findPos cmp buf v) ++ buf.drop (findPos cmp buf v)) := List.perm_middle
    rw [List.take_append_drop] at this
    exact this
  · rw [he.2, map_snd_take_insert]
    apply sorted_insert _ _ _ hs (by simpa using hp)
    · intro j hj hlt
      have hj' : j < buf.length := by simpa using hj
      have := hb j hj' hlt
      simpa using this
    · intro j hj hle
      have hj' : j < buf.length := by simpa using hj
      have := ha j hj' hle
      simpa using this

theorem sinvP_pushBack {α} {cmp : α → α → Ordering} (hc : LawfulCmp cmp) (sortFn) (buf : List (Nat × α)) (src : List α) (v : α)
    (hi : SInvP cmp buf src) :
    ∃ out buf', handle cmp sortFn (.pushBack v) buf = some (out, buf') ∧ SInvP cmp buf' (src ++ [v]) ∧
      applyAll out (buf.map (·.2)) = some (buf'.map (·.2)) := by
  obtain ⟨hp, hs⟩ := hi
  obtain ⟨h1, h2, h3⟩ := insert_core hc buf buf.length v hs
  refine ⟨_, _, rfl, ⟨?_, h2⟩, h3⟩
  have hl : buf.length = src.length := by rw [hp.length_eq, tagged_length]
  rw [tagged_concat, ← hl]
  exact h1.trans ((List.Perm.cons _ hp).trans (List.perm_append_singleton _ _).symm)

theorem sinvP_pushFront {α} {cmp : α → α → Ordering} (hc : LawfulCmp cmp) (sortFn) (buf : List (Nat × α)) (src : List α) (v : α)
    (hi : SInvP cmp buf src) :
    ∃ out buf', handle cmp sortFn (.pushFront v) buf = some (out, buf') ∧ SInvP cmp buf' (v :: src) ∧
      applyAll out (buf.map (·.2)) = some (buf'.map (·.2)) := by
  obtain ⟨hp, hs⟩ := hi
  have hm : (buf.map fun p => (p.1 + 1, p.2)).map (·.2) = buf.map (·.2) := by simp [List.map_map, Function.comp_def]
  obtain ⟨h1, h2, h3⟩ := insert_core hc (buf.map fun p => (p.1 + 1, p.2)) 0 v (by rw [hm]; exact hs)
  rw [hm] at h3
  refine ⟨_, _, rfl, ⟨?_, h2⟩, h3⟩
  rw [tagged_cons]
  exact h1.trans (List.Perm.cons _ (hp.map _))

theorem sinvP_insert {α} {cmp : α → α → Ordering} (hc : LawfulCmp cmp) (sortFn) (buf : List (Nat × α)) (src : List α) (i : Nat) (v : α)
    (hil : i ≤ src.length) (hi : SInvP cmp buf src) :
    ∃ out buf', handle cmp sortFn (.insert i v) buf = some (out, buf') ∧ SInvP cmp buf' (src.take i ++ v :: src.drop i) ∧
      applyAll out (buf.map (·.2)) = some (buf'.map (·.2)) := by
  obtain ⟨hp, hs⟩ := hi
  have hm : (buf.map (shiftUp i)).map (·.2) = buf.map (·.2) := by simp [List.map_map, Function.comp_def, shiftUp]
  obtain ⟨h1, h2, h3⟩ := insert_core hc (buf.map (shiftUp i)) i v (by rw [hm]; exact hs)
  rw [hm] at h3
  refine ⟨_, _, rfl, ⟨?_, h2⟩, h3⟩
  exact h1.trans ((List.Perm.cons _ (hp.map _)).trans (tagged_insert src i v hil).symm)


theorem shiftDown_shiftUp {α} (i : Nat) (p : Nat × α) : shiftDown i (shiftUp i p) = p := by
  simp only [shiftDown, shiftUp]
  by_cases h : p.1 ≥ i
  · have : p.1 + 1 > i := by omega
    simp [h, this]
  · have : ¬ p.1 > i := by omega
    simp [h, this]

theorem eraseIdx_perm {α} (l : List α) (k : Nat) (hk : k < l.length) : l ~ l[k] :: l.eraseIdx k := by
  have : l = l.take k ++ l[k] :: l.drop (k + 1) := by
    apply List.ext_getElem?; intro j
    simp only [List.getElem?_append, List.getElem?_take, List.length_take, List.getElem?_cons, List.getElem?_drop]
    by_cases h1 : j < k
    · have : j < min k l.length := by omega
      simp [this, h1]
    · have : ¬ j < min k l.length := by omega
      simp only [this, if_false]
      have hm : min k l.length = k := by omega
      rw [hm]
      by_cases h2 : j = k
      · subst h2; simp
      · have : j - k ≠ 0 := by omega
        simp only [this, if_false]
        congr 1; omega
  have he : l.eraseIdx k = l.take k ++ l.drop (k + 1) := List.eraseIdx_eq_take_drop_succ _ _
  rw [he]
  conv => lhs; rw [this]
  exact List.perm_middle

/-- the buffer position of source index `i` exists, holds `(i, src[i])`, and removing it leaves a permutation
    of the tagged remainder (tags still unshifted) -/
theorem remove_core {α} (buf : List (Nat × α)) (src : List α) (i : Nat) (x : α) (hp : buf ~ tagged src) (hx : src[i]? = some x) :
    ∃ pos, posOf buf i = some pos ∧ ∃ h : pos < buf.length, buf[pos] = (i, x) ∧
      buf.eraseIdx pos ~ (tagged (src.eraseIdx i)).map (shiftUp i) := by
  have hmem : (i, x) ∈ buf := hp.mem_iff.mpr ((mem_tagged src (i, x)).mpr hx)
  have hfi : buf.findIdx (·.1 = i) < buf.length := by
    apply List.findIdx_lt_length_of_exists
    exact ⟨(i, x), hmem, by simp⟩
  refine ⟨buf.findIdx (·.1 = i), by simp [posOf, hfi], hfi, ?_, ?_⟩
  · have h1 : (buf[buf.findIdx (·.1 = i)]).1 = i := by
      have := List.findIdx_getElem (w := hfi)
      simpa using this
    have h2 : buf[buf.findIdx (·.1 = i)] ∈ tagged src := hp.mem_iff.mp (List.getElem_mem hfi)
    have h3 := (mem_tagged src _).mp h2
    rw [h1, hx] at h3
    cases hb : buf[buf.findIdx (·.1 = i)] with
    | mk a b => rw [hb] at h1 h3; simp at h1 h3; subst h1; subst h3; rfl
  · have hb : buf[buf.findIdx (·.1 = i)] = (i, x) := by
      have h1 : (buf[buf.findIdx (·.1 = i)]).1 = i := by
        have := List.findIdx_getElem (w := hfi)
        simpa using this
      have h2 : buf[buf.findIdx (·.1 = i)] ∈ tagged src := hp.mem_iff.mp (List.getElem_mem hfi)
      have h3 := (mem_tagged src _).mp h2
      rw [h1, hx] at h3
      cases hb : buf[buf.findIdx (·.1 = i)] with
      | mk a b => rw [hb] at h1 h3; simp at h1 h3; subst h1; subst h3; rfl
    have e1 := eraseIdx_perm buf _ hfi
    rw [hb] at e1
    have e2 := tagged_erase src i x hx
    exact List.Perm.cons_inv (e1.symm.trans (hp.trans e2))

theorem sorted_eraseIdx {α} {cmp : α → α → Ordering} (l : List α) (k : Nat) (hs : SortedBy cmp l) : SortedBy cmp (l.eraseIdx k) :=
  List.Pairwise.sublist (List.eraseIdx_sublist l k) hs

theorem sinvP_remove {α} {cmp : α → α → Ordering} (sortFn) (buf : List (Nat × α)) (src : List α) (i : Nat)
    (hil : i < src.length) (hi : SInvP cmp buf src) :
    ∃ out buf', handle cmp sortFn (.remove i) buf = some (out, buf') ∧ SInvP cmp buf' (src.eraseIdx i) ∧
      applyAll out (buf.map (·.2)) = some (buf'.map (·.2)) := by
  obtain ⟨hp, hs⟩ := hi
  obtain ⟨pos, h1, hlt, _, h3⟩ := remove_core buf src i src[i] hp (List.getElem?_eq_getElem hil)
  have hm : (buf.map (shiftDown i)).map (·.2) = buf.map (·.2) := by simp [List.map_map, Function.comp_def, shiftDown]
  have he := sort_removeAt_emits (buf.map (shiftDown i)) pos (by simpa using hlt)
  rw [hm] at he
  refine ⟨_, _, by simp only [handle, h1]; rfl, ⟨?_, ?_⟩, he.1⟩
  · rw [he.2, map_eraseIdx]
    have := h3.map (shiftDown i)
    rw [List.map_map] at this
    have hid : (shiftDown i ∘ shiftUp i : Nat × α → Nat × α) = id := by funext p; exact shiftDown_shiftUp i p
    rw [hid, List.map_id] at this
    exact this
  · rw [he.2, ← map_eraseIdx, hm]
    exact sorted_eraseIdx _ _ hs



theorem tagged_shiftUp_id {α} (l : List α) (k : Nat) (h : l.length ≤ k) : (tagged l).map (shiftUp k) = tagged l := by
  apply List.ext_getElem?; intro j
  simp only [List.getElem?_map, tagged_getElem?]
  by_cases hj : j < l.length
  · simp only [List.getElem?_eq_getElem hj, Option.map_some, shiftUp]
    have : ¬ j ≥ k := by omega
    simp [this]
  · simp [List.getElem?_eq_none (by omega : l.length ≤ j)]

theorem sinvP_popBack {α} {cmp : α → α → Ordering} (sortFn) (buf : List (Nat × α)) (src : List α)
    (hne : src ≠ []) (hi : SInvP cmp buf src) :
    ∃ out buf', handle cmp sortFn .popBack buf = some (out, buf') ∧ SInvP cmp buf' src.dropLast ∧
      applyAll out (buf.map (·.2)) = some (buf'.map (·.2)) := by
  obtain ⟨hp, hs⟩ := hi
  have hl : buf.length = src.length := by rw [hp.length_eq, tagged_length]
  have hpos : 0 < src.length := List.length_pos_iff.mpr hne
  have hil : src.length - 1 < src.length := by omega
  obtain ⟨pos, h1, hlt, _, h3⟩ := remove_core buf src (src.length - 1) src[src.length - 1] hp (List.getElem?_eq_getElem hil)
  have he := sort_removeAt_emits buf pos hlt
  have hd : src.dropLast = src.eraseIdx (src.length - 1) := by
    rw [List.dropLast_eq_take, List.eraseIdx_eq_take_drop_succ]
    have : src.length - 1 + 1 = src.length := by omega
    simp [this]
  refine ⟨_, _, by simp only [handle, hl, h1], ⟨?_, ?_⟩, he.1⟩
  · rw [he.2, hd]
    rw [tagged_shiftUp_id _ _ (by simp [List.length_eraseIdx, hil])] at h3
    exact h3
  · rw [he.2, ← map_eraseIdx]
    exact sorted_eraseIdx _ _ hs

theorem mapIdx_eraseIdx_eq {α β} (l : List α) (f : Nat → α → β) (g : α → β) (pos : Nat)
    (h : ∀ j x, j ≠ pos → f j x = g x) : (l.mapIdx f).eraseIdx pos = (l.map g).eraseIdx pos := by
  apply List.ext_getElem?; intro j
  simp only [List.getElem?_eraseIdx, List.getElem?_mapIdx, List.getElem?_map]
  split
  · rename_i hj
    cases l[j]? with
    | none => rfl
    | some x => simp [h j x (by omega)]
  · rename_i hj
    cases l[j + 1]? with
    | none => rfl
    | some x => simp [h (j + 1) x (by omega)]

theorem sinvP_popFront {α} {cmp : α → α → Ordering} (sortFn) (buf : List (Nat × α)) (src : List α)
    (hne : src ≠ []) (hi : SInvP cmp buf src) :
    ∃ out buf', handle cmp sortFn .popFront buf = some (out, buf') ∧ SInvP cmp buf' src.tail ∧
      applyAll out (buf.map (·.2)) = some (buf'.map (·.2)) := by
  obtain ⟨hp, hs⟩ := hi
  have hpos : 0 < src.length := List.length_pos_iff.mpr hne
  obtain ⟨pos, h1, hlt, _, h3⟩ := remove_core buf src 0 src[0] hp (List.getElem?_eq_getElem hpos)
  have hm : (buf.mapIdx fun j p => if j = pos then p else (p.1 - 1, p.2)).map (·.2) = buf.map (·.2) := by
    apply List.ext_getElem?; intro j
    simp only [List.getElem?_map, List.getElem?_mapIdx]
    cases buf[j]? with
    | none => rfl
    | some x => simp; split <;> rfl
  have he := sort_removeAt_emits (buf.mapIdx fun j p => if j = pos then p else (p.1 - 1, p.2)) pos (by simpa using hlt)
  rw [hm] at he
  have hd : src.tail = src.eraseIdx 0 := by cases src <;> simp
  have hsd : ∀ p : Nat × α, (p.1 - 1, p.2) = shiftDown 0 p := by
    intro p; simp only [shiftDown]; split
    · rfl
    · congr 1; omega
  have hme : (buf.mapIdx fun j p => if j = pos then p else (p.1 - 1, p.2)).eraseIdx pos = (buf.map (shiftDown 0)).eraseIdx pos := by
    apply mapIdx_eraseIdx_eq
    intro j x hj; simp [hj, hsd]
  refine ⟨_, _, by simp only [handle, h1], ⟨?_, ?_⟩, he.1⟩
  · rw [he.2, hme, hd, map_eraseIdx]
    have := h3.map (shiftDown 0)
    rw [List.map_map] at this
    have hid : (shiftDown 0 ∘ shiftUp 0 : Nat × α → Nat × α) = id := by funext p; exact shiftDown_shiftUp 0 p
    rw [hid, List.map_id] at this
    exact this
  · rw [he.2, ← map_eraseIdx, hm]
    exact sorted_eraseIdx _ _ hs


theorem set_eq_erase_insert {α} (l : List α) (k : Nat) (x : α) (hk : k < l.length) :
    l.set k x = (l.eraseIdx k).take k ++ x :: (l.eraseIdx k).drop k := by
  list_eq

theorem eraseIdx_set_self {α} (l : List α) (k : Nat) (x : α) : (l.set k x).eraseIdx k = l.eraseIdx k := by
  list_eq

theorem applyAll_remove_insert {α} (l : List α) (old k : Nat) (v : α) (h1 : old < l.length) (h2 : k ≤ (l.eraseIdx old).length) :
    applyAll [.remove old, .insert k v] l = some ((l.eraseIdx old).take k ++ v :: (l.eraseIdx old).drop k) := by
  simp [applyAll, Diff.applicable, Diff.apply, h1, h2]

theorem applyAll_set {α} (l : List α) (k : Nat) (v : α) (h1 : k < l.length) :
    applyAll [.set k v] l = some (l.set k v) := by
  simp [applyAll, Diff.applicable, Diff.apply, h1]

/-- unified form of the `Set` arm: the old position is vacated and the new value inserted at `k` -/
theorem handle_set_eq {α} (cmp : α → α → Ordering) (sortFn) (buf : List (Nat × α)) (i : Nat) (v : α) (old : Nat)
    (ho : posOf buf i = some old) (hlt : old < buf.length) :
    let new := findPos cmp buf v
    let k := if old < new then new - 1 else new
    handle cmp sortFn (.set i v) buf =
      some (if old = k then [.set k v] else [.remove old, .insert k v],
            (buf.eraseIdx old).take k ++ (i, v) :: (buf.eraseIdx old).drop k) := by
  simp only [handle, ho]
  by_cases h1 : old < findPos cmp buf v
  · simp only [h1, if_true]
    by_cases h2 : old = findPos cmp buf v - 1
    · simp only [h2, if_true]
      rw [← h2, set_eq_erase_insert buf old (i, v) hlt]
    · simp only [h2, if_false]
  · simp only [h1, if_false]
    by_cases h2 : old = findPos cmp buf v
    · simp only [h2, if_true]
      rw [← h2, set_eq_erase_insert buf old (i, v) hlt]
    · simp only [h2, if_false]

theorem sinvP_set {α} {cmp : α → α → Ordering} (hc : LawfulCmp cmp) (sortFn) (buf : List (Nat × α)) (src : List α) (i : Nat) (v : α)
    (hil : i < src.length) (hi : SInvP cmp buf src) :
    ∃ out buf', handle cmp sortFn (.set i v) buf = some (out, buf') ∧ SInvP cmp buf' (src.set i v) ∧
      applyAll out (buf.map (·.2)) = some (buf'.map (·.2)) := by
  obtain ⟨hp, hs⟩ := hi
  obtain ⟨old, h1, hlt, _, h3⟩ := remove_core buf src i src[i] hp (List.getElem?_eq_getElem hil)
  have hh := handle_set_eq cmp sortFn buf i v old h1 hlt
  simp only at hh
  obtain ⟨hpl, hb, ha⟩ := findPos_spec hc buf v hs
  generalize hnew : findPos cmp buf v = new at *
  generalize hk : (if old < new then new - 1 else new) = k at *
  have hkb : k ≤ (buf.eraseIdx old).length := by
    rw [List.length_eraseIdx]; simp only [hlt, if_true]; split at hk <;> omega
  refine ⟨_, _, hh, ⟨?_, ?_⟩, ?_⟩
  · -- permutation
    have e1 : (buf.eraseIdx old).take k ++ (i, v) :: (buf.eraseIdx old).drop k ~ (i, v) :: buf.eraseIdx old := by
      have : (buf.eraseIdx old).take k ++ (i, v) :: (buf.eraseIdx old).drop k ~ (i, v) :: ((buf.eraseIdx old).take k ++ (buf.eraseIdx old).drop k) := List.perm_middle
      rw [List.take_append_drop] at this; exact this
    have e2 := tagged_erase (src.set i v) i v (by simp [hil])
    rw [eraseIdx_set_self] at e2
    exact e1.trans ((List.Perm.cons _ h3).trans e2.symm)
  · -- order
    rw [map_snd_take_insert]
    have hsb : SortedBy cmp ((buf.eraseIdx old).map (·.2)) := by rw [← map_eraseIdx]; exact sorted_eraseIdx _ _ hs
    apply sorted_insert _ _ _ hsb (by simpa using hkb)
    · intro j hj hjk
      have hj' : j < (buf.eraseIdx old).length := by simpa using hj
      rw [List.length_eraseIdx] at hj'; simp only [hlt, if_true] at hj'
      simp only [List.getElem_map, List.getElem_eraseIdx]
      split
      · exact hb j (by omega) (by split at hk <;> omega)
      · exact hb (j + 1) (by omega) (by split at hk <;> omega)
    · intro j hj hjk
      have hj' : j < (buf.eraseIdx old).length := by simpa using hj
      rw [List.length_eraseIdx] at hj'; simp only [hlt, if_true] at hj'
      simp only [List.getElem_map, List.getElem_eraseIdx]
      split
      · exact ha j (by omega) (by split at hk <;> omega)
      · exact ha (j + 1) (by omega) (by split at hk <;> omega)
  · -- emitted diffs
    have hlen : (buf.map (·.2)).length = buf.length := by simp
    by_cases hok : old = k
    · simp only [hok, if_true]
      rw [applyAll_set _ _ _ (by omega), ← hok, ← set_eq_erase_insert buf old (i, v) hlt]
      simp [List.map_set]
    · simp only [hok, if_false]
      rw [applyAll_remove_insert _ _ _ _ (by omega) (by rw [map_eraseIdx]; simpa using hkb), map_snd_take_insert, map_eraseIdx]


theorem sinvP_clear {α} {cmp : α → α → Ordering} (sortFn) (buf : List (Nat × α)) :
    ∃ out buf', handle cmp sortFn .clear buf = some (out, buf') ∧ SInvP cmp buf' [] ∧
      applyAll out (buf.map (·.2)) = some (buf'.map (·.2)) :=
  ⟨_, _, rfl, ⟨by simp [tagged], by simp [SortedBy]⟩, by simp [applyAll, Diff.applicable, Diff.apply]⟩

theorem sinvP_reset {α} {cmp : α → α → Ordering} (sortFn) (hs : SortSpec cmp sortFn) (buf : List (Nat × α)) (vs : List α) :
    ∃ out buf', handle cmp sortFn (.reset vs) buf = some (out, buf') ∧ SInvP cmp buf' vs ∧
      applyAll out (buf.map (·.2)) = some (buf'.map (·.2)) :=
  ⟨_, _, rfl, ⟨(hs _).1, (hs _).2⟩, by simp [applyAll, Diff.applicable, Diff.apply]⟩

/-- the initial view (`SortImpl::new`) -/
theorem sinvP_init {α} {cmp : α → α → Ordering} (sortFn) (hs : SortSpec cmp sortFn) (vs : List α) :
    SInvP cmp (Srt.init sortFn vs).2 vs ∧ (Srt.init sortFn vs).1 = (Srt.init sortFn vs).2.map (·.2) :=
  ⟨⟨(hs _).1, (hs _).2⟩, rfl⟩

theorem mapIdx_offset {α} (vs : List α) (off : Nat) :
    (vs.mapIdx fun i v => (i + off, v)) = (tagged vs).map (fun p => (p.1 + off, p.2)) := by
  apply List.ext_getElem?; intro k
  simp only [List.getElem?_mapIdx, List.getElem?_map, tagged_getElem?]
  cases vs[k]? <;> simp

/-- in a sorted list every element is at most the last one -/
theorem sorted_le_last {α} {cmp : α → α → Ordering} (hc : LawfulCmp cmp) (l : List α) (hs : SortedBy cmp l)
    (last : α) (hl : l.getLast? = some last) (x : α) (hx : x ∈ l) : cmp x last ≠ .gt := by
  obtain ⟨k, hk, rfl⟩ := List.getElem_of_mem hx
  have hne : l ≠ [] := by intro h; simp [h] at hk
  have hlast : last = l[l.length - 1]'(by omega) := by
    rw [List.getLast?_eq_getElem?] at hl
    rw [List.getElem?_eq_getElem (by omega)] at hl
    exact (Option.some.inj hl).symm
  by_cases hkl : k = l.length - 1
  · subst hlast; subst hkl
    intro hg
    have := (hc.swap _ _).mpr hg
    rw [this] at hg; cases hg
  · subst hlast
    exact List.pairwise_iff_getElem.mp hs k (l.length - 1) hk (by omega) (by omega)


theorem insertAt_not_end {α} (buf : List (Nat × α)) (pos ui : Nat) (v : α) (h : pos ≠ buf.length) :
    insertAt buf pos ui v = ([if pos = 0 then Diff.pushFront v else Diff.insert pos v], buf.take pos ++ (ui, v) :: buf.drop pos) := by
  unfold insertAt
  by_cases h0 : pos = 0
  · subst h0; simp
  · simp [h0, h]

theorem appendLoop_cons {α} (cmp : α → α → Ordering) (ui : Nat) (v : α) (rest buf : List (Nat × α)) (out : List (Diff α))
    (last : Nat × α) (hl : buf.getLast? = some last) :
    appendLoop cmp ((ui, v) :: rest) buf out =
      if cmp v last.2 ≠ .lt then (out, buf, (ui, v) :: rest)
      else if findPos cmp buf v ≠ buf.length then
        appendLoop cmp rest (buf.take (findPos cmp buf v) ++ (ui, v) :: buf.drop (findPos cmp buf v))
          (out ++ [if findPos cmp buf v = 0 then Diff.pushFront v else Diff.insert (findPos cmp buf v) v])
      else (out, buf, (ui, v) :: rest) := by
  rw [appendLoop]
  simp only [hl]

/-- the `while let Some(new_value)` loop of the `Append` arm -/
theorem appendLoop_spec {α} {cmp : α → α → Ordering} (hc : LawfulCmp cmp) (new : List (Nat × α)) :
    ∀ (buf : List (Nat × α)) (out : List (Diff α)), buf ≠ [] → SortedBy cmp (buf.map (·.2)) → SortedBy cmp (new.map (·.2)) →
    ∃ ds, (appendLoop cmp new buf out).1 = out ++ ds ∧
      applyAll ds (buf.map (·.2)) = some ((appendLoop cmp new buf out).2.1.map (·.2)) ∧
      (appendLoop cmp new buf out).2.1 ++ (appendLoop cmp new buf out).2.2 ~ buf ++ new ∧
      SortedBy cmp (((appendLoop cmp new buf out).2.1 ++ (appendLoop cmp new buf out).2.2).map (·.2)) := by
  induction new with
  | nil =>
    intro buf out _ hsb _
    exact ⟨[], by simp [appendLoop], by simp [appendLoop, applyAll], by simp [appendLoop], by simpa [appendLoop] using hsb⟩
  | cons x rest ih =>
    intro buf out hne hsb hsn
    obtain ⟨ui, v⟩ := x
    have hlast : ∃ last, buf.getLast? = some last := by
      cases h : buf.getLast? with
      | none => simp at h; exact absurd h hne
      | some l => exact ⟨l, rfl⟩
    obtain ⟨last, hl⟩ := hlast
    have hlm : last ∈ buf := List.mem_of_getLast? hl
    rw [appendLoop_cons cmp ui v rest buf out last hl]
    have hsn' : SortedBy cmp (rest.map (·.2)) := by
      simp only [SortedBy, List.map_cons, List.pairwise_cons] at hsn; exact hsn.2
    have hvrest : ∀ b ∈ rest.map (·.2), cmp v b ≠ .gt := by
      simp only [SortedBy, List.map_cons, List.pairwise_cons] at hsn; exact hsn.1
    by_cases hge : cmp v last.2 ≠ .lt
    · rw [if_pos hge]
      refine ⟨[], by simp, by simp [applyAll], List.Perm.refl _, ?_⟩
      -- buf ≤ last ≤ v ≤ rest
      have hlv : cmp last.2 v ≠ .gt := cmp_ge_of_not_lt hc _ _ hge
      have hbl : ∀ a ∈ buf.map (·.2), cmp a v ≠ .gt := by
        intro a ha
        have hlast2 : (buf.map (·.2)).getLast? = some last.2 := by simp [List.getLast?_map, hl]
        exact hc.trans _ _ _ (sorted_le_last hc _ hsb last.2 hlast2 a ha) hlv
      simp only [SortedBy, List.map_append, List.map_cons]
      rw [List.pairwise_append]
      refine ⟨hsb, hsn, ?_⟩
      intro a ha b hb
      rcases List.mem_cons.mp hb with rfl | hb'
      · exact hbl a ha
      · exact hc.trans _ _ _ (hbl a ha) (hvrest b hb')
    · have hlt : cmp v last.2 = .lt := by
        cases h : cmp v last.2 <;> simp_all
      rw [if_neg hge]
      obtain ⟨hpl, hb, ha⟩ := findPos_spec hc buf v hsb
      by_cases hpe : findPos cmp buf v ≠ buf.length
      · rw [if_pos hpe]
        have hins := insertAt_not_end buf (findPos cmp buf v) ui v hpe
        obtain ⟨h1, h2, h3⟩ := insert_core hc buf ui v hsb
        rw [hins] at h1 h2 h3
        simp only at h1 h2 h3
        have hne2 : buf.take (findPos cmp buf v) ++ (ui, v) :: buf.drop (findPos cmp buf v) ≠ [] := by simp
        obtain ⟨ds, g1, g2, g3, g4⟩ := ih _ (out ++ [if findPos cmp buf v = 0 then Diff.pushFront v else Diff.insert (findPos cmp buf v) v]) hne2 h2 hsn'
        refine ⟨(if findPos cmp buf v = 0 then Diff.pushFront v else Diff.insert (findPos cmp buf v) v) :: ds, ?_, ?_, ?_, g4⟩
        · rw [g1]; simp
        · have : (if findPos cmp buf v = 0 then Diff.pushFront v else Diff.insert (findPos cmp buf v) v) :: ds
              = [if findPos cmp buf v = 0 then Diff.pushFront v else Diff.insert (findPos cmp buf v) v] ++ ds := rfl
          rw [this, applyAll_append, h3]
          exact g2
        · refine g3.trans ?_
          have : buf.take (findPos cmp buf v) ++ (ui, v) :: buf.drop (findPos cmp buf v) ++ rest ~ (ui, v) :: buf ++ rest := h1.append_right rest
          refine this.trans ?_
          simp only [List.cons_append]
          exact List.perm_middle.symm
      · exfalso
        have hpe' : findPos cmp buf v = buf.length := by
          cases Nat.decEq (findPos cmp buf v) buf.length with
          | isTrue h => exact h
          | isFalse h => exact absurd h hpe
        have hpos : 0 < buf.length := List.length_pos_iff.mpr hne
        have hlast2 : last = buf[buf.length - 1] := by
          rw [List.getLast?_eq_getElem?, List.getElem?_eq_getElem (by omega)] at hl
          exact (Option.some.inj hl).symm
        have := hb (buf.length - 1) (by omega) (by omega)
        rw [← hlast2] at this
        exact this ((hc.swap _ _).mp hlt)


theorem sinvP_append {α} {cmp : α → α → Ordering} (hc : LawfulCmp cmp) (sortFn) (hss : SortSpec cmp sortFn)
    (buf : List (Nat × α)) (src vs : List α) (hi : SInvP cmp buf src) :
    ∃ out buf', handle cmp sortFn (.append vs) buf = some (out, buf') ∧ SInvP cmp buf' (src ++ vs) ∧
      applyAll out (buf.map (·.2)) = some (buf'.map (·.2)) := by
  obtain ⟨hp, hs⟩ := hi
  have hl : buf.length = src.length := by rw [hp.length_eq, tagged_length]
  have hnp : sortFn (vs.mapIdx fun i v => (i + buf.length, v)) ~ (tagged vs).map (fun p => (p.1 + src.length, p.2)) := by
    rw [← hl, ← mapIdx_offset]; exact (hss _).1
  have hns := (hss (vs.mapIdx fun i v => (i + buf.length, v))).2
  have hperm : ∀ b : List (Nat × α), b ~ buf ++ sortFn (vs.mapIdx fun i v => (i + buf.length, v)) → b ~ tagged (src ++ vs) := by
    intro b hb
    rw [tagged_append]
    exact hb.trans (hp.append hnp)
  simp only [handle]
  by_cases he : buf.isEmpty = true
  · simp only [he, if_true]
    have hb0 : buf = [] := List.isEmpty_iff.mp he
    subst hb0
    refine ⟨_, _, rfl, ⟨hperm _ (List.Perm.refl _), by simpa using hns⟩, ?_⟩
    simp [applyAll, Diff.applicable, Diff.apply]
  · simp only [he, Bool.false_eq_true, if_false]
    have hne : buf ≠ [] := by intro h; simp [h] at he
    obtain ⟨ds, g1, g2, g3, g4⟩ := appendLoop_spec hc (sortFn (vs.mapIdx fun i v => (i + buf.length, v))) buf [] hne hs hns
    generalize appendLoop cmp (sortFn (vs.mapIdx fun i v => (i + buf.length, v))) buf [] = r at *
    obtain ⟨out, buf', left⟩ := r
    simp only [List.nil_append] at g1 g2 g3 g4
    subst g1
    by_cases hle : left.isEmpty = true
    · simp only [hle, if_true]
      have : left = [] := List.isEmpty_iff.mp hle
      subst this
      simp only [List.append_nil] at g3 g4
      exact ⟨_, _, rfl, ⟨hperm _ g3, g4⟩, g2⟩
    · simp only [hle, Bool.false_eq_true, if_false]
      refine ⟨_, _, rfl, ⟨hperm _ g3, g4⟩, ?_⟩
      rw [applyAll_append, g2]
      simp [applyAll, Diff.applicable, Diff.apply]

/-- a `Truncate` that does not shorten anything is harmless (the only `Truncate` for which the arm is right) -/
theorem sinvP_truncate_noop {α} {cmp : α → α → Ordering} (sortFn) (buf : List (Nat × α)) (src : List α) (n : Nat)
    (hn : src.length ≤ n) (hi : SInvP cmp buf src) :
    ∃ out buf', handle cmp sortFn (.truncate n) buf = some (out, buf') ∧ SInvP cmp buf' (src.take n) ∧
      applyAll out (buf.map (·.2)) = some (buf'.map (·.2)) := by
  obtain ⟨hp, hs⟩ := hi
  have hl : buf.length = src.length := by rw [hp.length_eq, tagged_length]
  have hf : buf.filter (fun p => decide (p.1 < n)) = buf := by
    apply List.filter_eq_self.mpr
    intro p hpm
    have := (mem_tagged src p).mp (hp.mem_iff.mp hpm)
    have : p.1 < src.length := by
      rcases List.getElem?_eq_some_iff.mp this with ⟨g, _⟩; exact g
    simp; omega
  refine ⟨_, _, rfl, ?_, ?_⟩
  · simp only [hf, List.take_of_length_le hn]; exact ⟨hp, hs⟩
  · simp only [hf, applyAll, Diff.applicable, Diff.apply, if_true, Option.bind_some]
    rw [List.take_of_length_le (by simp; omega)]

end EV
