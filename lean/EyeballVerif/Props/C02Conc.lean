/-
  C02 across threads — no lost wakeups under every interleaving of the lock-level steps, for any number of
  subscriber tasks, writers, droppers and upgraders.
-/
import EyeballVerif.Lemmas.ConcRun
namespace EV

/-- worlds reachable from a well-formed initial state under any schedule -/
def CReach (s : CS) : Prop :=
  ∃ v c n ops sched, 1 ≤ c ∧ (ops.filter fun (p : COp × Bool) => p.1.needsClone).length ≤ c ∧
    s = (CS.init true v c n ops).run sched

theorem creach_inv (s : CS) (h : CReach s) : WInv s := by
  obtain ⟨v, c, n, ops, sched, h1, h2, rfl⟩ := h
  exact winv_run _ (winv_init v c n ops h1 h2) sched

/-- **No lost wakeup, every schedule.** In every reachable state, a subscriber task whose poll answered
    `Pending` (whether it has already returned or is still inside `poll_update` after the check) and whose waker
    has not been woken is registered in the waker list, the observable is still open, and there is nothing it
    has not observed: it is not suspended while an update or the end of the stream is available. -/
theorem c02_conc_no_lost_wakeup (s : CS) (h : CReach s) (t : Nat) (ht : t < s.ths.length)
    (hp : (s.thAt t).parked = true) :
    t ∈ s.wakers ∧ s.version ≠ 0 ∧ s.version ≤ (s.thAt t).observed := by
  have hi := creach_inv s h
  have hw := hi.parked_ok t ht hp
  have := hi.reg_ok t hw
  exact ⟨hw, this.1, this.2.2.2⟩

/-- every notifying update wakes every registered task: after the `incr_version_and_wake` segment all
    wakers that were registered are woken and the list is empty -/
theorem c02_conc_notify_wakes (s s' : CS) (t : Nat) (th : Th) (v p : Nat) (hth : s.ths[t]? = some th)
    (hop : th.op = .set v) (hpc : th.pc = .writeBeforeNotify p) (h : s.adv t = some s') :
    s'.wakers = [] ∧ s'.version = s.version + 1 ∧ ∀ u ∈ s.wakers, u ≠ t → u < s.ths.length → (s'.thAt u).woken = true := by
  unfold CS.adv at h
  simp only [hth] at h
  rw [hop, hpc] at h
  simp only [Option.some.injEq] at h
  subst h
  refine ⟨rfl, rfl, ?_⟩
  intro u hu hut hul
  have ht : t < s.ths.length := (thAt_eq s t th hth).2
  simp only [CS.thAt, List.getElem?_set]
  have hne : ¬ t = u := fun e => hut e.symm
  simp only [hne, if_false]
  rw [wakeAll_getD]
  simp [hul, hu]

/-- … and so does the close performed by the drop of the last clone -/
theorem c02_conc_close_wakes (s s' : CS) (t : Nat) (th : Th) (hth : s.ths[t]? = some th)
    (hop : th.op = .dropClone) (hpc : th.pc = .closeHoldingMeta) (h : s.adv t = some s') :
    s'.wakers = [] ∧ s'.version = 0 ∧ ∀ u ∈ s.wakers, u ≠ t → u < s.ths.length → (s'.thAt u).woken = true := by
  unfold CS.adv at h
  simp only [hth] at h
  rw [hop, hpc] at h
  simp only [Option.some.injEq] at h
  subst h
  refine ⟨rfl, rfl, ?_⟩
  intro u hu hut hul
  simp only [CS.thAt, List.getElem?_set]
  have hne : ¬ t = u := fun e => hut e.symm
  simp only [hne, if_false]
  rw [wakeAll_getD]
  simp [hul, hu]

/-- **Every change of the version wakes everybody**, whichever call performs it (`set`, a `set_if_not_eq` that
    stores, `update`, the close by the last owner's drop): a step after which the version differs leaves the waker list
    empty, and every task that was registered has been woken. -/
theorem c02_conc_version_change_wakes (s s' : CS) (t : Nat) (h : s.adv t = some s') (hv : s'.version ≠ s.version) :
    s'.wakers = [] ∧ ∀ u ∈ s.wakers, u ≠ t → u < s.ths.length → (s'.thAt u).woken = true := by
  unfold CS.adv at h
  cases hth : s.ths[t]? with
  | none => simp [hth] at h
  | some th =>
    have ht : t < s.ths.length := (thAt_eq s t th hth).2
    have w1 := wakeAll_getD s.ths s.wakers
    simp only [hth] at h
    split at h <;> (try (split at h)) <;> (try (split at h)) <;> simp only [Option.some.injEq, reduceCtorEq] at h <;> (try subst h)
    all_goals (first
      | (exfalso; revert hv; simp; done)
      | (exfalso; revert hv; cases s.atomicDrop <;> simp; done)
      | (refine ⟨rfl, ?_⟩
         intro u hu hut hul
         have hne : ¬ t = u := fun e => hut e.symm
         simp only [CS.thAt, List.getElem?_set, hne, if_false]
         rw [w1]; simp [hul, hu]))

-- non-vacuity: a subscriber parks, a writer blocked meanwhile then notifies and wakes it
example :
    let s := (CS.init true 1 1 1 [(.poll, false), (.set 5, false)]).run [0, 0, 1, 0, 0, 1, 1]
    (s.thAt 0).res = .poll .pending ∧ (s.thAt 0).woken = true ∧ (s.thAt 1).pc = .writeAfterNotify 1 ∧ s.version = 2 := by
  decide

end EV
