/-
  C20 for the reusable boxed future (`Model/RBox`): through every sequence of `set` / `poll` / drop — same or different
  layouts, destructors that panic — every future handed to the box is in exactly one place: stored, dropped (once), or
  leaked; the only leak is the new future of a `set` whose layout differs from the stored one's while the stored one's
  destructor panics (a path the crate never takes: it stores one future type, whose destructor does not panic); the
  box owns exactly one allocation while it stores a future, none otherwise; `set` allocates exactly when the layouts differ.
-/
import EyeballVerif.Model.RBox
namespace EV

/-- where the futures are: every id given so far is stored, dropped or leaked, exactly once; one allocation iff a
    future is stored; a dropped box stores nothing -/
structure RBInv (b : RB) : Prop where
  part : ∀ x, b.dropped.count x + b.leaked.count x + (match b.cur with | some f => if f.id = x then 1 else 0 | none => 0) = b.given.count x
  alloc : b.allocLive = (match b.cur with | some _ => 1 | none => 0)
  dead : b.alive = false → b.cur = none

theorem rbinv_new (f : Fut) : RBInv (RB.new f) := by
  refine ⟨?_, rfl, by intro h; cases h⟩
  intro x
  simp only [RB.new, List.count_nil, List.count_cons, Nat.zero_add]
  by_cases h : f.id = x <;> simp [h]

theorem count_snoc (l : List Nat) (a x : Nat) : (l ++ [a]).count x = l.count x + (if a = x then 1 else 0) := by
  simp [List.count_append, List.count_cons]

/-- **one `set`** keeps the partition and the allocation count -/
theorem rbinv_set (b : RB) (f : Fut) (hi : RBInv b) (ha : b.alive = true) : RBInv (b.set f).1 := by
  obtain ⟨hp, hal, hd⟩ := hi
  unfold RB.set
  cases hc : b.cur with
  | none =>
    simp only [hc] at hp hal
    refine ⟨?_, by simp [hal], by intro h; simp [ha] at h⟩
    intro x; have := hp x; simp only [count_snoc]; omega
  | some old =>
    simp only [hc] at hp hal
    by_cases hl : old.layout = f.layout
    · simp only [hl, if_true]
      refine ⟨?_, by simpa using hal, by intro h; simp [ha] at h⟩
      intro x; have := hp x; simp only [count_snoc]; omega
    · simp only [hl, if_false]
      by_cases hpn : old.dropPanics = true
      · simp only [hpn, if_true]
        refine ⟨?_, by simp [hal], by intro h; simp [ha] at h⟩
        intro x; have := hp x; simp only [count_snoc]; omega
      · have hpf : old.dropPanics = false := by simpa using hpn
        simp only [hpf, Bool.false_eq_true, if_false]
        refine ⟨?_, by simp [hal], by intro h; simp [ha] at h⟩
        intro x; have := hp x; simp only [count_snoc]; omega

theorem rbinv_drop (b : RB) (hi : RBInv b) : RBInv b.drop.1 := by
  obtain ⟨hp, hal, hd⟩ := hi
  unfold RB.drop
  cases hc : b.cur with
  | none => simp only [hc] at hp hal; exact ⟨by simpa [hc] using hp, by simp [hal], fun _ => rfl⟩
  | some f =>
    simp only [hc] at hp hal
    refine ⟨?_, by simp [hal], fun _ => rfl⟩
    intro x; have := hp x; simp only [count_snoc]; omega

theorem rbinv_step (b : RB) (op : RBOp) (hi : RBInv b) : RBInv (b.step op) := by
  cases op with
  | set f =>
    simp only [RB.step]
    by_cases ha : b.alive = true
    · simp only [ha, if_true]; exact rbinv_set b f hi ha
    · simp only [ha, Bool.false_eq_true, if_false]; exact hi
  | poll => exact hi
  | drop =>
    simp only [RB.step]
    by_cases ha : b.alive = true
    · simp only [ha, if_true]; exact rbinv_drop b hi
    · simp only [ha, Bool.false_eq_true, if_false]; exact hi

/-- **every history**: after any sequence of operations starting from `new f0`, every future handed in is stored,
    dropped or leaked — exactly once — and the box owns one allocation exactly while it stores a future -/
theorem c20_box_run (f0 : Fut) (ops : List RBOp) : RBInv (ops.foldl RB.step (RB.new f0)) := by
  have key : ∀ (ops : List RBOp) (b : RB), RBInv b → RBInv (ops.foldl RB.step b) := by
    intro ops
    induction ops with
    | nil => intro b h; exact h
    | cons op rest ih => intro b h; exact ih _ (rbinv_step b op h)
  exact key ops _ (rbinv_new f0)

/-- the crate's use: one future type (one layout), destructors that do not panic -/
def Uniform (L : Nat) (f : Fut) : Prop := f.layout = L ∧ f.dropPanics = false

def RBOp.uniform (L : Nat) : RBOp → Prop
  | .set f => Uniform L f
  | _ => True

/-- what holds in addition when every future has the same layout and no destructor panics: nothing is ever leaked,
    no operation panics, and no `set` allocates -/
structure RBUni (L : Nat) (b : RB) : Prop where
  noLeak : b.leaked = []
  oneAlloc : b.allocs = 1
  cur : ∀ f, b.cur = some f → Uniform L f
  stored : b.alive = true → b.cur.isSome

theorem rbuni_step (L : Nat) (b : RB) (op : RBOp) (hu : RBUni L b) (hop : op.uniform L) :
    RBUni L (b.step op) ∧ (∀ f, op = .set f → b.alive = true → (b.set f).2 = false) := by
  obtain ⟨h1, h2, h3, h4⟩ := hu
  cases op with
  | set f =>
    simp only [RB.step]
    by_cases ha : b.alive = true
    · simp only [ha, if_true]
      have hs := h4 ha
      cases hc : b.cur with
      | none => simp [hc] at hs
      | some old =>
        have ho := h3 old hc
        have hf : Uniform L f := hop
        have hl : old.layout = f.layout := by rw [ho.1, hf.1]
        refine ⟨⟨?_, ?_, ?_, ?_⟩, ?_⟩
        · simp [RB.set, hc, hl, h1]
        · simp [RB.set, hc, hl, h2]
        · intro g hg; simp [RB.set, hc, hl] at hg; subst hg; exact hf
        · intro _; simp [RB.set, hc, hl]
        · intro g hg _; cases hg; simp [RB.set, hc, hl, ho.2]
    · simp only [ha, Bool.false_eq_true, if_false]
      exact ⟨⟨h1, h2, h3, h4⟩, by intro g _ h; first | exact absurd h ha | exact h.elim⟩
  | poll => exact ⟨⟨h1, h2, h3, h4⟩, by intro g h; cases h⟩
  | drop =>
    simp only [RB.step]
    refine ⟨?_, by intro g h; cases h⟩
    by_cases ha : b.alive = true
    · simp only [ha, if_true]
      cases hc : b.cur with
      | none => exact ⟨by simp [RB.drop, hc, h1], by simp [RB.drop, hc, h2], by intro f hf; simp [RB.drop, hc] at hf, by intro h; simp [RB.drop, hc] at h⟩
      | some f => exact ⟨by simp [RB.drop, hc, h1], by simp [RB.drop, hc, h2], by intro g hg; simp [RB.drop, hc] at hg, by intro h; simp [RB.drop, hc] at h⟩
    · simp only [ha, Bool.false_eq_true, if_false]; exact ⟨h1, h2, h3, h4⟩

/-- **the way the crate uses it** (one future type, no panicking destructor): over every history nothing is leaked and
    the box never allocates again after `new` — "replace the future without reallocating" -/
theorem c20_box_uniform (L : Nat) (f0 : Fut) (h0 : Uniform L f0) (ops : List RBOp) (hops : ∀ op ∈ ops, op.uniform L) :
    RBUni L (ops.foldl RB.step (RB.new f0)) := by
  have key : ∀ (ops : List RBOp) (b : RB), RBUni L b → (∀ op ∈ ops, op.uniform L) → RBUni L (ops.foldl RB.step b) := by
    intro ops
    induction ops with
    | nil => intro b h _; exact h
    | cons op rest ih =>
      intro b h hall
      exact ih _ (rbuni_step L b op h (hall op (by simp))).1 (fun o ho => hall o (by simp [ho]))
  exact key ops _ ⟨rfl, rfl, by intro f hf; simp [RB.new] at hf; subst hf; exact h0, by intro _; rfl⟩ hops

/-- **all gone**: once the box has been dropped, every future handed to it in a uniform history has been dropped exactly once -/
theorem c20_box_all_dropped (L : Nat) (f0 : Fut) (h0 : Uniform L f0) (ops : List RBOp) (hops : ∀ op ∈ ops, op.uniform L)
    (hdead : (ops.foldl RB.step (RB.new f0)).alive = false) (x : Nat) :
    (ops.foldl RB.step (RB.new f0)).dropped.count x = (ops.foldl RB.step (RB.new f0)).given.count x ∧
    (ops.foldl RB.step (RB.new f0)).allocLive = 0 := by
  have hi := c20_box_run f0 ops
  have hu := c20_box_uniform L f0 h0 ops hops
  have hc := hi.dead hdead
  have hp := hi.part x
  have ha := hi.alloc
  rw [hc] at hp ha
  rw [hu.noLeak] at hp
  simp at hp ha
  exact ⟨hp, ha⟩

/-- `set` allocates exactly when the layouts differ (and the stored future's destructor does not panic) -/
theorem c20_box_realloc_iff (b : RB) (f old : Fut) (hc : b.cur = some old) (hp : old.dropPanics = false) :
    (b.set f).1.allocs = b.allocs + (if old.layout = f.layout then 0 else 1) := by
  unfold RB.set
  simp only [hc]
  by_cases hl : old.layout = f.layout <;> simp [hl, hp]

/-- the leak (kernel-evaluated): different layout + a panicking destructor of the stored future loses the new one -/
example : ((RB.new ⟨1, 8, true⟩).set ⟨2, 16, false⟩) =
    ({ cur := none, alive := true, dropped := [1], leaked := [2], allocLive := 0, allocs := 1, given := [1, 2] }, true) := by decide

/-- non-vacuity of the uniform theorems -/
example : (([.set ⟨2, 8, false⟩, .poll, .set ⟨3, 8, false⟩, .drop] : List RBOp).foldl RB.step (RB.new ⟨1, 8, false⟩)) =
    { cur := none, alive := false, dropped := [1, 2, 3], leaked := [], allocLive := 0, allocs := 1, given := [1, 2, 3] } := by decide

end EV
