/-
  C02 — no lost wakeups: a pending subscriber is woken by the next update or close (operation granularity;
  the lock-level interleavings are treated in Props/C02Conc.lean).
-/
import EyeballVerif.Props.C01
namespace EV
open OWorld

/-- in every reachable world, a subscriber whose last poll answered `Pending` (and nothing notified since)
    is registered in the waker list — every one of them, not just one -/
theorem c02_parked_registered {α} (eqv : α → α → Bool) (hash : α → Nat) (dflt : α) (w : OWorld α)
    (h : OReach eqv hash dflt w) (i : Nat) (s : SubSt) (hs : w.subs[i]? = some s) (ha : s.alive = true)
    (hp : s.parked = true) : i ∈ w.st.wakers :=
  ((c01_reach_inv eqv hash dflt w h).subs_ok i s hs ha).2 hp

/-- a `Pending` answer means there really was nothing to deliver: the observable is open and the subscriber
    has been shown the latest notifying update -/
theorem c02_pending_nothing_missed {α} (w : OWorld α) (hi : OInv w) (i : Nat) (s : SubSt)
    (hs : w.subs[i]? = some s) (ha : s.alive = true) (w' : OWorld α) (hp : w.poll i = some (w', .pending)) :
    w.st.version ≠ 0 ∧ s.fresh = false := by
  obtain ⟨w2, h2⟩ := c01_poll_spec w hi i s hs ha
  rw [h2] at hp
  by_cases hv : w.st.version = 0
  · simp [hv] at hp
  · refine ⟨hv, ?_⟩
    cases hf : s.fresh
    · rfl
    · simp [hv, hf] at hp

/-- every notifying update wakes *every* registered waker (the list is drained), and so does the close -/
theorem c02_notify_wakes_all {α} (s : ObsSt α) (v : α) (f : α → α) :
    (s.set v).2.2 = s.wakers ∧ (s.update f).2 = s.wakers ∧ (s.updateIf f true).2 = s.wakers ∧
    s.close.2 = s.wakers ∧ (s.set v).1.wakers = [] ∧ s.close.1.wakers = [] := by
  simp [ObsSt.set, ObsSt.bump, ObsSt.update, ObsSt.updateIf, ObsSt.close]

/-- hence: after a `Pending` poll, the next notifying write through any owner wakes that subscriber -/
theorem c02_next_write_wakes {α} (eqv : α → α → Bool) (hash : α → Nat) (dflt : α) (w : OWorld α)
    (h : OReach eqv hash dflt w) (i : Nat) (s : SubSt) (hs : w.subs[i]? = some s) (ha : s.alive = true)
    (hp : s.parked = true) (ho : Nat) (op : WOp α) (w' : OWorld α) (r : WRet α) (wk : List Nat)
    (hw : w.write eqv hash dflt ho op = some (w', r, wk)) (hnot : w'.st.version = w.st.version + 1) : i ∈ wk := by
  have hreg := c02_parked_registered eqv hash dflt w h i s hs ha hp
  unfold OWorld.write at hw
  split at hw
  · simp at hw
  · cases op with
    | set v => simp [ObsSt.set, ObsSt.bump] at hw; obtain ⟨_, _, rfl⟩ := hw; exact hreg
    | take => simp [ObsSt.set, ObsSt.bump] at hw; obtain ⟨_, _, rfl⟩ := hw; exact hreg
    | update f => simp [ObsSt.update, ObsSt.bump] at hw; obtain ⟨_, _, rfl⟩ := hw; exact hreg
    | setIfNotEq v =>
      simp only [ObsSt.setIfNotEq] at hw
      by_cases he : eqv w.st.value v
      · simp [he] at hw; obtain ⟨rfl, _, _⟩ := hw; simp at hnot
      · simp [he, ObsSt.set, ObsSt.bump] at hw; obtain ⟨_, _, rfl⟩ := hw; exact hreg
    | setIfHashNotEq v =>
      simp only [ObsSt.setIfHashNotEq] at hw
      by_cases he : hash w.st.value = hash v
      · simp [he] at hw; obtain ⟨rfl, _, _⟩ := hw; simp at hnot
      · simp [he, ObsSt.set, ObsSt.bump] at hw; obtain ⟨_, _, rfl⟩ := hw; exact hreg
    | updateIf f n =>
      simp only [ObsSt.updateIf] at hw
      cases n with
      | true => simp [ObsSt.bump] at hw; obtain ⟨_, _, rfl⟩ := hw; exact hreg
      | false => simp at hw; obtain ⟨rfl, _, _⟩ := hw; simp at hnot

/-- … and so does the drop of the last owner -/
theorem c02_close_wakes {α} (eqv : α → α → Bool) (hash : α → Nat) (dflt : α) (w : OWorld α)
    (h : OReach eqv hash dflt w) (i : Nat) (s : SubSt) (hs : w.subs[i]? = some s) (ha : s.alive = true)
    (hp : s.parked = true) (ho : Nat) (w' : OWorld α) (wk : List Nat)
    (hd : w.dropOwner ho = some (w', wk)) (hclosed : w'.st.version = 0) : i ∈ wk := by
  have hreg := c02_parked_registered eqv hash dflt w h i s hs ha hp
  have hi := c01_reach_inv eqv hash dflt w h
  unfold OWorld.dropOwner at hd
  cases hal : w.ownerAlive ho with
  | false => simp [hal] at hd
  | true =>
    have hopen : w.st.version ≠ 0 := hi.open_iff.mpr (ownerAlive_pos w ho hal)
    simp only [hal, Bool.not_true, Bool.false_eq_true, if_false] at hd
    split at hd
    · simp [ObsSt.close] at hd; obtain ⟨_, rfl⟩ := hd; exact hreg
    · split at hd
      · simp [ObsSt.close] at hd; obtain ⟨_, rfl⟩ := hd; exact hreg
      · simp at hd; obtain ⟨rfl, _⟩ := hd; exact absurd hclosed hopen

end EV
