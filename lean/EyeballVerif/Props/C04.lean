/-
  C04 — concurrent use of a SharedObservable is linearizable (lock-level model; every schedule).

  Every call takes effect in one segment executed under the lock that excludes everything it conflicts with:
  a `set` at the segment in which it takes the write lock and replaces the value, a `get` / subscriber check at
  the segment in which it reads under the read lock. The theorems: mutual exclusion of the guards, "only the
  store segment changes the value", and the chain property of the stores along any run.
-/
import EyeballVerif.Props.C02Conc
namespace EV

/-- **Guards exclude.** In every reachable state: while a writer is inside its critical section nobody holds
    the read lock and nobody else is a writer; while somebody holds the read lock there is no writer. -/
theorem c04_mutual_exclusion (s : CS) (h : CReach s) :
    (∀ t, s.writer = some t → s.readers = [] ∧ ∀ u, u < s.ths.length → (s.thAt u).pc.holdsWrite = true → u = t) ∧
    (s.readers ≠ [] → s.writer = none) ∧
    (∀ t u, s.metaHeld = some t → u < s.ths.length → (s.thAt u).pc.holdsMeta = true → u = t) := by
  have hi := creach_inv s h
  refine ⟨?_, ?_, ?_⟩
  · intro t ht
    refine ⟨hi.excl (by simp [ht]), ?_⟩
    intro u hu hw
    have := (hi.writer_iff u).mpr ⟨hu, hw⟩
    rw [ht] at this; exact (Option.some.inj this).symm
  · intro hr
    cases hw : s.writer with
    | none => rfl
    | some t => exact absurd (hi.excl (by simp [hw])) hr
  · intro t u ht hu hm
    have := (hi.meta_iff u).mpr ⟨hu, hm⟩
    rw [ht] at this; exact (Option.some.inj this).symm

/-- the value a segment stores, if it is the segment in which a writing call takes the write lock and replaces the
    value: `set v` always, `set_if_not_eq v` when `v` differs from the current value, `update` always -/
def CS.storeOf (s : CS) (t : Nat) : Option Nat :=
  match s.ths[t]? with
  | some th =>
    if th.pc == .start then
      match th.op with
      | .set v => some v
      | .sne v => if s.value = v then none else some v
      | .update k => some (s.value + k)
      | _ => none
    else none
  | none => none

def CS.isStore (s : CS) (t : Nat) : Bool := (s.storeOf t).isSome

/-- **Only a store changes the value**: a step of any thread either is the store segment of a writing call and
    leaves exactly the value that call writes (`set`/`set_if_not_eq`: its argument, `update`: the closure applied
    to the current value — no update is lost), or leaves the value as it is. -/
theorem c04_value_frame (s s' : CS) (t : Nat) (h : s.adv t = some s') :
    (∃ v, s.storeOf t = some v ∧ s'.value = v) ∨ (s.storeOf t = none ∧ s'.value = s.value) := by
  unfold CS.adv at h
  cases hth : s.ths[t]? with
  | none => simp [hth] at h
  | some th =>
    obtain ⟨hthe, ht⟩ := thAt_eq s t th hth
    simp only [hth] at h
    split at h <;> (try (split at h)) <;> (try (split at h)) <;> simp only [Option.some.injEq, reduceCtorEq] at h <;> (try subst h)
    all_goals (first
      | (right; simp_all [CS.storeOf]; done)
      | (left; simp_all [CS.storeOf]; done)
      | (right; cases hat : s.atomicDrop <;> simp_all [CS.storeOf]; done))

/-- what the store segment of a `set` / a successful `set_if_not_eq` remembers as the call's result: the value it
    replaced -/
theorem c04_store_records_prev (s s' : CS) (t : Nat) (th : Th) (hth : s.ths[t]? = some th) (hpc : th.pc = .start)
    (h : s.adv t = some s') :
    (∀ v, th.op = .set v → (s'.thAt t).pc = .writeBeforeNotify s.value) ∧
    (∀ v, th.op = .sne v → s.value ≠ v → (s'.thAt t).pc = .writeBeforeNotify s.value) ∧
    (∀ v, th.op = .sne v → s.value = v →
        s'.value = s.value ∧ s'.version = s.version ∧ s'.wakers = s.wakers ∧ (s'.thAt t).res = .optPrev none ∧
        (s'.thAt t).pc = .finished) := by
  have ht : t < s.ths.length := (thAt_eq s t th hth).2
  unfold CS.adv at h
  simp only [hth] at h
  refine ⟨?_, ?_, ?_⟩
  · intro v hop
    rw [hop, hpc] at h
    simp only at h
    split at h
    · simp at h
    · simp at h; subst h; simp [CS.thAt, ht]
  · intro v hop hne
    rw [hop, hpc] at h
    simp only at h
    split at h
    · simp at h
    · simp at h; subst h; simp [CS.thAt, ht]
  · intro v hop heq
    subst heq
    rw [hop, hpc] at h
    simp only at h
    split at h
    · simp at h
    · simp at h; subst h; simp [CS.thAt, ht]

/-- the stores of a run, in order: (value replaced, value written) -/
def CS.runLog (s : CS) : List Nat → CS × List (Nat × Nat)
  | [] => (s, [])
  | t :: ts =>
    match s.adv t with
    | none => s.runLog ts
    | some s' =>
      let r := s'.runLog ts
      (r.1, if s.isStore t then (s.value, s'.value) :: r.2 else r.2)

def Chain : Nat → List (Nat × Nat) → Nat → Prop
  | a, [], b => a = b
  | a, (p, n) :: rest, b => p = a ∧ Chain n rest b

/-- **Set chain.** Along every run the stores are totally ordered, every `set` replaces (and returns) the
    value written by its immediate predecessor, and the final value is the last one written: the returned
    previous values plus the final value are exactly the initial value plus all values written. -/
theorem c04_set_chain (s : CS) (sched : List Nat) : Chain s.value (s.runLog sched).2 (s.runLog sched).1.value := by
  induction sched generalizing s with
  | nil => simp [CS.runLog, Chain]
  | cons t ts ih =>
    simp only [CS.runLog]
    cases h : s.adv t with
    | none => exact ih s
    | some s' =>
      simp only
      rcases c04_value_frame s s' t h with ⟨v, hs, _⟩ | ⟨hs, hv⟩
      · simp only [CS.isStore, hs, Option.isSome_some, if_true, Chain, true_and]; exact ih s'
      · simp only [CS.isStore, hs, Option.isSome_none, Bool.false_eq_true, if_false]; rw [← hv]; exact ih s'

/-- `runLog` and `run` reach the same state -/
theorem c04_runLog_state (s : CS) (sched : List Nat) : (s.runLog sched).1 = s.run sched := by
  induction sched generalizing s with
  | nil => rfl
  | cons t ts ih =>
    simp only [CS.runLog, CS.run, List.foldl_cons]
    cases h : s.adv t with
    | none => simpa [CS.run] using ih s
    | some s' => simpa [CS.run] using ih s'

/-- a `get`, and the check of a subscriber poll, read the current value — i.e. the value of the latest store
    that precedes them in the run (by `c04_value_frame`) -/
theorem c04_reads_current (s s' : CS) (t : Nat) (th : Th) (hth : s.ths[t]? = some th) (h : s.adv t = some s') :
    (th.op = .get → th.pc = .start → (s'.thAt t).res = .value s.value) ∧
    (th.op = .poll → th.pc = .pollHoldingMeta → ∀ v, (s'.thAt t).pc = .pollAfterCheck (.ready v) → v = s.value) := by
  have ht : t < s.ths.length := (thAt_eq s t th hth).2
  unfold CS.adv at h
  simp only [hth] at h
  constructor
  · intro hop hpc
    rw [hop, hpc] at h
    simp only at h
    split at h
    · simp at h
    · simp at h; subst h; simp [CS.thAt, ht]
  · intro hop hpc v hv
    rw [hop, hpc] at h
    simp only at h
    split at h
    · simp at h; subst h; simp [CS.thAt, ht] at hv
    · split at h
      · simp at h; subst h; simp [CS.thAt, ht] at hv; exact hv.symm
      · simp at h; subst h; simp [CS.thAt, ht] at hv

/-- a subscriber's observed version never goes backwards — `next_now` on an observable that has been closed
    (version 0) being the one exception: it records the closed state's version -/
theorem c04_observed_monotone (s s' : CS) (t u : Nat) (hi : WInv s) (h : s.adv t = some s') (hu : u < s.ths.length) :
    (s.thAt u).observed ≤ (s'.thAt u).observed ∨ (s.version = 0 ∧ t = u ∧ (s.thAt t).op = .nextNow) := by
  have hobs := hi.obs_le u hu
  unfold CS.adv at h
  cases hth : s.ths[t]? with
  | none => simp [hth] at h
  | some th =>
    obtain ⟨hthe, ht⟩ := thAt_eq s t th hth
    have w1 := wakeAll_getD s.ths s.wakers
    simp only [hth] at h
    split at h <;> (try (split at h)) <;> (try (split at h)) <;> simp only [Option.some.injEq, reduceCtorEq] at h <;> (try subst h)
    all_goals (
      simp only [CS.thAt, List.getElem?_set] at *
      by_cases hut : t = u <;> grind)

/-- `next_now` takes effect in one segment: it hands out the current value — the value of the latest store that
    precedes it in the run — and marks exactly the current version as observed, changing nothing else. -/
theorem c04_next_now_current (s s' : CS) (t : Nat) (th : Th) (hth : s.ths[t]? = some th) (hop : th.op = .nextNow)
    (hpc : th.pc = .start) (h : s.adv t = some s') :
    (s'.thAt t).res = .value s.value ∧ (s'.thAt t).observed = s.version ∧ (s'.thAt t).pc = .finished ∧
    s'.value = s.value ∧ s'.version = s.version ∧ s'.wakers = s.wakers ∧ s.writer = none := by
  have ht : t < s.ths.length := (thAt_eq s t th hth).2
  unfold CS.adv at h
  simp only [hth] at h
  rw [hop, hpc] at h
  simp only at h
  split at h
  · simp at h
  · rename_i hfree
    simp at h; subst h
    simp only [Bool.or_eq_true, not_or, Bool.not_eq_true, Option.isSome_eq_false_iff, Option.isNone_iff_eq_none] at hfree
    simp [CS.thAt, ht, hfree.1]

-- non-vacuity: two writers and a reader
example :
    let r := (CS.init true 1 2 1 [(.set 5, false), (.set 6, false), (.get, false)]).runLog [1, 0, 1, 1, 0, 2, 0, 0, 2]
    r.2 = [(1, 6), (6, 5)] ∧ r.1.value = 5 ∧ (r.1.thAt 2).res = .value 5 ∧ (r.1.thAt 0).res = .prev 6 := by decide

-- a `set_if_not_eq` that finds its value already stored, one that does not, an `update` and a `next_now`
example :
    let r := (CS.init true 1 3 1 [(.sne 1, false), (.sne 4, false), (.update 10, false), (.nextNow, false)]).runLog
               [0, 1, 3, 1, 1, 2, 2, 3]
    r.2 = [(1, 4), (4, 14)] ∧ r.1.value = 14 ∧ (r.1.thAt 0).res = .optPrev none ∧ (r.1.thAt 1).res = .optPrev (some 1)
      ∧ (r.1.thAt 3).res = .value 14 ∧ (r.1.thAt 3).observed = 3 ∧ r.1.version = 3 := by decide

end EV
