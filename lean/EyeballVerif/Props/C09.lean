/-
  C09 — Head, Tail and Skip present exactly the first / last / remaining items.

  Per-arm refinement: for every diff that is `validOn` the buffered vector, every limit/count and every
  vector, the diffs the adapter emits, replayed *strictly* on its old view, produce its new view
  (`applyAll … = some …` also says that each emitted diff is applicable to the view built so far).
  Limit / count changes likewise. Tail's `update_limit` violates this for one class of inputs
  (known finding D2): full statement, kernel-checked counterexample and the strongest partial theorem.
-/
import EyeballVerif.Lemmas.AdapterBasics
namespace EV


/-- Head: the rewritten diffs take the old view `take L` to the new view `take L`. -/
theorem head_handle_diff {α} (d : Diff α) (v v' : List α) (L : Nat)
    (hv : d.validOn v = true) (ha : d.apply v = some v') :
    applyAll (Head.handleDiff d L v.length v') (v.take L) = some (v'.take L) := by
  by_cases hL : L = 0
  · subst hL; simp [Head.handleDiff]
  · cases d with
    | remove i =>
      simp [Diff.apply, Diff.validOn, Diff.applicable] at ha hv
      obtain ⟨_, rfl⟩ := ha
      simp only [Head.handleDiff, hL, getPush, if_false]
      by_cases hi : i ≥ L
      · simp [hi]; list_eq
      · simp only [hi, if_false]
        cases hx : (v.eraseIdx i)[L - 1]? with
        | none => simp [applyAll, Diff.applicable, Diff.apply]; fin
        | some x =>
          have hlt : i < min L v.length := by omega
          simp [applyAll, Diff.applicable, Diff.apply, hlt]
          exact take_eraseIdx_push v i L x hL (by omega) hv hx
    | _ =>
      simp [Diff.apply, Diff.validOn, Diff.applicable] at ha hv <;>
      (try (obtain ⟨_, rfl⟩ := ha)) <;> (try subst ha) <;>
      simp only [Head.handleDiff, hL, getPush, if_false, ↓reduceIte] <;>
      (repeat' split) <;>
      simp [applyAll, Diff.applicable, Diff.apply] <;> fin

theorem head_update_limit {α} (v : List α) (old new : Nat) :
    applyAll (Head.updateLimit old new v) (v.take old) = some (v.take new) := by
  simp only [Head.updateLimit]
  (repeat' split) <;> simp [applyAll, Diff.applicable, Diff.apply] <;> fin

theorem head_initial {α} (v : List α) (L : Nat) : Head.initial v L = v.take L := by
  simp only [Head.initial]; split
  · rfl
  · rw [List.take_of_length_le (by omega)]

/-- Tail: the rewritten diffs take the old view `lastN L` to the new view `lastN L` (after the repair of D1). -/
theorem tail_handle_diff {α} (d : Diff α) (v v' : List α) (L : Nat)
    (hv : d.validOn v = true) (ha : d.apply v = some v') :
    applyAll (Tail.handleDiff d L v.length v') (lastN L v) = some (lastN L v') := by
  by_cases hL : L = 0
  · subst hL; simp [Tail.handleDiff, lastN]
  · cases d with
    | append vs =>
      simp [Diff.apply] at ha; subst ha
      simp only [Tail.handleDiff, hL, if_false, truncateFromEnd_eq]
      rw [applyAll_append, applyAll_popFronts _ _ (by simp [lastN]; omega)]
      simp [applyAll, Diff.applicable, Diff.apply, lastN]
      list_eq
    | truncate n =>
      simp [Diff.apply, Diff.validOn] at ha hv; subst ha
      simp only [Tail.handleDiff, hL, if_false]
      rw [applyAll_append, applyAll_popBacks _ _ (by simp [lastN]; omega)]
      simp only [Option.bind_some, applyAll_pushFronts, lastN]
      congr 1
      list_eq
    | remove i =>
      simp [Diff.apply, Diff.validOn, Diff.applicable] at ha hv
      obtain ⟨_, rfl⟩ := ha
      simp only [Tail.handleDiff, hL, getPush, if_false, lastN]
      by_cases hi : i ≥ v.length - L
      · simp only [hi, if_true]
        by_cases h0 : i - (v.length - L) ≠ i
        · rw [if_pos h0]
          cases hx : (v.eraseIdx i)[v.length - L - 1]? with
          | none =>
            rw [List.getElem?_eraseIdx] at hx
            simp [applyAll, Diff.applicable, Diff.apply]
            fin
          | some x =>
            have hlt : i - (v.length - L) < v.length - (v.length - L) := by omega
            simp [applyAll, Diff.applicable, Diff.apply, hlt]
            exact drop_eraseIdx_push v i L x hi hv (by omega) hx
        · rw [if_neg h0]
          simp [applyAll, Diff.applicable, Diff.apply]; fin
      · simp [hi]; fin
    | _ =>
      simp [Diff.apply, Diff.validOn, Diff.applicable] at ha hv <;>
      (try (obtain ⟨_, rfl⟩ := ha)) <;> (try subst ha) <;>
      simp only [Tail.handleDiff, hL, getPush, if_false, ↓reduceIte, truncateFromEnd_eq, lastN] <;>
      (repeat' split) <;>
      simp [applyAll, Diff.applicable, Diff.apply] <;> fin



theorem tail_update_limit_partial {α} (v : List α) (old new : Nat)
    (h : ¬ (old > v.length ∧ 0 < new ∧ new < v.length)) :
    applyAll (Tail.updateLimit old new v) (lastN old v) = some (lastN new v) := by
  simp only [Tail.updateLimit]
  by_cases he : v.isEmpty
  · simp [he]; simp at he; subst he; simp [lastN]
  · simp only [he, if_false, Bool.false_eq_true]
    by_cases h1 : old < new
    · simp only [h1, if_true]
      by_cases hm : ((v.reverse.drop old).take (new - old)).isEmpty
      · simp only [hm, if_true]
        simp [lastN] at hm ⊢
        fin
      · simp only [hm, if_false, Bool.false_eq_true]
        by_cases h0 : old = 0
        · subst h0
          simp [applyAll, Diff.applicable, Diff.apply, lastN]
          list_eq
        · simp only [h0, if_false]
          rw [applyAll_pushFronts]
          simp only [lastN]
          congr 1
          list_eq
    · simp only [h1, if_false]
      by_cases h2 : old > new
      · simp only [h2, if_true]
        by_cases h3 : v.length ≤ new
        · simp [h3, lastN]; fin
        · simp only [h3, if_false]
          by_cases h4 : new = 0
          · subst h4; simp [applyAll, Diff.applicable, Diff.apply, lastN]
          · simp only [h4, if_false]
            rw [applyAll_popFronts _ _ (by simp [lastN]; omega)]
            simp only [lastN]
            congr 1
            list_eq
      · have : old = new := by omega
        subst this; simp [h2]

def tail_update_limit_full : Prop :=
  ∀ (v : List Nat) (old new : Nat), applyAll (Tail.updateLimit old new v) (lastN old v) = some (lastN new v)

/-- known finding D2: shrinking from a limit larger than the vector pops too much -/
theorem tail_update_limit_counterexample : ¬ tail_update_limit_full := by
  intro h
  have := h [1, 2, 3] 10 2
  revert this
  decide

theorem tail_initial {α} (v : List α) (L : Nat) : Tail.initial v L = lastN L v := by
  simp only [Tail.initial, truncateFromEnd_eq]
  split
  · rfl
  · rename_i h; simp only [lastN]; rw [Nat.sub_eq_zero_of_le (by omega)]; rfl

/-- Skip: the rewritten diffs take the old view `drop c` to the new view `drop c`. -/
theorem skip_handle_diff {α} (d : Diff α) (v v' : List α) (c : Nat)
    (hv : d.validOn v = true) (ha : d.apply v = some v') :
    applyAll (Skip.handleDiff d c v.length v') (v.drop c) = some (v'.drop c) := by
  cases d <;>
    simp [Diff.apply, Diff.validOn, Diff.applicable] at ha hv <;>
    (try (obtain ⟨_, rfl⟩ := ha)) <;> (try subst ha) <;>
    simp only [Skip.handleDiff, getPush, skeep_eq] <;>
    (repeat' split) <;>
    simp [applyAll, Diff.applicable, Diff.apply] <;> fin

def Skip.viewOf {α} (count : Option Nat) (v : List α) : List α :=
  match count with
  | none => []
  | some c => v.drop c

theorem skip_update_count {α} (v : List α) (old : Option Nat) (new : Nat) :
    applyAll (Skip.updateCount old new v) (Skip.viewOf old v) = some (v.drop new) := by
  simp only [Skip.updateCount, Skip.viewOf]
  by_cases he : v.isEmpty
  · simp at he; subst he; cases old <;> simp
  · simp only [he, if_false, Bool.false_eq_true]
    cases old with
    | none => simp [applyAll, Diff.applicable, Diff.apply, skeep_eq]
    | some o =>
      simp only
      by_cases h1 : min o v.length < min new v.length
      · simp only [h1, if_true]
        by_cases h2 : v.length ≤ min new v.length
        · simp [h2, applyAll, Diff.applicable, Diff.apply]; omega
        · simp only [h2, if_false]
          rw [applyAll_popFronts _ _ (by simp; omega)]
          congr 1; list_eq
      · simp only [h1, if_false]
        by_cases h2 : min o v.length > min new v.length
        · simp only [h2, if_true]
          by_cases h3 : min o v.length = v.length ∧ min new v.length = 0
          · simp only [h3, and_self, if_true]
            simp [applyAll, Diff.applicable, Diff.apply]
            have : new = 0 := by simp [← List.length_eq_zero_iff] at he; omega
            subst this; simp; omega
          · simp only [h3, if_false]
            by_cases hm : ((v.reverse.drop (v.length - min o v.length)).take (min o v.length - min new v.length)).isEmpty
            · simp only [hm, if_true]
              simp at hm ⊢
              fin
            · simp only [hm, if_false, Bool.false_eq_true]
              rw [applyAll_pushFronts]
              congr 1; list_eq
        · simp only [h2, if_false]
          simp; fin

theorem skip_initial {α} (v : List α) (c : Nat) : skeep v c = v.drop c := skeep_eq v c

-- non-vacuity: hypotheses are met by concrete non-trivial instances
example : (Diff.insert 1 11 : Diff Nat).validOn [10] = true ∧
    applyAll (Tail.handleDiff (.insert 1 11) 2 1 [10, 11]) (lastN 2 [10]) = some [10, 11] := by decide
example : applyAll (Head.handleDiff (Diff.popFront : Diff Nat) 2 3 [11, 12]) ([10, 11, 12].take 2) = some [11, 12] := by decide
example : applyAll (Skip.handleDiff (Diff.insert 0 9 : Diff Nat) 2 3 [9, 1, 2, 3]) ([1, 2, 3].drop 2) = some [2, 3] := by decide

end EV
