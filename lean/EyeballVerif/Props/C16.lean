/-
  C16 — the async-lock flavour obeys the same observable semantics as the default flavour.

  The async flavour is checked against the *same* operation-level model (`OWorld`) as the default one, so the
  theorems of C01–C03 are the statement of its value / notification / wakeup / end-of-stream rules. What is
  specific to it — calls are futures that may have to wait for `tokio::sync::RwLock` — is the semaphore model
  of Model/ObsAsync.lean; the theorems here say when a future completes at once, who is woken by a release,
  and what a subscriber answers once it gets the lock.
-/
import EyeballVerif.Model.ObsAsync
import EyeballVerif.Props.C01
namespace EV

/-- the lock is free: nobody holds a permit, nobody waits -/
def ASem.free (s : ASem) : Prop := s.avail = s.max ∧ s.queue = []

/-- **Guard-free calls never wait.** With the lock free, any request of at most all permits is granted on the
    first poll and nothing is queued. -/
theorem c16_free_acquires (s : ASem) (o : AOwner) (n : Nat) (hf : s.free) (hn : n ≤ s.max) :
    (s.acquire o n).2 = true ∧ (s.acquire o n).1.queue = [] ∧ (s.acquire o n).1.avail = s.max - n := by
  obtain ⟨h1, h2⟩ := hf
  simp [ASem.acquire, h1, h2, hn]

theorem releaseLoop_nil (n : Nat) : releaseLoop [] n = ([], n, []) := rfl

/-- releasing everything that was taken from a free lock makes it free again -/
theorem c16_release_restores (s : ASem) (n : Nat) (hq : s.queue = []) (ha : s.avail + n = s.max) :
    (s.release n).1.free ∧ (s.release n).2 = [] := by
  simp [ASem.release, hq, releaseLoop_nil, ASem.free, ha]

/-- **Same answer as the default flavour when nothing is held**: a write call on a free lock completes on its
    first poll with exactly the default flavour's state change and return value, and leaves the lock free. -/
theorem c16_write_same_as_sync (eqv : Nat → Nat → Bool) (hash : Nat → Nat) (a : AWorld) (h : Nat) (op : OWorld.WOp Nat)
    (hf : a.sem.free) (w' : OWorld Nat) (r : OWorld.WRet Nat) (wk : List Nat)
    (hw : a.w.write eqv hash 0 h op = some (w', r, wk)) :
    let st := a.startFut (.write h op)
    st.2.2 = true ∧
    ∃ a' rs, st.1.finishFut eqv hash st.2.1 = some (a', rs, [], wk) ∧ a'.w = w' ∧ a'.sem.free := by
  obtain ⟨h1, h2⟩ := hf
  simp only [AWorld.startFut, ASem.acquire, h1, Nat.le_refl, if_true, true_and]
  simp only [AWorld.finishFut, List.getElem?_append_right (Nat.le_refl _), Nat.sub_self, List.getElem?_cons_zero]
  simp [hw, AWorld.releaseN, ASem.release, h2, releaseLoop_nil, AWorld.grant, ASem.free]

/-- **A waiter is woken when the lock is released**: if the permits handed back cover what the first waiter
    still misses, it is woken and leaves the queue, and the rest goes on to the next waiter, in order … -/
theorem c16_release_wakes_head (w : AWaiter) (ws : List AWaiter) (n : Nat) (hn : 0 < n) (hc : w.remaining ≤ n) :
    (releaseLoop (w :: ws) n).2.2 = w.owner :: (releaseLoop ws (n - w.remaining)).2.2 ∧
    (releaseLoop (w :: ws) n).1 = (releaseLoop ws (n - w.remaining)).1 := by
  have hn0 : ¬ n = 0 := by omega
  simp [releaseLoop, hn0, hc]

/-- … otherwise it keeps waiting for the remainder and nobody behind it is served (FIFO) -/
theorem c16_release_partial (w : AWaiter) (ws : List AWaiter) (n : Nat) (hc : n < w.remaining) :
    (releaseLoop (w :: ws) n).2.2 = [] ∧ (releaseLoop (w :: ws) n).2.1 = 0 ∧
    (releaseLoop (w :: ws) n).1 = { w with remaining := w.remaining - n } :: ws := by
  by_cases hn0 : n = 0
  · subst hn0; simp [releaseLoop]
  · have : ¬ w.remaining ≤ n := by omega
    simp [releaseLoop, hn0, this]

/-- fairness invariant of the semaphore: while somebody waits nothing is available (so nobody can overtake),
    and every waiter still misses something -/
def ASem.fair (s : ASem) : Prop := (s.queue ≠ [] → s.avail = 0) ∧ ∀ w ∈ s.queue, 0 < w.remaining

theorem c16_acquire_fair (s : ASem) (o : AOwner) (n : Nat) (h : s.fair) : (s.acquire o n).1.fair := by
  obtain ⟨h1, h2⟩ := h
  unfold ASem.acquire
  by_cases hn : n ≤ s.avail
  · simp only [hn, if_true]
    refine ⟨?_, h2⟩
    intro hq; have := h1 hq; simp [this]
  · simp only [hn, if_false]
    refine ⟨fun _ => rfl, ?_⟩
    intro w hw
    simp only [List.mem_append, List.mem_singleton] at hw
    rcases hw with hw | hw
    · exact h2 w hw
    · subst hw; simp; omega

theorem releaseLoop_fair (q : List AWaiter) (n : Nat) (hq : ∀ w ∈ q, 0 < w.remaining) :
    (∀ w ∈ (releaseLoop q n).1, 0 < w.remaining) ∧ ((releaseLoop q n).1 ≠ [] → (releaseLoop q n).2.1 = 0) := by
  induction q generalizing n with
  | nil => simp [releaseLoop]
  | cons w ws ih =>
    have hws : ∀ x ∈ ws, 0 < x.remaining := fun x hx => hq x (by simp [hx])
    by_cases hn0 : n = 0
    · subst hn0; simp only [releaseLoop, if_true]; exact ⟨hq, fun _ => trivial⟩
    · by_cases hc : w.remaining ≤ n
      · have := c16_release_wakes_head w ws n (by omega) hc
        have ih' := ih (n - w.remaining) hws
        simp only [releaseLoop, hn0, if_false, hc, if_true]
        exact ih'
      · have hlt : n < w.remaining := by omega
        simp only [releaseLoop, hn0, if_false, hc]
        refine ⟨?_, fun _ => trivial⟩
        intro x hx
        simp only [List.mem_cons] at hx
        rcases hx with hx | hx
        · subst hx; simp; omega
        · exact hws x hx

theorem c16_release_fair (s : ASem) (n : Nat) (h : s.fair) : (s.release n).1.fair := by
  obtain ⟨h1, h2⟩ := h
  have := releaseLoop_fair s.queue n h2
  unfold ASem.release
  refine ⟨?_, this.1⟩
  intro hq
  have hq0 : s.queue ≠ [] := by
    intro e; simp [e, releaseLoop_nil] at hq
  simp [h1 hq0, this.2 hq]

theorem grant_w (a : AWorld) (wk : List AOwner) : (a.grant wk).w = a.w := by
  unfold AWorld.grant
  induction wk generalizing a with
  | nil => rfl
  | cons o os ih =>
    simp only [List.foldl_cons]
    rw [ih]
    cases o <;> rfl

/-- **A subscriber polled while a write guard is held becomes ready after the guard is dropped**: once its
    reusable lock future has been granted the lock (it was woken), its next poll is exactly the default
    flavour's poll of the current state, and it gives the permit back. -/
theorem c16_granted_sub_polls_like_sync (a : AWorld) (i : Nat) (hal : a.w.subAlive i = true)
    (hg : a.subLock.getD i .idle = .granted) (w' : OWorld Nat) (r : PollRes Nat) (hp : a.w.poll i = some (w', r)) :
    ∃ a' wk, a.pollSub i = some (a', r, wk) ∧ a'.w = w' := by
  unfold AWorld.pollSub
  simp only [hal, Bool.not_true, Bool.false_eq_true, if_false, hg, OWorld.pollW_self, hp]
  exact ⟨_, _, rfl, by simp [AWorld.releaseN, grant_w]⟩

/-- **`next_ref()` hands out the current value and marks it observed.** When the second lock acquisition of a
    `next_ref()` future of subscriber `i` has been granted, its completion is exactly the default flavour's
    `next_ref_now`: the guard shows the value current *at that moment* (whatever was written between the update
    check and the acquisition), that version is the observed one afterwards, and the guard holds one read permit. -/
theorem c16_next_ref_completes_like_next_now (eqv : Nat → Nat → Bool) (hash : Nat → Nat) (a : AWorld) (k i : Nat) (f : AFut)
    (hf : a.futs[k]? = some f) (hk : f.kind = .nextRef i) (hst : f.st = .granted)
    (w' : OWorld Nat) (v : Nat) (hn : a.w.nextNow i = some (w', v)) :
    ∃ a' rs, a.finishFut eqv hash k = some (a', rs, [], []) ∧ a'.w = w' ∧ a'.guards = a.guards ++ [1] ∧ a'.sem = a.sem ∧
      v = a.w.st.value ∧ ∃ s', w'.subs[i]? = some s' ∧ s'.fresh = false := by
  have h3 := c01_next_now_marks a.w w' i v hn
  simp only [AWorld.finishFut, hf, hst, ne_eq, not_true_eq_false, if_false]
  simp only [hk, hn]
  exact ⟨_, _, rfl, rfl, rfl, rfl, h3.1, h3.2.2⟩

/-- a `next_ref()` future whose update check finds nothing new stays pending and leaves the subscriber parked
    with the *future's* waker: the next notifying write wakes that task -/
theorem c16_next_ref_pending_registers (eqv : Nat → Nat → Bool) (hash : Nat → Nat) (a a1 : AWorld) (k i : Nat) (f : AFut)
    (lw : List AOwner) (hf : a.futs[k]? = some f) (hk : f.kind = .nextRef i) (hst : f.st = .idle)
    (hp : a.pollSub i (futWaker k) = some (a1, .pending, lw)) :
    a.pollNextRef eqv hash k = some (a1, none, lw) := by
  simp only [AWorld.pollNextRef, hf, hk, hst, hp]

/-- permits a queued waiter has already collected -/
def collected (q : List AWaiter) : Nat := (q.map fun w => w.total - w.remaining).sum

/-- total size of the requests completed by a release (their owners now hold that many permits) -/
def releaseGranted : List AWaiter → Nat → Nat
  | [], _ => 0
  | w :: ws, rem =>
    if rem = 0 then 0
    else if w.remaining ≤ rem then w.total + releaseGranted ws (rem - w.remaining)
    else 0

/-- well-formed queue: every waiter still misses something, never more than it asked for -/
def QueueOK (q : List AWaiter) : Prop := ∀ w ∈ q, 0 < w.remaining ∧ w.remaining ≤ w.total

/-- **permit conservation**: free permits + permits parked with queued waiters + permits held by completed acquirers
    (`out`) = `max`; and free permits exist only while nobody is queued -/
def SemInv (s : ASem) (out : Nat) : Prop :=
  s.avail + collected s.queue + out = s.max ∧ QueueOK s.queue ∧ (s.queue ≠ [] → s.avail = 0)

theorem collected_append (a b : List AWaiter) : collected (a ++ b) = collected a + collected b := by
  simp [collected, List.map_append, List.sum_append]

theorem seminv_acquire (s : ASem) (o : AOwner) (n out : Nat) (hn : 0 < n) (hi : SemInv s out) :
    SemInv (s.acquire o n).1 (if (s.acquire o n).2 then out + n else out) := by
  obtain ⟨h1, h2, h3⟩ := hi
  unfold ASem.acquire
  by_cases h : n ≤ s.avail
  · simp only [h, if_true]
    refine ⟨by simp only; omega, h2, ?_⟩
    intro hq; have := h3 hq; simp only; omega
  · simp only [h, if_false, Bool.false_eq_true]
    refine ⟨?_, ?_, fun _ => rfl⟩
    · simp only [collected_append]
      simp only [collected] at h1 ⊢
      simp; omega
    · intro w hw
      rcases List.mem_append.mp hw with hw | hw
      · exact h2 w hw
      · simp at hw; subst hw; simp only; omega

theorem releaseLoop_conserves (q : List AWaiter) : ∀ (rem : Nat), QueueOK q →
    (releaseLoop q rem).2.1 + collected (releaseLoop q rem).1 + releaseGranted q rem = rem + collected q ∧
    QueueOK (releaseLoop q rem).1 ∧ ((releaseLoop q rem).1 ≠ [] → (releaseLoop q rem).2.1 = 0) := by
  induction q with
  | nil => intro rem _; simp [releaseLoop, collected, releaseGranted, QueueOK]
  | cons w ws ih =>
    intro rem hq
    have hw := hq w (List.mem_cons_self ..)
    have hws : QueueOK ws := fun x hx => hq x (List.mem_cons_of_mem _ hx)
    unfold releaseLoop releaseGranted
    by_cases h0 : rem = 0
    · subst h0; simp only [if_true]
      exact ⟨by simp, hq, by simp⟩
    · simp only [h0, if_false]
      by_cases h1 : w.remaining ≤ rem
      · simp only [h1, if_true]
        obtain ⟨g1, g2, g3⟩ := ih (rem - w.remaining) hws
        refine ⟨?_, g2, g3⟩
        simp only [collected, List.map_cons, List.sum_cons] at g1 ⊢
        omega
      · simp only [h1, if_false]
        refine ⟨?_, ?_, by simp⟩
        · simp only [collected, List.map_cons, List.sum_cons]; omega
        · intro x hx
          rcases List.mem_cons.mp hx with rfl | hx
          · simp only; omega
          · exact hws x hx

/-- releasing `n` permits that were held: nothing is lost, what completes a request is held by its owner afterwards -/
theorem seminv_release (s : ASem) (n out : Nat) (hn : n ≤ out) (hi : SemInv s out) :
    SemInv (s.release n).1 (out - n + releaseGranted s.queue n) := by
  obtain ⟨h1, h2, h3⟩ := hi
  obtain ⟨g1, g2, g3⟩ := releaseLoop_conserves s.queue n h2
  unfold ASem.release
  refine ⟨?_, g2, ?_⟩
  · simp only
    by_cases hq : s.queue = []
    · simp [hq, releaseLoop, collected, releaseGranted] at g1 ⊢; simp [hq, collected] at h1; omega
    · have := h3 hq; omega
  · intro hq'
    simp only at hq' ⊢
    have := g3 hq'
    by_cases hq : s.queue = []
    · simp [hq, releaseLoop] at hq'
    · have := h3 hq; omega

/-- **mutual exclusion from conservation**: while a writer holds all `max` permits, no permit is free and nobody else
    holds or has collected any -/
theorem c16_writer_excludes (s : ASem) (others : Nat) (hi : SemInv s (s.max + others)) :
    s.avail = 0 ∧ collected s.queue = 0 ∧ others = 0 := by
  obtain ⟨h1, _, _⟩ := hi; omega

/-- while `r` readers hold a permit each, a write request cannot be satisfied at once unless `r = 0` -/
theorem c16_readers_block_writer (s : ASem) (r : Nat) (hr : 0 < r) (hi : SemInv s r) (o : AOwner) : (s.acquire o s.max).2 = false := by
  obtain ⟨h1, _, _⟩ := hi
  unfold ASem.acquire
  have : ¬ s.max ≤ s.avail := by omega
  simp [this]

end EV
