/-
  The atomic poll of `Model/OVec` (one step = one whole `poll_next`, the granularity at which the adapter pipelines
  are modelled and proved) IS the fine-grained poll of `Model/OVecStep` run without anything happening in between:
  same item, same world (`pollRun_atomic`). So the atomic model is the special case "no interleaving" of the
  fine-grained one, not a second, independent reading of subscriber.rs.
-/
import EyeballVerif.Props.StreamStep
namespace EV

theorem put_put {α} (s : SOV α) (i : Nat) (a b : Sub α) (p q : Phase α) : (s.put i a p).put i b q = s.put i b q := by
  simp only [SOV.put, List.set_set]
  congr 1
  funext j
  simp only [updPh]
  split <;> rfl

theorem put_subs {α} (s : SOV α) (i : Nat) (a : Sub α) (p : Phase α) (hil : i < s.ov.subs.length) :
    (s.put i a p).ov.subs[i]? = some a ∧ (s.put i a p).ph i = p ∧ (s.put i a p).ov.log = s.ov.log ∧
    (s.put i a p).ov.B = s.ov.B ∧ (s.put i a p).ov.alive = s.ov.alive ∧ (s.put i a p).ov.subs.length = s.ov.subs.length := by
  simp [SOV.put, updPh, hil]

theorem bind_applyAll_append {α} (x : Option (List α)) (a b : List (Diff α)) :
    (x.bind (applyAll a)).bind (applyAll b) = x.bind (applyAll (a ++ b)) := by
  cases x with
  | none => rfl
  | some v => simp [applyAll_append]

theorem skipped_cons {α} (log : List (Msg α)) (n b : Nat) (m : Msg α) (hm : log[n]? = some m) (hb : n < b) :
    skipped log n b = m.diffs ++ skipped log (n + 1) b := by
  have hlt : n < log.length := by
    rcases List.getElem?_eq_some_iff.mp hm with ⟨g, _⟩; exact g
  have hmm : log[n] = m := by
    rcases List.getElem?_eq_some_iff.mp hm with ⟨_, g⟩; exact g
  unfold skipped
  rw [List.drop_eq_getElem_cons hlt]
  have e : b - n = (b - (n + 1)) + 1 := by omega
  rw [e, List.take_succ_cons, List.flatMap_cons, hmm]

theorem bind_applyAll_nil {α} (x : Option (List α)) : x.bind (applyAll ([] : List (Diff α))) = x := by
  cases x <;> rfl

theorem skipped_self {α} (log : List (Msg α)) (n : Nat) : skipped log n n = [] := by simp [skipped]

/-- the item a lag hands out -/
def resetItem {α} (batched : Bool) (vs : List α) : Item α := if batched then .batch [.reset vs] else .one (.reset vs)

theorem pollRun_succ {α} (s : SOV α) (i f : Nat) :
    s.pollRun i (f + 1) = (match s.micro i with
      | none => none
      | some (_, some it, s') => some (it, s')
      | some (_, none, s') => s'.pollRun i f) := rfl

/-- one `Ok` inside `handle_lag` -/
theorem micro_lag_ok {α} (s : SOV α) (i : Nat) (r : Sub α) (msg : Option (Msg α)) (m : Msg α)
    (hs : s.ov.subs[i]? = some r) (ha : r.alive = true) (hp : s.ph i = .lag msg)
    (hw : ¬ r.next + s.ov.B < s.ov.log.length) (hm : s.ov.log[r.next]? = some m) :
    s.micro i = some (.ok, none, s.put i { r with next := r.next + 1, replica := r.replica.bind (applyAll m.diffs) } (.lag (some m))) := by
  have hna : (!r.alive) = false := by simp [ha]
  have ht := tryRecv_ok s.ov.B s.ov.log (!s.ov.alive) r.next hw m hm
  unfold SOV.micro
  simp only [hs, hna, Bool.false_eq_true, if_false, hp, ht]

/-- the last receive operation of `handle_lag`: nothing left -/
theorem micro_lag_end {α} (s : SOV α) (i : Nat) (r : Sub α) (msg : Option (Msg α))
    (hs : s.ov.subs[i]? = some r) (ha : r.alive = true) (hp : s.ph i = .lag msg) (hn : s.ov.log.length ≤ r.next) :
    ∃ k, s.micro i = some (k, some (match msg with
        | some m => resetItem r.batched m.state
        | none => if s.ov.alive then .panic else .done),
      match msg with
        | some m => s.put i { r with next := r.next, replica := r.replica.bind (applyAll [.reset m.state]) } .idle
        | none => if s.ov.alive then s.put i r .idle else s.put i { r with next := r.next } .idle) := by
  have hna : (!r.alive) = false := by simp [ha]
  have ht := tryRecv_end s.ov.B s.ov.log (!s.ov.alive) r.next hn
  unfold SOV.micro
  simp only [hs, hna, Bool.false_eq_true, if_false, hp, ht]
  cases hal : s.ov.alive <;> cases msg <;> simp [resetItem]

/-- **`handle_lag` without interleaving**: from the lag phase at a cursor inside the window, the run drains to the end and
    hands out what `handleLag_drain` computes for the atomic model -/
theorem lag_run {α} (k : Nat) : ∀ (s : SOV α) (i : Nat) (r : Sub α) (msg : Option (Msg α)),
    s.ov.subs[i]? = some r → r.alive = true → s.ph i = .lag msg → r.next ≤ s.ov.log.length →
    ¬ r.next + s.ov.B < s.ov.log.length → s.ov.log.length - r.next = k →
    s.pollRun i (k + 1) = some
      (match finalMsg s.ov.log r.next msg with
       | some m => (resetItem r.batched m.state,
                    s.put i { r with next := s.ov.log.length,
                                     replica := (r.replica.bind (applyAll (skipped s.ov.log r.next s.ov.log.length))).bind (applyAll [.reset m.state]) } .idle)
       | none => if s.ov.alive then (.panic, s.put i r .idle) else (.done, s.put i { r with next := r.next } .idle)) := by
  induction k with
  | zero =>
    intro s i r msg hs ha hp hn hw hk
    have hne : r.next = s.ov.log.length := by omega
    obtain ⟨kk, hmic⟩ := micro_lag_end s i r msg hs ha hp (by omega)
    rw [pollRun_succ, hmic]
    have hfm : finalMsg s.ov.log r.next msg = msg := by simp [finalMsg, hne]
    rw [hfm]
    cases msg with
    | none => cases hal : s.ov.alive <;> simp
    | some m => simp only [hne, skipped_self, bind_applyAll_nil]
  | succ k ih =>
    intro s i r msg hs ha hp hn hw hk
    have hlt : r.next < s.ov.log.length := by omega
    have hil : i < s.ov.subs.length := by
      rcases List.getElem?_eq_some_iff.mp hs with ⟨g, _⟩; exact g
    have hm : s.ov.log[r.next]? = some s.ov.log[r.next] := by simp [hlt]
    rw [pollRun_succ, micro_lag_ok s i r msg _ hs ha hp hw hm]
    simp only
    obtain ⟨p1, p2, p3, p4, p5, p6⟩ := put_subs s i { r with next := r.next + 1, replica := r.replica.bind (applyAll s.ov.log[r.next].diffs) } (.lag (some s.ov.log[r.next])) hil
    have := ih _ i _ (some s.ov.log[r.next]) p1 ha p2 (by rw [p3]; simp; omega) (by rw [p3, p4]; simp; omega) (by rw [p3]; simp; omega)
    rw [this]
    simp only [p3, p5, put_put]
    have hfm : finalMsg s.ov.log (r.next + 1) (some s.ov.log[r.next]) = finalMsg s.ov.log r.next msg := by
      simp only [finalMsg, hlt, if_true]
      by_cases hl : r.next + 1 < s.ov.log.length
      · simp [hl]
      · simp only [hl, if_false]
        exact (last_of_index _ r.next _ hm (by omega)).symm
    rw [hfm]
    cases hf : finalMsg s.ov.log r.next msg with
    | none =>
      exfalso
      simp only [finalMsg, hlt, if_true] at hf
      have : s.ov.log ≠ [] := by intro e; simp [e] at hlt
      exact this (List.getLast?_eq_none_iff.mp hf)
    | some m =>
      simp only
      congr 2
      rw [skipped_cons s.ov.log r.next s.ov.log.length _ hm hlt, ← bind_applyAll_append]


theorem flat_eq_skipped {α} (log : List (Msg α)) (n : Nat) (hn : n ≤ log.length) :
    (log.drop n).flatMap (·.diffs) = skipped log n log.length := by
  have := flat_split log n log.length hn
  simpa using this

theorem skipped_trans {α} (log : List (Msg α)) (a b c : Nat) (hab : a ≤ b) (hbc : b ≤ c) (hc : c ≤ log.length) :
    skipped log a b ++ skipped log b c = skipped log a c := by
  unfold skipped
  rw [← List.flatMap_append]
  congr 1
  have e1 : (log.drop b) = (log.drop a).drop (b - a) := by rw [List.drop_drop]; congr 1; omega
  have e2 : c - a = (b - a) + (c - b) := by omega
  rw [e1, e2, List.take_add]

/-- one `Ok` inside the batched drain loop -/
theorem micro_drain_ok {α} (s : SOV α) (i : Nat) (r : Sub α) (acc : List (Diff α)) (shown : Option (List α)) (m : Msg α)
    (hs : s.ov.subs[i]? = some r) (ha : r.alive = true) (hp : s.ph i = .drain acc shown)
    (hw : ¬ r.next + s.ov.B < s.ov.log.length) (hm : s.ov.log[r.next]? = some m) :
    s.micro i = some (.ok, none, s.put i { r with next := r.next + 1, replica := r.replica.bind (applyAll m.diffs) } (.drain (acc ++ m.diffs) shown)) := by
  have hna : (!r.alive) = false := by simp [ha]
  have ht := tryRecv_ok s.ov.B s.ov.log (!s.ov.alive) r.next hw m hm
  unfold SOV.micro
  simp only [hs, hna, Bool.false_eq_true, if_false, hp, ht]

theorem micro_drain_end {α} (s : SOV α) (i : Nat) (r : Sub α) (acc : List (Diff α)) (shown : Option (List α))
    (hs : s.ov.subs[i]? = some r) (ha : r.alive = true) (hp : s.ph i = .drain acc shown) (hn : s.ov.log.length ≤ r.next) :
    ∃ k, s.micro i = some (k, some (.batch acc), s.put i r .idle) := by
  have hna : (!r.alive) = false := by simp [ha]
  have ht := tryRecv_end s.ov.B s.ov.log (!s.ov.alive) r.next hn
  unfold SOV.micro
  simp only [hs, hna, Bool.false_eq_true, if_false, hp, ht]
  cases s.ov.alive <;> simp

/-- **the batched drain loop without interleaving** collects everything that is there, in order -/
theorem drain_run {α} (k : Nat) : ∀ (s : SOV α) (i : Nat) (r : Sub α) (acc : List (Diff α)) (shown : Option (List α)),
    s.ov.subs[i]? = some r → r.alive = true → s.ph i = .drain acc shown → r.next ≤ s.ov.log.length →
    ¬ r.next + s.ov.B < s.ov.log.length → s.ov.log.length - r.next = k →
    s.pollRun i (k + 1) = some (.batch (acc ++ skipped s.ov.log r.next s.ov.log.length),
      s.put i { r with next := s.ov.log.length, replica := r.replica.bind (applyAll (skipped s.ov.log r.next s.ov.log.length)) } .idle) := by
  induction k with
  | zero =>
    intro s i r acc shown hs ha hp hn hw hk
    have hne : r.next = s.ov.log.length := by omega
    obtain ⟨kk, hmic⟩ := micro_drain_end s i r acc shown hs ha hp (by omega)
    rw [pollRun_succ, hmic]
    simp only [← hne, skipped_self, bind_applyAll_nil, List.append_nil]
  | succ k ih =>
    intro s i r acc shown hs ha hp hn hw hk
    have hlt : r.next < s.ov.log.length := by omega
    have hil : i < s.ov.subs.length := by
      rcases List.getElem?_eq_some_iff.mp hs with ⟨g, _⟩; exact g
    have hm : s.ov.log[r.next]? = some s.ov.log[r.next] := by simp [hlt]
    rw [pollRun_succ, micro_drain_ok s i r acc shown _ hs ha hp hw hm]
    simp only
    obtain ⟨p1, p2, p3, p4, p5, p6⟩ := put_subs s i { r with next := r.next + 1, replica := r.replica.bind (applyAll s.ov.log[r.next].diffs) } (.drain (acc ++ s.ov.log[r.next].diffs) shown) hil
    have := ih _ i _ _ shown p1 ha p2 (by rw [p3]; simp; omega) (by rw [p3, p4]; simp; omega) (by rw [p3]; simp; omega)
    rw [this]
    simp only [p3, put_put]
    rw [skipped_cons s.ov.log r.next s.ov.log.length _ hm hlt, ← bind_applyAll_append, List.append_assoc]


theorem ph_put_idle {α} (s : SOV α) (i : Nat) (a : Sub α) (hp : s.ph i = .idle) : (s.put i a .idle).ph = s.ph := by
  funext j
  simp only [SOV.put, updPh]
  split
  · rename_i h; subst h; exact hp.symm
  · rfl

/-- **The atomic poll is the fine-grained poll without interleaving.** In every state satisfying the invariant, for every
    live receiver that is not inside a poll: running its `poll_next` receive operation by receive operation with nothing
    happening in between returns, and it returns exactly what the atomic model's `OV.poll` returns — the same item and the
    same world (cursor, remainder, parked flag, ghost replica), every receiver idle as before. -/
theorem pollRun_atomic {α} (s : SOV α) (hi : StInv s) (i : Nat) (r : Sub α) (hs : s.ov.subs[i]? = some r)
    (ha : r.alive = true) (hp : s.ph i = .idle) :
    ∃ n it s', s.pollRun i n = some (it, s') ∧ s.ov.poll i = some (it, s'.ov) ∧ s'.ph = s.ph := by
  obtain ⟨g1, g2, rep, g3, g4⟩ := hi.base.subs i r hs ha
  have hB := hi.base.window
  have hil : i < s.ov.subs.length := by
    rcases List.getElem?_eq_some_iff.mp hs with ⟨g, _⟩; exact g
  have hna : (!r.alive) = false := by simp [ha]
  cases hr : r.rest with
  | cons d ds =>
    have hb : r.batched = false := by
      cases hb : r.batched with
      | false => rfl
      | true => have := g1 hb; simp [hr] at this
    refine ⟨1, .one d, s.put i { r with rest := ds, replica := r.replica.bind (applyAll [d]) } .idle, ?_, ?_, ph_put_idle s i _ hp⟩
    · rw [pollRun_succ]; unfold SOV.micro; simp only [hs, hna, Bool.false_eq_true, if_false, hp, hr]
    · unfold OV.poll; simp only [hs, hna, Bool.false_eq_true, if_false, hb, pollPlain, hr]; rfl
  | nil =>
    simp only [owed, hr, List.nil_append] at g4
    rcases tryRecv_cases s.ov.B s.ov.log (!s.ov.alive) r.next g2 with ⟨m, ht, hm, hlt, hnl⟩ | ⟨ht, hl⟩ | ⟨ht, hc, hn⟩ | ⟨ht, hc, hn⟩
    · -- a message is there
      cases hb : r.batched with
      | false =>
        have hne := hi.base.no_empty m (List.mem_of_getElem? hm)
        cases hmd : m.diffs with
        | nil => exact absurd hmd hne
        | cons d ds =>
          refine ⟨1, .one d, s.put i { r with next := r.next + 1, rest := ds, waiting := false, replica := r.replica.bind (applyAll [d]) } .idle, ?_, ?_, ph_put_idle s i _ hp⟩
          · rw [pollRun_succ]; unfold SOV.micro; simp only [hs, hna, Bool.false_eq_true, if_false, hp, hr, ht, hb, hmd]
          · unfold OV.poll; simp only [hs, hna, Bool.false_eq_true, if_false, hb, pollPlain, hr, ht, hmd]; rfl
      | true =>
        -- first receive operation, then the drain loop
        have hmic : s.micro i = some (.ok, none, s.put i { r with next := r.next + 1, waiting := false, replica := r.replica.bind (applyAll m.diffs) } (.drain m.diffs r.replica)) := by
          unfold SOV.micro; simp only [hs, hna, Bool.false_eq_true, if_false, hp, hr, ht, hb, if_true]
        obtain ⟨p1, p2, p3, p4, p5, p6⟩ := put_subs s i { r with next := r.next + 1, waiting := false, replica := r.replica.bind (applyAll m.diffs) } (.drain m.diffs r.replica) hil
        have hrun := drain_run (s.ov.log.length - (r.next + 1)) _ i _ m.diffs r.replica p1 ha p2 (by rw [p3]; simp; omega) (by rw [p3, p4]; simp; omega) (by rw [p3])
        simp only [p3, put_put] at hrun
        refine ⟨(s.ov.log.length - (r.next + 1) + 1) + 1, .batch (m.diffs ++ skipped s.ov.log (r.next + 1) s.ov.log.length),
          s.put i { r with next := s.ov.log.length, waiting := false,
                           replica := (r.replica.bind (applyAll m.diffs)).bind (applyAll (skipped s.ov.log (r.next + 1) s.ov.log.length)) } .idle,
          ?_, ?_, ph_put_idle s i _ hp⟩
        · rw [pollRun_succ, hmic]; simp only; exact hrun
        · unfold OV.poll
          simp only [hs, hna, Bool.false_eq_true, if_false, hb, if_true, pollBatched, ht]
          have hspec := batchLoop_spec s.ov.B s.ov.log (!s.ov.alive) (s.ov.log.length - (r.next + 1)) (r.next + 1)
            (s.ov.log.length - (r.next + 1) + 1) m.diffs rfl (by omega) (by omega) (Nat.le_refl _)
          rw [hspec]
          simp only [flat_eq_skipped s.ov.log (r.next + 1) (by omega), bind_applyAll_append]
          rfl
    · -- lagged: the cursor jumps, then `handle_lag`
      obtain ⟨n0, hn0⟩ : ∃ n0, n0 = s.ov.log.length - s.ov.B := ⟨_, rfl⟩
      rw [← hn0] at ht
      have hn' : n0 ≤ s.ov.log.length := by omega
      have hmic : s.micro i = some (.lagged, none, s.put i { r with next := n0, waiting := false, replica := r.replica.bind (applyAll (skipped s.ov.log r.next n0)) } (.lag none)) := by
        unfold SOV.micro; simp only [hs, hna, Bool.false_eq_true, if_false, hp, hr, ht]
      obtain ⟨p1, p2, p3, p4, p5, p6⟩ := put_subs s i { r with next := n0, waiting := false, replica := r.replica.bind (applyAll (skipped s.ov.log r.next n0)) } (.lag none) hil
      have hrun := lag_run s.ov.B _ i _ none p1 ha p2 (by rw [p3]; exact hn') (by rw [p3, p4]; simp; omega) (by rw [p3]; simp; omega)
      simp only [p3, p5, put_put] at hrun
      have hlast : ∃ last, s.ov.log.getLast? = some last := by
        cases hh : s.ov.log.getLast? with
        | some l => exact ⟨l, rfl⟩
        | none => have := List.getLast?_eq_none_iff.mp hh; simp [this] at hl
      obtain ⟨last, hlast⟩ := hlast
      have hfm : finalMsg s.ov.log n0 none = some last := by
        simp only [finalMsg]; rw [if_pos (by omega)]; exact hlast
      simp only [hfm] at hrun
      -- the replica: everything owed replays to the contents, whatever `Reset` then overwrites
      have hrep : ((r.replica.bind (applyAll (skipped s.ov.log r.next n0))).bind
            (applyAll (skipped s.ov.log n0 s.ov.log.length))).bind (applyAll [.reset last.state]) =
          r.replica.bind (applyAll [.reset last.state]) := by
        have e := bind_applyAll_append r.replica (skipped s.ov.log r.next n0) (skipped s.ov.log n0 s.ov.log.length)
        rw [e, skipped_trans s.ov.log r.next n0 s.ov.log.length (by omega) hn' (Nat.le_refl _), ← flat_eq_skipped _ _ g2, g3]
        simp [g4, applyAll, Diff.applicable, Diff.apply]
      refine ⟨(s.ov.B + 1) + 1, resetItem r.batched last.state,
        s.put i { r with next := s.ov.log.length, waiting := false,
                         replica := ((r.replica.bind (applyAll (skipped s.ov.log r.next n0))).bind (applyAll (skipped s.ov.log n0 s.ov.log.length))).bind (applyAll [.reset last.state]) } .idle,
        ?_, ?_, ph_put_idle s i _ hp⟩
      · rw [pollRun_succ, hmic]; simp only; exact hrun
      · unfold OV.poll
        have hdr := handleLag_drain s.ov.B s.ov.log (!s.ov.alive) s.ov.B n0 (s.ov.B + 2) none
          (by omega) hn' (by omega) (by omega)
        rw [hrep]
        cases hb : r.batched with
        | true =>
          simp only [hs, hna, Bool.false_eq_true, if_false, hb, if_true, pollBatched, ht, hdr, hfm]
          cases hal : (!s.ov.alive) <;> simp only [hal, Option.map_some, if_true, if_false, Bool.false_eq_true, resetItem] <;> rfl
        | false =>
          simp only [hs, hna, Bool.false_eq_true, if_false, hb, pollPlain, hr, ht, hdr, hfm]
          cases hal : (!s.ov.alive) <;> simp only [hal, Option.map_some, if_true, if_false, Bool.false_eq_true, resetItem] <;> rfl
    · -- nothing there: Pending
      refine ⟨1, .pending, s.put i { r with waiting := true } .idle, ?_, ?_, ph_put_idle s i _ hp⟩
      · rw [pollRun_succ]; unfold SOV.micro; simp only [hs, hna, Bool.false_eq_true, if_false, hp, hr, ht]
      · unfold OV.poll
        cases hb : r.batched <;> simp only [hs, hna, Bool.false_eq_true, if_false, hb, if_true, pollBatched, pollPlain, hr, ht] <;> rfl
    · -- closed and drained: the end
      refine ⟨1, .done, s.put i { r with next := r.next, waiting := false } .idle, ?_, ?_, ph_put_idle s i _ hp⟩
      · rw [pollRun_succ]; unfold SOV.micro; simp only [hs, hna, Bool.false_eq_true, if_false, hp, hr, ht]
      · unfold OV.poll
        cases hb : r.batched <;> simp only [hs, hna, Bool.false_eq_true, if_false, hb, if_true, pollBatched, pollPlain, hr, ht] <;> rfl

end EV
