/-
  C14 — vector streams and adapters never lose a wakeup from any of their inputs (first tier: which events
  wake, and that polling only ever registers).
-/
import EyeballVerif.Lemmas.PipeBasics
import EyeballVerif.Lemmas.Recv
namespace EV

/-- a `send` wakes exactly the parked receivers, and leaves nobody parked -/
theorem c14_send_wakes {α} (s : OV α) (m : Msg α) (h : s.rxCount ≠ 0) :
    (s.send m).2 = s.parked ∧ (s.send m).1.parked = [] := by
  unfold OV.send
  simp only [h, ne_eq, not_false_eq_true, if_true, true_and]
  simp only [OV.parked, OV.unparkAll, List.length_map]
  apply List.filter_eq_nil_iff.mpr
  intro i _
  simp only [List.getElem?_map]
  cases s.subs[i]? <;> simp

/-- every direct mutation that publishes wakes every parked receiver -/
theorem c14_direct_wakes {α} (s s' : OV α) (op : VOp α) (r : Ret α) (w : List Nat)
    (h : s.direct op = some (s', r, w)) (hrx : s.rxCount ≠ 0) (hlog : s'.log ≠ s.log) : w = s.parked := by
  unfold OV.direct at h
  cases he : op.exec s.vals with
  | none => simp [he] at h
  | some res =>
    simp only [he] at h
    cases hd : res.diff with
    | none => simp [hd] at h; obtain ⟨rfl, _, _⟩ := h; simp at hlog
    | some d =>
      simp only [hd] at h
      have hrx' : ({ s with vals := res.vals } : OV α).rxCount ≠ 0 := hrx
      simp [OV.send, hrx'] at h
      obtain ⟨_, _, rfl⟩ := h
      rfl

/-- announcing a limit / count, or ending that stream, wakes the adapter exactly if it is registered there -/
theorem c14_limit_wakes {α} (w : PWorld α) (k v : Nat) (l : Lim) (h : w.lims[k]? = some l) :
    (w.limPush k v).2 = l.waiting ∧ (w.limClose k).2 = l.waiting := by
  simp [PWorld.limPush, PWorld.limClose, h]

/-- polling a limit stream that has nothing to announce registers the waker -/
theorem c14_limPoll_registers {α} (w : PWorld α) (k : Nat) (h : (limPoll w (some k)).1 = .pending) :
    ∃ l, (limPoll w (some k)).2.lims[k]? = some l ∧ l.waiting = true := by
  unfold limPoll at h ⊢
  simp only at h ⊢
  cases hl : w.lims[k]? with
  | none => simp [hl] at h
  | some l =>
    simp only [hl] at h ⊢
    cases hq : l.q with
    | cons v r => simp [hq] at h
    | nil =>
      simp only [hq] at h ⊢
      by_cases hc : l.closed
      · simp [hc] at h
      · have hk : k < w.lims.length := by
          rcases List.getElem?_eq_some_iff.mp hl with ⟨h1, _⟩; exact h1
        simp [hc, hk]

/-- a receiver that reports `Pending` is parked in the channel afterwards -/
theorem c14_sub_pending_parked {α} (s s' : OV α) (i : Nat) (h : s.poll i = some (.pending, s')) :
    ∃ r, s'.subs[i]? = some r ∧ r.waiting = true := by
  unfold OV.poll at h
  cases hs : s.subs[i]? with
  | none => simp [hs] at h
  | some r =>
    simp only [hs] at h
    split at h
    · simp at h
    · simp at h
      obtain ⟨h1, rfl⟩ := h
      have hi : i < s.subs.length := by
        rcases List.getElem?_eq_some_iff.mp hs with ⟨h2, _⟩; exact h2
      simp only [List.getElem?_set, hi, if_true]
      refine ⟨_, rfl, ?_⟩
      by_cases hb : r.batched
      · simp only [hb, if_true] at h1 ⊢
        unfold pollBatched at h1 ⊢
        generalize tryRecv s.B s.log (!s.alive) r.next = t at h1 ⊢
        obtain ⟨a, n⟩ := t
        cases a <;> simp at h1 ⊢
        · rename_i m
          exact absurd h1 (batchLoop_ne_pending _ _ _ _ _ _)
        · generalize handleLag s.B s.log (!s.alive) (s.B + 2) n none = q at h1
          obtain ⟨q1, q2⟩ := q
          rcases q1 with _ | (_ | _) <;> simp at h1
      · simp only [hb, if_false, Bool.false_eq_true] at h1 ⊢
        unfold pollPlain at h1 ⊢
        cases hr : r.rest with
        | cons d ds => simp [hr] at h1
        | nil =>
          simp only [hr] at h1 ⊢
          generalize tryRecv s.B s.log (!s.alive) r.next = t at h1 ⊢
          obtain ⟨a, n⟩ := t
          cases a <;> simp at h1 ⊢
          · rename_i m; cases hd : m.diffs <;> simp [hd] at h1
          · generalize handleLag s.B s.log (!s.alive) (s.B + 2) n none = q at h1
            obtain ⟨q1, q2⟩ := q
            rcases q1 with _ | (_ | _) <;> simp at h1

end EV
