/-
  C14 at the level of whole adapter pipelines: a chain that answers Pending has its waker registered with the
  channel and with every limit / count stream that can still announce something.
-/
import EyeballVerif.Props.C14
namespace EV

/-- limit stream `k` has nothing to announce and either has ended or holds the adapter's waker -/
def Settled {α} (w : PWorld α) (k : Nat) : Prop :=
  ∀ l, w.lims[k]? = some l → l.q = [] ∧ (l.closed = true ∨ l.waiting = true)

theorem settled_limPoll {α} (w : PWorld α) (k : Nat) (k' : Option Nat) (h : Settled w k) : Settled (limPoll w k').2 k := by
  unfold limPoll
  cases k' with
  | none => exact h
  | some j =>
    simp only
    cases hl : w.lims[j]? with
    | none => exact h
    | some l =>
      simp only
      have hj : j < w.lims.length := by
        rcases List.getElem?_eq_some_iff.mp hl with ⟨g, _⟩; exact g
      cases hq : l.q with
      | cons v rest =>
        simp only
        intro l' hl'
        simp only [List.getElem?_set] at hl'
        by_cases hjk : j = k
        · subst hjk
          have := (h l hl).1; rw [hq] at this; cases this
        · simp only [hjk, if_false] at hl'; exact h l' hl'
      | nil =>
        simp only
        split
        · exact h
        · intro l' hl'
          simp only [List.getElem?_set] at hl'
          by_cases hjk : j = k
          · subst hjk
            simp [hj] at hl'; subst hl'
            exact ⟨rfl, Or.inr rfl⟩
          · simp only [hjk, if_false] at hl'; exact h l' hl'

/-- after a limit poll that announced nothing, the stream is settled -/
theorem settled_of_limPoll {α} (w : PWorld α) (k : Nat) (h : ∀ v, (limPoll w (some k)).1 ≠ .value v) :
    Settled (limPoll w (some k)).2 k := by
  unfold limPoll at h ⊢
  simp only at h ⊢
  cases hl : w.lims[k]? with
  | none => simp only; intro l hl'; rw [hl] at hl'; cases hl'
  | some l =>
    simp only [hl] at h ⊢
    have hk : k < w.lims.length := by
      rcases List.getElem?_eq_some_iff.mp hl with ⟨g, _⟩; exact g
    cases hq : l.q with
    | cons v rest => simp [hq] at h
    | nil =>
      simp only
      split
      · rename_i hc
        intro l' hl'; rw [hl] at hl'; cases hl'; exact ⟨hq, Or.inl hc⟩
      · intro l' hl'
        simp [hk] at hl'; subst hl'
        exact ⟨rfl, Or.inr rfl⟩

theorem limOf_setReady {α} (st : Stage α) (r : List (Diff α)) : (st.setReady r).limOf = st.limOf := by
  cases st <;> rfl

theorem limOf_onLimit {α} (st : Stage α) (v : Nat) : (st.onLimit v).2.limOf = st.limOf := by
  cases st <;> rfl

theorem limOf_onDiffs {α} (T : Tables α) (st st2 : Stage α) (ds out : List (Diff α)) (h : st.onDiffs T ds = some (out, st2)) :
    st2.limOf = st.limOf := by
  cases st with
  | head l k buf r =>
    simp only [Stage.onDiffs, Option.map_eq_some_iff] at h
    obtain ⟨⟨b, o⟩, _, h2⟩ := h; cases h2; rfl
  | tail l k buf r =>
    simp only [Stage.onDiffs, Option.map_eq_some_iff] at h
    obtain ⟨⟨b, o⟩, _, h2⟩ := h; cases h2; rfl
  | skip c k buf r =>
    simp only [Stage.onDiffs, Option.map_eq_some_iff] at h
    obtain ⟨⟨b, o⟩, _, h2⟩ := h; cases h2; rfl
  | filter f s =>
    simp only [Stage.onDiffs] at h
    cases h; rfl
  | sort c buf r =>
    simp only [Stage.onDiffs, Option.map_eq_some_iff] at h
    obtain ⟨⟨o, b⟩, _, h2⟩ := h; cases h2; rfl


theorem settled_ov {α} (w : PWorld α) (ov' : OV α) (k : Nat) (h : Settled w k) : Settled { w with ov := ov' } k := h

/-- polling a chain does not change which limit stream belongs to which stage -/
theorem pollStages_limOf {α} (T : Tables α) (b : Bool) (sub : Nat) :
    ∀ (fuel : Nat) (sts : List (Stage α)) (w : PWorld α),
      (pollStages T b sub fuel sts w).2.1.map Stage.limOf = sts.map Stage.limOf := by
  intro fuel
  induction fuel with
  | zero => intro sts w; simp [pollStages]
  | succ n ih =>
    intro sts w
    cases sts with
    | nil => simp only [pollStages]; split <;> rfl
    | cons st inner =>
      simp only [pollStages]
      split
      · simp [limOf_setReady]
      · split
        · rename_i v w1 heq
          split
          · simp [limOf_setReady, limOf_onLimit]
          · rw [ih]; simp [limOf_onLimit]
        · rename_i res w1 _ heq
          have h2 := ih inner w1
          split
          · simp [h2]
          · split
            · simp [h2]
            · rename_i out st2 hod
              split
              · simp [limOf_setReady, limOf_onDiffs T st st2 _ out hod, h2]
              · rw [ih]; simp [limOf_onDiffs T st st2 _ out hod, h2]

/-- **C14 for whole pipelines: `Pending` means registered everywhere.** Whenever polling a chain of adapters
    (any kinds, any depth, either stream flavour) answers `Pending`, the subscriber at the bottom is parked in the
    channel and every stage's limit / count stream has either ended or holds the waker — so by `c14_send_wakes`,
    `c14_drop_wakes` and `c14_limit_wakes` every event that can make the chain ready wakes the task. -/
theorem c14_pipe_pending_registered {α} (T : Tables α) (b : Bool) (sub : Nat) :
    ∀ (fuel : Nat) (sts sts' : List (Stage α)) (w w' : PWorld α) (it : Item α),
      pollStages T b sub fuel sts w = (it, sts', w') → it = .pending →
      (∃ r, w'.ov.subs[sub]? = some r ∧ r.waiting = true) ∧
      ∀ k, some k ∈ sts.map Stage.limOf → Settled w' k := by
  intro fuel
  induction fuel with
  | zero => intro sts sts' w w' it h hp; simp [pollStages] at h; rw [← h.1] at hp; cases hp
  | succ n ih =>
    intro sts sts' w w' it h hp
    cases sts with
    | nil =>
      simp only [pollStages] at h
      cases hpoll : w.ov.poll sub with
      | none => simp [hpoll] at h; rw [← h.1] at hp; cases hp
      | some p =>
        obtain ⟨it0, ov'⟩ := p
        simp [hpoll] at h
        obtain ⟨rfl, _, rfl⟩ := h
        subst hp
        exact ⟨c14_sub_pending_parked w.ov ov' sub hpoll, by intro k hk; simp at hk⟩
    | cons st inner =>
      simp only [pollStages] at h
      split at h
      · simp at h; rw [← h.1] at hp; cases hp
      · split at h
        · rename_i v w1 heq
          split at h
          · rename_i it1 rest he
            simp at h; rw [← h.1] at hp
            rcases emit_kind b _ it1 rest he with ⟨d, rfl⟩ | ⟨xs, rfl, _⟩ <;> cases hp
          · obtain ⟨g1, g2⟩ := ih _ _ _ _ _ h hp
            refine ⟨g1, ?_⟩
            intro k hk
            apply g2 k
            simpa [limOf_onLimit] using hk
        · rename_i res w1 hnv heq
          have hlims := pollStages_limOf T b sub n inner w1
          generalize hcall : pollStages T b sub n inner w1 = r at h hlims
          obtain ⟨it2, inner', w2⟩ := r
          simp only at h hlims
          -- this stage's own limit stream is settled after its poll, and stays so
          have hown : ∀ k, st.limOf = some k → Settled w2 k := by
            intro k hk
            have h0 : Settled w1 k := by
              have := settled_of_limPoll w k (by
                intro v hv
                rw [hk] at heq
                rw [heq] at hv
                exact hnv v hv)
              rw [hk] at heq; rw [heq] at this; exact this
            have := pollStages_preserves T b sub (fun w => Settled w k) (fun w k' h => settled_limPoll w k k' h)
              (fun w it ov' _ h => settled_ov w ov' k h) n inner w1 h0
            rw [hcall] at this; exact this
          split at h
          · -- Pending / End / panic pass through
            simp at h
            obtain ⟨rfl, _, rfl⟩ := h
            obtain ⟨g1, g2⟩ := ih _ _ _ _ _ hcall hp
            refine ⟨g1, ?_⟩
            intro k hk
            simp only [List.map_cons, List.mem_cons] at hk
            rcases hk with hk | hk
            · exact hown k hk.symm
            · exact g2 k hk
          · split at h
            · simp at h; rw [← h.1] at hp; cases hp
            · rename_i out st2 hod
              split at h
              · rename_i it1 rest he
                simp at h; rw [← h.1] at hp
                rcases emit_kind b _ it1 rest he with ⟨d, rfl⟩ | ⟨xs, rfl, _⟩ <;> cases hp
              · obtain ⟨g1, g2⟩ := ih _ _ _ _ _ h hp
                refine ⟨g1, ?_⟩
                intro k hk
                apply g2 k
                simp only [List.map_cons, List.mem_cons] at hk ⊢
                rw [limOf_onDiffs T st st2 _ out hod, hlims]
                exact hk

end EV
