/-
  C06 — lagging subscribers are resynchronised by Reset and never diverge (receiver level).
  The statements quantify over every log, window size and cursor; the reachable-state invariants that
  connect them to whole histories are the `c05_*` theorems of Props/C05.lean.
-/
import EyeballVerif.Lemmas.Recv
namespace EV

/-- nothing the vector publishes is a `Reset` -/
def NoReset {α} (log : List (Msg α)) : Prop := ∀ m ∈ log, ∀ d ∈ m.diffs, ∀ vs, d ≠ .reset vs

theorem nextPow2Aux_ge (f p n : Nat) (hp : 0 < p) : min n (p * 2 ^ f) ≤ nextPow2Aux f p n ∧ 0 < nextPow2Aux f p n := by
  induction f generalizing p with
  | zero => simp [nextPow2Aux]; omega
  | succ f ih =>
    unfold nextPow2Aux
    split
    · have := ih (p * 2) (by omega)
      rw [Nat.pow_succ]
      have e : p * (2 ^ f * 2) = p * 2 * 2 ^ f := by rw [Nat.mul_comm (2 ^ f) 2, Nat.mul_assoc]
      omega
    · omega

/-- the retained window is at least the requested capacity (tokio rounds up to a power of two; the Rust
    side rejects capacities above `usize::MAX / 2`): "more than the window pending" implies
    "more than `capacity` pending" -/
theorem c06_window_ge_capacity (c : Nat) (hc : c ≤ 2 ^ 64) : c ≤ nextPow2 c ∧ 0 < nextPow2 c := by
  have := nextPow2Aux_ge 64 1 c (by omega)
  unfold nextPow2
  omega

/-- **Reset only if lagged, and it carries the newest state** (plain stream). If a poll hands out a `Reset`,
    then more than `B` messages were pending for this receiver, the `Reset` carries the state recorded in
    the newest message, and the receiver has consumed the whole log. -/
theorem c06_plain_reset {α} (B : Nat) (log : List (Msg α)) (c : Bool) (r : Sub α) (vs : List α)
    (hB : 0 < B) (hnr : NoReset log) (hrest : ∀ d ∈ r.rest, ∀ vs, d ≠ .reset vs)
    (h : (pollPlain B log c r).1 = .one (.reset vs)) :
    r.next + B < log.length ∧ log.getLast?.map (·.state) = some vs ∧
    (pollPlain B log c r).2.next = log.length ∧ (pollPlain B log c r).2.rest = [] := by
  unfold pollPlain at h ⊢
  cases hr : r.rest with
  | cons d ds =>
    simp [hr] at h
    exact absurd h (hrest d (by simp [hr]) vs)
  | nil =>
    simp only [hr] at h ⊢
    by_cases hl : r.next + B < log.length
    · have htr : tryRecv B log c r.next = (.lagged, log.length - B) := by simp [tryRecv, hl]
      have hd := handleLag_drain B log c B (log.length - B) (B + 2) none (by omega) (by omega) (by omega) (by omega)
      have hne : log ≠ [] := by intro e; simp [e] at hl
      have hfm : finalMsg log (log.length - B) none = log.getLast? := by simp [finalMsg]; omega
      obtain ⟨m, hm⟩ : ∃ m, log.getLast? = some m := by
        cases hx : log.getLast? with
        | none => simp at hx; exact absurd hx hne
        | some m => exact ⟨m, rfl⟩
      rw [hfm, hm] at hd
      simp only [htr, hd] at h ⊢
      cases c <;> simp at h ⊢ <;> simp [hl, hm, h]
    · cases hm : log[r.next]? with
      | none =>
        have : tryRecv B log c r.next = (if c then .closed else .empty, r.next) := by simp [tryRecv, hl, hm]
        rw [this] at h
        cases c <;> simp at h
      | some m =>
        rw [tryRecv_ok B log c r.next hl m hm] at h
        simp only at h
        cases hd : m.diffs with
        | nil => simp [hd] at h
        | cons d ds =>
          simp [hd] at h
          have hmem : m ∈ log := List.mem_of_getElem? hm
          exact absurd h (hnr m hmem d (by simp [hd]) vs)

/-- the same for the batched stream: a batch containing a `Reset` is exactly `[Reset newest-state]`
    and is produced only when lagged -/
theorem c06_batched_reset {α} (B : Nat) (log : List (Msg α)) (c : Bool) (r : Sub α) (ds : List (Diff α))
    (vs : List α) (hB : 0 < B) (hnr : NoReset log)
    (h : (pollBatched B log c r).1 = .batch ds) (hmem : Diff.reset vs ∈ ds) :
    r.next + B < log.length ∧ log.getLast?.map (·.state) = some vs ∧ ds = [.reset vs] := by
  unfold pollBatched at h
  by_cases hl : r.next + B < log.length
  · have htr : tryRecv B log c r.next = (.lagged, log.length - B) := by simp [tryRecv, hl]
    have hd := handleLag_drain B log c B (log.length - B) (B + 2) none (by omega) (by omega) (by omega) (by omega)
    have hne : log ≠ [] := by intro e; simp [e] at hl
    have hfm : finalMsg log (log.length - B) none = log.getLast? := by simp [finalMsg]; omega
    obtain ⟨m, hm⟩ : ∃ m, log.getLast? = some m := by
      cases hx : log.getLast? with
      | none => simp at hx; exact absurd hx hne
      | some m => exact ⟨m, rfl⟩
    rw [hfm, hm] at hd
    simp only [htr, hd] at h
    cases c <;> simp at h <;> subst h <;> simp at hmem <;> simp [hl, hm, hmem]
  · cases hm : log[r.next]? with
    | none =>
      have : tryRecv B log c r.next = (if c then .closed else .empty, r.next) := by simp [tryRecv, hl, hm]
      rw [this] at h
      cases c <;> simp at h
    | some m =>
      rw [tryRecv_ok B log c r.next hl m hm] at h
      simp only at h
      have hlt : r.next < log.length := by
        rcases List.getElem?_eq_some_iff.mp hm with ⟨h1, _⟩; exact h1
      rw [batchLoop_spec B log c (log.length - (r.next + 1)) (r.next + 1) _ m.diffs rfl (by omega) (by omega) (by omega)] at h
      simp at h; subst h
      exfalso
      simp at hmem
      rcases hmem with hmem | ⟨m', hm', hd'⟩
      · exact hnr m (List.mem_of_getElem? hm) _ hmem vs rfl
      · exact hnr m' (List.mem_of_mem_drop hm') _ hd' vs rfl

/-- each item of the batched stream consumes everything published so far -/
theorem c06_batched_consumes_all {α} (B : Nat) (log : List (Msg α)) (c : Bool) (r : Sub α) (ds : List (Diff α))
    (hB : 0 < B) (h : (pollBatched B log c r).1 = .batch ds) : (pollBatched B log c r).2.next = log.length := by
  unfold pollBatched at h ⊢
  by_cases hl : r.next + B < log.length
  · have htr : tryRecv B log c r.next = (.lagged, log.length - B) := by simp [tryRecv, hl]
    have hd := handleLag_drain B log c B (log.length - B) (B + 2) none (by omega) (by omega) (by omega) (by omega)
    simp only [htr, hd] at h ⊢
    split <;> simp_all
  · cases hm : log[r.next]? with
    | none =>
      have : tryRecv B log c r.next = (if c then .closed else .empty, r.next) := by simp [tryRecv, hl, hm]
      rw [this] at h
      cases c <;> simp at h
    | some m =>
      rw [tryRecv_ok B log c r.next hl m hm]
      have hlt : r.next < log.length := by
        rcases List.getElem?_eq_some_iff.mp hm with ⟨h1, _⟩; exact h1
      simp only
      rw [batchLoop_spec B log c (log.length - (r.next + 1)) (r.next + 1) _ m.diffs rfl (by omega) (by omega) (by omega)]

/-- `Pending` means: nothing left to deliver (the receiver's cursor is at the end of the log, no batch
    remainder) -/
theorem c06_pending_consumed_all {α} (B : Nat) (log : List (Msg α)) (c : Bool) (r : Sub α) :
    ((pollPlain B log c r).1 = .pending → r.rest = [] ∧ log.length ≤ r.next ∧ c = false) ∧
    ((pollBatched B log c r).1 = .pending → log.length ≤ r.next ∧ c = false) := by
  have key : ∀ n, (tryRecv B log c n).1 = .empty → log.length ≤ n ∧ c = false := by
    intro n h
    unfold tryRecv at h
    split at h
    · simp at h
    · cases hm : log[n]? with
      | none => simp [hm] at h ⊢; cases c <;> simp_all
      | some m => simp [hm] at h
  constructor
  · intro h
    unfold pollPlain at h
    cases hr : r.rest with
    | cons d ds => simp [hr] at h
    | nil =>
      simp only [hr] at h
      refine ⟨rfl, key r.next ?_⟩
      generalize htr : tryRecv B log c r.next = t at h
      obtain ⟨a, n⟩ := t
      cases a <;> simp at h ⊢
      · rename_i m; cases hd : m.diffs <;> simp [hd] at h
      · generalize handleLag B log c (B + 2) n none = q at h
        obtain ⟨q1, q2⟩ := q
        rcases q1 with _ | (_ | _) <;> simp at h
  · intro h
    unfold pollBatched at h
    apply key r.next
    generalize htr : tryRecv B log c r.next = t at h
    obtain ⟨a, n⟩ := t
    cases a <;> simp at h ⊢
    · rename_i m
      exact absurd h (batchLoop_ne_pending B log c _ n m.diffs)
    · generalize handleLag B log c (B + 2) n none = q at h
      obtain ⟨q1, q2⟩ := q
      rcases q1 with _ | (_ | _) <;> simp at h

end EV
