/-
  C11 — Sort / SortBy / SortByKey: soundness of every arm except a shortening `Truncate` (known finding D4),
  for every lawful comparator and every sort function meeting the sort specification; whole histories; witnesses
  that the hypotheses are satisfiable.
-/
import EyeballVerif.Lemmas.SortInv
namespace EV
open Srt
open List (Perm)
open scoped List

/-- **C11, every arm but a shortening `Truncate`.** For every lawful comparator, every sort function meeting the
    sort specification, every source, every valid diff that is not a `Truncate` that shortens: the arm does not
    panic, the emitted diffs replay strictly on the old sorted view and yield the new one, and the new buffer is
    a sorted permutation of the new source (each position exactly once, with its item). -/
theorem sort_handle_sound {α} {cmp : α → α → Ordering} (hc : LawfulCmp cmp) (sortFn) (hss : SortSpec cmp sortFn)
    (d : Diff α) (src src' : List α) (buf : List (Nat × α))
    (hv : d.validOn src = true) (ha : d.apply src = some src') (hnt : ∀ n, d = .truncate n → src.length ≤ n)
    (hi : SInvP cmp buf src) :
    ∃ out buf', handle cmp sortFn d buf = some (out, buf') ∧ SInvP cmp buf' src' ∧
      applyAll out (buf.map (·.2)) = some (buf'.map (·.2)) := by
  cases d with
  | append vs => simp [Diff.apply] at ha; subst ha; exact sinvP_append hc sortFn hss buf src vs hi
  | clear => simp [Diff.apply] at ha; subst ha; exact sinvP_clear sortFn buf
  | pushFront v => simp [Diff.apply] at ha; subst ha; exact sinvP_pushFront hc sortFn buf src v hi
  | pushBack v => simp [Diff.apply] at ha; subst ha; exact sinvP_pushBack hc sortFn buf src v hi
  | popFront =>
    simp [Diff.apply] at ha; subst ha
    have : src ≠ [] := by intro h; simp [Diff.validOn, Diff.applicable, h] at hv
    exact sinvP_popFront sortFn buf src this hi
  | popBack =>
    simp [Diff.apply] at ha; subst ha
    have : src ≠ [] := by intro h; simp [Diff.validOn, Diff.applicable, h] at hv
    exact sinvP_popBack sortFn buf src this hi
  | insert i v =>
    simp only [Diff.apply] at ha
    split at ha
    · rename_i h; cases ha; exact sinvP_insert hc sortFn buf src i v h hi
    · cases ha
  | set i v =>
    simp only [Diff.apply] at ha
    split at ha
    · rename_i h; cases ha; exact sinvP_set hc sortFn buf src i v h hi
    · cases ha
  | remove i =>
    simp only [Diff.apply] at ha
    split at ha
    · rename_i h; cases ha; exact sinvP_remove sortFn buf src i h hi
    · cases ha
  | truncate n => simp [Diff.apply] at ha; subst ha; exact sinvP_truncate_noop sortFn buf src n (hnt n rfl) hi
  | reset vs => simp [Diff.apply] at ha; subst ha; exact sinvP_reset sortFn hss buf vs


/-! ### whole histories, and the witnesses that the hypotheses are satisfiable -/

/-- state of a sorted view fed with the source's diffs: source, buffer, what a strict replica of the view holds -/
structure SortRun (α : Type) where
  src : List α
  buf : List (Nat × α)
  view : Option (List α)

def SortRun.step {α} (cmp : α → α → Ordering) (sortFn : List (Nat × α) → List (Nat × α)) (s : SortRun α) (d : Diff α) : SortRun α :=
  match d.apply s.src, handle cmp sortFn d s.buf with
  | some src', some (out, buf') => { src := src', buf := buf', view := s.view.bind (applyAll out) }
  | _, _ => { s with view := none }

/-- the diffs of a history are valid on the successive sources and no `Truncate` shortens -/
def ValidHist {α} : List (Diff α) → List α → Prop
  | [], _ => True
  | d :: ds, src => d.validOn src = true ∧ (∀ n, d = .truncate n → src.length ≤ n) ∧
      ∃ src', d.apply src = some src' ∧ ValidHist ds src'

/-- **C11 over whole histories**: from the initial view on, after any valid history without shortening
    `Truncate`, the strict replica of the sorted view is defined and is the buffer's items, and the buffer is a
    sorted permutation of the source. -/
theorem sort_run_sound {α} {cmp : α → α → Ordering} (hc : LawfulCmp cmp) (sortFn) (hss : SortSpec cmp sortFn)
    (ds : List (Diff α)) : ∀ (s : SortRun α), SInvP cmp s.buf s.src → s.view = some (s.buf.map (·.2)) → ValidHist ds s.src →
    let s' := ds.foldl (SortRun.step cmp sortFn) s
    SInvP cmp s'.buf s'.src ∧ s'.view = some (s'.buf.map (·.2)) := by
  induction ds with
  | nil => intro s h1 h2 _; exact ⟨h1, h2⟩
  | cons d ds ih =>
    intro s h1 h2 hv
    obtain ⟨hv1, hv2, src', hv3, hv4⟩ := hv
    obtain ⟨out, buf', g1, g2, g3⟩ := sort_handle_sound hc sortFn hss d s.src src' s.buf hv1 hv3 hv2 h1
    simp only [List.foldl_cons]
    have hstep : SortRun.step cmp sortFn s d = { src := src', buf := buf', view := some (buf'.map (·.2)) } := by
      simp [SortRun.step, hv3, g1, h2, g3]
    rw [hstep]
    exact ih _ g2 rfl hv4

theorem insertSorted_perm {α} (cmp : α → α → Ordering) (x : Nat × α) (l : List (Nat × α)) : insertSorted cmp x l ~ x :: l := by
  induction l with
  | nil => simp [insertSorted]
  | cons y ys ih =>
    simp only [insertSorted]
    split
    · exact List.Perm.refl _
    · exact (List.Perm.cons y ih).trans (List.Perm.swap x y ys)

theorem insertSorted_sorted {α} {cmp : α → α → Ordering} (hc : LawfulCmp cmp) (x : Nat × α) (l : List (Nat × α))
    (hs : SortedBy cmp (l.map (·.2))) : SortedBy cmp ((insertSorted cmp x l).map (·.2)) := by
  induction l with
  | nil => simp [insertSorted, SortedBy]
  | cons y ys ih =>
    simp only [SortedBy, List.map_cons, List.pairwise_cons] at hs
    simp only [insertSorted]
    split
    · rename_i hlt
      simp only [SortedBy, List.map_cons, List.pairwise_cons]
      have hxy : cmp x.2 y.2 ≠ .gt := by rw [hlt]; decide
      refine ⟨?_, hs.1, hs.2⟩
      intro b hb
      rcases List.mem_cons.mp hb with rfl | hb'
      · exact hxy
      · exact hc.trans _ _ _ hxy (hs.1 b hb')
    · rename_i hnlt
      simp only [SortedBy, List.map_cons, List.pairwise_cons]
      refine ⟨?_, ih hs.2⟩
      intro b hb
      have hb2 : b ∈ (x :: ys).map (·.2) := ((insertSorted_perm cmp x ys).map (·.2)).mem_iff.mp hb
      simp only [List.map_cons] at hb2
      rcases List.mem_cons.mp hb2 with rfl | hb'
      · exact cmp_ge_of_not_lt hc _ _ hnlt
      · exact hs.1 b hb'

/-- the reference sort meets the sort specification: the hypothesis `SortSpec` is satisfiable for every lawful comparator -/
theorem stableSort_spec {α} {cmp : α → α → Ordering} (hc : LawfulCmp cmp) : SortSpec cmp (stableSort cmp) := by
  intro l
  have key : ∀ (l acc : List (Nat × α)), SortedBy cmp (acc.map (·.2)) →
      (l.foldl (fun acc x => insertSorted cmp x acc) acc ~ acc ++ l) ∧
      SortedBy cmp ((l.foldl (fun acc x => insertSorted cmp x acc) acc).map (·.2)) := by
    intro l
    induction l with
    | nil => intro acc h; exact ⟨by simp, h⟩
    | cons x xs ih =>
      intro acc h
      obtain ⟨p1, p2⟩ := ih (insertSorted cmp x acc) (insertSorted_sorted hc x acc h)
      refine ⟨?_, p2⟩
      simp only [List.foldl_cons]
      refine p1.trans ?_
      have : insertSorted cmp x acc ++ xs ~ (x :: acc) ++ xs := (insertSorted_perm cmp x acc).append_right xs
      refine this.trans ?_
      simp only [List.cons_append]
      exact List.perm_middle.symm
  have := key l [] (by simp [SortedBy])
  simpa [stableSort] using this

/-- `Ord` on the naturals is a lawful comparator -/
theorem lawful_nat : LawfulCmp (compare : Nat → Nat → Ordering) := by
  constructor
  · intro a b; simp [Nat.compare_eq_lt, Nat.compare_eq_gt]
  · intro a b c h1 h2
    simp only [ne_eq, Nat.compare_eq_gt, Nat.not_lt] at *
    omega

/-- non-vacuity: a concrete history meets every hypothesis of `sort_run_sound` -/
example : ValidHist [Diff.pushBack 3, .pushBack 1, .insert 1 2, .set 0 0, .append [5, 4], .remove 2, .popFront] ([] : List Nat) := by
  simp [ValidHist, Diff.validOn, Diff.applicable, Diff.apply]

end EV
