/-
  C08 — vector streams end only when the vector is dropped, and on its final state (receiver level).
-/
import EyeballVerif.Lemmas.Recv
namespace EV

theorem handleLag_open_ne_none {α} (B : Nat) (log : List (Msg α)) (fuel n : Nat) (msg : Option (Msg α)) :
    (handleLag B log false fuel n msg).1 ≠ some none := by
  induction fuel generalizing n msg with
  | zero => simp [handleLag]
  | succ f ih =>
    unfold handleLag
    have hc : ∀ k, (tryRecv B log false k).1 ≠ .closed := by
      intro k; unfold tryRecv; split
      · simp
      · cases log[k]? <;> simp
    generalize ht : tryRecv B log false n = t
    obtain ⟨a, n'⟩ := t
    cases a <;> simp only
    · exact ih _ _
    · cases msg <;> simp
    · have := hc n; simp [ht] at this
    · exact ih _ _

/-- **Never ends while the vector is alive** (`closed = false`), for every log, window and receiver state,
    both stream flavours. -/
theorem c08_no_early_end {α} (B : Nat) (log : List (Msg α)) (r : Sub α) :
    (pollPlain B log false r).1 ≠ .done ∧ (pollBatched B log false r).1 ≠ .done := by
  have hc : ∀ k, (tryRecv B log false k).1 ≠ .closed := by
    intro k; unfold tryRecv; split
    · simp
    · cases log[k]? <;> simp
  constructor
  · unfold pollPlain
    cases hr : r.rest with
    | cons d ds => simp
    | nil =>
      simp only
      generalize ht : tryRecv B log false r.next = t
      obtain ⟨a, n⟩ := t
      cases a <;> simp only
      · rename_i m; cases m.diffs <;> simp
      · simp
      · have := hc r.next; simp [ht] at this
      · have := handleLag_open_ne_none B log (B + 2) n none
        generalize handleLag B log false (B + 2) n none = q at this
        obtain ⟨q1, q2⟩ := q
        rcases q1 with _ | (_ | _) <;> simp at this ⊢
  · unfold pollBatched
    generalize ht : tryRecv B log false r.next = t
    obtain ⟨a, n⟩ := t
    cases a <;> simp only
    · rename_i m
      have hb : ∀ fuel k acc, (batchLoop B log false fuel k acc).1 ≠ .done := by
        intro fuel
        induction fuel with
        | zero => intro k acc; simp [batchLoop]
        | succ f ih =>
          intro k acc
          unfold batchLoop
          generalize ht2 : tryRecv B log false k = t2
          obtain ⟨a2, n2⟩ := t2
          cases a2 <;> simp only
          · exact ih _ _
          · simp
          · simp
          · have := handleLag_open_ne_none B log (B + 2) n2 none
            generalize handleLag B log false (B + 2) n2 none = q at this
            obtain ⟨q1, q2⟩ := q
            rcases q1 with _ | (_ | _) <;> simp at this ⊢
      have := hb (log.length - n + 1) n m.diffs
      generalize batchLoop B log false (log.length - n + 1) n m.diffs = q at this
      obtain ⟨q1, q2⟩ := q
      simpa using this
    · simp
    · have := hc r.next; simp [ht] at this
    · have := handleLag_open_ne_none B log (B + 2) n none
      generalize handleLag B log false (B + 2) n none = q at this
      obtain ⟨q1, q2⟩ := q
      rcases q1 with _ | (_ | _) <;> simp at this ⊢

/-- **Ends only after everything was delivered.** When a poll reports the end of the stream, the receiver was
    not behind the window (so the lag path — which now hands out the final state first — was not taken),
    its cursor is at the end of the log and no batch remainder is left: the replica has received every
    published update (with `c05_replay_inv` this makes it equal to the final contents). -/
theorem c08_end_consumed_all {α} (B : Nat) (log : List (Msg α)) (c : Bool) (r : Sub α) (hB : 0 < B) :
    ((pollPlain B log c r).1 = .done → r.rest = [] ∧ log.length ≤ r.next ∧ c = true) ∧
    ((pollBatched B log c r).1 = .done → log.length ≤ r.next ∧ c = true) := by
  have key : ∀ n, (tryRecv B log c n).1 = .closed → log.length ≤ n ∧ c = true := by
    intro n h
    unfold tryRecv at h
    split at h
    · simp at h
    · cases hm : log[n]? with
      | none => simp [hm] at h ⊢; cases c <;> simp_all
      | some m => simp [hm] at h
  have lag : ∀ n, n + B < log.length → ∃ vs, handleLag B log c (B + 2) (log.length - B) none = (some (some vs), log.length) := by
    intro n hl
    have hd := handleLag_drain B log c B (log.length - B) (B + 2) none (by omega) (by omega) (by omega) (by omega)
    have hne : log ≠ [] := by intro e; simp [e] at hl
    have hfm : finalMsg log (log.length - B) none = log.getLast? := by simp [finalMsg]; omega
    obtain ⟨m, hm⟩ : ∃ m, log.getLast? = some m := by
      cases hx : log.getLast? with
      | none => simp at hx; exact absurd hx hne
      | some m => exact ⟨m, rfl⟩
    rw [hfm, hm] at hd
    exact ⟨m.state, by rw [hd]; cases c <;> simp⟩
  constructor
  · intro h
    unfold pollPlain at h
    cases hr : r.rest with
    | cons d ds => simp [hr] at h
    | nil =>
      simp only [hr] at h
      by_cases hl : r.next + B < log.length
      · obtain ⟨vs, hvs⟩ := lag r.next hl
        have htr : tryRecv B log c r.next = (.lagged, log.length - B) := by simp [tryRecv, hl]
        simp [htr, hvs] at h
      · refine ⟨rfl, key r.next ?_⟩
        generalize htr : tryRecv B log c r.next = t at h
        obtain ⟨a, n⟩ := t
        cases a <;> simp at h ⊢
        · rename_i m; cases hd : m.diffs <;> simp [hd] at h
        · have := (tryRecv_lagged_iff B log c r.next).mp (by simp [htr])
          exact absurd this hl
  · intro h
    unfold pollBatched at h
    by_cases hl : r.next + B < log.length
    · obtain ⟨vs, hvs⟩ := lag r.next hl
      have htr : tryRecv B log c r.next = (.lagged, log.length - B) := by simp [tryRecv, hl]
      simp [htr, hvs] at h
    · apply key r.next
      generalize htr : tryRecv B log c r.next = t at h
      obtain ⟨a, n⟩ := t
      cases a <;> simp at h ⊢
      · rename_i m
        have hm : log[r.next]? = some m ∧ n = r.next + 1 := by
          unfold tryRecv at htr
          simp [hl] at htr
          cases hx : log[r.next]? with
          | none => simp [hx] at htr; cases c <;> simp at htr
          | some m' => simp [hx] at htr; simp [htr]
        have hlt : r.next < log.length := by
          rcases List.getElem?_eq_some_iff.mp hm.1 with ⟨h1, _⟩; exact h1
        rw [hm.2, batchLoop_spec B log c (log.length - (r.next + 1)) (r.next + 1) _ m.diffs rfl (by omega) (by omega) (by omega)] at h
        simp at h
      · have := (tryRecv_lagged_iff B log c r.next).mp (by simp [htr])
        exact absurd this hl

/-- a lagging receiver of a dropped vector is first handed the final state (the repaired `handle_lag`) -/
theorem c08_lagged_after_drop_gets_final {α} (B : Nat) (log : List (Msg α)) (r : Sub α) (hB : 0 < B)
    (hr : r.rest = []) (hl : r.next + B < log.length) :
    ∃ m, log.getLast? = some m ∧ (pollPlain B log true r).1 = .one (.reset m.state) ∧
      (pollBatched B log true r).1 = .batch [.reset m.state] := by
  have hd := handleLag_drain B log true B (log.length - B) (B + 2) none (by omega) (by omega) (by omega) (by omega)
  have hne : log ≠ [] := by intro e; simp [e] at hl
  have hfm : finalMsg log (log.length - B) none = log.getLast? := by simp [finalMsg]; omega
  obtain ⟨m, hm⟩ : ∃ m, log.getLast? = some m := by
    cases hx : log.getLast? with
    | none => simp at hx; exact absurd hx hne
    | some m => exact ⟨m, rfl⟩
  rw [hfm, hm] at hd
  have htr : tryRecv B log true r.next = (.lagged, log.length - B) := by simp [tryRecv, hl]
  refine ⟨m, hm, ?_, ?_⟩
  · unfold pollPlain; simp [hr, htr, hd]
  · unfold pollBatched; simp [htr, hd]

/-- dropping the vector wakes every parked receiver and closes the channel -/
theorem c08_drop_wakes {α} (s : OV α) :
    s.dropVec.2 = s.parked ∧ s.dropVec.1.alive = false ∧ s.dropVec.1.parked = [] := by
  refine ⟨rfl, rfl, ?_⟩
  simp only [OV.dropVec, OV.parked, OV.unparkAll, List.length_map]
  apply List.filter_eq_nil_iff.mpr
  intro i _
  simp only [List.getElem?_map]
  cases s.subs[i]? <;> simp

end EV
