/-
  C16, history level — "for every history of calls, the results match those of the default flavour given the same
  calls". A guard-free history is a sequence of calls each of which is awaited to completion before the next one is
  issued (no read / write guard is kept across calls, no future is left pending). For every such history the async
  flavour — every call a future that first has to get `tokio::sync::RwLock` — makes exactly the default flavour's
  state changes and returns exactly its results, never waits, and leaves the lock free after every call
  (`c16_guard_free_run`, by induction over the history from the one-call lemmas `gcall_async_eq_sync`).
  Histories in which guards are held across calls are the subject of the semaphore theorems of Props/C16.lean.
-/
import EyeballVerif.Props.C16
namespace EV

/-- a call awaited to completion -/
inductive GCall where
  | write (h : Nat) (op : OWorld.WOp Nat)     -- set / set_if_not_eq / set_if_hash_not_eq / take / update / update_if through owner `h`
  | poll (i : Nat)                            -- subscriber `i` polled once (as a stream / by `next()`)
  | nextNow (i : Nat)                         -- `next_now().await`

inductive GRes where
  | wr (r : OWorld.WRet Nat) (woken : List Nat)
  | polled (r : PollRes Nat)
  | value (v : Nat)
  | refused                                    -- the call is not possible (dead handle): the world is unchanged

/-- the default flavour: the call is one step of the operation-level model -/
def OWorld.gcall (eqv : Nat → Nat → Bool) (hash : Nat → Nat) (w : OWorld Nat) : GCall → OWorld Nat × GRes
  | .write h op => match w.write eqv hash 0 h op with | some (w', r, wk) => (w', .wr r wk) | none => (w, .refused)
  | .poll i => if w.subAlive i then (match w.poll i with | some (w', r) => (w', .polled r) | none => (w, .refused)) else (w, .refused)
  | .nextNow i => match w.nextNow i with | some (w', v) => (w', .value v) | none => (w, .refused)

/-- the result text `finishFut` prints for a write call -/
def wretStr : OWorld.WRet Nat → String
  | .unit => "-"
  | .val v => toString v
  | .opt none => "none"
  | .opt (some v) => "some(" ++ toString v ++ ")"

/-- the async flavour: the call's future is created, polled (first poll: lock acquisition), and — if the lock was
    granted at once — polled to completion. `none` in the result = the future would have to wait. -/
def AWorld.gcall (eqv : Nat → Nat → Bool) (hash : Nat → Nat) (a : AWorld) : GCall → AWorld × Option (GRes × String)
  | .write h op =>
    match a.w.write eqv hash 0 h op with
    | none => (a, some (.refused, ""))       -- the driver refuses calls through dead handles before any future exists
    | some _ =>
      let st := a.startFut (.write h op)
      if st.2.2 then
        match st.1.finishFut eqv hash st.2.1 with
        | some (a', rs, _, wk) =>
          (a', some ((match a.w.write eqv hash 0 h op with | some (_, r, _) => .wr r wk | none => .refused), rs))
        | none => (st.1, none)
      else (st.1, none)
  | .poll i =>
    match a.pollSub i with
    | some (a', r, _) => (a', some (.polled r, ""))
    | none => (a, some (.refused, ""))
  | .nextNow i =>
    match a.w.nextNow i with
    | none => (a, some (.refused, ""))
    | some _ =>
      let st := a.startFut (.nextNow i)
      if st.2.2 then
        match st.1.finishFut eqv hash st.2.1 with
        | some (a', rs, _, _) => (a', some ((match a.w.nextNow i with | some (_, v) => .value v | none => .refused), rs))
        | none => (st.1, none)
      else (st.1, none)

/-- nothing is held, nobody waits, no subscriber's lock future is in flight -/
def AWorld.Quiet (a : AWorld) : Prop := a.sem.free ∧ 0 < a.sem.max ∧ ∀ i, a.subLock.getD i .idle = .idle

theorem lset_getD_idle (l : List FSt) (i j : Nat) (h : ∀ k, l.getD k .idle = .idle) : (lset l i .idle).getD j .idle = .idle := by
  unfold lset
  split
  · rename_i hi
    simp only [List.getD_eq_getElem?_getD, List.getElem?_set]
    by_cases hij : i = j
    · subst hij; simp [hi]
    · simp only [hij, if_false]; simpa [List.getD_eq_getElem?_getD] using h j
  · simp only [List.getD_eq_getElem?_getD]
    by_cases h1 : j < l.length
    · rw [List.append_assoc, List.getElem?_append_left h1]; simpa [List.getD_eq_getElem?_getD] using h j
    · rw [List.append_assoc, List.getElem?_append_right (by omega)]
      by_cases h2 : j - l.length < i - l.length
      · rw [List.getElem?_append_left (by simpa using h2)]; simp [List.getElem?_replicate, h2]
      · rw [List.getElem?_append_right (by simpa using h2)]
        cases hx : ([FSt.idle])[j - l.length - (List.replicate (i - l.length) FSt.idle).length]? with
        | none => rfl
        | some v =>
          have := List.mem_of_getElem? hx
          simp at this; subst this; rfl

/-- **One call on a quiet lock**: the async flavour completes it on the spot with the default flavour's state change
    and result, and the lock is quiet again. -/
theorem gcall_async_eq_sync (eqv : Nat → Nat → Bool) (hash : Nat → Nat) (a : AWorld) (c : GCall) (hq : a.Quiet) :
    ∃ res txt, (a.gcall eqv hash c).2 = some (res, txt) ∧ (a.gcall eqv hash c).1.w = (a.w.gcall eqv hash c).1 ∧
      res = (a.w.gcall eqv hash c).2 ∧ (a.gcall eqv hash c).1.Quiet ∧
      (∀ h op r wk, c = .write h op → res = .wr r wk → txt = wretStr r) := by
  obtain ⟨⟨h1, h2⟩, hmax, h3⟩ := hq
  cases c with
  | write h op =>
    simp only [AWorld.gcall, OWorld.gcall]
    cases hw : a.w.write eqv hash 0 h op with
    | none => exact ⟨.refused, "", rfl, rfl, rfl, ⟨⟨h1, h2⟩, hmax, h3⟩, by intro _ _ _ _ _ e; cases e⟩
    | some p =>
      obtain ⟨w', r, wk⟩ := p
      obtain ⟨hs, a', rs, hf, hw', hfree⟩ := c16_write_same_as_sync eqv hash a h op ⟨h1, h2⟩ w' r wk hw
      simp only [hs, if_true, hf]
      refine ⟨.wr r wk, rs, rfl, hw', rfl, ?_, ?_⟩
      · -- quiet again: `finishFut` on a write releases everything, nobody queued, sub locks untouched
        refine ⟨hfree, ?_, ?_⟩
        · have : a'.sem.max = a.sem.max := by
            simp only [AWorld.startFut, ASem.acquire, h1, Nat.le_refl, if_true] at hf
            simp only [AWorld.finishFut, List.getElem?_append_right (Nat.le_refl _), Nat.sub_self, List.getElem?_cons_zero] at hf
            simp [hw, AWorld.releaseN, ASem.release, h2, releaseLoop_nil, AWorld.grant] at hf
            obtain ⟨rfl, _⟩ := hf; rfl
          omega
        · intro i
          have : a'.subLock = a.subLock := by
            simp only [AWorld.startFut, ASem.acquire, h1, Nat.le_refl, if_true] at hf
            simp only [AWorld.finishFut, List.getElem?_append_right (Nat.le_refl _), Nat.sub_self, List.getElem?_cons_zero] at hf
            simp [hw, AWorld.releaseN, ASem.release, h2, releaseLoop_nil, AWorld.grant] at hf
            obtain ⟨rfl, _⟩ := hf; rfl
          rw [this]; exact h3 i
      · intro h' op' r' wk' _ e
        cases e
        simp only [AWorld.startFut, ASem.acquire, h1, Nat.le_refl, if_true] at hf
        simp only [AWorld.finishFut, List.getElem?_append_right (Nat.le_refl _), Nat.sub_self, List.getElem?_cons_zero] at hf
        simp [hw, AWorld.releaseN, ASem.release, h2, releaseLoop_nil, AWorld.grant] at hf
        obtain ⟨_, rfl⟩ := hf
        cases r with
        | unit => simp [wretStr]
        | val v => simp [wretStr]
        | opt o => cases o <;> simp [wretStr]
  | poll i =>
    simp only [AWorld.gcall, OWorld.gcall, AWorld.pollSub]
    cases hal : a.w.subAlive i with
    | false => simp [hal]; exact ⟨⟨h1, h2⟩, hmax, h3⟩
    | true =>
      have h1le : 1 ≤ a.sem.avail := by omega
      simp only [Bool.not_true, Bool.false_eq_true, if_false, h3 i, ASem.acquire, h1le, if_true, OWorld.pollW_self]
      cases hp : a.w.poll i with
      | none => simp [hal, hp]; exact ⟨⟨h1, h2⟩, hmax, h3⟩
      | some p =>
        obtain ⟨w', r⟩ := p
        simp only [if_true]
        refine ⟨.polled r, "", rfl, ?_, rfl, ?_, by intro _ _ _ _ e; cases e⟩
        · simp [AWorld.releaseN, ASem.release, h2, releaseLoop_nil, AWorld.grant]
        · simp only [AWorld.releaseN, ASem.release, h2, releaseLoop_nil, AWorld.grant, List.foldl_nil]
          refine ⟨⟨by simp; omega, rfl⟩, hmax, ?_⟩
          intro j; exact lset_getD_idle a.subLock i j h3
  | nextNow i =>
    simp only [AWorld.gcall, OWorld.gcall]
    cases hn : a.w.nextNow i with
    | none => exact ⟨.refused, "", rfl, rfl, rfl, ⟨⟨h1, h2⟩, hmax, h3⟩, by intro _ _ _ _ e; cases e⟩
    | some p =>
      obtain ⟨w', v⟩ := p
      have h1le : 1 ≤ a.sem.avail := by omega
      simp only [AWorld.startFut, ASem.acquire, h1le, if_true]
      simp only [AWorld.finishFut, List.getElem?_append_right (Nat.le_refl _), Nat.sub_self, List.getElem?_cons_zero]
      simp only [ne_eq, not_true_eq_false, if_false, hn]
      refine ⟨.value v, toString v, by simp [AWorld.releaseN, ASem.release, h2, releaseLoop_nil, AWorld.grant], ?_, rfl, ?_, by intro _ _ _ _ e; cases e⟩
      · simp [AWorld.releaseN, ASem.release, h2, releaseLoop_nil, AWorld.grant]
      · simp only [AWorld.releaseN, ASem.release, h2, releaseLoop_nil, AWorld.grant, List.foldl_nil]
        exact ⟨⟨by simp; omega, rfl⟩, hmax, h3⟩

/-- run a history on the async flavour: the results, `none` as soon as a call would have to wait -/
def AWorld.grun (eqv : Nat → Nat → Bool) (hash : Nat → Nat) : AWorld → List GCall → AWorld × Option (List GRes)
  | a, [] => (a, some [])
  | a, c :: cs =>
    match a.gcall eqv hash c with
    | (a', some (r, _)) => (match AWorld.grun eqv hash a' cs with | (a'', some rs) => (a'', some (r :: rs)) | (a'', none) => (a'', none))
    | (a', none) => (a', none)

def OWorld.grun (eqv : Nat → Nat → Bool) (hash : Nat → Nat) : OWorld Nat → List GCall → OWorld Nat × List GRes
  | w, [] => (w, [])
  | w, c :: cs => let (w', r) := w.gcall eqv hash c; let (w'', rs) := OWorld.grun eqv hash w' cs; (w'', r :: rs)

/-- **C16, every guard-free history**: the async flavour never waits, returns the default flavour's results call by
    call (values, previous values, who is woken, `Ready` / `Pending` / end of stream) and ends in the default
    flavour's state, with the lock free. -/
theorem c16_guard_free_run (eqv : Nat → Nat → Bool) (hash : Nat → Nat) (cs : List GCall) :
    ∀ (a : AWorld), a.Quiet →
      (a.grun eqv hash cs).2 = some (a.w.grun eqv hash cs).2 ∧ (a.grun eqv hash cs).1.w = (a.w.grun eqv hash cs).1 ∧
      (a.grun eqv hash cs).1.Quiet := by
  induction cs with
  | nil => intro a hq; exact ⟨rfl, rfl, hq⟩
  | cons c cs ih =>
    intro a hq
    obtain ⟨res, txt, e1, e2, e3, e4, _⟩ := gcall_async_eq_sync eqv hash a c hq
    have hih := ih (a.gcall eqv hash c).1 e4
    simp only [AWorld.grun, OWorld.grun]
    cases hg : a.gcall eqv hash c with
    | mk a' o =>
      rw [hg] at e1 e2 hih
      simp only at e1 e2 hih
      subst e1
      simp only
      obtain ⟨i1, i2, i3⟩ := hih
      rw [e2] at i1 i2
      cases hr : AWorld.grun eqv hash a' cs with
      | mk a'' o2 =>
        rw [hr] at i1 i2 i3
        simp only at i1 i2 i3
        subst i1
        simp only [e3]
        exact ⟨by first | trivial | rfl | simp, i2, i3⟩

/-- the initial world of every async observable is quiet -/
theorem quiet_init (w : OWorld Nat) : (AWorld.init w).Quiet :=
  ⟨⟨rfl, rfl⟩, by simp [AWorld.init], by intro i; simp [AWorld.init]⟩

/-- a shared observable with one subscriber -/
def c16Witness : OWorld Nat :=
  match (OWorld.newShared 1).subscribe 0 false with
  | some (w, _) => w
  | none => OWorld.newShared 1

/-- non-vacuity: a history with a Pending poll, a write that wakes the subscriber, a Ready poll, `next_now` and a final
    Pending poll runs to completion on the async flavour (5 results) -/
example : ((AWorld.init c16Witness).grun (· == ·) id
    [.poll 0, .write 0 (.set 5), .poll 0, .nextNow 0, .poll 0]).2.map (·.length) = some 5 := by decide

example : ((c16Witness.grun (· == ·) id [.poll 0, .write 0 (.set 5), .poll 0]).2.map fun r =>
    match r with | .polled .pending => 0 | .polled (.ready v) => v | .wr _ wk => 100 + wk.length | _ => 999) = [0, 101, 5] := by decide

/-- **`next_ref_now()` leaves the subscriber's own lock request alone**: the call acquires the lock through a request of
    its own (`startFut (.nextRef i)` is its lock acquisition, `finishFut` its completion under the lock); the state of the
    subscriber's stored `get_lock` future — in particular a registration made by an earlier stream poll, which a later release
    of the lock has to wake — is what it was. -/
theorem c16_next_ref_now_keeps_registration (eqv : Nat → Nat → Bool) (hash : Nat → Nat) (a : AWorld) (i : Nat) :
    (a.startFut (.nextRef i)).1.subLock = a.subLock ∧
    ∀ a' rs lw wk, (a.startFut (.nextRef i)).1.finishFut eqv hash (a.startFut (.nextRef i)).2.1 = some (a', rs, lw, wk) →
      a'.subLock = a.subLock ∧ lw = [] := by
  refine ⟨rfl, ?_⟩
  intro a' rs lw wk h
  by_cases hav : 1 ≤ a.sem.avail
  · simp only [AWorld.startFut, ASem.acquire, hav, if_true, AWorld.finishFut, List.getElem?_append_right (Nat.le_refl _),
      Nat.sub_self, List.getElem?_cons_zero, ne_eq, not_true_eq_false, if_false] at h
    cases hn : (a.w.nextNow i) with
    | none => simp [hn] at h
    | some p =>
      obtain ⟨w', v⟩ := p
      simp only [hn, Option.some.injEq, Prod.mk.injEq] at h
      obtain ⟨rfl, _, rfl, _⟩ := h
      exact ⟨rfl, rfl⟩
  · simp only [AWorld.startFut, ASem.acquire, hav, if_false, AWorld.finishFut, List.getElem?_append_right (Nat.le_refl _),
      Nat.sub_self, List.getElem?_cons_zero, Bool.false_eq_true] at h
    simp at h

end EV
