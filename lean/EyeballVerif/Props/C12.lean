/-
  C12 — adapters compose: a chain shows what applying each view in turn would show.
-/
import EyeballVerif.Props.C09
import EyeballVerif.Props.C10
import EyeballVerif.Lemmas.PipeBasics
namespace EV

/-- the view a stage must present of the view below it, at construction -/
def specView {α} (T : Tables α) (below : List α) : StageSpec → List α
  | .head l => below.take l
  | .dhead _ => []                 -- no limit announced yet
  | .dheadi l _ => below.take l
  | .tail l => lastN l below
  | .dtail _ => []
  | .dtaili l _ => lastN l below
  | .skip c => below.drop c
  | .dskip _ => []                 -- no count announced yet
  | .dskipi c _ => below.drop c
  | .filter fid => below.filterMap (T.filt fid)
  | .sort cid => (T.sort cid (below.mapIdx fun i v => (i, v))).map (·.2)

/-- **The initial values a stage hands to the next one are its current view** (not its internal copy of the
    source — the repaired defect D5): for every kind of stage and every initial contents. -/
theorem c12_initial_values {α} (T : Tables α) (vals : List α) (sp : StageSpec) :
    (mkStage T vals sp).2 = specView T vals sp := by
  cases sp <;> simp [mkStage, specView, head_initial, tail_initial, skeep_eq, Filter.init, Srt.init, lastN]

/-- … hence a chain of any length starts from the composition of the views -/
theorem c12_initial_chain {α} (T : Tables α) (vals : List α) (specs : List StageSpec) :
    (mkPipe T vals specs).2 = specs.foldl (specView T) vals := by
  unfold mkPipe
  have key : ∀ (specs : List StageSpec) (acc : List (Stage α)) (v : List α),
      (specs.foldl (fun (acc : List (Stage α) × List α) sp =>
        let (st, v) := mkStage T acc.2 sp
        (st :: acc.1, v)) (acc, v)).2 = specs.foldl (specView T) v := by
    intro specs
    induction specs with
    | nil => intro acc v; rfl
    | cons sp rest ih =>
      intro acc v
      simp only [List.foldl_cons]
      rw [ih, c12_initial_values]
  exact key specs [] vals

/-- the buffered vector every Head/Tail/Skip stage starts with is the view below it (what its rewriting
    theorems `head_handle_diff` … are stated against) -/
theorem c12_stage_buffers_view_below {α} (T : Tables α) (vals : List α) (sp : StageSpec) :
    match (mkStage T vals sp).1 with
    | .head _ _ buf r => buf = vals ∧ r = []
    | .tail _ _ buf r => buf = vals ∧ r = []
    | .skip _ _ buf r => buf = vals ∧ r = []
    | .filter fid st => FInv (T.filt fid) st vals
    | .sort _ _ r => r = [] := by
  cases sp <;> simp [mkStage, Filter.init, Srt.init, FInv]

/-- **The adapter itself as observer.** At any time, what a Head / Tail / Skip hands to an adapter stacked on
    it (`VectorObserver::into_parts`) is its current view of its buffered vector — the first `limit` items, the
    last `limit` items, everything after `count` items (nothing while the count is unknown). -/
theorem c12_into_parts_view {α} (st : Stage α) :
    match st with
    | .head l _ buf _ => st.intoParts = some (buf.take l)
    | .tail l _ buf _ => st.intoParts = some (lastN l buf)
    | .skip (some c) _ buf _ => st.intoParts = some (buf.drop c)
    | .skip none _ _ _ => st.intoParts = some []
    | .filter _ _ => st.intoParts = none
    | .sort _ _ _ => st.intoParts = none := by
  cases st with
  | head l k buf r => have := head_initial buf l; simp only [Head.initial] at this; simp [Stage.intoParts, this]
  | tail l k buf r => have := tail_initial buf l; simp only [Tail.initial] at this; simp [Stage.intoParts, this]
  | skip c k buf r => cases c <;> simp [Stage.intoParts, skeep_eq]
  | filter f s => simp [Stage.intoParts]
  | sort c b r => simp [Stage.intoParts]

-- non-vacuity: dynamic head below a filter starts empty although the source is not
example :
    let T : Tables Nat := { filt := fun _ x => some x, cmp := fun _ => compare, sort := fun _ l => l }
    (mkPipe T [1, 2, 3, 4] [.dhead 0, .filter 0]).2 = [] ∧ (mkPipe T [1, 2, 3, 4] [.tail 3, .skip 1]).2 = [3, 4] := by
  decide

end EV
