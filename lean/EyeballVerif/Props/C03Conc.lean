/-
  C03 across threads — the stream ends exactly when the last owner is gone, also when the last clones are
  dropped (or a weak reference is upgraded) concurrently.
-/
import EyeballVerif.Props.C02Conc
namespace EV

/-- nobody is in the middle of closing -/
def CS.noneClosing (s : CS) : Prop := ∀ t, t < s.ths.length → (s.thAt t).closing = false

/-- **Closed iff no owner, every schedule** (repaired drop protocol). In every reachable state in which no
    dropping thread is between its "I am the last clone" decision and the close it entails — in particular
    at quiescence — the observable is closed exactly if the clone counter says that no owner exists. -/
theorem c03_conc_closed_iff (s : CS) (h : CReach s) (hq : s.noneClosing) : s.version = 0 ↔ s.ncStrong = 0 := by
  have hi := creach_inv s h
  constructor
  · exact hi.closed_no_owner
  · intro h0
    rcases hi.owner_or_closing h0 with hv | ⟨t, ht, hc⟩
    · exact hv
    · have := hq t ht; rw [this] at hc; cases hc

/-- never closed while an owner exists, whatever the threads are doing -/
theorem c03_conc_open_while_owned (s : CS) (h : CReach s) (ho : s.ncStrong ≠ 0) : s.version ≠ 0 :=
  fun hv => ho ((creach_inv s h).closed_no_owner hv)

/-- full statement for the *original* protocol (count read first, reference released when the field is dropped) -/
def c03_conc_racy_full : Prop :=
  ∀ (sched : List Nat), let s := (CS.init false 1 2 1 [(.dropClone, false), (.dropClone, false)]).run sched
    (∀ t ∈ List.range s.ths.length, (s.thAt t).closing = false) →
    (∀ t ∈ List.range s.ths.length, (s.thAt t).pc = .finished) → (s.version = 0 ↔ s.ncStrong = 0)

/-- **D7, kernel-checked**: both clones read a count of 2, neither closes. -/
theorem c03_conc_racy_counterexample : ¬ c03_conc_racy_full := by
  intro h
  have := h [0, 1, 0, 1] (by decide) (by decide)
  revert this; decide

/-- the same schedule under the repaired protocol ends closed -/
example :
    let s := (CS.init true 1 2 1 [(.dropClone, false), (.dropClone, false)]).run [0, 1, 0, 1, 1, 1, 1]
    s.version = 0 ∧ s.ncStrong = 0 ∧ (s.thAt 1).pc = .finished := by decide

end EV
