/-
  C17 — mutators behave like a plain vector; entry traversal visits each item once.
  Only property theorems (and the few frame facts they are stated with) live here; helper lemmas about
  the traversal loop are in Lemmas/Traversal.lean.
-/
import EyeballVerif.Lemmas.Traversal
namespace EV

/-- C17: every mutator changes the contents and returns exactly what the same call on a plain vector does;
    it panics exactly when the plain call is out of range. -/
theorem c17_exec_plain {α} (op : VOp α) (l : List α) :
    (op.exec l).map (fun r => (r.vals, r.ret)) = op.plain l := by
  cases op with
  | append vs => simp [VOp.exec, VOp.plain]
  | clear => simp only [VOp.exec, VOp.plain]; split <;> simp_all
  | pushFront v => simp [VOp.exec, VOp.plain]
  | pushBack v => simp [VOp.exec, VOp.plain]
  | popFront => cases l <;> simp [VOp.exec, VOp.plain]
  | popBack =>
    simp only [VOp.exec, VOp.plain]
    cases h : l.getLast? with
    | none => simp at h; simp [h]
    | some x => simp
  | insert i v => simp only [VOp.exec, VOp.plain]; split <;> simp
  | set i v =>
    simp only [VOp.exec, VOp.plain]
    by_cases h : i < l.length <;> simp [h]
  | remove i =>
    simp only [VOp.exec, VOp.plain]
    by_cases h : i < l.length <;> simp [h]
  | truncate n =>
    simp only [VOp.exec, VOp.plain]; split
    · simp
    · simp; rw [List.take_of_length_le (by omega)]

theorem send_vals {α} (s : OV α) (m : Msg α) : (s.send m).1.vals = s.vals := by
  unfold OV.send; split <;> simp [OV.unparkAll]

theorem send_txn {α} (s : OV α) (m : Msg α) : (s.send m).1.txn = s.txn := by
  unfold OV.send; split <;> simp [OV.unparkAll]

/-- `ObservableVector` mutators: contents and return value are those of the plain-vector call; the call
    panics (no new state, nothing sent — `OV.direct` yields no successor state) exactly when the plain call is
    out of range. -/
theorem c17_direct {α} (s : OV α) (op : VOp α) :
    match s.direct op with
    | some (s', r, _) => op.plain s.vals = some (s'.vals, r)
    | none => op.plain s.vals = none := by
  have h := c17_exec_plain op s.vals
  unfold OV.direct
  cases he : op.exec s.vals with
  | none => simp [he] at h ⊢; exact h.symm
  | some r =>
    simp [he] at h ⊢
    cases hd : r.diff with
    | none => simp [h]
    | some d => simp [send_vals, h]


/-- the same for the mutators of a transaction, on its working copy -/
theorem c17_txn_op {α} (s : OV α) (t : Txn α) (ht : s.txn = some t) (op : VOp α) :
    match s.txnOp op with
    | some (s', r) => ∃ t', s'.txn = some t' ∧ op.plain t.working = some (t'.working, r)
    | none => op.plain t.working = none := by
  have h := c17_exec_plain op t.working
  by_cases hc : op = .clear
  · subst hc; simp [OV.txnOp, ht, VOp.plain]
  · have hgen : s.txnOp op = (match op.exec t.working with
        | none => none
        | some r => some ({ s with txn := some { working := r.vals, batch :=
            match r.diff with
            | some d => if s.rxCount ≠ 0 then t.batch ++ [d] else t.batch
            | none => t.batch } }, r.ret)) := by
      unfold OV.txnOp; simp only [ht]; cases op <;> first | rfl | exact absurd rfl hc
    rw [hgen]
    cases he : op.exec t.working with
    | none => simp [he] at h ⊢; exact h.symm
    | some r => simp [he] at h ⊢; exact h.symm

theorem step_set_vals {α} (s : OV α) (i : Nat) (v : α) :
    (match s.direct (.set i v) with | some (s', _, _) => s' | none => s).vals = s.vals.set i v := by
  have h := c17_direct s (.set i v)
  cases hd : s.direct (.set i v) with
  | none =>
    simp [hd, VOp.plain] at h ⊢
    rw [List.set_eq_of_length_le h]
  | some r =>
    obtain ⟨s', r, w⟩ := r
    simp [hd, VOp.plain] at h ⊢
    exact h.1.symm

theorem step_remove_vals {α} (s : OV α) (i : Nat) :
    (match s.direct (.remove i) with | some (s', _, _) => s' | none => s).vals = s.vals.eraseIdx i := by
  have h := c17_direct s (.remove i)
  cases hd : s.direct (.remove i) with
  | none =>
    simp [hd, VOp.plain] at h ⊢
    rw [List.eraseIdx_of_length_le h]
  | some r =>
    obtain ⟨s', r, w⟩ := r
    simp [hd, VOp.plain] at h ⊢
    exact h.1.symm

/-- `for_each` / `entries`: every element is visited exactly once in index order, also when elements are
    replaced or removed through their entries; the reported index is the element's current position; an early
    exit leaves the rest untouched — all packaged in the list-level specification `travSpec`. -/
theorem c17_for_each {α} (s : OV α) (decs : List (Dec α)) :
    (s.forEach decs).1.1.vals = (travSpec s.vals decs 0).1 ∧
    (s.forEach decs).2 = (travSpec s.vals decs 0).2 := by
  unfold OV.forEach
  have hsim := forEachLoop_sim (fun st : OV α × List Nat => st.1.vals)
    (fun st i v => (match st.1.direct (.set i v) with | some (s', _, w) => (s', st.2 ++ w) | none => st))
    (fun st i => (match st.1.direct (.remove i) with | some (s', _, w) => (s', st.2 ++ w) | none => st))
    (fun l : List α => l) (fun l i v => l.set i v) (fun l i => l.eraseIdx i)
    (fun a b => a.1.vals = b) (fun a b h => h)
    (by
      intro a b i v h
      have := step_set_vals a.1 i v
      cases hd : a.1.direct (.set i v) with
      | none => simp [hd] at this ⊢; rw [← h]; exact this
      | some r => obtain ⟨s', r, w⟩ := r; simp [hd] at this ⊢; rw [← h]; exact this)
    (by
      intro a b i h
      have := step_remove_vals a.1 i
      cases hd : a.1.direct (.remove i) with
      | none => simp [hd] at this ⊢; rw [← h]; exact this
      | some r => obtain ⟨s', r, w⟩ := r; simp [hd] at this ⊢; rw [← h]; exact this)
    s.vals.length 0 decs (s, []) s.vals [] rfl
  have hl := forEachLoop_list [] s.vals decs [] s.vals.length (Nat.le_refl _)
  simp only [List.length_nil, List.nil_append] at hl
  rw [hl] at hsim
  exact ⟨hsim.1, hsim.2⟩

/-- what the specification says, spelled out: without `stop`, the visited items are exactly the original
    items in order … -/
theorem c17_visits_each_once {α} (l : List α) (decs : List (Dec α)) (k : Nat)
    (hns : ∀ d ∈ decs, d ≠ .stop) : (travSpec l decs k).2.map (·.2) = l := by
  induction l generalizing decs k with
  | nil => simp [travSpec]
  | cons x xs ih =>
    unfold travSpec
    have htail : ∀ d ∈ decs.tail, d ≠ .stop := fun d hd => hns d (List.mem_of_mem_tail hd)
    cases hd : decs.headD .keep <;> simp [ih _ _ htail]
    · cases decs with
      | nil => simp at hd
      | cons d ds => simp at hd; exact absurd hd (hns d (by simp))

/-- … and the reported index of each visited item is the number of items kept before it (its current
    position in the vector at the time of the visit). -/
theorem c17_first_index {α} (x : α) (xs : List α) (decs : List (Dec α)) (k : Nat) :
    (travSpec (x :: xs) decs k).2.head? = some (k, x) := by
  unfold travSpec
  cases decs.headD .keep <;> simp

example : travSpec [1, 2, 3, 4] [.remove, .set 9, .setRemove 7, .keep] 0 = ([9, 4], [(0, 1), (0, 2), (1, 3), (1, 4)]) := by
  decide
example : travSpec [1, 2, 3] [.keep, .stop, .remove] 0 = ([1, 2, 3], [(0, 1), (1, 2)]) := by decide

end EV
