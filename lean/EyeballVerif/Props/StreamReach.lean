/-
  C05 / C06 / C08 at every reachable state: the theorems here quantify over every capacity, every finite
  sequence of events (updates, traversals, transactions with commit / rollback / drop, subscriptions of both
  flavours, subscriber drops, the vector's drop, polls of any receiver in any order) — `Reach` — and are
  corollaries of the invariant `VInv` (Lemmas/StreamInv.lean).
-/
import EyeballVerif.Lemmas.StreamInv
import EyeballVerif.Lemmas.RestInv
namespace EV

/-- `s` is reachable: some capacity the constructor accepts, some event sequence -/
def Reach {α} (s : OV α) : Prop := ∃ (c : Nat) (evs : List (VEv α)), c ≤ 2 ^ 64 ∧ s = evs.foldl OV.vstep (OV.new c)

theorem reach_inv {α} {s : OV α} (h : Reach s) : VInv s := by
  obtain ⟨c, evs, hc, rfl⟩ := h
  exact vinv_run c hc evs

theorem reach_step {α} {s : OV α} (h : Reach s) (e : VEv α) : Reach (s.vstep e) := by
  obtain ⟨c, evs, hc, rfl⟩ := h
  exact ⟨c, evs ++ [e], hc, by simp [List.foldl_append]⟩

/-- **C05 (replay invariant).** At every reachable state, for every live subscriber: every diff it was ever
    handed was applicable where it was applied (the replica is defined), and replaying what the channel still
    owes it on its replica gives exactly the vector's current contents. -/
theorem c05_replay_inv {α} {s : OV α} (hr : Reach s) (i : Nat) (r : Sub α) (h : s.subs[i]? = some r) (ha : r.alive = true) :
    ∃ rep, r.replica = some rep ∧ applyAll (owed s.log r) rep = some s.vals :=
  ((reach_inv hr).subs i r h ha).2.2

/-- C05: a subscriber that has nothing pending holds exactly the contents -/
theorem c05_caught_up_equal {α} {s : OV α} (hr : Reach s) (i : Nat) (r : Sub α) (h : s.subs[i]? = some r) (ha : r.alive = true)
    (hrest : r.rest = []) (hn : s.log.length ≤ r.next) : r.replica = some s.vals := by
  obtain ⟨rep, h1, h2⟩ := c05_replay_inv hr i r h ha
  have : owed s.log r = [] := by simp [owed, hrest, List.drop_eq_nil_of_le hn]
  rw [this] at h2
  simp [applyAll] at h2
  rw [h1, h2]

/-- C05: no reachable poll hits the `unreachable!()` / "lagged twice" panics -/
theorem c05_never_panics {α} {s : OV α} (hr : Reach s) (i : Nat) (s' : OV α) : s.poll i ≠ some (.panic, s') := by
  intro h
  obtain ⟨r, r', rep, _, _, _, _, _, hc⟩ := poll_cases s s' i .panic (reach_inv hr) h
  rcases hc with ⟨h1 | h1, _⟩ | ⟨ds, h1 | ⟨d, h1, _⟩, _⟩ | ⟨h1 | h1, _⟩ <;> simp at h1

/-- **C06 / C14 (Pending means in sync).** At a reachable state, a poll answers `Pending` only to a receiver
    whose replica already equals the vector's contents; nothing changes but the parked flag. -/
theorem c06_pending_synced {α} {s s' : OV α} (hr : Reach s) (i : Nat) (h : s.poll i = some (.pending, s')) :
    s.alive = true ∧ ∃ r r', s.subs[i]? = some r ∧ s'.subs[i]? = some r' ∧ r.replica = some s.vals ∧ r'.replica = some s.vals := by
  obtain ⟨r, r', rep, h1, h2, h3, h4, ⟨h5, _⟩, hc⟩ := poll_cases s s' i .pending (reach_inv hr) h
  rcases hc with ⟨h6 | h6, ho, _⟩ | ⟨ds, h6 | ⟨d, h6, _⟩, _⟩ | ⟨h6 | h6, _⟩ <;> simp at h6
  rw [ho] at h4
  simp [applyAll] at h4
  subst h4
  exact ⟨h6, r, r', h1, h2, h3, by simpa [ghostRep] using h5⟩

/-- **C08 (End means the final contents were delivered).** At a reachable state a stream ends only after the
    vector was dropped and only when the receiver's replica equals the final contents. -/
theorem c08_end_final {α} {s s' : OV α} (hr : Reach s) (i : Nat) (h : s.poll i = some (.done, s')) :
    s.alive = false ∧ ∃ r r', s.subs[i]? = some r ∧ s'.subs[i]? = some r' ∧ r.replica = some s.vals ∧ r'.replica = some s.vals := by
  obtain ⟨r, r', rep, h1, h2, h3, h4, ⟨h5, _⟩, hc⟩ := poll_cases s s' i .done (reach_inv hr) h
  rcases hc with ⟨h6 | h6, ho, _⟩ | ⟨ds, h6 | ⟨d, h6, _⟩, _⟩ | ⟨h6 | h6, _⟩ <;> simp at h6
  rw [ho] at h4
  simp [applyAll] at h4
  subst h4
  exact ⟨h6, r, r', h1, h2, h3, by simpa [ghostRep] using h5⟩

/-- **C06 (a lagged receiver is resynchronised).** At a reachable state, a receiver that is between batches
    and more than a window behind gets exactly one `Reset` carrying the *current* contents (alone in its batch
    for the batched flavour); afterwards its replica equals the contents and nothing is owed to it. -/
theorem c06_lagged_reset_current {α} {s s' : OV α} (hr : Reach s) (i : Nat) (it : Item α) (r : Sub α)
    (h : s.poll i = some (it, s')) (hs : s.subs[i]? = some r) (hrest : r.rest = []) (hlag : r.next + s.B < s.log.length) :
    (it = .one (.reset s.vals) ∨ it = .batch [.reset s.vals]) ∧
    ∃ r', s'.subs[i]? = some r' ∧ r'.replica = some s.vals ∧ owed s.log r' = [] := by
  obtain ⟨r0, r', rep, h1, h2, h3, h4, ⟨h5, _⟩, hc⟩ := poll_cases s s' i it (reach_inv hr) h
  rw [hs] at h1; cases h1
  rcases hc with ⟨_, ho, _⟩ | ⟨ds, _, hnl, _⟩ | ⟨h6, _, _, ho'⟩
  · exfalso
    have hlt : r.next < s.log.length := by omega
    unfold owed at ho
    rw [hrest, List.drop_eq_getElem_cons hlt] at ho
    simp only [List.nil_append, List.flatMap_cons, List.append_eq_nil_iff] at ho
    exact (reach_inv hr).no_empty _ (List.getElem_mem hlt) ho.1
  · exact absurd ⟨hrest, hlag⟩ hnl
  · refine ⟨h6, r', h2, ?_, ho'⟩
    rcases h6 with rfl | rfl <;> simp [h5, ghostRep, applyAll, Diff.applicable, Diff.apply]

/-- **C05 / C06 (a delivered item replays).** At a reachable state every delivered diff / batch is applicable
    to the receiver's replica, strictly, and after it the rest of what is owed still leads to the contents. -/
theorem c05_delivered_applicable {α} {s s' : OV α} (hr : Reach s) (i : Nat) (it : Item α)
    (h : s.poll i = some (it, s')) :
    ∃ r r' rep rep', s.subs[i]? = some r ∧ s'.subs[i]? = some r' ∧ r.replica = some rep ∧ r'.replica = some rep' ∧
      ghostRep it (some rep) = some rep' ∧ applyAll (owed s'.log r') rep' = some s'.vals ∧ s'.vals = s.vals ∧ s'.log = s.log := by
  obtain ⟨r, r', rep, h1, h2, h3, _, ⟨h5, ha'⟩, _⟩ := poll_cases s s' i it (reach_inv hr) h
  have hr' : Reach s' := by
    have := reach_step hr (.poll i); simp only [OV.vstep, h] at this; exact this
  obtain ⟨r0, _, ha, _, hs'⟩ := poll_unfold s s' i it h
  obtain ⟨rep', g1, g2⟩ := c05_replay_inv hr' i r' h2 ha'
  exact ⟨r, r', rep, rep', h1, h2, h3, g1, by rw [← h5, g1], g2, by rw [hs'], by rw [hs']⟩

theorem reach_restIn {α} {s : OV α} (h : Reach s) : RestIn s := by
  obtain ⟨c, evs, hc, rfl⟩ := h
  exact restIn_run c hc evs

/-- **C06 (a `Reset` means lag, and is current).** At a reachable state, whenever a delivered item contains a
    `Reset`, the receiver was between batches and more than a window behind, the `Reset` is the whole item and
    it carries exactly the current contents. No update ever produces a `Reset` by itself. -/
theorem c06_reset_only_when_lagged {α} {s s' : OV α} (hr : Reach s) (i : Nat) (it : Item α) (vs : List α)
    (h : s.poll i = some (it, s'))
    (hres : it = .one (.reset vs) ∨ ∃ ds, it = .batch ds ∧ Diff.reset vs ∈ ds) :
    vs = s.vals ∧ (it = .one (.reset s.vals) ∨ it = .batch [.reset s.vals]) ∧
    ∃ r, s.subs[i]? = some r ∧ r.rest = [] ∧ r.next + s.B < s.log.length := by
  obtain ⟨r, r', rep, h1, h2, h3, h4, ⟨h5, _⟩, hc⟩ := poll_cases s s' i it (reach_inv hr) h
  have hnr := owed_no_reset s (reach_inv hr) (reach_restIn hr) i r h1
  rcases hc with ⟨h6 | h6, _⟩ | ⟨ds, h6, _, ho⟩ | ⟨h6, hrest, hlag, _⟩
  · rcases hres with rfl | ⟨ds, rfl, _⟩ <;> simp at h6
  · rcases hres with rfl | ⟨ds, rfl, _⟩ <;> simp at h6
  · exfalso
    have hmem : Diff.reset vs ∈ ds := by
      rcases h6 with rfl | ⟨d, rfl, rfl⟩
      · rcases hres with hx | ⟨ds', hx, hm⟩
        · cases hx
        · cases hx; exact hm
      · rcases hres with hx | ⟨ds', hx, _⟩
        · cases hx; simp
        · cases hx
    exact hnr (.reset vs) (by rw [ho]; exact List.mem_append_left _ hmem) vs rfl
  · refine ⟨?_, h6, r, h1, hrest, hlag⟩
    rcases h6 with rfl | rfl
    · rcases hres with hx | ⟨ds', hx, _⟩
      · cases hx; rfl
      · cases hx
    · rcases hres with hx | ⟨ds', hx, hm⟩
      · cases hx
      · cases hx; simp at hm; exact hm

/-- non-vacuity: a concrete history (capacity 1, two subscribers, five updates, a transaction, a lagged poll)
    is reachable and the plain subscriber is then lagged -/
example : Reach ((([.subscribe false, .subscribe true, .direct (.pushBack 1), .direct (.pushBack 2),
    .direct (.pushBack 3), .txnBegin, .txnOp (.set 0 9), .txnCommit, .poll 1] : List (VEv Nat)).foldl OV.vstep (OV.new 1))) :=
  ⟨1, _, by decide, rfl⟩

/-- poll receiver `i` `n` times with nothing happening in between, collecting the diffs handed out -/
def pollN {α} (s : OV α) (i : Nat) : Nat → OV α × List (Diff α)
  | 0 => (s, [])
  | n + 1 =>
    match s.poll i with
    | some (it, s') => let r := pollN s' i n; (r.1, (itemDiffs it).getD [] ++ r.2)
    | none => (s, [])

theorem poll_isSome {α} (s : OV α) (i : Nat) (r : Sub α) (h : s.subs[i]? = some r) (ha : r.alive = true) :
    ∃ it s', s.poll i = some (it, s') := by
  unfold OV.poll
  simp only [h, ha, Bool.not_true, Bool.false_eq_true, if_false]
  exact ⟨_, _, rfl⟩

/-- **C05: what is received does not depend on how often the subscriber is polled.** A receiver that has not lagged
    and is polled until it has caught up — any number of polls at least the number of pending diffs for the plain
    flavour, one poll for the batched flavour — receives exactly the diffs published since its cursor, in order:
    the same list for both flavours, whenever the polls happen. -/
theorem c05_drain_delivers_owed {α} (n : Nat) : ∀ (s : OV α), VInv s → ∀ (i : Nat) (r : Sub α), s.subs[i]? = some r → r.alive = true →
    ¬ (r.next + s.B < s.log.length) → (owed s.log r).length ≤ n →
    (pollN s i n).2 = owed s.log r ∧
    ∃ r', (pollN s i n).1.subs[i]? = some r' ∧ owed (pollN s i n).1.log r' = [] ∧ r'.replica = some s.vals := by
  induction n with
  | zero =>
    intro s hv i r hr ha _ hlen
    have ho : owed s.log r = [] := List.eq_nil_of_length_eq_zero (by omega)
    obtain ⟨_, _, rep, g3, g4⟩ := hv.subs i r hr ha
    rw [ho] at g4; simp [applyAll] at g4; subst g4
    exact ⟨by simp [pollN, ho], r, hr, ho, g3⟩
  | succ n ih =>
    intro s hv i r hr ha hnl hlen
    obtain ⟨it, s', hp⟩ := poll_isSome s i r hr ha
    obtain ⟨r0, r', rep, h1, h2, h3, h4, ⟨h5, ha'⟩, hc⟩ := poll_cases s s' i it hv hp
    rw [hr] at h1; cases h1
    have hv' := vinv_poll s s' i it hv hp
    obtain ⟨r1, hs1, _, _, hs'⟩ := poll_unfold s s' i it hp
    rw [hr] at hs1; cases hs1
    have hlog : s'.log = s.log := by rw [hs']
    have hB : s'.B = s.B := by rw [hs']
    have hvals : s'.vals = s.vals := by rw [hs']
    have hil : i < s.subs.length := by rcases List.getElem?_eq_some_iff.mp hr with ⟨g, _⟩; exact g
    have hr'n : r'.next = (s.pollOf r).2.next := by
      rw [hs'] at h2; simp only [List.getElem?_set_self hil] at h2; cases h2; rfl
    have hge : r.next ≤ (s.pollOf r).2.next := by
      have g2 := (hv.subs i r hr ha).2.1
      simp only [OV.pollOf]
      split
      · exact (pollBatched_frame s.B s.log (!s.alive) r hv.window g2).2.2.2.1
      · exact (pollPlain_frame s.B s.log (!s.alive) r hv.window g2).2.2.2.1
    simp only [pollN, hp]
    rcases hc with ⟨hpd, ho, ho'⟩ | ⟨ds, hds, _, ho⟩ | ⟨_, hrest, hlag, _⟩
    · -- Pending / End: nothing was owed
      have hnext : ¬ (r'.next + s'.B < s'.log.length) := by
        rw [hr'n, hB, hlog]; omega
      obtain ⟨e1, r'', e2, e3, e4⟩ := ih s' hv' i r' h2 ha' hnext (by rw [hlog, ho']; simp)
      have hit : (itemDiffs it).getD [] = [] := by rcases hpd with ⟨rfl, _⟩ | ⟨rfl, _⟩ <;> rfl
      rw [hit, e1, hlog, ho', ho]
      exact ⟨rfl, r'', e2, e3, by rw [e4, hvals]⟩
    · have hnext : ¬ (r'.next + s'.B < s'.log.length) := by
        rw [hr'n, hB, hlog]; omega
      have hit : (itemDiffs it).getD [] = ds := by
        rcases hds with rfl | ⟨d, rfl, rfl⟩ <;> rfl
      have hds_ne : ds ≠ [] ∨ ds = [] := by by_cases h : ds = [] <;> simp [h]
      have hlen' : (owed s'.log r').length ≤ n ∨ ds = [] := by
        rcases hds_ne with hne | he
        · left
          rw [hlog]
          have : (owed s.log r).length = ds.length + (owed s.log r').length := by rw [ho]; simp
          have : 0 < ds.length := List.length_pos_iff.mpr hne
          omega
        · right; exact he
      rcases hlen' with hl' | he
      · obtain ⟨e1, r'', e2, e3, e4⟩ := ih s' hv' i r' h2 ha' hnext hl'
        rw [hit, e1, hlog, ho]
        exact ⟨rfl, r'', e2, e3, by rw [e4, hvals]⟩
      · -- an empty batch cannot happen (no empty message is ever published); handled for completeness
        subst he
        have : (owed s'.log r').length ≤ n + 1 := by rw [hlog]; rw [ho] at hlen; simpa using hlen
        exfalso
        rcases hds with rfl | ⟨d, _, hd⟩
        · exact sub_no_empty_batch s s' i (.batch []) hv.no_empty hp rfl
        · cases hd
    · exact absurd hlag hnl

end EV
