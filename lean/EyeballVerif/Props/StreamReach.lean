/-
  C05 / C06 / C08 at every reachable state: the theorems here quantify over every capacity, every finite
  sequence of events (updates, traversals, transactions with commit / rollback / drop, subscriptions of both
  flavours, subscriber drops, the vector's drop, polls of any receiver in any order) — `Reach` — and are
  corollaries of the invariant `VInv` (Lemmas/StreamInv.lean).
-/
import EyeballVerif.Lemmas.StreamInv
import EyeballVerif.Lemmas.RestInv
namespace EV

/-- `s` is reachable: some capacity the constructor accepts, some event sequence -/
def Reach {α} (s : OV α) : Prop := ∃ (c : Nat) (evs : List (VEv α)), c ≤ 2 ^ 64 ∧ s = evs.foldl OV.vstep (OV.new c)

theorem reach_inv {α} {s : OV α} (h : Reach s) : VInv s := by
  obtain ⟨c, evs, hc, rfl⟩ := h
  exact vinv_run c hc evs

theorem reach_step {α} {s : OV α} (h : Reach s) (e : VEv α) : Reach (s.vstep e) := by
  obtain ⟨c, evs, hc, rfl⟩ := h
  exact ⟨c, evs ++ [e], hc, by simp [List.foldl_append]⟩

/-- **C05 (replay invariant).** At every reachable state, for every live subscriber: every diff it was ever
    handed was applicable where it was applied (the replica is defined), and replaying what the channel still
    owes it on its replica gives exactly the vector's current contents. -/
theorem c05_replay_inv {α} {s : OV α} (hr : Reach s) (i : Nat) (r : Sub α) (h : s.subs[i]? = some r) (ha : r.alive = true) :
    ∃ rep, r.replica = some rep ∧ applyAll (owed s.log r) rep = some s.vals :=
  ((reach_inv hr).subs i r h ha).2.2

/-- C05: a subscriber that has nothing pending holds exactly the contents -/
theorem c05_caught_up_equal {α} {s : OV α} (hr : Reach s) (i : Nat) (r : Sub α) (h : s.subs[i]? = some r) (ha : r.alive = true)
    (hrest : r.rest = []) (hn : s.log.length ≤ r.next) : r.replica = some s.vals := by
  obtain ⟨rep, h1, h2⟩ := c05_replay_inv hr i r h ha
  have : owed s.log r = [] := by simp [owed, hrest, List.drop_eq_nil_of_le hn]
  rw [this] at h2
  simp [applyAll] at h2
  rw [h1, h2]

/-- C05: no reachable poll hits the `unreachable!()` / "lagged twice" panics -/
theorem c05_never_panics {α} {s : OV α} (hr : Reach s) (i : Nat) (s' : OV α) : s.poll i ≠ some (.panic, s') := by
  intro h
  obtain ⟨r, r', rep, _, _, _, _, _, hc⟩ := poll_cases s s' i .panic (reach_inv hr) h
  rcases hc with ⟨h1 | h1, _⟩ | ⟨ds, h1 | ⟨d, h1, _⟩, _⟩ | ⟨h1 | h1, _⟩ <;> simp at h1

/-- **C06 / C14 (Pending means in sync).** At a reachable state, a poll answers `Pending` only to a receiver
    whose replica already equals the vector's contents; nothing changes but the parked flag. -/
theorem c06_pending_synced {α} {s s' : OV α} (hr : Reach s) (i : Nat) (h : s.poll i = some (.pending, s')) :
    s.alive = true ∧ ∃ r r', s.subs[i]? = some r ∧ s'.subs[i]? = some r' ∧ r.replica = some s.vals ∧ r'.replica = some s.vals := by
  obtain ⟨r, r', rep, h1, h2, h3, h4, ⟨h5, _⟩, hc⟩ := poll_cases s s' i .pending (reach_inv hr) h
  rcases hc with ⟨h6 | h6, ho, _⟩ | ⟨ds, h6 | ⟨d, h6, _⟩, _⟩ | ⟨h6 | h6, _⟩ <;> simp at h6
  rw [ho] at h4
  simp [applyAll] at h4
  subst h4
  exact ⟨h6, r, r', h1, h2, h3, by simpa [ghostRep] using h5⟩

/-- **C08 (End means the final contents were delivered).** At a reachable state a stream ends only after the
    vector was dropped and only when the receiver's replica equals the final contents. -/
theorem c08_end_final {α} {s s' : OV α} (hr : Reach s) (i : Nat) (h : s.poll i = some (.done, s')) :
    s.alive = false ∧ ∃ r r', s.subs[i]? = some r ∧ s'.subs[i]? = some r' ∧ r.replica = some s.vals ∧ r'.replica = some s.vals := by
  obtain ⟨r, r', rep, h1, h2, h3, h4, ⟨h5, _⟩, hc⟩ := poll_cases s s' i .done (reach_inv hr) h
  rcases hc with ⟨h6 | h6, ho, _⟩ | ⟨ds, h6 | ⟨d, h6, _⟩, _⟩ | ⟨h6 | h6, _⟩ <;> simp at h6
  rw [ho] at h4
  simp [applyAll] at h4
  subst h4
  exact ⟨h6, r, r', h1, h2, h3, by simpa [ghostRep] using h5⟩

/-- **C06 (a lagged receiver is resynchronised).** At a reachable state, a receiver that is between batches
    and more than a window behind gets exactly one `Reset` carrying the *current* contents (alone in its batch
    for the batched flavour); afterwards its replica equals the contents and nothing is owed to it. -/
theorem c06_lagged_reset_current {α} {s s' : OV α} (hr : Reach s) (i : Nat) (it : Item α) (r : Sub α)
    (h : s.poll i = some (it, s')) (hs : s.subs[i]? = some r) (hrest : r.rest = []) (hlag : r.next + s.B < s.log.length) :
    (it = .one (.reset s.vals) ∨ it = .batch [.reset s.vals]) ∧
    ∃ r', s'.subs[i]? = some r' ∧ r'.replica = some s.vals ∧ owed s.log r' = [] := by
  obtain ⟨r0, r', rep, h1, h2, h3, h4, ⟨h5, _⟩, hc⟩ := poll_cases s s' i it (reach_inv hr) h
  rw [hs] at h1; cases h1
  rcases hc with ⟨_, ho, _⟩ | ⟨ds, _, hnl, _⟩ | ⟨h6, _, _, ho'⟩
  · exfalso
    have hlt : r.next < s.log.length := by omega
    unfold owed at ho
    rw [hrest, List.drop_eq_getElem_cons hlt] at ho
    simp only [List.nil_append, List.flatMap_cons, List.append_eq_nil_iff] at ho
    exact (reach_inv hr).no_empty _ (List.getElem_mem hlt) ho.1
  · exact absurd ⟨hrest, hlag⟩ hnl
  · refine ⟨h6, r', h2, ?_, ho'⟩
    rcases h6 with rfl | rfl <;> simp [h5, ghostRep, applyAll, Diff.applicable, Diff.apply]

/-- **C05 / C06 (a delivered item replays).** At a reachable state every delivered diff / batch is applicable
    to the receiver's replica, strictly, and after it the rest of what is owed still leads to the contents. -/
theorem c05_delivered_applicable {α} {s s' : OV α} (hr : Reach s) (i : Nat) (it : Item α)
    (h : s.poll i = some (it, s')) :
    ∃ r r' rep rep', s.subs[i]? = some r ∧ s'.subs[i]? = some r' ∧ r.replica = some rep ∧ r'.replica = some rep' ∧
      ghostRep it (some rep) = some rep' ∧ applyAll (owed s'.log r') rep' = some s'.vals ∧ s'.vals = s.vals ∧ s'.log = s.log := by
  obtain ⟨r, r', rep, h1, h2, h3, _, ⟨h5, ha'⟩, _⟩ := poll_cases s s' i it (reach_inv hr) h
  have hr' : Reach s' := by
    have := reach_step hr (.poll i); simp only [OV.vstep, h] at this; exact this
  obtain ⟨r0, _, ha, _, hs'⟩ := poll_unfold s s' i it h
  obtain ⟨rep', g1, g2⟩ := c05_replay_inv hr' i r' h2 ha'
  exact ⟨r, r', rep, rep', h1, h2, h3, g1, by rw [← h5, g1], g2, by rw [hs'], by rw [hs']⟩

theorem reach_restIn {α} {s : OV α} (h : Reach s) : RestIn s := by
  obtain ⟨c, evs, hc, rfl⟩ := h
  exact restIn_run c hc evs

/-- **C06 (a `Reset` means lag, and is current).** At a reachable state, whenever a delivered item contains a
    `Reset`, the receiver was between batches and more than a window behind, the `Reset` is the whole item and
    it carries exactly the current contents. No update ever produces a `Reset` by itself. -/
theorem c06_reset_only_when_lagged {α} {s s' : OV α} (hr : Reach s) (i : Nat) (it : Item α) (vs : List α)
    (h : s.poll i = some (it, s'))
    (hres : it = .one (.reset vs) ∨ ∃ ds, it = .batch ds ∧ Diff.reset vs ∈ ds) :
    vs = s.vals ∧ (it = .one (.reset s.vals) ∨ it = .batch [.reset s.vals]) ∧
    ∃ r, s.subs[i]? = some r ∧ r.rest = [] ∧ r.next + s.B < s.log.length := by
  obtain ⟨r, r', rep, h1, h2, h3, h4, ⟨h5, _⟩, hc⟩ := poll_cases s s' i it (reach_inv hr) h
  have hnr := owed_no_reset s (reach_inv hr) (reach_restIn hr) i r h1
  rcases hc with ⟨h6 | h6, _⟩ | ⟨ds, h6, _, ho⟩ | ⟨h6, hrest, hlag, _⟩
  · rcases hres with rfl | ⟨ds, rfl, _⟩ <;> simp at h6
  · rcases hres with rfl | ⟨ds, rfl, _⟩ <;> simp at h6
  · exfalso
    have hmem : Diff.reset vs ∈ ds := by
      rcases h6 with rfl | ⟨d, rfl, rfl⟩
      · rcases hres with hx | ⟨ds', hx, hm⟩
        · cases hx
        · cases hx; exact hm
      · rcases hres with hx | ⟨ds', hx, _⟩
        · cases hx; simp
        · cases hx
    exact hnr (.reset vs) (by rw [ho]; exact List.mem_append_left _ hmem) vs rfl
  · refine ⟨?_, h6, r, h1, hrest, hlag⟩
    rcases h6 with rfl | rfl
    · rcases hres with hx | ⟨ds', hx, _⟩
      · cases hx; rfl
      · cases hx
    · rcases hres with hx | ⟨ds', hx, hm⟩
      · cases hx
      · cases hx; simp at hm; exact hm

/-- non-vacuity: a concrete history (capacity 1, two subscribers, five updates, a transaction, a lagged poll)
    is reachable and the plain subscriber is then lagged -/
example : Reach ((([.subscribe false, .subscribe true, .direct (.pushBack 1), .direct (.pushBack 2),
    .direct (.pushBack 3), .txnBegin, .txnOp (.set 0 9), .txnCommit, .poll 1] : List (VEv Nat)).foldl OV.vstep (OV.new 1))) :=
  ⟨1, _, by decide, rfl⟩

end EV
