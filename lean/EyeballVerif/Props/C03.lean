/-
  C03 — a subscriber's stream ends exactly when the last owner is dropped (operation granularity; the
  concurrent drop of the last clones is treated in Props/C03Conc.lean).
-/
import EyeballVerif.Props.C01
namespace EV
open OWorld

/-- **Closed iff no owner.** In every reachable world the observable is closed (subscribers are told `End`)
    exactly when neither the unique `Observable` nor any `SharedObservable` clone exists — through any history
    of clone / drop / downgrade / upgrade / into_shared / subscribe / set / poll. -/
theorem c03_closed_iff_no_owner {α} (eqv : α → α → Bool) (hash : α → Nat) (dflt : α) (w : OWorld α)
    (h : OReach eqv hash dflt w) : w.st.version = 0 ↔ w.ownerCount = 0 := by
  have := (c01_reach_inv eqv hash dflt w h).open_iff
  constructor
  · intro h0
    rcases Nat.eq_zero_or_pos w.ownerCount with hz | hp
    · exact hz
    · exact absurd h0 (this.mpr hp)
  · intro h0
    rcases Nat.eq_zero_or_pos w.st.version with hz | hp
    · exact hz
    · have := this.mp (by omega); omega

/-- a poll answers `End` exactly in closed worlds — never while an owner exists, always afterwards -/
theorem c03_end_iff {α} (eqv : α → α → Bool) (hash : α → Nat) (dflt : α) (w : OWorld α)
    (h : OReach eqv hash dflt w) (i : Nat) (s : SubSt) (hs : w.subs[i]? = some s) (ha : s.alive = true) :
    (∃ w', w.poll i = some (w', .done)) ↔ w.ownerCount = 0 := by
  have hi := c01_reach_inv eqv hash dflt w h
  obtain ⟨w', hp⟩ := c01_poll_spec w hi i s hs ha
  rw [← c03_closed_iff_no_owner eqv hash dflt w h]
  constructor
  · rintro ⟨w2, h2⟩
    rw [hp] at h2
    by_cases hv : w.st.version = 0
    · exact hv
    · simp [hv] at h2; split at h2 <;> simp at h2
  · intro hv; exact ⟨w', by rw [hp]; simp [hv]⟩

/-- after the end the subscriber keeps answering `End`, and `get` still returns the last stored value -/
theorem c03_after_end {α} (w w' : OWorld α) (i : Nat) (h : w.poll i = some (w', .done)) :
    w'.st = w.st ∧ w.st.version = 0 ∧ (∃ w'', w'.poll i = some (w'', .done)) ∧ w'.get i = some w.st.value := by
  unfold OWorld.poll at h
  cases hs : w.subs[i]? with
  | none => simp [hs] at h
  | some s =>
    simp only [hs] at h
    split at h
    · simp at h
    · rename_i hal
      unfold ObsSt.pollUpdate at h
      have hi : i < w.subs.length := by
        rcases List.getElem?_eq_some_iff.mp hs with ⟨h1, _⟩; exact h1
      by_cases hv : w.st.version = 0
      · simp [hv] at h; subst h
        simp at hal
        refine ⟨rfl, hv, ?_, ?_⟩
        · simp [OWorld.poll, hi, hal, ObsSt.pollUpdate, hv]
        · simp [OWorld.get, OWorld.subAlive, hi, hal]
      · by_cases hlt : s.observed < w.st.version <;> simp [hv, hlt] at h

/-- `WeakObservable::upgrade` succeeds exactly while an owner exists -/
theorem c03_upgrade_iff {α} (eqv : α → α → Bool) (hash : α → Nat) (dflt : α) (w : OWorld α)
    (h : OReach eqv hash dflt w) (k : Nat) (hk : w.weaks.getD k false = true) (hu : w.unique = false) :
    ∃ w' r, w.upgrade k = some (w', r) ∧ (r.isSome ↔ w.ownerCount > 0) := by
  have hi := c01_reach_inv eqv hash dflt w h
  obtain ⟨h1, h2, h3, h4, h5, h6⟩ := hi
  rw [ownerCount_eq] at h4 ⊢
  simp only [hu, Bool.false_eq_true, if_false] at h4 ⊢
  unfold OWorld.upgrade
  simp only [hk, Bool.not_true, Bool.false_eq_true, if_false]
  by_cases h0 : w.arcState = 0
  · exact ⟨w, none, by simp [h0], by simp; omega⟩
  · by_cases hn : w.arcNc = 0
    · exact ⟨w, none, by simp [h0, hn], by simp; omega⟩
    · exact ⟨_, _, by simp [h0, hn]; exact ⟨rfl, rfl⟩, by simp; omega⟩

/-- `into_shared` does not end the subscribers' streams: nothing is closed, nobody is woken, the owner count
    stays 1 -/
theorem c03_into_shared_keeps_open {α} (w w' : OWorld α) (id : Nat) (h : w.intoShared = some (w', id)) :
    w'.st = w.st ∧ w'.subs = w.subs := by
  unfold OWorld.intoShared at h
  split at h
  · simp at h
  · simp at h; obtain ⟨rfl, _⟩ := h; exact ⟨rfl, rfl⟩

example :
    let step := OWorld.step (α := Nat) (fun a b => a == b) id 0
    let w := [OEv.subscribe 0 false, .cloneOwner 0, .dropOwner 0, .poll 0].foldl step (OWorld.newShared 1)
    w.st.version ≠ 0 ∧ w.ownerCount = 1 ∧
    ([OEv.dropOwner 1].foldl step w).st.version = 0 := by decide

end EV
