/-
  C14 — no spurious progress: a pipeline that answered Pending answers Pending again, unchanged, until an event happens.
-/
import EyeballVerif.Props.C14Pipe
import EyeballVerif.Props.PipeSoundD
namespace EV

theorem list_set_self {γ} (l : List γ) (i : Nat) (x : γ) (h : l[i]? = some x) : l.set i x = l := by
  apply List.ext_getElem?; intro j
  simp only [List.getElem?_set]
  by_cases hij : i = j
  · subst hij
    obtain ⟨hi, hx⟩ := List.getElem?_eq_some_iff.mp h
    simp [hi, hx]
  · simp [hij]

/-- a receiver that answered `Pending` answers `Pending` again, and nothing changes, as long as nothing happens -/
theorem ov_poll_pending_idem {α} (s s' : OV α) (i : Nat) (h : s.poll i = some (.pending, s')) : s'.poll i = some (.pending, s') := by
  unfold OV.poll at h ⊢
  cases hs : s.subs[i]? with
  | none => simp [hs] at h
  | some r =>
    simp only [hs] at h
    split at h
    · simp at h
    · rename_i hal
      simp at h
      obtain ⟨h1, rfl⟩ := h
      have hi : i < s.subs.length := by rcases List.getElem?_eq_some_iff.mp hs with ⟨g, _⟩; exact g
      simp only [List.getElem?_set_self hi]
      by_cases hb : r.batched
      · simp only [hb, if_true] at h1 ⊢
        unfold pollBatched at h1
        cases ht : tryRecv s.B s.log (!s.alive) r.next with
        | mk a n =>
          rw [ht] at h1
          cases a with
          | empty =>
            simp at h1
            simp only [pollBatched, ht]
            simp [hal, hb, pollBatched, ht]
          | ok m => simp at h1; exact absurd h1 (batchLoop_ne_pending _ _ _ _ _ _)
          | closed => simp at h1
          | lagged =>
            simp at h1
            generalize handleLag s.B s.log (!s.alive) (s.B + 2) n none = q at h1
            obtain ⟨q1, q2⟩ := q
            rcases q1 with _ | (_ | _) <;> simp at h1
      · simp only [hb, Bool.false_eq_true, if_false] at h1 ⊢
        unfold pollPlain at h1
        cases hr : r.rest with
        | cons d ds => simp [hr] at h1
        | nil =>
          simp only [hr] at h1
          cases ht : tryRecv s.B s.log (!s.alive) r.next with
          | mk a n =>
            rw [ht] at h1
            cases a with
            | empty =>
              simp at h1
              simp [hal, hb, pollPlain, hr, ht]
            | ok m => simp at h1; cases hd : m.diffs <;> simp [hd] at h1
            | closed => simp at h1
            | lagged =>
              simp at h1
              generalize handleLag s.B s.log (!s.alive) (s.B + 2) n none = q at h1
              obtain ⟨q1, q2⟩ := q
              rcases q1 with _ | (_ | _) <;> simp at h1


/-- a settled limit stream answers the same again and nothing changes -/
theorem limPoll_settled {α} (w : PWorld α) (k : Option Nat) (hk : ∀ j, k = some j → Settled w j) :
    (∀ v, (limPoll w k).1 ≠ .value v) ∧ (limPoll w k).2 = w := by
  cases k with
  | none => simp [limPoll]
  | some j =>
    have hs := hk j rfl
    unfold limPoll
    simp only
    cases hl : w.lims[j]? with
    | none => simp
    | some l =>
      obtain ⟨hq, hcw⟩ := hs l hl
      simp only [hq]
      by_cases hc : l.closed = true
      · simp [hc]
      · have hw : l.waiting = true := by rcases hcw with h | h; exact absurd h hc; exact h
        simp only [hc, Bool.false_eq_true, if_false]
        refine ⟨by simp, ?_⟩
        have : ({ q := [], closed := false, waiting := true } : Lim) = l := by cases l; simp_all
        rw [this, list_set_self w.lims j l hl]

/-- **C14: no spurious progress.** A pipeline that answered `Pending` answers `Pending` again, with every stage and
    the whole world unchanged, as long as nothing happens in between: it becomes ready only through an event — and
    every such event wakes it (`c14_pipe_pending_registered` with `c14_send_wakes`, `c08_drop_wakes`, `c14_limit_wakes`). -/
theorem c14_pending_idempotent {α} (T : Tables α) (b : Bool) (sub : Nat) :
    ∀ (n : Nat) (sts sts' : List (Stage α)) (w w' : PWorld α),
      pollStages T b sub n sts w = (.pending, sts', w') → pollStages T b sub n sts' w' = (.pending, sts', w') := by
  intro n
  induction n with
  | zero => intro sts sts' w w' h; simp [pollStages] at h
  | succ n ih =>
    intro sts sts' w w' h
    have hreg := c14_pipe_pending_registered T b sub (n + 1) sts sts' w w' .pending h rfl
    have hlims := pollStages_limOf T b sub (n + 1) sts w
    rw [h] at hlims; simp only at hlims
    have hsettled : ∀ st ∈ sts', ∀ j, st.limOf = some j → Settled w' j := by
      intro st hst j hj
      apply hreg.2 j
      rw [← hlims]
      exact List.mem_map.mpr ⟨st, hst, hj⟩
    cases sts with
    | nil =>
      simp only [pollStages] at h
      cases hp : w.ov.poll sub with
      | none => simp [hp] at h
      | some p =>
        obtain ⟨it, ov'⟩ := p
        simp [hp] at h
        obtain ⟨rfl, rfl, rfl⟩ := h
        simp only [pollStages]
        rw [ov_poll_pending_idem w.ov ov' sub hp]
    | cons st inner =>
      have hnp : (pollStages T b sub n sts' w').1 ≠ .panic → pollStages T b sub (n + 1) sts' w' = pollStages T b sub n sts' w' :=
        pollStages_fuel_succ T b sub n sts' w'
      simp only [pollStages] at h
      split at h
      · simp at h
      · rename_i hready
        split at h
        · rename_i v w1 hlp
          split at h
          · rename_i it rest he
            simp at h
            rcases emit_kind b _ it rest he with ⟨d, rfl⟩ | ⟨xs, rfl, _⟩ <;> simp at h
          · have := ih _ _ _ _ h
            rw [hnp (by rw [this]; simp), this]
        · rename_i res w1 hnv hlp
          generalize hcall : pollStages T b sub n inner w1 = r at h
          obtain ⟨it, inner', w2⟩ := r
          simp only at h
          split at h
          · rename_i hd
            simp at h
            obtain ⟨rfl, rfl, rfl⟩ := h
            have hin := ih _ _ _ _ hcall
            have hst := limPoll_settled w2 st.limOf (fun j hj => hsettled st (List.mem_cons_self ..) j hj)
            rw [pollStages_cons_novalue T b sub n st inner' w2 hready hst.1, hst.2, hin]
            simp [itemDiffs]
          · split at h
            · simp at h
            · split at h
              · rename_i it' rest he
                simp at h
                rcases emit_kind b _ it' rest he with ⟨d, rfl⟩ | ⟨xs, rfl, _⟩ <;> simp at h
              · have := ih _ _ _ _ h
                rw [hnp (by rw [this]; simp), this]

end EV
