/-
  The poll-loop theorem with dynamic limits / counts: limit changes as a second source of items in the poll loop.
-/
import EyeballVerif.Props.PipeSound
namespace EV

def Stage.isTail {α} : Stage α → Bool
  | .tail _ _ _ _ => true
  | _ => false

theorem head_updateLimit_truncOK {α} (v : List α) (old new : Nat) : TruncOK (Head.updateLimit old new v) (v.take old) := by
  simp only [Head.updateLimit]
  split
  · trivial
  · split
    · split
      · trivial
      · exact ⟨fun n hn => (by cases hn), fun _ _ => trivial⟩
    · split
      · split
        · trivial
        · rename_i h1 h2 h3
          refine ⟨?_, fun _ _ => trivial⟩
          intro n hn; cases hn
          simp; omega
      · trivial

theorem skip_updateCount_noTrunc {α} (v : List α) (old : Option Nat) (new : Nat) : NoTrunc (Skip.updateCount old new v) := by
  intro x hx n hn
  subst hn
  simp only [Skip.updateCount] at hx
  split at hx
  · simp at hx
  · split at hx
    · simp at hx
    · (repeat' split at hx) <;> (try simp at hx) <;>
        (try (have hx2 := List.mem_of_mem_take hx; have hx3 := List.mem_of_mem_drop hx2; simp at hx3))

/-- **a limit / count change through one stage** (Head, Skip; a Tail only if it is static — the dynamic Tail's
    `update_limit` is the known finding D2): the stage's bookkeeping stays right for the view below, and the emitted
    diffs are a valid container taking the old view to the new one -/
theorem stage_onLimit_sound {α} (T : Tables α) (st : Stage α) (below : List α) (v : Nat) (hi : st.Inv T below)
    (hnt : st.isTail = false) :
    (st.onLimit v).2.Inv T below ∧ applyAll (st.onLimit v).1 (st.viewOn T below) = some ((st.onLimit v).2.viewOn T below) ∧
    ValidSeq (st.onLimit v).1 (st.viewOn T below) ∧ (st.onLimit v).2.ready = st.ready ∧ (st.onLimit v).2.isSort = st.isSort ∧
    (st.onLimit v).2.isTail = st.isTail := by
  cases st with
  | head l k buf r =>
    simp only [Stage.Inv] at hi; subst hi
    have h1 := head_update_limit buf l v
    exact ⟨rfl, h1, (validSeq_iff _ _).mpr ⟨⟨_, h1⟩, head_updateLimit_truncOK buf l v⟩, rfl, rfl, rfl⟩
  | tail l k buf r => simp [Stage.isTail] at hnt
  | skip c k buf r =>
    simp only [Stage.Inv] at hi; subst hi
    have h1 := skip_update_count buf c v
    exact ⟨rfl, h1, (validSeq_iff _ _).mpr ⟨⟨_, h1⟩, truncOK_of_noTrunc _ (skip_updateCount_noTrunc buf c v) _⟩, rfl, rfl, rfl⟩
  | filter f s => exact ⟨hi, rfl, trivial, rfl, rfl, rfl⟩
  | sort c b r => exact ⟨hi, rfl, trivial, rfl, rfl, rfl⟩


theorem isTail_onDiffs {α} (T : Tables α) (st st2 : Stage α) (ds out : List (Diff α)) (h : st.onDiffs T ds = some (out, st2)) :
    st2.isTail = st.isTail := by
  cases st with
  | head l k buf r =>
    simp only [Stage.onDiffs, Option.map_eq_some_iff] at h
    obtain ⟨⟨b, o⟩, _, h2⟩ := h; cases h2; rfl
  | tail l k buf r =>
    simp only [Stage.onDiffs, Option.map_eq_some_iff] at h
    obtain ⟨⟨b, o⟩, _, h2⟩ := h; cases h2; rfl
  | skip c k buf r =>
    simp only [Stage.onDiffs, Option.map_eq_some_iff] at h
    obtain ⟨⟨b, o⟩, _, h2⟩ := h; cases h2; rfl
  | filter f s => simp only [Stage.onDiffs] at h; cases h; rfl
  | sort c buf r =>
    simp only [Stage.onDiffs, Option.map_eq_some_iff] at h
    obtain ⟨⟨o, b⟩, _, h2⟩ := h; cases h2; rfl

/-- unfolding of one iteration of the poll loop when the stage has nothing buffered and its limit stream announces `v` -/
theorem pollStages_cons_value {α} (T : Tables α) (b : Bool) (sub n : Nat) (st : Stage α) (inner : List (Stage α)) (w : PWorld α)
    (v : Nat) (w1 : PWorld α) (hr : st.ready = []) (hl : limPoll w st.limOf = (.value v, w1)) :
    pollStages T b sub (n + 1) (st :: inner) w =
      (match emit b (st.onLimit v).1 with
       | some (it, rest) => (it, (st.onLimit v).2.setReady rest :: inner, w1)
       | none => pollStages T b sub n ((st.onLimit v).2 :: inner) w1) := by
  simp only [pollStages, hr, hl]
  rfl

/-- … and when it announces nothing (Pending or ended) -/
theorem pollStages_cons_novalue {α} (T : Tables α) (b : Bool) (sub n : Nat) (st : Stage α) (inner : List (Stage α)) (w : PWorld α)
    (hr : st.ready = []) (hl : ∀ v, (limPoll w st.limOf).1 ≠ .value v) :
    pollStages T b sub (n + 1) (st :: inner) w =
      (match itemDiffs (pollStages T b sub n inner (limPoll w st.limOf).2).1 with
       | none => ((pollStages T b sub n inner (limPoll w st.limOf).2).1, st :: (pollStages T b sub n inner (limPoll w st.limOf).2).2.1,
                  (pollStages T b sub n inner (limPoll w st.limOf).2).2.2)
       | some ds =>
         match st.onDiffs T ds with
         | none => (.panic, st :: (pollStages T b sub n inner (limPoll w st.limOf).2).2.1, (pollStages T b sub n inner (limPoll w st.limOf).2).2.2)
         | some (out, st2) =>
           match emit b out with
           | some (it', rest) => (it', st2.setReady rest :: (pollStages T b sub n inner (limPoll w st.limOf).2).2.1,
                                  (pollStages T b sub n inner (limPoll w st.limOf).2).2.2)
           | none => pollStages T b sub n (st2 :: (pollStages T b sub n inner (limPoll w st.limOf).2).2.1)
                       (pollStages T b sub n inner (limPoll w st.limOf).2).2.2) := by
  simp only [pollStages, hr]
  generalize limPoll w st.limOf = lp at hl
  obtain ⟨lres, w1⟩ := lp
  cases lres with
  | value v => exact absurd rfl (hl v)
  | pending => rfl
  | ended => rfl

/-- a stage with nothing buffered that is not a Sort; a Tail only if it is static -/
def DynStage {α} (st : Stage α) : Prop := st.ready = [] ∧ st.isSort = false ∧ (st.isTail = true → st.limOf = none)

def PipeInvD {α} (T : Tables α) (sub : Nat) (sts : List (Stage α)) (w : PWorld α) : Prop :=
  VInv w.ov ∧ TInv w.ov ∧ (∀ st ∈ sts, DynStage st) ∧
  ∃ r rep, w.ov.subs[sub]? = some r ∧ r.alive = true ∧ r.replica = some rep ∧ ChainInv T sts.reverse rep

/-- **the poll-loop theorem with dynamic limits / counts** (batched flavour; chains of static or dynamic Head and Skip,
    static Tail, Filter / FilterMap, any depth, any queue of announced limit values): as `pipe_poll_sound`; an item may
    now also stem from a limit / count change, and it still takes the composed view before the poll to the one after -/
theorem pipe_poll_sound_d {α} (T : Tables α) (sub : Nat) :
    ∀ (fuel : Nat) (sts : List (Stage α)) (w : PWorld α), PipeInvD T sub sts w →
      (pollStages T true sub fuel sts w).1 = .panic ∨
      (PipeInvD T sub (pollStages T true sub fuel sts w).2.1 (pollStages T true sub fuel sts w).2.2 ∧
       ∃ v v', pipeView T sub sts w = some v ∧
         pipeView T sub (pollStages T true sub fuel sts w).2.1 (pollStages T true sub fuel sts w).2.2 = some v' ∧
         match itemDiffs (pollStages T true sub fuel sts w).1 with
         | some ds => ValidSeq ds v ∧ applyAll ds v = some v'
         | none => v' = v) := by
  intro fuel
  induction fuel with
  | zero => intro sts w _; left; simp [pollStages]
  | succ n ih =>
    intro sts w hinv
    obtain ⟨hv, ht, hst, r, rep, hr, hal, hrep, hci⟩ := hinv
    cases sts with
    | nil =>
      simp only [pollStages]
      cases hp : w.ov.poll sub with
      | none => left; rfl
      | some p =>
        obtain ⟨it, ov'⟩ := p
        simp only
        by_cases hpan : it = .panic
        · left; exact hpan
        right
        have hv' := vinv_poll w.ov ov' sub it hv hp
        have ht' := tinv_poll w.ov ov' sub it hv ht hp
        cases hd : itemDiffs it with
        | some ds =>
          obtain ⟨r1, r', rep1, rep', g1, g2, g3, g4, g5, g6, g7⟩ := poll_item_valid w.ov ov' sub it hv ht hp ds hd
          rw [hr] at g1; cases g1
          rw [hrep] at g3; cases g3
          refine ⟨⟨hv', ht', by intro st hst'; simp at hst', r', rep', g2, g5, g4, trivial⟩, rep, rep', ?_, ?_, ?_⟩
          · simp [pipeView, hr, hrep, chainView]
          · simp [pipeView, g2, g4, chainView]
          · simp only [hd]; exact ⟨g6, g7⟩
        | none =>
          obtain ⟨r1, r', rep1, g1, g2, g3, _, ⟨g5, g6⟩, _⟩ := poll_cases w.ov ov' sub it hv hp
          rw [hr] at g1; cases g1
          rw [hrep] at g3; cases g3
          have hg : ghostRep it (some rep) = some rep := by
            cases it <;> simp [itemDiffs] at hd <;> simp [ghostRep]
          rw [hg] at g5
          refine ⟨⟨hv', ht', by intro st hst'; simp at hst', r', rep, g2, g6, g5, trivial⟩, rep, rep, ?_, ?_, ?_⟩
          · simp [pipeView, hr, hrep, chainView]
          · simp [pipeView, g2, g5, chainView]
          · simp only [hd]
    | cons st inner =>
      obtain ⟨hready, hns, htl⟩ := hst st (List.mem_cons_self ..)
      have hinner : ∀ st' ∈ inner, DynStage st' := fun st' h => hst st' (List.mem_cons_of_mem _ h)
      rw [List.reverse_cons, chainInv_snoc] at hci
      obtain ⟨hci1, hsti⟩ := hci
      have hview0 : pipeView T sub (st :: inner) w = some (st.viewOn T (chainView T inner.reverse rep)) := by
        simp [pipeView, hr, hrep, List.reverse_cons, chainView_snoc]
      by_cases hval : ∃ v, (limPoll w st.limOf).1 = .value v
      · obtain ⟨v, hval⟩ := hval
        have hnotail : st.isTail = false := by
          cases hh : st.isTail with
          | false => rfl
          | true => rw [htl hh] at hval; simp [limPoll] at hval
        generalize hlp : limPoll w st.limOf = lp at hval
        obtain ⟨lres, w1⟩ := lp
        simp only at hval; subst hval
        have hov : w1.ov = w.ov := by have := limPoll_frame w st.limOf; rw [hlp] at this; exact this
        rw [pollStages_cons_value T true sub n st inner w v w1 hready hlp]
        obtain ⟨l1, l2, l3, l4, l5, l6⟩ := stage_onLimit_sound T st _ v hsti hnotail
        generalize hol : st.onLimit v = ol at l1 l2 l3 l4 l5 l6
        obtain ⟨ds, st1⟩ := ol
        simp only at l1 l2 l3 l4 l5 l6 ⊢
        have hst1 : DynStage st1 := ⟨l4.trans hready, l5.trans hns, fun h => by rw [l6, hnotail] at h; cases h⟩
        have hinv3 : PipeInvD T sub (st1 :: inner) w1 := by
          refine ⟨hov ▸ hv, hov ▸ ht, ?_, r, rep, hov ▸ hr, hal, hrep, ?_⟩
          · intro st' hst'
            rcases List.mem_cons.mp hst' with rfl | h
            · exact hst1
            · exact hinner st' h
          · rw [List.reverse_cons, chainInv_snoc]; exact ⟨hci1, l1⟩
        have hview3 : pipeView T sub (st1 :: inner) w1 = some (st1.viewOn T (chainView T inner.reverse rep)) := by
          simp [pipeView, hov, hr, hrep, List.reverse_cons, chainView_snoc]
        cases ds with
        | nil =>
          simp only [emit]
          simp [applyAll] at l2
          have hIH2 := ih (st1 :: inner) w1 hinv3
          rcases hIH2 with hpan | ⟨hinv4, v3, v4, hv3, hv4, hitem4⟩
          · left; exact hpan
          · right
            rw [hview3] at hv3; cases hv3
            exact ⟨hinv4, st.viewOn T (chainView T inner.reverse rep), v4, hview0, hv4, by rw [l2]; exact hitem4⟩
        | cons d rest =>
          simp only [emit, if_true]
          right
          rw [setReady_self st1 hst1.1]
          exact ⟨hinv3, st.viewOn T (chainView T inner.reverse rep), st1.viewOn T (chainView T inner.reverse rep), hview0, hview3,
            by simp only [itemDiffs]; exact ⟨l3, l2⟩⟩
      rw [pollStages_cons_novalue T true sub n st inner w hready (fun v hv' => hval ⟨v, hv'⟩)]
      generalize hw1 : (limPoll w st.limOf).2 = w1
      have hov : w1.ov = w.ov := by rw [← hw1]; exact limPoll_frame w st.limOf
      have hIH := ih inner w1 ⟨hov ▸ hv, hov ▸ ht, hinner, r, rep, hov ▸ hr, hal, hrep, hci1⟩
      generalize hcall : pollStages T true sub n inner w1 = res at hIH
      obtain ⟨it, inner', w2⟩ := res
      simp only at hIH ⊢
      rcases hIH with hpan | ⟨hinv2, vin, vin', hv1, hv2, hitem⟩
      · left; subst hpan; simp [itemDiffs]
      · have hvin : vin = chainView T inner.reverse rep := by
          simp [pipeView, hov, hr, hrep] at hv1; exact hv1.symm
        subst hvin
        obtain ⟨hva, hta, hsta, r2, rep2, hr2, hal2, hrep2, hci2⟩ := hinv2
        have hvin' : vin' = chainView T inner'.reverse rep2 := by
          simp [pipeView, hr2, hrep2] at hv2; exact hv2.symm
        subst hvin'
        cases hd : itemDiffs it with
        | none =>
          simp only [hd] at hitem ⊢
          right
          refine ⟨⟨hva, hta, ?_, r2, rep2, hr2, hal2, hrep2, ?_⟩, st.viewOn T (chainView T inner.reverse rep),
            st.viewOn T (chainView T inner'.reverse rep2), hview0, ?_, ?_⟩
          · intro st' hst'
            rcases List.mem_cons.mp hst' with rfl | h
            · exact ⟨hready, hns, htl⟩
            · exact hsta st' h
          · rw [List.reverse_cons, chainInv_snoc]; exact ⟨hci2, by rw [hitem]; exact hsti⟩
          · simp [pipeView, hr2, hrep2, List.reverse_cons, chainView_snoc]
          · rw [hitem]
        | some ds =>
          simp only [hd] at hitem ⊢
          obtain ⟨hvs, hap⟩ := hitem
          obtain ⟨out, st2, below', g1, g2, g3, g4, g5, g6⟩ := stage_onDiffs_sound T st _ ds hsti hvs (by rw [hns]; intro h; cases h)
          rw [hap] at g2; cases g2
          simp only [g1]
          have hst2 : DynStage st2 := ⟨(ready_onDiffs T st st2 ds out g1).trans hready, g6.trans hns, fun h => (limOf_onDiffs T st st2 ds out g1).trans (htl ((isTail_onDiffs T st st2 ds out g1) ▸ h))⟩
          have hinv3 : PipeInvD T sub (st2 :: inner') w2 := by
            refine ⟨hva, hta, ?_, r2, rep2, hr2, hal2, hrep2, ?_⟩
            · intro st' hst'
              rcases List.mem_cons.mp hst' with rfl | h
              · exact hst2
              · exact hsta st' h
            · rw [List.reverse_cons, chainInv_snoc]; exact ⟨hci2, g3⟩
          have hview3 : pipeView T sub (st2 :: inner') w2 = some (st2.viewOn T (chainView T inner'.reverse rep2)) := by
            simp [pipeView, hr2, hrep2, List.reverse_cons, chainView_snoc]
          cases out with
          | nil =>
            simp only [emit]
            simp [applyAll] at g4
            have hIH2 := ih (st2 :: inner') w2 hinv3
            rcases hIH2 with hpan | ⟨hinv4, v3, v4, hv3, hv4, hitem4⟩
            · left; exact hpan
            · right
              rw [hview3] at hv3; cases hv3
              exact ⟨hinv4, st.viewOn T (chainView T inner.reverse rep), v4, hview0, hv4, by rw [g4]; exact hitem4⟩
          | cons d rest =>
            simp only [emit, if_true]
            right
            rw [setReady_self st2 hst2.1]
            exact ⟨hinv3, st.viewOn T (chainView T inner.reverse rep), st2.viewOn T (chainView T inner'.reverse rep2), hview0, hview3,
              by simp only [itemDiffs]; exact ⟨g5, g4⟩⟩



end EV
