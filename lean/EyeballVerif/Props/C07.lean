/-
  C07 — transactions are atomic: invisible until commit, all-or-nothing afterwards.
-/
import EyeballVerif.Lemmas.ApplyAll
import EyeballVerif.Lemmas.Traversal
import EyeballVerif.Props.C05
namespace EV

/-- what can happen inside an open transaction -/
inductive TEv (α : Type) where
  | op (o : VOp α)            -- any mutator (a panicking one leaves the transaction as it was)
  | rollback
  | forEach (decs : List (Dec α))

def OV.txnEv {α} (s : OV α) : TEv α → OV α
  | .op o => match s.txnOp o with | some (s', _) => s' | none => s
  | .rollback => s.txnRollback
  | .forEach decs => (s.txnForEach decs).1

/-- everything except the `txn` field -/
def OV.outside {α} (s : OV α) : List α × Bool × Nat × List (Msg α) × List (Sub α) :=
  (s.vals, s.alive, s.B, s.log, s.subs)

theorem txnOp_outside {α} (s s' : OV α) (o : VOp α) (r : Ret α) (h : s.txnOp o = some (s', r)) :
    s'.outside = s.outside ∧ s'.txn.isSome := by
  unfold OV.txnOp at h
  cases ht : s.txn with
  | none => simp [ht] at h
  | some t =>
    simp only [ht] at h
    cases o <;> simp only [] at h <;>
      first
      | (simp at h; obtain ⟨rfl, _⟩ := h; simp [OV.outside])
      | (split at h <;> simp at h; obtain ⟨rfl, _⟩ := h; simp [OV.outside])

theorem txnEv_outside {α} (s : OV α) (e : TEv α) (ht : s.txn.isSome) :
    (s.txnEv e).outside = s.outside ∧ (s.txnEv e).txn.isSome := by
  cases e with
  | op o =>
    simp only [OV.txnEv]
    cases h : s.txnOp o with
    | none => exact ⟨rfl, ht⟩
    | some p => obtain ⟨s', r⟩ := p; exact txnOp_outside s s' o r h
  | rollback =>
    simp only [OV.txnEv, OV.txnRollback]
    cases h : s.txn with
    | none => simp [h] at ht
    | some t => simp [OV.outside]
  | forEach decs =>
    simp only [OV.txnEv, OV.txnForEach]
    apply forEachLoop_preserves (P := fun st : OV α => st.outside = s.outside ∧ st.txn.isSome)
    · intro st i v ⟨h1, h2⟩
      cases h : st.txnOp (.set i v) with
      | none => exact ⟨h1, h2⟩
      | some p =>
        obtain ⟨s', r⟩ := p
        have := txnOp_outside st s' _ r h
        exact ⟨this.1.trans h1, this.2⟩
    · intro st i ⟨h1, h2⟩
      cases h : st.txnOp (.remove i) with
      | none => exact ⟨h1, h2⟩
      | some p =>
        obtain ⟨s', r⟩ := p
        have := txnOp_outside st s' _ r h
        exact ⟨this.1.trans h1, this.2⟩
    · exact ⟨rfl, ht⟩

/-- **Abandoning is invisible.** Whatever was done through the transaction (any mutators incl. `clear`,
    entry traversals, rollbacks, panicking calls), dropping it leaves the `ObservableVector` — contents,
    channel log (what every subscriber will ever receive), receivers — exactly as before it was opened. -/
theorem c07_abandon {α} (s : OV α) (hs : s.txn = none) (evs : List (TEv α)) :
    (evs.foldl OV.txnEv s.txnBegin).txnDrop = s := by
  have key : ∀ (evs : List (TEv α)) (u : OV α), u.outside = s.outside → u.txn.isSome →
      (evs.foldl OV.txnEv u).outside = s.outside := by
    intro evs
    induction evs with
    | nil => intro u h _; exact h
    | cons e es ih =>
      intro u h1 h2
      have := txnEv_outside u e h2
      exact ih _ (this.1.trans h1) this.2
  have h := key evs s.txnBegin rfl (by simp [OV.txnBegin])
  generalize evs.foldl OV.txnEv s.txnBegin = u at h
  cases s; cases u
  simp [OV.outside, OV.txnDrop] at h hs ⊢
  simp [h, hs]

/-- transaction invariant: while somebody listens, the recorded batch replayed on the vector's
    (unchanged) contents yields the working copy -/
def TxnInv {α} (s : OV α) : Prop :=
  ∀ t, s.txn = some t → s.rxCount ≠ 0 → applyAll t.batch s.vals = some t.working

theorem c07_inv_begin {α} (s : OV α) : TxnInv s.txnBegin := by
  intro t ht _; simp [OV.txnBegin] at ht; subst ht; simp [OV.txnBegin]

theorem c07_inv_rollback {α} (s : OV α) : TxnInv s.txnRollback := by
  intro t ht _
  unfold OV.txnRollback at ht
  cases h : s.txn with
  | none => simp [h] at ht
  | some t0 => simp [h] at ht; subst ht; simp [OV.txnRollback, h]

theorem c07_inv_op {α} (s s' : OV α) (o : VOp α) (r : Ret α) (hi : TxnInv s)
    (h : s.txnOp o = some (s', r)) : TxnInv s' := by
  intro t' ht' hrx
  have hout := (txnOp_outside s s' o r h).1
  have hv : s'.vals = s.vals := by simpa [OV.outside] using congrArg (·.1) hout
  have hsubs : s'.subs = s.subs := by simpa [OV.outside] using congrArg (·.2.2.2.2) hout
  have hrx' : s.rxCount ≠ 0 := by simpa [OV.rxCount, hsubs] using hrx
  unfold OV.txnOp at h
  cases ht : s.txn with
  | none => simp [ht] at h
  | some t =>
    have hinv := hi t ht hrx'
    simp only [ht] at h
    by_cases hc : o = .clear
    · subst hc
      simp at h; obtain ⟨rfl, _⟩ := h
      simp at ht'; subst ht'
      simp [hrx', applyAll, Diff.applicable, Diff.apply]
    · have hgen : (match o.exec t.working with
          | none => none
          | some r => some ({ s with txn := some { working := r.vals, batch :=
              match r.diff with
              | some d => if s.rxCount ≠ 0 then t.batch ++ [d] else t.batch
              | none => t.batch } }, r.ret)) = some (s', r) := by
        rw [← h]; cases o <;> first | rfl | exact absurd rfl hc
      cases he : o.exec t.working with
      | none => simp [he] at hgen
      | some res =>
        simp [he] at hgen
        obtain ⟨rfl, _⟩ := hgen
        simp at ht'; subst ht'
        have hf := c05_exec_faithful o t.working res he
        cases hd : res.diff with
        | none => simp [hd] at hf ⊢; rw [← hf.1]; exact hinv
        | some d =>
          simp [hd, hrx'] at hf ⊢
          rw [applyAll_append, hinv]; simpa using hf.1

/-- `commit`: the vector's contents become the working contents; an empty batch publishes nothing;
    otherwise exactly one message is published, carrying the whole batch and the new contents. -/
theorem c07_commit {α} (s : OV α) (t : Txn α) (ht : s.txn = some t) :
    s.txnCommit.1.vals = t.working ∧ s.txnCommit.1.txn = none ∧
    (t.batch = [] → s.txnCommit.1.log = s.log) ∧
    (t.batch ≠ [] → s.rxCount ≠ 0 →
      s.txnCommit.1.log = s.log ++ [{ diffs := t.batch, many := true, state := t.working }]) := by
  unfold OV.txnCommit
  simp only [ht]
  by_cases hb : t.batch = []
  · simp [hb]
  · have hb' : t.batch.isEmpty = false := by cases h : t.batch <;> simp_all
    simp only [hb', Bool.false_eq_true, if_false]
    unfold OV.send
    have hrxeq : ({ s with vals := t.working, txn := none } : OV α).rxCount = s.rxCount := rfl
    by_cases hrx : s.rxCount ≠ 0
    · simp [hrxeq, hrx, OV.unparkAll, hb]
    · simp [hrxeq, hrx, hb]

/-- … and that unit is faithful: replayed on the pre-transaction contents it yields the
    post-transaction contents (given the transaction invariant, which every transaction history keeps). -/
theorem c07_commit_replay {α} (s : OV α) (t : Txn α) (ht : s.txn = some t) (hi : TxnInv s)
    (hrx : s.rxCount ≠ 0) : applyAll t.batch s.vals = some s.txnCommit.1.vals := by
  rw [(c07_commit s t ht).1]; exact hi t ht hrx

/-- the invariant holds along every transaction body -/
theorem c07_inv_run {α} (s : OV α) (evs : List (TEv α)) : TxnInv (evs.foldl OV.txnEv s.txnBegin) := by
  have key : ∀ (evs : List (TEv α)) (u : OV α), TxnInv u → TxnInv (evs.foldl OV.txnEv u) := by
    intro evs
    induction evs with
    | nil => intro u h; exact h
    | cons e es ih =>
      intro u hu
      apply ih
      cases e with
      | op o =>
        simp only [OV.txnEv]
        cases h : u.txnOp o with
        | none => exact hu
        | some p => obtain ⟨s', r⟩ := p; exact c07_inv_op u s' o r hu h
      | rollback => exact c07_inv_rollback u
      | forEach decs =>
        simp only [OV.txnEv, OV.txnForEach]
        apply forEachLoop_preserves (P := TxnInv)
        · intro st i v hst
          cases h : st.txnOp (.set i v) with
          | none => exact hst
          | some p => obtain ⟨s', r⟩ := p; exact c07_inv_op st s' _ r hst h
        · intro st i hst
          cases h : st.txnOp (.remove i) with
          | none => exact hst
          | some p => obtain ⟨s', r⟩ := p; exact c07_inv_op st s' _ r hst h
        · exact hu
  exact key evs _ (c07_inv_begin s)

-- non-vacuity: a transaction with a subscriber, `clear` in the middle, then commit
example :
    let s0 : OV Nat := ((OV.new 4).subscribe false).1
    let s1 := [TEv.op (.pushBack 1), .op .clear, .op (.pushBack 2), .op (.insert 0 3)].foldl OV.txnEv s0.txnBegin
    s1.rxCount ≠ 0 ∧ (s1.txn.map (·.batch)) = some [.clear, .pushBack 2, .insert 0 3] ∧
    s1.txnCommit.1.vals = [3, 2] := by decide

end EV
