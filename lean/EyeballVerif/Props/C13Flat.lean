/-
  C13 — the flat law: a stage, and a whole chain, rewrites a batch exactly as it rewrites the batch's diffs one after
  another (outputs concatenate, state threaded through). This is why the batched and the unbatched flavour of every
  adapter deliver the same diffs in the same order.
-/
import EyeballVerif.Props.C13
import EyeballVerif.Props.ChainSound
namespace EV

/-- sequential composition of two runs of a stage / a chain: outputs concatenate, the state is threaded through -/
def seqRun {σ α} (f : σ → List (Diff α) → Option (List (Diff α) × σ)) (s : σ) (a b : List (Diff α)) : Option (List (Diff α) × σ) :=
  match f s a with
  | none => none
  | some (o1, s1) =>
    match f s1 b with
    | none => none
    | some (o2, s2) => some (o1 ++ o2, s2)

theorem sortDiffs_acc {α} (cmp : α → α → Ordering) (sortFn : List (Nat × α) → List (Nat × α)) (ds : List (Diff α)) :
    ∀ (acc : List (Diff α)) (b : List (Nat × α)),
      sortDiffs cmp sortFn ds acc b = (sortDiffs cmp sortFn ds [] b).map (fun p => (acc ++ p.1, p.2)) := by
  induction ds with
  | nil => intro acc b; simp [sortDiffs]
  | cons d ds ih =>
    intro acc b
    simp only [sortDiffs]
    cases Srt.handle cmp sortFn d b with
    | none => simp
    | some p =>
      obtain ⟨o, b'⟩ := p
      simp only
      rw [ih (acc ++ o), ih ([] ++ o)]
      cases sortDiffs cmp sortFn ds [] b' <;> simp [List.append_assoc]

theorem sortDiffs_append {α} (cmp : α → α → Ordering) (sortFn : List (Nat × α) → List (Nat × α)) (d1 d2 : List (Diff α)) :
    ∀ (acc : List (Diff α)) (b : List (Nat × α)),
      sortDiffs cmp sortFn (d1 ++ d2) acc b = (sortDiffs cmp sortFn d1 acc b).bind (fun p => sortDiffs cmp sortFn d2 p.1 p.2) := by
  induction d1 with
  | nil => intro acc b; simp [sortDiffs]
  | cons d ds ih =>
    intro acc b
    simp only [List.cons_append, sortDiffs]
    cases Srt.handle cmp sortFn d b with
    | none => simp
    | some p => obtain ⟨o, b'⟩ := p; simp only; exact ih _ _

/-- **C13 (the flat law, one stage).** Feeding a stage the concatenation of two containers is feeding it the first and
    then the second: the outputs concatenate. A batch is therefore rewritten exactly as its diffs one after another —
    the batched and the unbatched flavour of every adapter produce the same diffs in the same order. -/
theorem c13_stage_flat {α} (T : Tables α) (st : Stage α) (a b : List (Diff α)) :
    st.onDiffs T (a ++ b) = seqRun (fun s ds => s.onDiffs T ds) st a b := by
  cases st with
  | head l k buf r =>
    simp only [Stage.onDiffs, seqRun, c13_mapDiffs_append]
    cases h1 : mapDiffs (fun d pl b => Head.handleDiff d l pl b) a buf [] with
    | none => simp
    | some p =>
      obtain ⟨b1, o1⟩ := p
      simp only [Option.bind_some, Option.map_some]
      rw [c13_mapDiffs_acc]
      cases mapDiffs (fun d pl b => Head.handleDiff d l pl b) b b1 [] with
      | none => simp
      | some q => simp
  | tail l k buf r =>
    simp only [Stage.onDiffs, seqRun, c13_mapDiffs_append]
    cases h1 : mapDiffs (fun d pl b => Tail.handleDiff d l pl b) a buf [] with
    | none => simp
    | some p =>
      obtain ⟨b1, o1⟩ := p
      simp only [Option.bind_some, Option.map_some]
      rw [c13_mapDiffs_acc]
      cases mapDiffs (fun d pl b => Tail.handleDiff d l pl b) b b1 [] with
      | none => simp
      | some q => simp
  | skip c k buf r =>
    cases c with
    | none =>
      simp only [Stage.onDiffs, seqRun, c13_mapDiffs_append]
      cases h1 : mapDiffs (fun (_ : Diff α) (_ : Nat) (_ : List α) => ([] : List (Diff α))) a buf [] with
      | none => simp
      | some p =>
        obtain ⟨b1, o1⟩ := p
        simp only [Option.bind_some, Option.map_some]
        rw [c13_mapDiffs_acc]
        cases mapDiffs (fun (_ : Diff α) (_ : Nat) (_ : List α) => ([] : List (Diff α))) b b1 [] with
        | none => simp
        | some q => simp
    | some c =>
      simp only [Stage.onDiffs, seqRun, c13_mapDiffs_append]
      cases h1 : mapDiffs (fun d pl b => Skip.handleDiff d c pl b) a buf [] with
      | none => simp
      | some p =>
        obtain ⟨b1, o1⟩ := p
        simp only [Option.bind_some, Option.map_some]
        rw [c13_mapDiffs_acc]
        cases mapDiffs (fun d pl b => Skip.handleDiff d c pl b) b b1 [] with
        | none => simp
        | some q => simp
  | filter fid fst =>
    simp only [Stage.onDiffs, seqRun, List.foldl_append]
    have key : ∀ (ds : List (Diff α)) (acc : List (Diff α)) (s0 : FilterSt),
        ds.foldl (fun (acc : List (Diff α) × FilterSt) d =>
          let (o, s) := Filter.handle (T.filt fid) d acc.2
          (acc.1 ++ o.toList, s)) (acc, s0) =
        (acc ++ (ds.foldl (fun (acc : List (Diff α) × FilterSt) d =>
          let (o, s) := Filter.handle (T.filt fid) d acc.2
          (acc.1 ++ o.toList, s)) ([], s0)).1,
         (ds.foldl (fun (acc : List (Diff α) × FilterSt) d =>
          let (o, s) := Filter.handle (T.filt fid) d acc.2
          (acc.1 ++ o.toList, s)) ([], s0)).2) := by
      intro ds
      induction ds with
      | nil => intro acc s0; simp
      | cons d ds ih =>
        intro acc s0
        simp only [List.foldl_cons]
        rw [ih (acc ++ _), ih ([] ++ _)]
        simp [List.append_assoc]
    generalize hf : a.foldl (fun (acc : List (Diff α) × FilterSt) d =>
          let (o, s) := Filter.handle (T.filt fid) d acc.2
          (acc.1 ++ o.toList, s)) ([], fst) = r1
    obtain ⟨o1, s1⟩ := r1
    rw [key b o1 s1]
  | sort cid buf r =>
    simp only [Stage.onDiffs, seqRun, sortDiffs_append]
    cases h1 : sortDiffs (T.cmp cid) (T.sort cid) a [] buf with
    | none => simp
    | some p =>
      obtain ⟨o1, b1⟩ := p
      simp only [Option.bind_some, Option.map_some]
      rw [sortDiffs_acc]
      cases sortDiffs (T.cmp cid) (T.sort cid) b [] b1 with
      | none => simp
      | some q => simp

/-- **C13 (the flat law, whole chains).** -/
theorem c13_chain_flat {α} (T : Tables α) (sts : List (Stage α)) : ∀ (a b : List (Diff α)),
    chainOnDiffs T sts (a ++ b) = seqRun (chainOnDiffs T) sts a b := by
  induction sts with
  | nil => intro a b; simp [chainOnDiffs, seqRun]
  | cons st outer ih =>
    intro a b
    simp only [chainOnDiffs, seqRun]
    rw [c13_stage_flat]
    simp only [seqRun]
    cases h1 : st.onDiffs T a with
    | none => simp
    | some p =>
      obtain ⟨o1, st1⟩ := p
      simp only
      cases h2 : st1.onDiffs T b with
      | none =>
        simp only
        cases chainOnDiffs T outer o1 with
        | none => simp
        | some q => obtain ⟨q1, q2⟩ := q; simp [chainOnDiffs, h2]
      | some p2 =>
        obtain ⟨o2, st2⟩ := p2
        simp only
        rw [ih o1 o2]
        simp only [seqRun]
        cases chainOnDiffs T outer o1 with
        | none => simp
        | some q =>
          obtain ⟨q1, sts1⟩ := q
          simp only [Option.map_some, chainOnDiffs, h2]
          cases chainOnDiffs T sts1 o2 with
          | none => simp
          | some q2 => simp

end EV
