/-
  C10 — Filter and FilterMap present exactly the matching (mapped) items, in order.
-/
import EyeballVerif.Lemmas.FilterArms
namespace EV
open Filter

theorem split_at {γ} (l : List γ) (i : Nat) (h : i < l.length) :
    l = l.take i ++ l[i] :: l.drop (i + 1) ∧ (l.take i).length = i := by
  refine ⟨?_, by simp; omega⟩
  conv => lhs; rw [← List.take_append_drop i l]
  rw [List.drop_eq_getElem_cons h]

/-- **Filter / FilterMap, every arm.** If the bookkeeping is right for the source before the diff
    (`FInv`), then it is right for the source after it, and the emitted diff (if any), replayed strictly on
    the old filtered view, gives the new filtered view — for every partial mapping `f`, every source and every
    diff valid on it. -/
theorem filter_handle {α β} (f : α → Option β) (d : Diff α) (src src' : List α) (st : FilterSt)
    (hv : d.validOn src = true) (ha : d.apply src = some src') (hi : FInv f st src) :
    FInv f (Filter.handle f d st).2 src' ∧
    applyAll (Filter.handle f d st).1.toList (src.filterMap f) = some (src'.filterMap f) := by
  cases d with
  | append vs => simp [Diff.apply] at ha; subst ha; exact filter_append f vs src st hi
  | clear => simp [Diff.apply] at ha; subst ha; exact filter_clear f src st
  | pushFront v => simp [Diff.apply] at ha; subst ha; exact filter_pushFront f v src st hi
  | pushBack v => simp [Diff.apply] at ha; subst ha; exact filter_pushBack f v src st hi
  | popFront =>
    simp [Diff.apply] at ha; subst ha
    cases src with
    | nil => simp [Diff.validOn, Diff.applicable] at hv
    | cons a t => exact filter_popFront f a t st hi
  | popBack =>
    simp [Diff.apply] at ha; subst ha
    simp [Diff.validOn, Diff.applicable] at hv
    have e : src = src.dropLast ++ [src.getLast hv] := (List.dropLast_concat_getLast hv).symm
    have := filter_popBack f (src.getLast hv) src.dropLast st (by rw [← e]; exact hi)
    rw [← e] at this; exact this
  | insert i v =>
    simp [Diff.apply, Diff.validOn, Diff.applicable] at ha hv
    obtain ⟨_, rfl⟩ := ha
    have hlen : (src.take i).length = i := by simp; omega
    have := filter_insert f v (src.take i) (src.drop i) st (by simpa using hi)
    rw [hlen, List.take_append_drop] at this
    exact this
  | set i v =>
    simp [Diff.apply, Diff.validOn, Diff.applicable] at ha hv
    obtain ⟨_, rfl⟩ := ha
    obtain ⟨e, hlen⟩ := split_at src i hv
    have := filter_set f v src[i] (src.take i) (src.drop (i + 1)) st (by rw [← e]; exact hi)
    rw [← e, hlen] at this
    have e2 : src.set i v = src.take i ++ v :: src.drop (i + 1) := by
      apply List.ext_getElem?; intro j
      simp only [List.getElem?_set, List.getElem?_append, List.getElem?_take, List.length_take, List.getElem?_cons,
        List.getElem?_drop]
      grind
    rw [e2]; exact this
  | remove i =>
    simp [Diff.apply, Diff.validOn, Diff.applicable] at ha hv
    obtain ⟨_, rfl⟩ := ha
    obtain ⟨e, hlen⟩ := split_at src i hv
    have := filter_remove f src[i] (src.take i) (src.drop (i + 1)) st (by rw [← e]; exact hi)
    rw [← e, hlen] at this
    rw [List.eraseIdx_eq_take_drop_succ]; exact this
  | truncate n =>
    simp [Diff.apply, Diff.validOn] at ha hv; subst ha
    have hlen : (src.take n).length = n := by simp; omega
    have := filter_truncate f (src.take n) (src.drop n) st (by simpa using hi)
    rw [hlen, List.take_append_drop] at this
    exact this
  | reset vs => simp [Diff.apply] at ha; subst ha; exact filter_reset f vs src st

/-- the constructors establish the invariant and hand out the filtered view -/
theorem filter_init {α β} (f : α → Option β) (vals : List α) :
    (Filter.init f vals).1 = vals.filterMap f ∧ FInv f (Filter.init f vals).2 vals := by
  simp [Filter.init, FInv]


-- non-vacuity: a concrete state meeting `FInv`, a Reset whose items all fail (the repaired defect D3)
example :
    let f : Nat → Option Nat := fun x => if x % 2 = 0 then some x else none
    let st : FilterSt := (Filter.init f [2, 3, 4]).2
    st = { idx := [0, 2], olen := 3 } ∧
    (Filter.handle f (.reset [1, 3]) st).1 = some (.reset []) ∧
    (Filter.handle f (.set 1 6) st).1 = some (.insert 1 6) := by decide

end EV
