/-
  C19 — handle and subscriber counts are exact (default flavour; the async flavour holds two references per
  subscriber — known finding D8, see DESIGN.md).
-/
import EyeballVerif.Props.C01
namespace EV
open OWorld

/-- In every reachable world the four counters of a `SharedObservable`, computed as the code computes them
    from the `Arc` counts, are the numbers of live clones, subscribers, their sum, and weak references;
    `Observable::subscriber_count` is the number of live subscribers. -/
theorem c19_counts_exact {α} (eqv : α → α → Bool) (hash : α → Nat) (dflt : α) (w : OWorld α)
    (h : OReach eqv hash dflt w) :
    (w.unique = false →
      w.counts = { observable := w.cloneCount, subscriber := w.subCount,
                   strong := w.cloneCount + w.subCount, weak := w.weakCount }) ∧
    (w.unique = true → w.uniqueSubscriberCount = w.subCount) := by
  have hi := c01_reach_inv eqv hash dflt w h
  obtain ⟨h1, h2, h3, h4, h5, h6⟩ := hi
  constructor
  · intro hu
    rw [ownerCount_eq] at h4
    simp only [hu, Bool.false_eq_true, if_false] at h4
    simp only [OWorld.counts, OWorld.cloneCount, OWorld.subCount, OWorld.weakCount]
    simp only [cnt, subCnt] at h3 h4 h5
    simp [h3, h4, h5]
  · intro hu
    have hz := h2 hu
    rw [ownerCount_eq] at h4
    simp only [hu, if_true, hz] at h4
    simp only [OWorld.uniqueSubscriberCount, OWorld.subCount]
    simp only [subCnt] at h4
    omega

example :
    let step := OWorld.step (α := Nat) (fun a b => a == b) id 0
    let w := [OEv.cloneOwner 0, .subscribe 1 false, .downgrade 0, .dropOwner 0, .upgrade 0, .subClone 0 true].foldl step (OWorld.newShared 1)
    w.counts = { observable := 2, subscriber := 2, strong := 4, weak := 1 } := by decide

end EV
