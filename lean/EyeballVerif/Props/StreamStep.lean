/-
  C05 / C06 / C08 at the granularity of single receive operations: the `ObservableVector` lives on one thread, the
  subscriber streams on others, and between any two receive operations of one `poll_next` anything may happen.
  `Lemmas/StepInv` shows that the invariant `StInv` holds along every such interleaving (`sinv_run`); here is what a
  `poll_next` hands out when it finally returns (`micro_return`) and the property statements drawn from it.
-/
import EyeballVerif.Lemmas.StepInv
namespace EV

/-- reachable in the interleaved world: any capacity, any finite sequence of receive operations of any receivers
    and other events (updates, transactions, subscriptions, drops) in any order -/
def SReach {α} (s : SOV α) : Prop := ∃ (c : Nat) (evs : List (SEv α)), c ≤ 2 ^ 64 ∧ s = evs.foldl SOV.step (SOV.init c)

theorem sreach_inv {α} {s : SOV α} (h : SReach s) : StInv s := by
  obtain ⟨c, evs, hc, rfl⟩ := h
  exact sinv_run c hc evs

theorem sreach_step {α} {s : SOV α} (h : SReach s) (e : SEv α) : SReach (s.step e) := by
  obtain ⟨c, evs, hc, rfl⟩ := h
  exact ⟨c, evs ++ [e], hc, by simp [List.foldl_append]⟩

/-- **What a `poll_next` hands out when it returns**, after any interleaving with the writer and the other
    subscribers since it started: contents and log are untouched by the step, the receiver is idle again, and
    * `Pending`: the consumer's replica equals the current contents (nothing is owed), and the receiver is parked;
    * end of stream: the vector has been dropped and the consumer's replica equals its final contents;
    * one diff (plain stream): strictly applicable to the consumer's replica;
    * a batch (batched stream): non-empty, and strictly applicable as a whole to what the consumer had before the poll;
    * a `Reset` (after lagging): it carries the contents current at the moment `poll_next` returns, and nothing is owed. -/
theorem micro_return {α} (s s' : SOV α) (i : Nat) (k : RK) (it : Item α) (hi : StInv s)
    (h : s.micro i = some (k, some it, s')) :
    ∃ r r', s.ov.subs[i]? = some r ∧ r.alive = true ∧ s'.ov.subs[i]? = some r' ∧ s'.ph i = .idle ∧
      s'.ov.vals = s.ov.vals ∧ s'.ov.log = s.ov.log ∧
      ((it = .pending ∧ s.ph i = .idle ∧ r.replica = some s.ov.vals ∧ r'.replica = r.replica ∧ r'.waiting = true) ∨
       (it = .done ∧ s.ph i = .idle ∧ s.ov.alive = false ∧ r.replica = some s.ov.vals ∧ r'.replica = r.replica) ∨
       (∃ d sh sh', it = .one d ∧ s.ph i = .idle ∧ r.batched = false ∧ r.replica = some sh ∧
          applyAll [d] sh = some sh' ∧ r'.replica = some sh') ∨
       (∃ acc shown sh sh', it = .batch acc ∧ s.ph i = .drain acc shown ∧ acc ≠ [] ∧ shown = some sh ∧
          applyAll acc sh = some sh' ∧ r'.replica = some sh' ∧ ∃ a, a ≤ r.next ∧ acc = skipped s.ov.log a r.next) ∨
       (∃ m, s.ph i = .lag (some m) ∧ (it = .one (.reset m.state) ∨ it = .batch [.reset m.state]) ∧
          m.state = s.ov.vals ∧ r'.replica = some s.ov.vals ∧ r'.next = s.ov.log.length ∧ r'.rest = [])) := by
  unfold SOV.micro at h
  cases hs : s.ov.subs[i]? with
  | none => simp [hs] at h
  | some r =>
    simp only [hs] at h
    cases ha : r.alive with
    | false => simp [ha] at h
    | true =>
      simp only [ha, Bool.not_true, Bool.false_eq_true, if_false] at h
      have hil : i < s.ov.subs.length := by
        rcases List.getElem?_eq_some_iff.mp hs with ⟨g, _⟩; exact g
      obtain ⟨g1, g2, rep, g3, g4⟩ := hi.base.subs i r hs ha
      have hph := hi.phase i r hs ha
      have hne := hi.base.no_empty
      have hcases := tryRecv_cases s.ov.B s.ov.log (!s.ov.alive) r.next g2
      have hput : ∀ (r' : Sub α) (p : Phase α), (s.put i r' p).ov.subs[i]? = some r' ∧ (s.put i r' p).ph i = p ∧
          (s.put i r' p).ov.vals = s.ov.vals ∧ (s.put i r' p).ov.log = s.ov.log := by
        intro r' p; simp [SOV.put, updPh, hil]
      cases hp : s.ph i with
      | idle =>
        simp only [hp] at h
        cases hr : r.rest with
        | cons d ds =>
          simp only [hr] at h
          simp at h; obtain ⟨-, rfl, rfl⟩ := h
          simp only [owed, hr] at g4
          obtain ⟨mid, e1, e2⟩ := applyAll_split [d] _ rep _ (by simpa using g4)
          have hb : r.batched = false := by
            cases hb : r.batched with
            | false => rfl
            | true => have := g1 hb; simp [hr] at this
          refine ⟨r, _, rfl, ha, (hput _ _).1, (hput _ _).2.1, (hput _ _).2.2.1, (hput _ _).2.2.2, Or.inr (Or.inr (Or.inl ⟨d, rep, mid, rfl, rfl, hb, g3, e1, by simp [g3, e1]⟩))⟩
        | nil =>
          simp only [hr] at h
          simp only [owed, hr, List.nil_append] at g4
          rcases hcases with ⟨m, ht, hm, hlt, hnl⟩ | ⟨ht, hl⟩ | ⟨ht, hc, hn⟩ | ⟨ht, hc, hn⟩
          · rw [ht] at h
            obtain ⟨mid, e1, e2⟩ := adv_ok _ rep _ r.next m hm g4
            cases hb : r.batched with
            | true => simp [hb] at h
            | false =>
              simp only [hb, Bool.false_eq_true, if_false] at h
              cases hmd : m.diffs with
              | nil => exact absurd hmd (hne m (List.mem_of_getElem? hm))
              | cons d ds =>
                simp [hmd] at h; obtain ⟨-, rfl, rfl⟩ := h
                rw [hmd] at e1
                obtain ⟨mid1, e3, e4⟩ := applyAll_split [d] ds rep mid (by simpa using e1)
                refine ⟨r, _, rfl, ha, (hput _ _).1, (hput _ _).2.1, (hput _ _).2.2.1, (hput _ _).2.2.2, Or.inr (Or.inr (Or.inl ⟨d, rep, mid1, rfl, rfl, hb, g3, e3, by simp [g3, e3]⟩))⟩
          · rw [ht] at h; simp at h
          · rw [ht] at h
            simp at h; obtain ⟨-, rfl, rfl⟩ := h
            have hv : rep = s.ov.vals := by
              rw [hn] at g4; simpa using g4
            refine ⟨r, _, rfl, ha, (hput _ _).1, (hput _ _).2.1, (hput _ _).2.2.1, (hput _ _).2.2.2, Or.inl ⟨rfl, rfl, by rw [g3, hv], rfl, rfl⟩⟩
          · rw [ht] at h
            simp at h; obtain ⟨-, rfl, rfl⟩ := h
            have hv : rep = s.ov.vals := by
              rw [hn] at g4; simpa using g4
            refine ⟨r, _, rfl, ha, (hput _ _).1, (hput _ _).2.1, (hput _ _).2.2.1, (hput _ _).2.2.2, Or.inr (Or.inl ⟨rfl, rfl, by simpa using hc, by rw [g3, hv], rfl⟩)⟩
      | drain acc shown =>
        simp only [hp] at h hph
        obtain ⟨hb, hacc, ⟨sh, rep0, hsh, hrep0, happ⟩, hwhole⟩ := hph
        rcases hcases with ⟨m, ht, hm, hlt, hnl⟩ | ⟨ht, hl⟩ | ⟨ht, hc, hn⟩ | ⟨ht, hc, hn⟩
        · rw [ht] at h; simp at h
        · rw [ht] at h; simp at h
        · rw [ht] at h
          simp at h; obtain ⟨-, rfl, rfl⟩ := h
          refine ⟨r, _, rfl, ha, (hput _ _).1, (hput _ _).2.1, (hput _ _).2.2.1, (hput _ _).2.2.2, Or.inr (Or.inr (Or.inr (Or.inl ⟨acc, shown, sh, rep0, rfl, rfl, hacc, hsh, happ, hrep0, hwhole⟩)))⟩
        · rw [ht] at h
          simp at h; obtain ⟨-, rfl, rfl⟩ := h
          refine ⟨r, _, rfl, ha, (hput _ _).1, (hput _ _).2.1, (hput _ _).2.2.1, (hput _ _).2.2.2, Or.inr (Or.inr (Or.inr (Or.inl ⟨acc, shown, sh, rep0, rfl, rfl, hacc, hsh, happ, hrep0, hwhole⟩)))⟩
      | lag msg =>
        simp only [hp] at h hph
        have hr : r.rest = [] := by cases msg <;> exact hph.1
        rcases hcases with ⟨m, ht, hm, hlt, hnl⟩ | ⟨ht, hl⟩ | ⟨ht, hc, hn⟩ | ⟨ht, hc, hn⟩
        · rw [ht] at h; simp at h
        · rw [ht] at h; simp at h
        · rw [ht] at h
          cases msg with
          | none => exact absurd hph.2 (by omega)
          | some m0 =>
            simp at h; obtain ⟨-, rfl, rfl⟩ := h
            have hv : m0.state = s.ov.vals := hph.2 hn
            refine ⟨r, _, rfl, ha, (hput _ _).1, (hput _ _).2.1, (hput _ _).2.2.1, (hput _ _).2.2.2, Or.inr (Or.inr (Or.inr (Or.inr ⟨m0, rfl, ?_, hv, ?_, hn, hr⟩)))⟩
            · cases r.batched <;> simp
            · simp [g3, applyAll, Diff.applicable, Diff.apply, hv]
        · rw [ht] at h
          cases msg with
          | none => exact absurd hph.2 (by omega)
          | some m0 =>
            simp at h; obtain ⟨-, rfl, rfl⟩ := h
            have hv : m0.state = s.ov.vals := hph.2 hn
            refine ⟨r, _, rfl, ha, (hput _ _).1, (hput _ _).2.1, (hput _ _).2.2.1, (hput _ _).2.2.2, Or.inr (Or.inr (Or.inr (Or.inr ⟨m0, rfl, ?_, hv, ?_, hn, hr⟩)))⟩
            · cases r.batched <;> simp
            · simp [g3, applyAll, Diff.applicable, Diff.apply, hv]


/-- **C05, any interleaving: the `unreachable!`s of subscriber.rs are unreachable** — also the one in `handle_lag`
    ("got no new message via try_recv after lag"), whatever the writer does between the receive operations. -/
theorem c05s_never_panics {α} {s s' : SOV α} (hr : SReach s) (i : Nat) (k : RK) :
    s.micro i ≠ some (k, some .panic, s') := by
  intro h
  obtain ⟨r, r', _, _, _, _, _, _, hc⟩ := micro_return s s' i k .panic (sreach_inv hr) h
  rcases hc with ⟨h1, _⟩ | ⟨h1, _⟩ | ⟨d, sh, sh', h1, _⟩ | ⟨acc, shown, sh, sh', h1, _⟩ | ⟨m, _, h1, _⟩
  · cases h1
  · cases h1
  · cases h1
  · cases h1
  · rcases h1 with h1 | h1 <;> cases h1

/-- **C05, any interleaving: what is handed out is strictly applicable to what the consumer has**, and leaves the
    consumer with the replica the invariant speaks about (`replica + owed = contents`, `sinv_run`). -/
theorem c05s_delivered_applicable {α} {s s' : SOV α} (hr : SReach s) (i : Nat) (k : RK) (it : Item α)
    (h : s.micro i = some (k, some it, s')) :
    ∃ r r', s.ov.subs[i]? = some r ∧ s'.ov.subs[i]? = some r' ∧
      ((∀ d, it = .one d → ∃ sh sh', applyAll [d] sh = some sh' ∧ r'.replica = some sh' ∧
          (s.ph i = .idle → r.replica = some sh)) ∧
       (∀ ds, it = .batch ds → ds ≠ [] ∧ ∃ sh sh', applyAll ds sh = some sh' ∧ r'.replica = some sh' ∧
          (∀ acc shown, s.ph i = .drain acc shown → shown = some sh))) := by
  obtain ⟨r, r', h1, _, h2, _, _, _, hc⟩ := micro_return s s' i k it (sreach_inv hr) h
  refine ⟨r, r', h1, h2, ?_, ?_⟩
  · intro d hd
    rcases hc with ⟨e, _⟩ | ⟨e, _⟩ | ⟨d', sh, sh', e, _, _, g1, g2, g3⟩ | ⟨acc, shown, sh, sh', e, _⟩ | ⟨m, hp, e, hv, g1, _⟩
    · rw [hd] at e; cases e
    · rw [hd] at e; cases e
    · rw [hd] at e; cases e; exact ⟨sh, sh', g2, g3, fun _ => g1⟩
    · rw [hd] at e; cases e
    · rcases e with e | e
      · rw [hd] at e; cases e
        exact ⟨[], m.state, by simp [applyAll, Diff.applicable, Diff.apply], by rw [g1, hv], by intro hi; rw [hp] at hi; cases hi⟩
      · rw [hd] at e; cases e
  · intro ds hd
    rcases hc with ⟨e, _⟩ | ⟨e, _⟩ | ⟨d', sh, sh', e, _⟩ | ⟨acc, shown, sh, sh', e, hp, hne, g1, g2, g3⟩ | ⟨m, hp, e, hv, g1, _⟩
    · rw [hd] at e; cases e
    · rw [hd] at e; cases e
    · rw [hd] at e; cases e
    · rw [hd] at e; cases e
      refine ⟨hne, sh, sh', g2, g3.1, ?_⟩
      intro acc' shown' hp'
      rw [hp] at hp'; cases hp'; exact g1
    · rcases e with e | e
      · rw [hd] at e; cases e
      · rw [hd] at e; cases e
        refine ⟨by simp, [], m.state, by simp [applyAll, Diff.applicable, Diff.apply], by rw [g1, hv], ?_⟩
        intro acc shown hp'; rw [hp] at hp'; cases hp'

/-- **C06, any interleaving: a receiver that lagged is handed `Reset(contents current when poll_next returns)`** —
    whatever was published while `handle_lag` was draining — alone in its batch, and is in sync afterwards. -/
theorem c06s_reset_current {α} {s s' : SOV α} (hr : SReach s) (i : Nat) (k : RK) (it : Item α) (msg : Option (Msg α))
    (hp : s.ph i = .lag msg) (h : s.micro i = some (k, some it, s')) :
    (it = .one (.reset s'.ov.vals) ∨ it = .batch [.reset s'.ov.vals]) ∧
    ∃ r', s'.ov.subs[i]? = some r' ∧ r'.replica = some s'.ov.vals ∧ r'.next = s'.ov.log.length ∧ r'.rest = [] := by
  obtain ⟨r, r', h1, ha, h2, _, hv, hl, hc⟩ := micro_return s s' i k it (sreach_inv hr) h
  rcases hc with ⟨_, e, _⟩ | ⟨_, e, _⟩ | ⟨d, sh, sh', _, e, _⟩ | ⟨acc, shown, sh, sh', _, e, _⟩ | ⟨m, _, e, hm, g1, g2, g3⟩
  · rw [hp] at e; cases e
  · rw [hp] at e; cases e
  · rw [hp] at e; cases e
  · rw [hp] at e; cases e
  · refine ⟨by rw [hv, ← hm]; exact e, r', h2, by rw [hv]; exact g1, by rw [hl]; exact g2, g3⟩

/-- **C06, any interleaving: `Pending` only to a receiver in sync** (its replica equals the contents). -/
theorem c06s_pending_synced {α} {s s' : SOV α} (hr : SReach s) (i : Nat) (k : RK) (h : s.micro i = some (k, some .pending, s')) :
    ∃ r', s'.ov.subs[i]? = some r' ∧ r'.replica = some s'.ov.vals ∧ r'.waiting = true := by
  obtain ⟨r, r', h1, ha, h2, _, hv, hl, hc⟩ := micro_return s s' i k .pending (sreach_inv hr) h
  rcases hc with ⟨_, _, g1, g2, g3⟩ | ⟨e, _⟩ | ⟨d, sh, sh', e, _⟩ | ⟨acc, shown, sh, sh', e, _⟩ | ⟨m, _, e, _⟩
  · exact ⟨r', h2, by rw [g2, g1, hv], g3⟩
  · cases e
  · cases e
  · cases e
  · rcases e with e | e <;> cases e

/-- **C08, any interleaving: the stream ends only after the vector was dropped, and on its final contents.** -/
theorem c08s_end_final {α} {s s' : SOV α} (hr : SReach s) (i : Nat) (k : RK) (h : s.micro i = some (k, some .done, s')) :
    s'.ov.alive = false ∧ ∃ r', s'.ov.subs[i]? = some r' ∧ r'.replica = some s'.ov.vals := by
  have hal : s'.ov.alive = s.ov.alive := by
    unfold SOV.micro at h
    cases hs : s.ov.subs[i]? with
    | none => simp [hs] at h
    | some r =>
      simp only [hs] at h
      split at h
      · cases h
      · repeat' split at h
        all_goals first | (cases h; rfl) | (cases h)
  obtain ⟨r, r', h1, ha, h2, _, hv, hl, hc⟩ := micro_return s s' i k .done (sreach_inv hr) h
  rcases hc with ⟨e, _⟩ | ⟨_, _, g0, g1, g2⟩ | ⟨d, sh, sh', e, _⟩ | ⟨acc, shown, sh, sh', e, _⟩ | ⟨m, _, e, _⟩
  · cases e
  · exact ⟨by rw [hal]; exact g0, r', h2, by rw [g2, g1, hv]⟩
  · cases e
  · cases e
  · rcases e with e | e <;> cases e


/-- **C07 / C13, any interleaving: a batch consists of whole messages.** Whatever the writer does between the receive
    operations of a `poll_next`, the batch a batched subscriber is handed is exactly the concatenation of the diffs of
    consecutive log messages — and a committed transaction is ONE message (`c07_commit`) — so no state in the middle of
    a transaction is ever observable, also from another thread. (A lagged receiver gets a lone `Reset` instead.) -/
theorem c13s_batch_whole_messages {α} {s s' : SOV α} (hr : SReach s) (i : Nat) (k : RK) (ds : List (Diff α))
    (h : s.micro i = some (k, some (.batch ds), s')) :
    (∃ a b, a ≤ b ∧ b ≤ s.ov.log.length ∧ ds = ((s.ov.log.drop a).take (b - a)).flatMap (·.diffs)) ∨
    ds = [.reset s'.ov.vals] := by
  have hi := sreach_inv hr
  obtain ⟨r, r', h1, ha, h2, _, hv, hl, hc⟩ := micro_return s s' i k (.batch ds) hi h
  have hn := (hi.base.subs i r h1 ha).2.1
  rcases hc with ⟨e, _⟩ | ⟨e, _⟩ | ⟨d, sh, sh', e, _⟩ | ⟨acc, shown, sh, sh', e, _, _, _, _, _, a, haa, hw⟩ | ⟨m, _, e, hm, _⟩
  · cases e
  · cases e
  · cases e
  · cases e
    exact Or.inl ⟨a, r.next, haa, hn, hw⟩
  · rcases e with e | e
    · cases e
    · cases e
      right; rw [hv, ← hm]

/-- receiver `i`'s `poll_next` run to its return with nothing happening in between (fuel = receive operations allowed) -/
def SOV.pollRun {α} (s : SOV α) (i : Nat) : Nat → Option (Item α × SOV α)
  | 0 => none
  | f + 1 =>
    match s.micro i with
    | none => none
    | some (_, some it, s') => some (it, s')
    | some (_, none, s') => s'.pollRun i f

/-- **Progress of one receive operation**: it either makes `poll_next` return, or moves the cursor strictly forward
    (an `Ok` by one message, a `Lagged` to the oldest retained one) — log and contents untouched. -/
theorem micro_progress {α} (s : SOV α) (i : Nat) (r : Sub α) (hs : s.ov.subs[i]? = some r) (ha : r.alive = true)
    (hn : r.next ≤ s.ov.log.length) :
    ∃ k it s', s.micro i = some (k, it, s') ∧ s'.ov.log = s.ov.log ∧
      (it = none → ∃ r', s'.ov.subs[i]? = some r' ∧ r'.alive = true ∧ r.next < r'.next ∧ r'.next ≤ s.ov.log.length) := by
  have hil : i < s.ov.subs.length := by
    rcases List.getElem?_eq_some_iff.mp hs with ⟨g, _⟩; exact g
  have hput : ∀ (r' : Sub α) (p : Phase α), (s.put i r' p).ov.subs[i]? = some r' ∧ (s.put i r' p).ov.log = s.ov.log := by
    intro r' p; simp [SOV.put, hil]
  unfold SOV.micro
  simp only [hs, ha, Bool.not_true, Bool.false_eq_true, if_false]
  rcases tryRecv_cases s.ov.B s.ov.log (!s.ov.alive) r.next hn with ⟨m, ht, hm, hlt, hnl⟩ | ⟨ht, hl⟩ | ⟨ht, hc, hne⟩ | ⟨ht, hc, hne⟩
  all_goals (cases hp : s.ph i with
    | idle =>
      simp only []
      cases hr : r.rest with
      | cons d ds =>
        refine ⟨_, _, _, rfl, (hput _ _).2, ?_⟩
        intro h; cases h
      | nil =>
        simp only [ht]
        first
        | (refine ⟨_, _, _, rfl, (hput _ _).2, ?_⟩
           first
           | (intro h; cases h; done)
           | (intro _; exact ⟨_, (hput _ _).1, by first | rfl | exact ha, by simp <;> omega, by simp <;> omega⟩))
        | (cases hb : r.batched with
           | true =>
             simp only [if_true]
             refine ⟨_, _, _, rfl, (hput _ _).2, ?_⟩
             intro _; exact ⟨_, (hput _ _).1, by first | rfl | exact ha, by simp, by simp; omega⟩
           | false =>
             simp only [Bool.false_eq_true, if_false]
             cases hmd : m.diffs with
             | nil => refine ⟨_, _, _, rfl, (hput _ _).2, ?_⟩; intro h; cases h
             | cons d ds => refine ⟨_, _, _, rfl, (hput _ _).2, ?_⟩; intro h; cases h)
    | drain acc shown =>
      simp only [ht]
      refine ⟨_, _, _, rfl, (hput _ _).2, ?_⟩
      first
      | (intro h; cases h; done)
      | (intro _; exact ⟨_, (hput _ _).1, by first | rfl | exact ha, by simp <;> omega, by simp <;> omega⟩)
    | lag msg =>
      simp only [ht]
      first
      | (refine ⟨_, _, _, rfl, (hput _ _).2, ?_⟩
         first
         | (intro h; cases h; done)
         | (intro _; exact ⟨_, (hput _ _).1, by first | rfl | exact ha, by simp <;> omega, by simp <;> omega⟩))
      | (cases msg <;> (refine ⟨_, _, _, rfl, (hput _ _).2, ?_⟩; intro h; cases h)))

/-- **Every `poll_next` returns**: with nothing new being published it takes at most one receive operation per pending
    message plus one — the drain loop and `handle_lag` cannot spin (the "Lagged twice in a row" arm of `handle_lag`
    moves the cursor forward each time, so it too is left after finitely many rounds once the writer pauses). -/
theorem poll_terminates {α} (n : Nat) : ∀ (s : SOV α) (i : Nat) (r : Sub α), s.ov.subs[i]? = some r → r.alive = true →
    r.next ≤ s.ov.log.length → s.ov.log.length - r.next ≤ n → ∃ it s', s.pollRun i (n + 1) = some (it, s') := by
  induction n with
  | zero =>
    intro s i r hs ha hn hm
    obtain ⟨k, it, s', h1, h2, h3⟩ := micro_progress s i r hs ha hn
    cases it with
    | some it => exact ⟨it, s', by simp [SOV.pollRun, h1]⟩
    | none =>
      obtain ⟨r', _, _, g1, g2⟩ := h3 rfl
      omega
  | succ n ih =>
    intro s i r hs ha hn hm
    obtain ⟨k, it, s', h1, h2, h3⟩ := micro_progress s i r hs ha hn
    cases it with
    | some it => exact ⟨it, s', by simp [SOV.pollRun, h1]⟩
    | none =>
      obtain ⟨r', e1, e2, g1, g2⟩ := h3 rfl
      obtain ⟨it, s'', hrun⟩ := ih s' i r' e1 e2 (by rw [h2]; exact g2) (by rw [h2]; omega)
      exact ⟨it, s'', by simp only [SOV.pollRun, h1]; exact hrun⟩

/-- the interleaved run of the witness below: capacity 1 (window 1), a batched receiver, one update queued; then the
    receive operations of ONE `poll_next` with three more updates in between -/
def witnessRun : SOV Nat :=
  ([.ev (.subscribe true), .ev (.direct (.pushBack 1)), .micro 0, .ev (.direct (.pushBack 2)), .ev (.direct (.pushBack 3)),
    .micro 0, .micro 0, .ev (.direct (.pushBack 4)), .micro 0] : List (SEv Nat)).foldl SOV.step (SOV.init 1)

/-- non-vacuity: `Ok` (drain starts), two updates, `Lagged` (inside the drain loop), `Ok`, another update, `Ok`, and the final
    `Empty` hands out `Reset` of the contents current at that moment — a reachable state in which the lag phase returns -/
example : (witnessRun.micro 0).map (fun r => (r.1, r.2.1)) = some (RK.empty, some (.batch [.reset [1, 2, 3, 4]])) := by decide

example : SReach witnessRun := ⟨1, _, by decide, rfl⟩

end EV
