/-
  C05 — replaying a subscriber's diffs reproduces each vector state, step by step.
-/
import EyeballVerif.Model.OVec
namespace EV

/-- C05 (per call): the diff a call hands to `broadcast_diff`, replayed strictly on the contents before
    the call, gives the contents after it; a call records no diff only if it changed nothing. -/
theorem c05_exec_faithful {α} (op : VOp α) (l : List α) (r : OpRes α) (h : op.exec l = some r) :
    applyAll r.diff.toList l = some r.vals ∧ (r.diff = none → r.vals = l) ∧
    (∀ d, r.diff = some d → d.validOn l = true) := by
  cases op with
  | append vs => simp [VOp.exec] at h; subst h; simp [applyAll, Diff.apply, Diff.applicable, Diff.validOn]
  | clear =>
    simp only [VOp.exec] at h; split at h <;> simp at h <;> subst h <;>
      simp [applyAll, Diff.apply, Diff.applicable, Diff.validOn]
  | pushFront v => simp [VOp.exec] at h; subst h; simp [applyAll, Diff.apply, Diff.applicable, Diff.validOn]
  | pushBack v => simp [VOp.exec] at h; subst h; simp [applyAll, Diff.apply, Diff.applicable, Diff.validOn]
  | popFront =>
    cases l <;> simp [VOp.exec] at h <;> subst h <;> simp [applyAll, Diff.apply, Diff.applicable, Diff.validOn]
  | popBack =>
    simp only [VOp.exec] at h
    cases hl : l.getLast? with
    | none => simp [hl] at h; subst h; simp [applyAll]
    | some x =>
      simp [hl] at h; subst h
      have : l ≠ [] := by intro e; simp [e] at hl
      simp [applyAll, Diff.apply, Diff.applicable, Diff.validOn, this]
  | insert i v =>
    simp only [VOp.exec] at h; split at h <;> simp at h; subst h
    simp [applyAll, Diff.apply, Diff.applicable, Diff.validOn, *]
  | set i v =>
    simp only [VOp.exec] at h
    cases hi : l[i]? with
    | none => simp [hi] at h
    | some old =>
      simp [hi] at h; subst h
      have : i < l.length := by
        rcases List.getElem?_eq_some_iff.mp hi with ⟨h1, _⟩; exact h1
      simp [applyAll, Diff.apply, Diff.applicable, Diff.validOn, this]
  | remove i =>
    simp only [VOp.exec] at h
    cases hi : l[i]? with
    | none => simp [hi] at h
    | some old =>
      simp [hi] at h; subst h
      have : i < l.length := by
        rcases List.getElem?_eq_some_iff.mp hi with ⟨h1, _⟩; exact h1
      simp [applyAll, Diff.apply, Diff.applicable, Diff.validOn, this]
  | truncate n =>
    simp only [VOp.exec] at h; split at h <;> simp at h <;> subst h <;>
      simp [applyAll, Diff.apply, Diff.applicable, Diff.validOn, *]

end EV
