/-
  The poll loop of the UNBATCHED flavour with Sort stages (static chains of any kinds, Sort / SortBy / SortByKey included)
  over a source that has never truncated — the `Truncate` arm of Sort is the known finding D4.
-/
import EyeballVerif.Props.PipeSoundU
import EyeballVerif.Props.PipeSoundSort
namespace EV

theorem ready_setReady' {α} (st : Stage α) (r : List (Diff α)) (hf : ∀ f s, st ≠ .filter f s) : (st.setReady r).ready = r := by
  cases st <;> simp_all [Stage.setReady, Stage.ready]

theorem poll_log {α} (s s' : OV α) (i : Nat) (it : Item α) (h : s.poll i = some (it, s')) : s'.log = s.log := by
  obtain ⟨r, _, _, _, hs'⟩ := poll_unfold s s' i it h
  rw [hs']

/-- `ShownTop` with the additional fact that nothing buffered in a stage is a `Truncate` -/
def ShownTopNT {α} (T : Tables α) : List (Stage α) → List α → List α → Prop
  | [], rep, top => top = rep
  | st :: inner, rep, top => ∃ mid, ShownTopNT T inner rep mid ∧ st.Inv T mid ∧ ValidSeq st.ready top ∧
      applyAll st.ready top = some (st.viewOn T mid) ∧ NoTrunc st.ready

/-- **the poll-loop theorem for the unbatched flavour with Sort stages**: static chains of ANY stage kinds and depth over
    a source that has never truncated; every poll hands out one diff — never a `Truncate` — that is valid on what the
    consumer has been shown so far, and the diffs still buffered in the stages lead to the stages' true views -/
theorem pipe_poll_sound_unt {α} (T : Tables α) (sub : Nat) :
    ∀ (fuel : Nat) (sts : List (Stage α)) (w : PWorld α) (r : Sub α) (rep top : List α),
      VInv w.ov → TInv w.ov → RestIn w.ov → NoTruncLog w.ov → (∀ st ∈ sts, st.limOf = none) →
      w.ov.subs[sub]? = some r → r.alive = true → r.batched = false → r.replica = some rep → ShownTopNT T sts rep top →
      (pollStages T false sub fuel sts w).1 = .panic ∨
      (VInv (pollStages T false sub fuel sts w).2.2.ov ∧ TInv (pollStages T false sub fuel sts w).2.2.ov ∧
       RestIn (pollStages T false sub fuel sts w).2.2.ov ∧ NoTruncLog (pollStages T false sub fuel sts w).2.2.ov ∧
       (∀ st ∈ (pollStages T false sub fuel sts w).2.1, st.limOf = none) ∧
       ∃ r' rep' top', (pollStages T false sub fuel sts w).2.2.ov.subs[sub]? = some r' ∧ r'.alive = true ∧ r'.batched = false ∧
         r'.replica = some rep' ∧ ShownTopNT T (pollStages T false sub fuel sts w).2.1 rep' top' ∧
         match (pollStages T false sub fuel sts w).1 with
         | .one d => d.validOn top = true ∧ d.apply top = some top' ∧ ∀ n, d ≠ .truncate n
         | .pending | .done => top' = top
         | _ => False) := by
  intro fuel
  induction fuel with
  | zero => intro sts w r rep top _ _ _ _ _ _ _ _ _ _; left; simp [pollStages]
  | succ n ih =>
    intro sts w r rep top hv ht hri hnl hst hr hal hnb hrep hsh
    cases sts with
    | nil =>
      have core := pipe_poll_sound_u T sub (n + 1) [] w r rep top hv ht (by intro st h; simp at h) hr hal hnb hrep hsh
      simp only [pollStages] at core ⊢
      cases hp : w.ov.poll sub with
      | none => left; rfl
      | some p =>
        obtain ⟨it, ov'⟩ := p
        simp only [hp] at core ⊢
        rcases core with h | ⟨h1, h2, _, r', rep', top', g1, g2, g3, g4, g5, g6⟩
        · left; exact h
        · right
          have hri' := restIn_poll w.ov ov' sub it hv hri hp
          have hnl' : NoTruncLog ov' := by intro m hm; rw [poll_log w.ov ov' sub it hp] at hm; exact hnl m hm
          refine ⟨h1, h2, hri', hnl', by intro st h; simp at h, r', rep', top', g1, g2, g3, g4, g5, ?_⟩
          cases it with
          | one d =>
            simp only at g6 ⊢
            have := poll_item_noTrunc w.ov ov' sub (.one d) hv hri hnl hp [d] rfl
            exact ⟨g6.1, g6.2, fun n => this d (by simp) n⟩
          | pending => exact g6
          | done => exact g6
          | batch ds => exact g6
          | panic => exact g6
    | cons st inner =>
      have hlim := hst st (List.mem_cons_self ..)
      have hinner : ∀ st' ∈ inner, st'.limOf = none := fun st' h => hst st' (List.mem_cons_of_mem _ h)
      obtain ⟨mid, hsm, hinv, hvr, har, hnr⟩ := hsh
      simp only [pollStages]
      cases hready : st.ready with
      | cons d rest =>
        -- hand out a buffered diff
        simp only
        right
        rw [hready] at hvr har hnr
        obtain ⟨a1, top1, a2, a3⟩ := hvr
        simp only [applyAll, validOn_applicable d top a1, if_true, a2, Option.bind_some] at har
        have hnf : ∀ f s, st ≠ .filter f s := by intro f s h; rw [filter_ready st f s h] at hready; cases hready
        refine ⟨hv, ht, hri, hnl, ?_, r, rep, top1, hr, hal, hnb, hrep,
          ⟨mid, hsm, (inv_setReady T st rest mid).mpr hinv, ?_, ?_, ?_⟩, a1, a2, fun n => hnr d (by simp) n⟩
        · intro st' hst'
          rcases List.mem_cons.mp hst' with rfl | h
          · exact (limOf_setReady st rest).trans hlim
          · exact hinner st' h
        · rw [ready_setReady' st rest hnf]; exact a3
        · rw [ready_setReady' st rest hnf, viewOn_setReady]; exact har
        · rw [ready_setReady' st rest hnf]; intro x hx; exact hnr x (by simp [hx])
      | nil =>
        simp only [hlim, limPoll]
        rw [hready] at har
        simp only [applyAll, Option.some.injEq] at har
        subst har
        have hIH := ih inner w r rep mid hv ht hri hnl hinner hr hal hnb hrep hsm
        generalize hcall : pollStages T false sub n inner w = res at hIH
        obtain ⟨it, inner', w2⟩ := res
        simp only at hIH ⊢
        rcases hIH with hpan | ⟨hva, hta, hria, hnla, hsta, r2, rep2, mid2, hr2, hal2, hnb2, hrep2, hsm2, hitem⟩
        · left; subst hpan; simp [itemDiffs]
        · cases it with
          | panic => exact absurd hitem (by simp)
          | batch ds0 => exact absurd hitem (by simp)
          | pending =>
            simp only at hitem; subst hitem
            right
            simp only [itemDiffs]
            refine ⟨hva, hta, hria, hnla, ?_, r2, rep2, _, hr2, hal2, hnb2, hrep2,
              ⟨mid2, hsm2, hinv, by rw [hready]; trivial, by rw [hready]; rfl, by rw [hready]; intro x hx; simp at hx⟩, rfl⟩
            intro st' hst'
            rcases List.mem_cons.mp hst' with rfl | h
            · exact hlim
            · exact hsta st' h
          | done =>
            simp only at hitem; subst hitem
            right
            simp only [itemDiffs]
            refine ⟨hva, hta, hria, hnla, ?_, r2, rep2, _, hr2, hal2, hnb2, hrep2,
              ⟨mid2, hsm2, hinv, by rw [hready]; trivial, by rw [hready]; rfl, by rw [hready]; intro x hx; simp at hx⟩, rfl⟩
            intro st' hst'
            rcases List.mem_cons.mp hst' with rfl | h
            · exact hlim
            · exact hsta st' h
          | one d0 =>
            simp only at hitem
            obtain ⟨b1, b2, b3⟩ := hitem
            simp only [itemDiffs]
            have hvs : ValidSeq [d0] mid := ⟨b1, mid2, b2, trivial⟩
            have hnt0 : NoTrunc [d0] := by intro x hx n; simp at hx; subst hx; exact b3 n
            obtain ⟨out, st2, below', g1, g2, g3, g4, g5, g6⟩ := stage_onDiffs_sound T st mid [d0] hinv hvs (fun _ => hnt0)
            have hb' : below' = mid2 := by
              simp only [applyAll, validOn_applicable d0 mid b1, if_true, b2, Option.bind_some, Option.some.injEq] at g2
              exact g2.symm
            subst hb'
            simp only [g1]
            have hnto : NoTrunc out := onDiffs_noTrunc T st st2 [d0] out hnt0 g1
            have hst2 : st2.limOf = none := (limOf_onDiffs T st st2 [d0] out g1).trans hlim
            have hready2 : st2.ready = [] := (ready_onDiffs T st st2 [d0] out g1).trans hready
            have hall2 : ∀ st' ∈ st2 :: inner', st'.limOf = none := by
              intro st' hst'
              rcases List.mem_cons.mp hst' with rfl | h
              · exact hst2
              · exact hsta st' h
            cases out with
            | nil =>
              simp only [emit]
              simp [applyAll] at g4
              have hsh3 : ShownTopNT T (st2 :: inner') rep2 (st.viewOn T mid) :=
                ⟨below', hsm2, g3, by rw [hready2]; trivial, by rw [hready2, g4]; rfl, by rw [hready2]; intro x hx; simp at hx⟩
              exact ih (st2 :: inner') w2 r2 rep2 (st.viewOn T mid) hva hta hria hnla hall2 hr2 hal2 hnb2 hrep2 hsh3
            | cons d rest =>
              simp only [emit, Bool.false_eq_true, if_false]
              right
              obtain ⟨c1, top1, c2, c3⟩ := g5
              simp only [applyAll, validOn_applicable d _ c1, if_true, c2, Option.bind_some] at g4
              have hrest : (st2.setReady rest).ready = rest := by
                by_cases hf : ∃ f s, st = .filter f s
                · obtain ⟨f, s, rfl⟩ := hf
                  obtain ⟨hl, fs2, rfl⟩ := filter_onDiffs_single T f s d0 (d :: rest) st2 g1
                  have : rest = [] := by cases rest <;> simp_all
                  subst this; rfl
                · have hnf2 : ∀ f s, st2 ≠ .filter f s := by
                    intro f s h2
                    cases st <;> simp only [Stage.onDiffs, Option.map_eq_some_iff] at g1
                    all_goals first
                      | (obtain ⟨⟨x, y⟩, _, e⟩ := g1; cases e; cases h2)
                      | (exact hf ⟨_, _, rfl⟩)
                  exact ready_setReady' st2 rest hnf2
              refine ⟨hva, hta, hria, hnla, ?_, r2, rep2, top1, hr2, hal2, hnb2, hrep2,
                ⟨below', hsm2, (inv_setReady T st2 rest below').mpr g3, ?_, ?_, ?_⟩, c1, c2, fun n => hnto d (by simp) n⟩
              · intro st' hst'
                rcases List.mem_cons.mp hst' with rfl | h
                · exact (limOf_setReady st2 rest).trans hst2
                · exact hsta st' h
              · rw [hrest]; exact c3
              · rw [hrest, viewOn_setReady]; exact g4
              · rw [hrest]; intro x hx; exact hnto x (by simp [hx])


/-- static constructors (any kind, Sort included) -/
def StageSpec.isStatic : StageSpec → Bool
  | .head _ | .tail _ | .skip _ | .filter _ | .sort _ => true
  | _ => false

theorem mkStage_static_any {α} (T : Tables α) (vals : List α) (sp : StageSpec) (h : sp.isStatic = true) :
    (mkStage T vals sp).1.ready = [] ∧ (mkStage T vals sp).1.limOf = none := by
  cases sp <;> simp [StageSpec.isStatic] at h <;> simp [mkStage, Stage.ready, Stage.limOf, Filter.init, Srt.init]

/-- the invariant of the unbatched pipeline with Sort stages holds from construction on (lawful comparators and sort
    functions) -/
theorem shownTopNT_initial {α} (T : Tables α) (hT : ∀ cid, LawfulCmp (T.cmp cid) ∧ SortSpec (T.cmp cid) (T.sort cid))
    (vals : List α) (specs : List StageSpec) (h : ∀ sp ∈ specs, sp.isStatic = true) :
    ShownTopNT T (mkPipe T vals specs).1 vals (mkPipe T vals specs).2 ∧ ∀ st ∈ (mkPipe T vals specs).1, st.limOf = none := by
  unfold mkPipe
  have key : ∀ (specs : List StageSpec) (acc : List (Stage α)) (v : List α), (∀ sp ∈ specs, sp.isStatic = true) →
      ShownTopNT T acc vals v → (∀ st ∈ acc, st.limOf = none) →
      let r := specs.foldl (fun (acc : List (Stage α) × List α) sp =>
        let (st, v) := mkStage T acc.2 sp
        (st :: acc.1, v)) (acc, v)
      ShownTopNT T r.1 vals r.2 ∧ ∀ st ∈ r.1, st.limOf = none := by
    intro specs
    induction specs with
    | nil => intro acc v _ h1 h2; exact ⟨h1, h2⟩
    | cons sp rest ih =>
      intro acc v hs h1 h2
      simp only [List.foldl_cons]
      obtain ⟨gr, gl⟩ := mkStage_static_any T v sp (hs sp (List.mem_cons_self ..))
      obtain ⟨g1, g2⟩ := mkStage_inv T hT v sp
      apply ih _ _ (fun sp' h' => hs sp' (List.mem_cons_of_mem _ h'))
      · exact ⟨v, h1, g1, by rw [gr]; trivial, by rw [gr, ← g2]; rfl, by rw [gr]; intro x hx; simp at hx⟩
      · intro st hst
        rcases List.mem_cons.mp hst with rfl | h'
        · exact gl
        · exact h2 st h'
  exact key specs [] vals h rfl (by intro st hst; simp at hst)

end EV
