/-
  C11 — Sort, SortBy and SortByKey present a sorted permutation of the source.

  The invariant `SInv` says the adapter's buffered vector is the source, tagged with source positions and
  sorted. The `Truncate` arm of the current code violates the property (known finding D4): the full statement
  `sort_handle_full`, its kernel-checked refutation, and the theorems for what holds.
-/
import EyeballVerif.Lemmas.Bsearch
import EyeballVerif.Lemmas.AdapterBasics
namespace EV
open Srt

/-- ordered according to the comparison -/
def SortedBy {α} (cmp : α → α → Ordering) (l : List α) : Prop := l.Pairwise (fun a b => cmp a b ≠ .gt)

/-- the sorted buffer `buf` represents the source `src`: every source position occurs exactly once, tagged
    with the item at that position, and the items are in order -/
def SInv {α} (cmp : α → α → Ordering) (buf : List (Nat × α)) (src : List α) : Prop :=
  (buf.map (·.1)).Nodup ∧ buf.length = src.length ∧ (∀ p ∈ buf, src[p.1]? = some p.2) ∧
  SortedBy cmp (buf.map (·.2))

/-- full statement of the per-diff refinement, for `Ord` on naturals and a stable sort -/
def sort_handle_full : Prop :=
  ∀ (d : Diff Nat) (src src' : List Nat) (buf : List (Nat × Nat)),
    d.validOn src = true → d.apply src = some src' → SInv compare buf src →
    ∃ out buf', Srt.handle compare (stableSort compare) d buf = some (out, buf') ∧
      SInv compare buf' src' ∧ applyAll out (buf.map (·.2)) = some (buf'.map (·.2))

/-- **Known finding D4**: `Truncate` is forwarded to the sorted view. Source `[3,4,1]`, view `[1,3,4]`,
    `truncate(2)`: the source becomes `[3,4]`, the view `[1,3]`. -/
theorem sort_truncate_counterexample : ¬ sort_handle_full := by
  intro h
  have hinv : SInv compare [(2, 1), (0, 3), (1, 4)] [3, 4, 1] := by
    refine ⟨by decide, by decide, by decide, ?_⟩
    simp [SortedBy]; decide
  obtain ⟨out, buf', h1, _, h3⟩ := h (.truncate 2) [3, 4, 1] [3, 4] [(2, 1), (0, 3), (1, 4)] (by decide) (by decide) hinv
  simp [Srt.handle] at h1
  obtain ⟨rfl, rfl⟩ := h1
  revert h3; decide

/-- the three-way insertion (PushFront / Insert / PushBack arms) emits exactly the diff that turns the old
    sorted view into the new one -/
theorem sort_insertAt_emits {α} (buf : List (Nat × α)) (pos ui : Nat) (v : α) (hp : pos ≤ buf.length) :
    applyAll (insertAt buf pos ui v).1 (buf.map (·.2)) = some ((insertAt buf pos ui v).2.map (·.2)) ∧
    (insertAt buf pos ui v).2 = buf.take pos ++ (ui, v) :: buf.drop pos := by
  unfold insertAt
  by_cases h0 : pos = 0
  · subst h0; simp [applyAll, Diff.applicable, Diff.apply]
  · simp only [h0, if_false]
    by_cases h1 : pos ≠ buf.length
    · simp [h1, applyAll, Diff.applicable, Diff.apply, hp, List.map_take, List.map_drop]
    · have : pos = buf.length := by omega
      subst this
      simp [applyAll, Diff.applicable, Diff.apply]

/-- the three-way removal (PopFront / PopBack / Remove arms) likewise -/
theorem sort_removeAt_emits {α} (buf : List (Nat × α)) (pos : Nat) (hp : pos < buf.length) :
    applyAll (removeAt buf pos).1 (buf.map (·.2)) = some ((removeAt buf pos).2.map (·.2)) ∧
    (removeAt buf pos).2 = buf.eraseIdx pos := by
  unfold removeAt
  have hne : buf ≠ [] := by intro h; simp [h] at hp
  by_cases h0 : pos = 0
  · subst h0; simp [applyAll, Diff.applicable, Diff.apply, hne, List.map_tail]
  · simp only [h0, if_false]
    by_cases h1 : pos = buf.length - 1
    · subst h1
      simp [applyAll, Diff.applicable, Diff.apply, hne, List.map_dropLast]
    · simp [h1, applyAll, Diff.applicable, Diff.apply, hp, map_eraseIdx]

end EV
