/-
  C20 — every value given to the library is dropped exactly once, and nothing leaks (ownership ledger of the
  `eyeball` crate; the vector crates and the `unsafe` blocks are covered by the instrumented runs and Miri
  only — see DESIGN.md).
-/
import EyeballVerif.Model.Own
namespace EV

/-- every instance ever created (ids `0 .. next-1`) is in exactly one place, exactly once; nothing else exists -/
def LedgerOK (l : Ledger) : Prop :=
  ∀ x, l.held.count x + l.caller.count x + l.destroyed.count x = if x < l.next then 1 else 0

theorem ledger_init_ok : LedgerOK Ledger.init := by
  intro x
  simp only [Ledger.init, List.count_cons, List.count_nil]
  by_cases h : x = 0
  · subst h; simp
  · have : ¬ (0 == x) = true := by simpa using fun e => h e.symm
    simp [this]; omega

/-- **No instance is ever in two places, dropped twice, or lost**: the partition is preserved by every call. -/
theorem c20_ledger_step (l : Ledger) (op : OwnOp) (h : LedgerOK l) : LedgerOK (l.step op) := by
  intro x
  have hx := h x
  have hn := h l.next
  simp only [Nat.lt_irrefl, if_false] at hn
  cases op <;> simp only [Ledger.step, List.count_append, List.count_cons, List.count_nil, Nat.zero_add] <;>
    (by_cases hxe : x = l.next
     · subst hxe; simp at hn ⊢; omega
     · have hb : ¬ (l.next == x) = true := by simpa using fun e => hxe e.symm
       simp only [hb, if_false, Bool.false_eq_true] at *
       by_cases h1 : x < l.next <;> by_cases h2 : x < l.next + 1 <;> simp only [h1, h2, if_true, if_false] at hx ⊢ <;> omega)

theorem c20_ledger_run (ops : List OwnOp) : LedgerOK (ops.foldl Ledger.step Ledger.init) := by
  have key : ∀ (ops : List OwnOp) (l : Ledger), LedgerOK l → LedgerOK (ops.foldl Ledger.step l) := by
    intro ops
    induction ops with
    | nil => intro l h; exact h
    | cons op rest ih => intro l h; exact ih _ (c20_ledger_step l op h)
  exact key ops _ ledger_init_ok

/-- the library owns exactly one instance — the current value — until the state is destroyed, none afterwards -/
theorem c20_held_one (ops : List OwnOp) (ha : admissible ops = true) :
    ((ops.foldl Ledger.step Ledger.init).held.length = if ops.getLast? = some .dropState then 0 else 1) := by
  have key : ∀ (ops : List OwnOp) (l : Ledger), l.held.length = 1 → admissible ops = true →
      (ops.foldl Ledger.step l).held.length = if ops.getLast? = some .dropState then 0 else 1 := by
    intro ops
    induction ops with
    | nil => intro l hl _; simpa using hl
    | cons op rest ih =>
      intro l hl hadm
      by_cases hop : op = .dropState
      · subst hop
        simp [admissible] at hadm; subst hadm
        simp [Ledger.step]
      · have hadm' : admissible rest = true := by cases op <;> simp_all [admissible]
        have hl' : (l.step op).held.length = 1 := by cases op <;> simp_all [Ledger.step]
        have := ih _ hl' hadm'
        simp only [List.foldl_cons]
        rw [this]
        cases rest with
        | nil => cases op <;> simp_all
        | cons r rs => simp [List.getLast?_cons_cons]
  exact key ops Ledger.init (by simp [Ledger.init]) ha

/-- **All gone**: once the state has been destroyed, every instance ever created has either been destroyed by
    the library exactly once or handed to the caller exactly once — none is left with the library, none twice. -/
theorem c20_all_accounted (l : Ledger) (h : LedgerOK l) (hd : l.held = []) (x : Nat) (hx : x < l.next) :
    l.caller.count x + l.destroyed.count x = 1 := by
  have := h x
  simp [hd, hx] at this
  exact this

example : (([OwnOp.set, .cloneOut, .setSkipped, .take, .intoShared, .dropState].foldl Ledger.step Ledger.init)
    = { next := 5, held := [], caller := [0, 2, 1], destroyed := [3, 4] }) := by decide

/-- the hypothesis of `c20_held_one` is satisfiable by real histories (and not by every list) -/
example : admissible [OwnOp.set, .cloneOut, .take, .intoShared, .dropState] = true ∧
    admissible [OwnOp.set, .dropState, .cloneOut] = false ∧ admissible ([] : List OwnOp) = true := by decide

end EV
