/-
  The poll-loop theorem for static chains that contain Sort stages, over a source that never truncates; and that a
  container without Truncate leaves every stage without Truncate.
-/
import EyeballVerif.Props.PipeSound
namespace EV
open Srt

theorem head_noTrunc {α} (d : Diff α) (L pl : Nat) (b : List α) (h : ∀ n, d ≠ .truncate n) : NoTrunc (Head.handleDiff d L pl b) := by
  intro x hx n hn
  subst hn
  cases d <;> simp only [Head.handleDiff] at hx <;> (try (exact h _ rfl)) <;>
    (repeat' split at hx) <;> simp [getPush] at hx <;> (try (split at hx <;> simp at hx))

theorem skip_noTrunc {α} (d : Diff α) (c pl : Nat) (b : List α) (h : ∀ n, d ≠ .truncate n) : NoTrunc (Skip.handleDiff d c pl b) := by
  intro x hx n hn
  subst hn
  cases d <;> simp only [Skip.handleDiff] at hx <;> (try (exact h _ rfl)) <;>
    (repeat' split at hx) <;> simp [getPush] at hx <;> (try (split at hx <;> simp at hx))

theorem tail_noTrunc {α} (d : Diff α) (L pl : Nat) (b : List α) : NoTrunc (Tail.handleDiff d L pl b) := by
  intro x hx n hn
  subst hn
  cases d with
  | truncate m =>
    simp only [Tail.handleDiff] at hx
    split at hx
    · simp at hx
    · simp only [List.mem_append, List.mem_replicate, List.mem_map] at hx
      rcases hx with ⟨_, hx⟩ | ⟨a, _, hx⟩ <;> cases hx
  | _ =>
    simp only [Tail.handleDiff] at hx <;>
    (repeat' split at hx) <;> simp [getPush] at hx <;> (try (split at hx <;> simp at hx)) <;> (try (rcases hx with hx | hx <;> (try simp at hx) <;> (try (split at hx <;> simp at hx))))

theorem filter_noTrunc {α β} (f : α → Option β) (d : Diff α) (st : FilterSt) (h : ∀ n, d ≠ .truncate n) :
    NoTrunc (Filter.handle f d st).1.toList := by
  intro x hx n hn
  subst hn
  cases d <;> simp only [Filter.handle, Filter.appendFilter] at hx <;> (try (exact h _ rfl)) <;>
    (repeat' split at hx) <;> simp at hx

theorem mapDiffs_noTrunc {α} (h : Diff α → Nat → List α → List (Diff α))
    (hn : ∀ d pl b, (∀ n, d ≠ .truncate n) → NoTrunc (h d pl b)) :
    ∀ (ds : List (Diff α)) (buf : List α) (out : List (Diff α)) (buf' : List α) (out' : List (Diff α)),
      NoTrunc ds → NoTrunc out → mapDiffs h ds buf out = some (buf', out') → NoTrunc out' := by
  intro ds
  induction ds with
  | nil => intro buf out buf' out' _ ho hm; simp [mapDiffs] at hm; rw [← hm.2]; exact ho
  | cons d ds ih =>
    intro buf out buf' out' hnt ho hm
    simp only [mapDiffs] at hm
    cases hd : d.apply buf with
    | none => simp [hd] at hm
    | some b =>
      simp only [hd] at hm
      apply ih b _ buf' out' (fun x hx => hnt x (List.mem_cons_of_mem _ hx)) _ hm
      intro x hx n
      rcases List.mem_append.mp hx with hx | hx
      · exact ho x hx n
      · exact hn d _ _ (hnt d (List.mem_cons_self ..)) x hx n

/-- a container without `Truncate` comes out of any stage without `Truncate` -/
theorem onDiffs_noTrunc {α} (T : Tables α) (st st' : Stage α) (ds out : List (Diff α)) (hnt : NoTrunc ds)
    (h : st.onDiffs T ds = some (out, st')) : NoTrunc out := by
  cases st with
  | head l k buf r =>
    simp only [Stage.onDiffs, Option.map_eq_some_iff] at h
    obtain ⟨⟨b, o⟩, h1, h2⟩ := h; cases h2
    exact mapDiffs_noTrunc _ (fun d pl b h => head_noTrunc d l pl b h) ds buf [] b o hnt (by intro x hx; simp at hx) h1
  | tail l k buf r =>
    simp only [Stage.onDiffs, Option.map_eq_some_iff] at h
    obtain ⟨⟨b, o⟩, h1, h2⟩ := h; cases h2
    exact mapDiffs_noTrunc _ (fun d pl b _ => tail_noTrunc d l pl b) ds buf [] b o hnt (by intro x hx; simp at hx) h1
  | skip c k buf r =>
    simp only [Stage.onDiffs, Option.map_eq_some_iff] at h
    obtain ⟨⟨b, o⟩, h1, h2⟩ := h; cases h2
    cases c with
    | none => exact mapDiffs_noTrunc _ (fun d pl b _ => by intro x hx; simp at hx) ds buf [] b o hnt (by intro x hx; simp at hx) h1
    | some c => exact mapDiffs_noTrunc _ (fun d pl b h => skip_noTrunc d c pl b h) ds buf [] b o hnt (by intro x hx; simp at hx) h1
  | filter fid fst =>
    simp only [Stage.onDiffs] at h
    have key : ∀ (ds : List (Diff α)) (acc : List (Diff α)) (s0 : FilterSt), NoTrunc ds → NoTrunc acc →
        NoTrunc (ds.foldl (fun (acc : List (Diff α) × FilterSt) d =>
          let (o, s) := Filter.handle (T.filt fid) d acc.2
          (acc.1 ++ o.toList, s)) (acc, s0)).1 := by
      intro ds
      induction ds with
      | nil => intro acc s0 _ ha; exact ha
      | cons d ds ih =>
        intro acc s0 hd ha
        simp only [List.foldl_cons]
        apply ih _ _ (fun x hx => hd x (List.mem_cons_of_mem _ hx))
        intro x hx n
        rcases List.mem_append.mp hx with hx | hx
        · exact ha x hx n
        · exact filter_noTrunc (T.filt fid) d s0 (hd d (List.mem_cons_self ..)) x hx n
    have := key ds [] fst hnt (by intro x hx; simp at hx)
    simp only [Option.some.injEq, Prod.mk.injEq] at h
    rw [← h.1]; exact this
  | sort cid buf r =>
    simp only [Stage.onDiffs, Option.map_eq_some_iff] at h
    obtain ⟨⟨o, b⟩, h1, h2⟩ := h; cases h2
    have key : ∀ (ds : List (Diff α)) (acc : List (Diff α)) (b0 : List (Nat × α)) (o' : List (Diff α)) (b' : List (Nat × α)),
        NoTrunc ds → NoTrunc acc → sortDiffs (T.cmp cid) (T.sort cid) ds acc b0 = some (o', b') → NoTrunc o' := by
      intro ds
      induction ds with
      | nil => intro acc b0 o' b' _ ha hs; simp [sortDiffs] at hs; rw [← hs.1]; exact ha
      | cons d ds ih =>
        intro acc b0 o' b' hd ha hs
        simp only [sortDiffs] at hs
        cases hh : Srt.handle (T.cmp cid) (T.sort cid) d b0 with
        | none => simp [hh] at hs
        | some p =>
          obtain ⟨o1, b1⟩ := p
          simp only [hh] at hs
          apply ih _ _ o' b' (fun x hx => hd x (List.mem_cons_of_mem _ hx)) _ hs
          intro x hx n
          rcases List.mem_append.mp hx with hx | hx
          · exact ha x hx n
          · exact sort_noTrunc (T.cmp cid) (T.sort cid) d b0 o1 b1 (hd d (List.mem_cons_self ..)) hh x hx n
    exact key ds [] buf o b hnt (by intro x hx; simp at hx) h1


/-- the source has never truncated (no `Truncate` recorded in the channel) -/
def NoTruncLog {α} (s : OV α) : Prop := ∀ m ∈ s.log, NoTrunc m.diffs

/-- … then nothing a receiver is handed contains a `Truncate` -/
theorem poll_item_noTrunc {α} (s s' : OV α) (i : Nat) (it : Item α) (hv : VInv s) (hri : RestIn s) (hnl : NoTruncLog s)
    (h : s.poll i = some (it, s')) (ds : List (Diff α)) (hd : itemDiffs it = some ds) : NoTrunc ds := by
  obtain ⟨r, r', rep, h1, h2, h3, h4, _, hc⟩ := poll_cases s s' i it hv h
  have howed : ∀ d ∈ owed s.log r, ∀ n, d ≠ .truncate n := by
    intro d hdm n
    simp only [owed, List.mem_append, List.mem_flatMap] at hdm
    rcases hdm with hdm | ⟨m, hm, hdm⟩
    · obtain ⟨m, hm, hdm'⟩ := hri i r h1 d hdm
      exact hnl m hm d hdm' n
    · exact hnl m (List.mem_of_mem_drop hm) d hdm n
  rcases hc with ⟨hpd, _⟩ | ⟨ds', hds, _, ho⟩ | ⟨hres, _, _, _⟩
  · rcases hpd with ⟨rfl, _⟩ | ⟨rfl, _⟩ <;> simp [itemDiffs] at hd
  · have hds' : ds' = ds := by
      rcases hds with rfl | ⟨d, rfl, rfl⟩ <;> simp [itemDiffs] at hd <;> exact hd
    subst hds'
    intro d hdm n
    exact howed d (by rw [ho]; exact List.mem_append_left _ hdm) n
  · have hds' : ds = [.reset s.vals] := by
      rcases hres with rfl | rfl <;> simp [itemDiffs] at hd <;> exact hd.symm
    subst hds'
    intro d hdm n; simp at hdm; subst hdm; simp

/-- the pipeline invariant for static chains of *any* stage kinds, Sort included, over a source that never truncates -/
def PipeInvNT {α} (T : Tables α) (sub : Nat) (sts : List (Stage α)) (w : PWorld α) : Prop :=
  VInv w.ov ∧ TInv w.ov ∧ RestIn w.ov ∧ NoTruncLog w.ov ∧ (∀ st ∈ sts, st.ready = [] ∧ st.limOf = none) ∧
  ∃ r rep, w.ov.subs[sub]? = some r ∧ r.alive = true ∧ r.replica = some rep ∧ ChainInv T sts.reverse rep

/-- **the poll-loop theorem with Sort stages**: as `pipe_poll_sound`, for static chains of any kinds (Sort / SortBy /
    SortByKey included, each with a lawful comparator and sort function — part of `Stage.Inv`), over a source that
    has never truncated (the `Truncate` arm of Sort is the known finding D4) -/
theorem pipe_poll_sound_nt {α} (T : Tables α) (sub : Nat) :
    ∀ (fuel : Nat) (sts : List (Stage α)) (w : PWorld α), PipeInvNT T sub sts w →
      (pollStages T true sub fuel sts w).1 = .panic ∨
      (PipeInvNT T sub (pollStages T true sub fuel sts w).2.1 (pollStages T true sub fuel sts w).2.2 ∧
       ∃ v v', pipeView T sub sts w = some v ∧
         pipeView T sub (pollStages T true sub fuel sts w).2.1 (pollStages T true sub fuel sts w).2.2 = some v' ∧
         match itemDiffs (pollStages T true sub fuel sts w).1 with
         | some ds => ValidSeq ds v ∧ applyAll ds v = some v' ∧ NoTrunc ds
         | none => v' = v) := by
  intro fuel
  induction fuel with
  | zero => intro sts w _; left; simp [pollStages]
  | succ n ih =>
    intro sts w hinv
    obtain ⟨hv, ht, hri, hnl, hst, r, rep, hr, hal, hrep, hci⟩ := hinv
    cases sts with
    | nil =>
      simp only [pollStages]
      cases hp : w.ov.poll sub with
      | none => left; rfl
      | some p =>
        obtain ⟨it, ov'⟩ := p
        simp only
        by_cases hpan : it = .panic
        · left; exact hpan
        right
        have hv' := vinv_poll w.ov ov' sub it hv hp
        have ht' := tinv_poll w.ov ov' sub it hv ht hp
        have hri' := restIn_poll w.ov ov' sub it hv hri hp
        have hnl' : NoTruncLog ov' := by
          obtain ⟨_, _, _, _, hs'⟩ := poll_unfold w.ov ov' sub it hp
          rw [hs']; exact hnl
        cases hd : itemDiffs it with
        | some ds =>
          obtain ⟨r1, r', rep1, rep', g1, g2, g3, g4, g5, g6, g7⟩ := poll_item_valid w.ov ov' sub it hv ht hp ds hd
          rw [hr] at g1; cases g1
          rw [hrep] at g3; cases g3
          refine ⟨⟨hv', ht', hri', hnl', by intro st hst'; simp at hst', r', rep', g2, g5, g4, trivial⟩, rep, rep', ?_, ?_, ?_⟩
          · simp [pipeView, hr, hrep, chainView]
          · simp [pipeView, g2, g4, chainView]
          · simp only [hd]; exact ⟨g6, g7, poll_item_noTrunc w.ov ov' sub it hv hri hnl hp ds hd⟩
        | none =>
          obtain ⟨r1, r', rep1, g1, g2, g3, _, ⟨g5, g6⟩, _⟩ := poll_cases w.ov ov' sub it hv hp
          rw [hr] at g1; cases g1
          rw [hrep] at g3; cases g3
          have hg : ghostRep it (some rep) = some rep := by
            cases it <;> simp [itemDiffs] at hd <;> simp [ghostRep]
          rw [hg] at g5
          refine ⟨⟨hv', ht', hri', hnl', by intro st hst'; simp at hst', r', rep, g2, g6, g5, trivial⟩, rep, rep, ?_, ?_, ?_⟩
          · simp [pipeView, hr, hrep, chainView]
          · simp [pipeView, g2, g5, chainView]
          · simp only [hd]
    | cons st inner =>
      obtain ⟨hready, hlim⟩ := hst st (List.mem_cons_self ..)
      have hinner : ∀ st' ∈ inner, st'.ready = [] ∧ st'.limOf = none := fun st' h => hst st' (List.mem_cons_of_mem _ h)
      rw [List.reverse_cons, chainInv_snoc] at hci
      obtain ⟨hci1, hsti⟩ := hci
      have hview0 : pipeView T sub (st :: inner) w = some (st.viewOn T (chainView T inner.reverse rep)) := by
        simp [pipeView, hr, hrep, List.reverse_cons, chainView_snoc]
      have hIH := ih inner w ⟨hv, ht, hri, hnl, hinner, r, rep, hr, hal, hrep, hci1⟩
      simp only [pollStages, hready, hlim, limPoll]
      generalize hcall : pollStages T true sub n inner w = res at hIH
      obtain ⟨it, inner', w2⟩ := res
      simp only at hIH ⊢
      rcases hIH with hpan | ⟨hinv2, vin, vin', hv1, hv2, hitem⟩
      · left; subst hpan; simp [itemDiffs]
      · have hvin : vin = chainView T inner.reverse rep := by
          simp [pipeView, hr, hrep] at hv1; exact hv1.symm
        subst hvin
        obtain ⟨hva, hta, hria, hnla, hsta, r2, rep2, hr2, hal2, hrep2, hci2⟩ := hinv2
        have hvin' : vin' = chainView T inner'.reverse rep2 := by
          simp [pipeView, hr2, hrep2] at hv2; exact hv2.symm
        subst hvin'
        cases hd : itemDiffs it with
        | none =>
          simp only [hd] at hitem ⊢
          right
          refine ⟨⟨hva, hta, hria, hnla, ?_, r2, rep2, hr2, hal2, hrep2, ?_⟩, st.viewOn T (chainView T inner.reverse rep),
            st.viewOn T (chainView T inner'.reverse rep2), hview0, ?_, ?_⟩
          · intro st' hst'
            rcases List.mem_cons.mp hst' with rfl | h
            · exact ⟨hready, hlim⟩
            · exact hsta st' h
          · rw [List.reverse_cons, chainInv_snoc]; exact ⟨hci2, by rw [hitem]; exact hsti⟩
          · simp [pipeView, hr2, hrep2, List.reverse_cons, chainView_snoc]
          · rw [hitem]
        | some ds =>
          simp only [hd] at hitem ⊢
          obtain ⟨hvs, hap, hnt⟩ := hitem
          obtain ⟨out, st2, below', g1, g2, g3, g4, g5, g6⟩ := stage_onDiffs_sound T st _ ds hsti hvs (fun _ => hnt)
          have hnto := onDiffs_noTrunc T st st2 ds out hnt g1
          rw [hap] at g2; cases g2
          simp only [g1]
          have hst2 : st2.ready = [] ∧ st2.limOf = none := ⟨(ready_onDiffs T st st2 ds out g1).trans hready, (limOf_onDiffs T st st2 ds out g1).trans hlim⟩
          have hinv3 : PipeInvNT T sub (st2 :: inner') w2 := by
            refine ⟨hva, hta, hria, hnla, ?_, r2, rep2, hr2, hal2, hrep2, ?_⟩
            · intro st' hst'
              rcases List.mem_cons.mp hst' with rfl | h
              · exact hst2
              · exact hsta st' h
            · rw [List.reverse_cons, chainInv_snoc]; exact ⟨hci2, g3⟩
          have hview3 : pipeView T sub (st2 :: inner') w2 = some (st2.viewOn T (chainView T inner'.reverse rep2)) := by
            simp [pipeView, hr2, hrep2, List.reverse_cons, chainView_snoc]
          cases out with
          | nil =>
            simp only [emit]
            simp [applyAll] at g4
            have hIH2 := ih (st2 :: inner') w2 hinv3
            rcases hIH2 with hpan | ⟨hinv4, v3, v4, hv3, hv4, hitem4⟩
            · left; exact hpan
            · right
              rw [hview3] at hv3; cases hv3
              exact ⟨hinv4, st.viewOn T (chainView T inner.reverse rep), v4, hview0, hv4, by rw [g4]; exact hitem4⟩
          | cons d rest =>
            simp only [emit, if_true]
            right
            rw [setReady_self st2 hst2.1]
            exact ⟨hinv3, st.viewOn T (chainView T inner.reverse rep), st2.viewOn T (chainView T inner'.reverse rep2), hview0, hview3,
              by simp only [itemDiffs]; exact ⟨g5, g4, hnto⟩⟩



/-- a container without `Truncate` is safe for every chain, Sort stages included -/
theorem sortSafe_of_noTrunc {α} (T : Tables α) (sts : List (Stage α)) : ∀ (ds : List (Diff α)), NoTrunc ds → SortSafe T sts ds := by
  induction sts with
  | nil => intro ds _; trivial
  | cons st outer ih =>
    intro ds h
    exact ⟨fun _ => h, fun out st' ho => ih out (onDiffs_noTrunc T st st' ds out h ho)⟩

/-- `chain_sound` for chains with Sort stages, under the simple hypothesis that the container brings no `Truncate` -/
theorem chain_sound_nt {α} (T : Tables α) (sts : List (Stage α)) (src : List α) (ds : List (Diff α))
    (hi : ChainInv T sts src) (hv : ValidSeq ds src) (hn : NoTrunc ds) :
    ∃ out sts' src', chainOnDiffs T sts ds = some (out, sts') ∧ applyAll ds src = some src' ∧ ChainInv T sts' src' ∧
      applyAll out (chainView T sts src) = some (chainView T sts' src') ∧ ValidSeq out (chainView T sts src) :=
  chain_sound T sts src ds hi hv (sortSafe_of_noTrunc T sts ds hn)

end EV
