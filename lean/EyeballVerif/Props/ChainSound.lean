/-
  C12 (with C09–C11): a whole container through a whole chain of adapters — every stage's output is again a valid
  container (an emitted Truncate really shortens the view it is applied to), so the per-stage theorems compose by
  induction over the chain: the diffs coming out at the top take the old composed view to the new composed view.
-/
import EyeballVerif.Props.StageSound
namespace EV
open Srt

/-- along the replay, every `Truncate` really shortens -/
def TruncOK {α} : List (Diff α) → List α → Prop
  | [], _ => True
  | d :: ds, v => (∀ n, d = .truncate n → n < v.length) ∧ ∀ v', d.apply v = some v' → TruncOK ds v'

theorem truncOK_of_noTrunc {α} (ds : List (Diff α)) (h : NoTrunc ds) : ∀ v, TruncOK ds v := by
  induction ds with
  | nil => intro v; trivial
  | cons d ds ih =>
    intro v
    refine ⟨fun n hn => absurd hn (h d (List.mem_cons_self ..) n), fun v' _ => ih (fun d' hd' => h d' (List.mem_cons_of_mem _ hd')) v'⟩

theorem validOn_iff {α} (d : Diff α) (v : List α) :
    d.validOn v = true ↔ d.applicable v = true ∧ ∀ n, d = .truncate n → n < v.length := by
  cases d <;> simp [Diff.validOn, Diff.applicable]

/-- `ValidSeq` = strictly replayable + every `Truncate` shortens -/
theorem validSeq_iff {α} (ds : List (Diff α)) : ∀ v, ValidSeq ds v ↔ (∃ v', applyAll ds v = some v') ∧ TruncOK ds v := by
  induction ds with
  | nil => intro v; simp [ValidSeq, applyAll, TruncOK]
  | cons d ds ih =>
    intro v
    simp only [ValidSeq, applyAll, TruncOK]
    constructor
    · rintro ⟨h1, v', h2, h3⟩
      obtain ⟨⟨v'', h4⟩, h5⟩ := (ih v').mp h3
      obtain ⟨ha, ht⟩ := (validOn_iff d v).mp h1
      refine ⟨⟨v'', by simp [ha, h2, h4]⟩, ht, ?_⟩
      intro w hw; rw [h2] at hw; cases hw; exact h5
    · rintro ⟨⟨v'', h1⟩, ht, h5⟩
      by_cases ha : d.applicable v = true
      · simp only [ha, if_true] at h1
        cases h2 : d.apply v with
        | none => simp [h2] at h1
        | some v' =>
          simp [h2] at h1
          exact ⟨(validOn_iff d v).mpr ⟨ha, ht⟩, v', rfl, (ih v').mpr ⟨⟨v'', h1⟩, h5 v' h2⟩⟩
      · simp [ha] at h1

theorem truncOK_append {α} (a b : List (Diff α)) : ∀ v v', applyAll a v = some v' → TruncOK a v → TruncOK b v' → TruncOK (a ++ b) v := by
  induction a with
  | nil => intro v v' h _ hb; simp [applyAll] at h; subst h; exact hb
  | cons d ds ih =>
    intro v v' h ⟨h1, h2⟩ hb
    simp only [applyAll] at h
    split at h
    · cases hd : d.apply v with
      | none => simp [hd] at h
      | some w =>
        simp [hd] at h
        exact ⟨h1, fun w' hw' => by rw [hd] at hw'; cases hw'; exact ih w v' h (h2 w hd) hb⟩
    · cases h

theorem noTrunc_getPush {α} (buf : List α) (i : Nat) (mk : α → Diff α) (h : ∀ x n, mk x ≠ .truncate n) : NoTrunc (getPush buf i mk) := by
  intro d hd n
  simp only [getPush] at hd
  split at hd
  · simp at hd; subst hd; exact h _ n
  · simp at hd

/-- Head never emits a `Truncate` that does not shorten its view -/
theorem head_truncOK {α} (d : Diff α) (v v' : List α) (L : Nat) (hv : d.validOn v = true) (ha : d.apply v = some v') :
    TruncOK (Head.handleDiff d L v.length v') (v.take L) := by
  by_cases ht : ∃ n, d = .truncate n
  · obtain ⟨n, rfl⟩ := ht
    simp only [Head.handleDiff]
    split
    · trivial
    · split
      · trivial
      · simp [Diff.validOn] at hv
        refine ⟨?_, fun _ _ => trivial⟩
        intro m hm; cases hm
        simp; omega
  · apply truncOK_of_noTrunc
    intro x hx n hn
    subst hn
    cases d <;> simp only [Head.handleDiff] at hx <;> (try (exact ht ⟨_, rfl⟩)) <;>
      (repeat' split at hx) <;> simp [getPush] at hx <;> (try (split at hx <;> simp at hx))


/-- Tail never emits a `Truncate` at all -/
theorem tail_truncOK {α} (d : Diff α) (L pl : Nat) (b : List α) (w : List α) : TruncOK (Tail.handleDiff d L pl b) w := by
  apply truncOK_of_noTrunc
  intro x hx n hn
  subst hn
  cases d with
  | truncate m =>
    simp only [Tail.handleDiff] at hx
    split at hx
    · simp at hx
    · simp only [List.mem_append, List.mem_replicate, List.mem_map] at hx
      rcases hx with ⟨_, hx⟩ | ⟨a, _, hx⟩ <;> cases hx
  | _ =>
    simp only [Tail.handleDiff] at hx <;>
    (repeat' split at hx) <;> simp [getPush] at hx <;> (try (split at hx <;> simp at hx)) <;> (try (rcases hx with hx | hx <;> (try simp at hx) <;> (try (split at hx <;> simp at hx))))

/-- Skip: an emitted `Truncate` shortens the view -/
theorem skip_truncOK {α} (d : Diff α) (v v' : List α) (c : Nat) (hv : d.validOn v = true) (ha : d.apply v = some v') :
    TruncOK (Skip.handleDiff d c v.length v') (v.drop c) := by
  by_cases ht : ∃ n, d = .truncate n
  · obtain ⟨n, rfl⟩ := ht
    simp only [Skip.handleDiff]
    simp [Diff.validOn] at hv
    split
    · split
      · refine ⟨?_, fun _ _ => trivial⟩
        intro m hm; cases hm
        simp; omega
      · exact ⟨fun m hm => (by cases hm), fun _ _ => trivial⟩
    · trivial
  · apply truncOK_of_noTrunc
    intro x hx n hn
    subst hn
    cases d <;> simp only [Skip.handleDiff] at hx <;> (try (exact ht ⟨_, rfl⟩)) <;>
      (repeat' split at hx) <;> simp [getPush] at hx <;> (try (split at hx <;> simp at hx))


/-- Filter / FilterMap: an emitted `Truncate` shortens the filtered view -/
theorem filter_truncOK {α β} (f : α → Option β) (d : Diff α) (src : List α) (st : FilterSt) (hi : FInv f st src) :
    TruncOK (Filter.handle f d st).1.toList (src.filterMap f) := by
  by_cases ht : ∃ n, d = .truncate n
  · obtain ⟨n, rfl⟩ := ht
    simp only [Filter.handle]
    split
    · rename_i hk
      simp only [Option.toList]
      refine ⟨?_, fun _ _ => trivial⟩
      intro m hm; cases hm
      have hl : st.idx.length = (src.filterMap f).length := by rw [hi.2, idxFrom_length]
      omega
    · simp [TruncOK]
  · apply truncOK_of_noTrunc
    intro x hx n hn
    subst hn
    cases d <;> simp only [Filter.handle, Filter.appendFilter] at hx <;> (try (exact ht ⟨_, rfl⟩)) <;>
      (repeat' split at hx) <;> simp at hx

theorem appendLoop_noTrunc {α} (cmp : α → α → Ordering) (new : List (Nat × α)) :
    ∀ (buf : List (Nat × α)) (out : List (Diff α)), NoTrunc out → NoTrunc (appendLoop cmp new buf out).1 := by
  induction new with
  | nil => intro buf out h; simpa [appendLoop] using h
  | cons x rest ih =>
    intro buf out h
    obtain ⟨ui, v⟩ := x
    cases hl : buf.getLast? with
    | none => rw [appendLoop]; simp only [hl]; exact h
    | some last =>
      rw [appendLoop_cons cmp ui v rest buf out last hl]
      split
      · exact h
      · split
        · apply ih
          intro d hd n
          rcases List.mem_append.mp hd with hd | hd
          · exact h d hd n
          · simp at hd; subst hd; split <;> simp
        · exact h

theorem noTrunc_insertAt {α} (buf : List (Nat × α)) (pos ui : Nat) (v : α) : NoTrunc (insertAt buf pos ui v).1 := by
  intro d hd n
  simp only [insertAt] at hd
  (repeat' split at hd) <;> simp at hd <;> subst hd <;> simp

theorem noTrunc_removeAt {α} (buf : List (Nat × α)) (pos : Nat) : NoTrunc (removeAt buf pos).1 := by
  intro d hd n
  simp only [removeAt] at hd
  (repeat' split at hd) <;> simp at hd <;> subst hd <;> simp

/-- Sort: outside the `Truncate` arm no `Truncate` is emitted -/
theorem sort_noTrunc {α} (cmp : α → α → Ordering) (sortFn : List (Nat × α) → List (Nat × α)) (d : Diff α)
    (buf : List (Nat × α)) (out : List (Diff α)) (buf' : List (Nat × α)) (hnt : ∀ n, d ≠ .truncate n)
    (h : handle cmp sortFn d buf = some (out, buf')) : NoTrunc out := by
  cases d with
  | truncate m => exact absurd rfl (hnt m)
  | append vs =>
    simp only [handle] at h
    split at h
    · simp at h; obtain ⟨rfl, _⟩ := h; intro d hd n; simp at hd; subst hd; simp
    · have hl := appendLoop_noTrunc cmp (sortFn (vs.mapIdx fun i v => (i + buf.length, v))) buf [] (by intro d hd; simp at hd)
      generalize appendLoop cmp (sortFn (vs.mapIdx fun i v => (i + buf.length, v))) buf [] = r at h hl
      obtain ⟨o, b, l⟩ := r
      simp only at h hl
      split at h
      · simp at h; obtain ⟨rfl, _⟩ := h; exact hl
      · simp at h; obtain ⟨rfl, _⟩ := h
        intro d hd n
        rcases List.mem_append.mp hd with hd | hd
        · exact hl d hd n
        · simp at hd; subst hd; simp
  | clear => simp [handle] at h; obtain ⟨rfl, _⟩ := h; intro d hd n; simp at hd; subst hd; simp
  | pushFront v => simp only [handle, Option.some.injEq] at h; (have e := congrArg Prod.fst h); simp only at e; rw [← e]; exact noTrunc_insertAt _ _ _ _
  | pushBack v => simp only [handle, Option.some.injEq] at h; (have e := congrArg Prod.fst h); simp only at e; rw [← e]; exact noTrunc_insertAt _ _ _ _
  | insert i v => simp only [handle, Option.some.injEq] at h; (have e := congrArg Prod.fst h); simp only at e; rw [← e]; exact noTrunc_insertAt _ _ _ _
  | popFront =>
    simp only [handle] at h
    split at h
    · cases h
    · simp only [Option.some.injEq] at h; (have e := congrArg Prod.fst h); simp only at e; rw [← e]; exact noTrunc_removeAt _ _
  | popBack =>
    simp only [handle] at h
    split at h
    · cases h
    · simp only [Option.some.injEq] at h; (have e := congrArg Prod.fst h); simp only at e; rw [← e]; exact noTrunc_removeAt _ _
  | remove i =>
    simp only [handle] at h
    split at h
    · cases h
    · simp only [Option.some.injEq] at h; (have e := congrArg Prod.fst h); simp only at e; rw [← e]; exact noTrunc_removeAt _ _
  | set i v =>
    simp only [handle] at h
    split at h
    · cases h
    · (repeat' split at h) <;> (simp at h; obtain ⟨rfl, _⟩ := h; intro d hd n; simp at hd; rcases hd with rfl | rfl <;> simp)
  | reset vs => simp [handle] at h; obtain ⟨rfl, _⟩ := h; intro d hd n; simp at hd; subst hd; simp


/-! ### stage level: outputs are again valid containers -/

theorem mapDiffs_valid {α} (h : Diff α → Nat → List α → List (Diff α)) (V : List α → List α)
    (hs : ∀ d v v', d.validOn v = true → d.apply v = some v' → applyAll (h d v.length v') (V v) = some (V v'))
    (ht : ∀ d v v', d.validOn v = true → d.apply v = some v' → TruncOK (h d v.length v') (V v)) :
    ∀ (ds : List (Diff α)) (buf : List α) (out : List (Diff α)), ValidSeq ds buf →
      ∃ buf' ds', mapDiffs h ds buf out = some (buf', out ++ ds') ∧ applyAll ds buf = some buf' ∧
        applyAll ds' (V buf) = some (V buf') ∧ TruncOK ds' (V buf) := by
  intro ds
  induction ds with
  | nil => intro buf out _; exact ⟨buf, [], by simp [mapDiffs], rfl, rfl, trivial⟩
  | cons d ds ih =>
    intro buf out ⟨h1, v', h2, h3⟩
    obtain ⟨buf', ds', g1, g2, g3, g4⟩ := ih v' (out ++ h d buf.length v') h3
    refine ⟨buf', h d buf.length v' ++ ds', ?_, ?_, ?_, ?_⟩
    · simp [mapDiffs, h2, g1]
    · simp [applyAll, validOn_applicable d buf h1, h2, g2]
    · rw [applyAll_append, hs d buf v' h1 h2]; exact g3
    · exact truncOK_append _ _ _ _ (hs d buf v' h1 h2) (ht d buf v' h1 h2) g4

theorem filter_fold_valid {α} (T : Tables α) (fid : Nat) :
    ∀ (ds : List (Diff α)) (src : List α) (st : FilterSt) (acc : List (Diff α)), ValidSeq ds src → FInv (T.filt fid) st src →
      ∃ src' out st', ds.foldl (fun (acc : List (Diff α) × FilterSt) d =>
          let (o, s) := Filter.handle (T.filt fid) d acc.2
          (acc.1 ++ o.toList, s)) (acc, st) = (acc ++ out, st') ∧ applyAll ds src = some src' ∧
        FInv (T.filt fid) st' src' ∧ applyAll out (src.filterMap (T.filt fid)) = some (src'.filterMap (T.filt fid)) ∧
        TruncOK out (src.filterMap (T.filt fid)) := by
  intro ds
  induction ds with
  | nil => intro src st acc _ hi; exact ⟨src, [], st, by simp, rfl, hi, rfl, trivial⟩
  | cons d ds ih =>
    intro src st acc ⟨h1, v', h2, h3⟩ hi
    obtain ⟨g1, g2⟩ := filter_handle (T.filt fid) d src v' st h1 h2 hi
    have g3 := filter_truncOK (T.filt fid) d src st hi
    obtain ⟨src', out, st', e1, e2, e3, e4, e5⟩ := ih v' (Filter.handle (T.filt fid) d st).2 (acc ++ (Filter.handle (T.filt fid) d st).1.toList) h3 g1
    refine ⟨src', (Filter.handle (T.filt fid) d st).1.toList ++ out, st', ?_, ?_, e3, ?_, ?_⟩
    · simp only [List.foldl_cons]; rw [e1]; simp
    · simp [applyAll, validOn_applicable d src h1, h2, e2]
    · rw [applyAll_append, g2]; exact e4
    · exact truncOK_append _ _ _ _ g2 g3 e5

theorem sort_fold_valid {α} (T : Tables α) (cid : Nat) (hc : LawfulCmp (T.cmp cid)) (hss : SortSpec (T.cmp cid) (T.sort cid)) :
    ∀ (ds : List (Diff α)) (src : List α) (buf : List (Nat × α)) (acc : List (Diff α)), ValidSeq ds src → NoTrunc ds →
      SInvP (T.cmp cid) buf src →
      ∃ src' out buf', sortDiffs (T.cmp cid) (T.sort cid) ds acc buf = some (acc ++ out, buf') ∧ applyAll ds src = some src' ∧
        SInvP (T.cmp cid) buf' src' ∧ applyAll out (buf.map (·.2)) = some (buf'.map (·.2)) ∧ NoTrunc out := by
  intro ds
  induction ds with
  | nil => intro src buf acc _ _ hi; exact ⟨src, [], buf, by simp [sortDiffs], rfl, hi, rfl, by intro d hd; simp at hd⟩
  | cons d ds ih =>
    intro src buf acc ⟨h1, v', h2, h3⟩ hnt hi
    have hnd : ∀ n, d ≠ .truncate n := hnt d (List.mem_cons_self ..)
    obtain ⟨o, b', g1, g2, g3⟩ := sort_handle_sound hc (T.sort cid) hss d src v' buf h1 h2
      (by intro n hn; exact absurd hn (hnd n)) hi
    have g4 := sort_noTrunc (T.cmp cid) (T.sort cid) d buf o b' hnd g1
    obtain ⟨src', out, buf', e1, e2, e3, e4, e5⟩ := ih v' b' (acc ++ o) h3 (fun d' hd' => hnt d' (List.mem_cons_of_mem _ hd')) g2
    refine ⟨src', o ++ out, buf', ?_, ?_, e3, ?_, ?_⟩
    · simp only [sortDiffs, g1]; rw [e1]; simp
    · simp [applyAll, validOn_applicable d src h1, h2, e2]
    · rw [applyAll_append, g3]; exact e4
    · intro x hx n
      rcases List.mem_append.mp hx with hx | hx
      · exact g4 x hx n
      · exact e5 x hx n

/-- what the stage shows of the contents `below` of the stream it sits on -/
def Stage.viewOn {α} (T : Tables α) : Stage α → List α → List α
  | .head l _ _ _, below => below.take l
  | .tail l _ _ _, below => lastN l below
  | .skip c _ _ _, below => Skip.viewOf c below
  | .filter fid _, below => below.filterMap (T.filt fid)
  | .sort _ buf _, _ => buf.map (·.2)

/-- the stage's bookkeeping is right for the contents `below` -/
def Stage.Inv {α} (T : Tables α) : Stage α → List α → Prop
  | .head _ _ buf _, below => buf = below
  | .tail _ _ buf _, below => buf = below
  | .skip _ _ buf _, below => buf = below
  | .filter fid st, below => FInv (T.filt fid) st below
  | .sort cid buf _, below => SInvP (T.cmp cid) buf below ∧ LawfulCmp (T.cmp cid) ∧ SortSpec (T.cmp cid) (T.sort cid)

def Stage.isSort {α} : Stage α → Bool
  | .sort _ _ _ => true
  | _ => false

/-- **One container through one stage** (any kind): the stage follows the stream below it, its output takes its old
    view to its new view, strictly, and is itself a valid container for whatever sits on top. -/
theorem stage_onDiffs_sound {α} (T : Tables α) (st : Stage α) (below : List α) (ds : List (Diff α))
    (hi : st.Inv T below) (hv : ValidSeq ds below) (hs : st.isSort = true → NoTrunc ds) :
    ∃ out st' below', st.onDiffs T ds = some (out, st') ∧ applyAll ds below = some below' ∧ st'.Inv T below' ∧
      applyAll out (st.viewOn T below) = some (st'.viewOn T below') ∧ ValidSeq out (st.viewOn T below) ∧
      st'.isSort = st.isSort := by
  cases st with
  | head l k buf r =>
    simp only [Stage.Inv] at hi; subst hi
    obtain ⟨buf', ds', g1, g2, g3, g4⟩ := mapDiffs_valid (fun d pl b => Head.handleDiff d l pl b) (fun v => v.take l)
      (fun d v v' a b => head_handle_diff d v v' l a b) (fun d v v' a b => head_truncOK d v v' l a b) ds buf [] hv
    exact ⟨ds', .head l k buf' r, buf', by simp [Stage.onDiffs, g1], g2, rfl, g3, (validSeq_iff _ _).mpr ⟨⟨_, g3⟩, g4⟩, rfl⟩
  | tail l k buf r =>
    simp only [Stage.Inv] at hi; subst hi
    obtain ⟨buf', ds', g1, g2, g3, g4⟩ := mapDiffs_valid (fun d pl b => Tail.handleDiff d l pl b) (fun v => lastN l v)
      (fun d v v' a b => tail_handle_diff d v v' l a b) (fun d v v' _ _ => tail_truncOK d l v.length v' _) ds buf [] hv
    exact ⟨ds', .tail l k buf' r, buf', by simp [Stage.onDiffs, g1], g2, rfl, g3, (validSeq_iff _ _).mpr ⟨⟨_, g3⟩, g4⟩, rfl⟩
  | skip c k buf r =>
    simp only [Stage.Inv] at hi; subst hi
    cases c with
    | none =>
      obtain ⟨buf', ds', g1, g2, g3, g4⟩ := mapDiffs_valid (fun (_ : Diff α) (_ : Nat) (_ : List α) => ([] : List (Diff α))) (fun _ => ([] : List α))
        (fun d v v' _ _ => rfl) (fun d v v' _ _ => trivial) ds buf [] hv
      exact ⟨ds', .skip none k buf' r, buf', by simp [Stage.onDiffs, g1], g2, rfl, by simpa [Stage.viewOn, Skip.viewOf] using g3,
        (validSeq_iff _ _).mpr ⟨⟨_, by simpa [Stage.viewOn, Skip.viewOf] using g3⟩, by simpa [Stage.viewOn, Skip.viewOf] using g4⟩, rfl⟩
    | some c =>
      obtain ⟨buf', ds', g1, g2, g3, g4⟩ := mapDiffs_valid (fun d pl b => Skip.handleDiff d c pl b) (fun v => v.drop c)
        (fun d v v' a b => skip_handle_diff d v v' c a b) (fun d v v' a b => skip_truncOK d v v' c a b) ds buf [] hv
      exact ⟨ds', .skip (some c) k buf' r, buf', by simp [Stage.onDiffs, g1], g2, rfl, by simpa [Stage.viewOn, Skip.viewOf] using g3,
        (validSeq_iff _ _).mpr ⟨⟨_, by simpa [Stage.viewOn, Skip.viewOf] using g3⟩, by simpa [Stage.viewOn, Skip.viewOf] using g4⟩, rfl⟩
  | filter fid fst =>
    simp only [Stage.Inv] at hi
    obtain ⟨src', out, st', e1, e2, e3, e4, e5⟩ := filter_fold_valid T fid ds below fst [] hv hi
    refine ⟨out, .filter fid st', src', ?_, e2, e3, e4, (validSeq_iff _ _).mpr ⟨⟨_, e4⟩, e5⟩, rfl⟩
    simp only [Stage.onDiffs]; rw [e1]; simp
  | sort cid buf r =>
    obtain ⟨h1, h2, h3⟩ := hi
    obtain ⟨src', out, buf', e1, e2, e3, e4, e5⟩ := sort_fold_valid T cid h2 h3 ds below buf [] hv (hs rfl) h1
    refine ⟨out, .sort cid buf' r, src', ?_, e2, ⟨e3, h2, h3⟩, e4, (validSeq_iff _ _).mpr ⟨⟨_, e4⟩, truncOK_of_noTrunc out e5 _⟩, rfl⟩
    simp only [Stage.onDiffs]; rw [e1]; simp


/-! ### chains of stages (innermost first) -/

/-- one container through a whole chain: the output of each stage is the input of the next one -/
def chainOnDiffs {α} (T : Tables α) : List (Stage α) → List (Diff α) → Option (List (Diff α) × List (Stage α))
  | [], ds => some (ds, [])
  | st :: outer, ds =>
    match st.onDiffs T ds with
    | none => none
    | some (out, st') => (chainOnDiffs T outer out).map fun (o, sts) => (o, st' :: sts)

/-- the composed view: each stage's view of the view below it -/
def chainView {α} (T : Tables α) : List (Stage α) → List α → List α
  | [], src => src
  | st :: outer, src => chainView T outer (st.viewOn T src)

def ChainInv {α} (T : Tables α) : List (Stage α) → List α → Prop
  | [], _ => True
  | st :: outer, src => st.Inv T src ∧ ChainInv T outer (st.viewOn T src)

/-- no `Truncate` reaches a Sort stage during this run (the arm for it is the known finding D4) -/
def SortSafe {α} (T : Tables α) : List (Stage α) → List (Diff α) → Prop
  | [], _ => True
  | st :: outer, ds => (st.isSort = true → NoTrunc ds) ∧ ∀ out st', st.onDiffs T ds = some (out, st') → SortSafe T outer out

/-- **C12 / C09–C11 composed: a container through any chain of adapters.** For every chain (any kinds, any depth)
    whose stages' bookkeeping is right for the views below them, and every valid container from the source that
    brings no `Truncate` to a Sort stage: no stage panics, every stage's bookkeeping is right afterwards, and the
    diffs coming out at the top take the old composed view to the new composed view, strictly — and are again a
    valid container. -/
theorem chain_sound {α} (T : Tables α) (sts : List (Stage α)) :
    ∀ (src : List α) (ds : List (Diff α)), ChainInv T sts src → ValidSeq ds src → SortSafe T sts ds →
    ∃ out sts' src', chainOnDiffs T sts ds = some (out, sts') ∧ applyAll ds src = some src' ∧ ChainInv T sts' src' ∧
      applyAll out (chainView T sts src) = some (chainView T sts' src') ∧ ValidSeq out (chainView T sts src) := by
  induction sts with
  | nil =>
    intro src ds _ hv _
    obtain ⟨src', h⟩ := validSeq_applyAll ds src hv
    exact ⟨ds, [], src', rfl, h, trivial, h, hv⟩
  | cons st outer ih =>
    intro src ds ⟨hi, hc⟩ hv ⟨hs1, hs2⟩
    obtain ⟨out, st', below', g1, g2, g3, g4, g5, _⟩ := stage_onDiffs_sound T st src ds hi hv hs1
    obtain ⟨out2, sts', v', e1, e2, e3, e4, e5⟩ := ih (st.viewOn T src) out hc g5 (hs2 out st' g1)
    have : v' = st'.viewOn T below' := by rw [g4] at e2; exact (Option.some.inj e2).symm
    subst this
    exact ⟨out2, st' :: sts', below', by simp [chainOnDiffs, g1, e1], g2, ⟨g3, e3⟩, e4, e5⟩

theorem chainView_snoc {α} (T : Tables α) (l : List (Stage α)) (st : Stage α) : ∀ src,
    chainView T (l ++ [st]) src = st.viewOn T (chainView T l src) := by
  induction l with
  | nil => intro src; rfl
  | cons a l ih => intro src; simp only [List.cons_append, chainView]; exact ih _

theorem chainInv_snoc {α} (T : Tables α) (l : List (Stage α)) (st : Stage α) : ∀ src,
    ChainInv T (l ++ [st]) src ↔ ChainInv T l src ∧ st.Inv T (chainView T l src) := by
  induction l with
  | nil => intro src; simp [ChainInv, chainView]
  | cons a l ih => intro src; simp only [List.cons_append, ChainInv, chainView]; rw [ih]; exact and_assoc.symm

/-- the constructors establish each stage's invariant, and the initial values handed on are its view -/
theorem mkStage_inv {α} (T : Tables α) (hT : ∀ cid, LawfulCmp (T.cmp cid) ∧ SortSpec (T.cmp cid) (T.sort cid))
    (vals : List α) (sp : StageSpec) :
    (mkStage T vals sp).1.Inv T vals ∧ (mkStage T vals sp).1.viewOn T vals = (mkStage T vals sp).2 := by
  cases sp with
  | sort cid =>
    have := sinvP_init (cmp := T.cmp cid) (T.sort cid) (hT cid).2 vals
    exact ⟨⟨this.1, (hT cid).1, (hT cid).2⟩, this.2.symm⟩
  | filter fid => simp [mkStage, Stage.Inv, Stage.viewOn, Filter.init, FInv]
  | _ => simp [mkStage, Stage.Inv, Stage.viewOn, head_initial, tail_initial, skeep_eq, Skip.viewOf, lastN]

/-- **every chain the constructors build satisfies the chain invariant**, and its composed view is the initial
    values the outermost constructor hands out -/
theorem mkPipe_chainInv {α} (T : Tables α) (hT : ∀ cid, LawfulCmp (T.cmp cid) ∧ SortSpec (T.cmp cid) (T.sort cid))
    (vals : List α) (specs : List StageSpec) :
    ChainInv T (mkPipe T vals specs).1.reverse vals ∧ chainView T (mkPipe T vals specs).1.reverse vals = (mkPipe T vals specs).2 := by
  unfold mkPipe
  have key : ∀ (specs : List StageSpec) (acc : List (Stage α)) (v : List α),
      ChainInv T acc.reverse vals → chainView T acc.reverse vals = v →
      let r := specs.foldl (fun (acc : List (Stage α) × List α) sp =>
        let (st, v) := mkStage T acc.2 sp
        (st :: acc.1, v)) (acc, v)
      ChainInv T r.1.reverse vals ∧ chainView T r.1.reverse vals = r.2 := by
    intro specs
    induction specs with
    | nil => intro acc v h1 h2; exact ⟨h1, h2⟩
    | cons sp rest ih =>
      intro acc v h1 h2
      simp only [List.foldl_cons]
      obtain ⟨g1, g2⟩ := mkStage_inv T hT v sp
      apply ih
      · rw [List.reverse_cons, chainInv_snoc, h2]; exact ⟨h1, g1⟩
      · rw [List.reverse_cons, chainView_snoc, h2]; exact g2
  exact key specs [] vals trivial rfl

/-- non-vacuity: a concrete chain (filter "even" under head 2) and a concrete container meet the hypotheses of
    `chain_sound`, and the theorem's conclusion is what evaluation gives -/
example :
    let T : Tables Nat := { filt := fun _ x => if x % 2 = 0 then some x else none, cmp := fun _ => compare, sort := fun _ => stableSort compare }
    let sts := (mkPipe T [1, 2, 3, 4] [.filter 0, .head 2]).1.reverse
    (chainOnDiffs T sts [.pushFront 6, .remove 2]).map (·.1) = some [.popBack, .pushFront 6, .remove 1, .pushBack 4] ∧
    chainView T sts [1, 2, 3, 4] = [2, 4] := by
  decide

end EV
