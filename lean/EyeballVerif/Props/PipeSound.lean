/-
  C12 at the level of the poll loop: the invariant of a whole pipeline (vector + receiver + static chain of
  Head / Tail / Skip / Filter stages), established by the constructors and preserved by every poll, and what a poll
  hands out: a valid container taking the composed view of the receiver's replica before the poll to that after it.
-/
import EyeballVerif.Lemmas.TruncInv
import EyeballVerif.Props.StreamReach
import EyeballVerif.Props.C14Pipe
namespace EV

/-- what a receiver is handed is a valid container on its replica, and takes the replica to the new replica -/
theorem poll_item_valid {α} (s s' : OV α) (i : Nat) (it : Item α) (hv : VInv s) (ht : TInv s) (h : s.poll i = some (it, s'))
    (ds : List (Diff α)) (hd : itemDiffs it = some ds) :
    ∃ r r' rep rep', s.subs[i]? = some r ∧ s'.subs[i]? = some r' ∧ r.replica = some rep ∧ r'.replica = some rep' ∧
      r'.alive = true ∧ ValidSeq ds rep ∧ applyAll ds rep = some rep' := by
  obtain ⟨r0, hs0, ha0, _, _⟩ := poll_unfold s s' i it h
  obtain ⟨r, r', rep, h1, h2, h3, h4, ⟨h5, ha'⟩, hc⟩ := poll_cases s s' i it hv h
  have hold := ht.subs i r rep h1 (by rw [hs0] at h1; cases h1; exact ha0) h3
  rcases hc with ⟨hpd, _⟩ | ⟨ds', hds, _, ho⟩ | ⟨hres, _, _, _⟩
  · rcases hpd with ⟨rfl, _⟩ | ⟨rfl, _⟩ <;> simp [itemDiffs] at hd
  · have hds' : ds' = ds := by
      rcases hds with rfl | ⟨d, rfl, rfl⟩ <;> simp [itemDiffs] at hd <;> exact hd
    subst hds'
    rw [ho] at hold h4
    have hg : ghostRep it (some rep) = applyAll ds' rep := by
      rcases hds with rfl | ⟨d, rfl, rfl⟩ <;> simp [ghostRep]
    rw [applyAll_append] at h4
    cases hx : applyAll ds' rep with
    | none => simp [hx] at h4
    | some rep' =>
      refine ⟨r, r', rep, rep', h1, h2, h3, by rw [h5, hg, hx], ha', ?_, hx⟩
      exact (validSeq_iff ds' rep).mpr ⟨⟨rep', hx⟩, (truncOK_split ds' _ rep rep' hx hold).1⟩
  · have hds' : ds = [.reset s.vals] := by
      rcases hres with rfl | rfl <;> simp [itemDiffs] at hd <;> exact hd.symm
    subst hds'
    refine ⟨r, r', rep, s.vals, h1, h2, h3, ?_, ha', ?_, by simp [applyAll, Diff.applicable, Diff.apply]⟩
    · rcases hres with rfl | rfl <;> simp [h5, ghostRep, applyAll, Diff.applicable, Diff.apply]
    · simp [ValidSeq, Diff.validOn, Diff.applicable, Diff.apply]


/-- a static stage (no limit / count stream) that is not a Sort and has nothing buffered -/
def StaticStage {α} (st : Stage α) : Prop := st.ready = [] ∧ st.limOf = none ∧ st.isSort = false

theorem ready_onDiffs {α} (T : Tables α) (st st2 : Stage α) (ds out : List (Diff α)) (h : st.onDiffs T ds = some (out, st2)) :
    st2.ready = st.ready := by
  cases st with
  | head l k buf r =>
    simp only [Stage.onDiffs, Option.map_eq_some_iff] at h
    obtain ⟨⟨b, o⟩, _, h2⟩ := h; cases h2; rfl
  | tail l k buf r =>
    simp only [Stage.onDiffs, Option.map_eq_some_iff] at h
    obtain ⟨⟨b, o⟩, _, h2⟩ := h; cases h2; rfl
  | skip c k buf r =>
    simp only [Stage.onDiffs, Option.map_eq_some_iff] at h
    obtain ⟨⟨b, o⟩, _, h2⟩ := h; cases h2; rfl
  | filter f s => simp only [Stage.onDiffs] at h; cases h; rfl
  | sort c buf r =>
    simp only [Stage.onDiffs, Option.map_eq_some_iff] at h
    obtain ⟨⟨o, b⟩, _, h2⟩ := h; cases h2; rfl

theorem setReady_self {α} (st : Stage α) (h : st.ready = []) : st.setReady [] = st := by
  cases st <;> simp_all [Stage.ready, Stage.setReady]

/-- the whole pipeline (stages outermost first) on receiver `sub`: every stage static, the receiver alive with a
    defined replica, and the chain invariant for that replica -/
def PipeInv {α} (T : Tables α) (sub : Nat) (sts : List (Stage α)) (w : PWorld α) : Prop :=
  VInv w.ov ∧ TInv w.ov ∧ (∀ st ∈ sts, StaticStage st) ∧
  ∃ r rep, w.ov.subs[sub]? = some r ∧ r.alive = true ∧ r.replica = some rep ∧ ChainInv T sts.reverse rep

/-- what the pipeline shows: the composed view of the receiver's replica -/
def pipeView {α} (T : Tables α) (sub : Nat) (sts : List (Stage α)) (w : PWorld α) : Option (List α) :=
  (w.ov.subs[sub]?.bind (·.replica)).map (chainView T sts.reverse)

/-- **C12 at the level of the poll loop** (batched flavour, static chains of Head / Tail / Skip / Filter / FilterMap of
    any depth): whenever the pipeline is polled in a state satisfying `PipeInv`, then — unless the model's fuel runs
    out — `PipeInv` holds afterwards, no stage panics, and an item handed out is a valid container that takes the
    composed view before the poll to the composed view after it; `Pending` / `End` leave the composed view as it is. -/
theorem pipe_poll_sound {α} (T : Tables α) (sub : Nat) :
    ∀ (fuel : Nat) (sts : List (Stage α)) (w : PWorld α), PipeInv T sub sts w →
      (pollStages T true sub fuel sts w).1 = .panic ∨
      (PipeInv T sub (pollStages T true sub fuel sts w).2.1 (pollStages T true sub fuel sts w).2.2 ∧
       ∃ v v', pipeView T sub sts w = some v ∧
         pipeView T sub (pollStages T true sub fuel sts w).2.1 (pollStages T true sub fuel sts w).2.2 = some v' ∧
         match itemDiffs (pollStages T true sub fuel sts w).1 with
         | some ds => ValidSeq ds v ∧ applyAll ds v = some v'
         | none => v' = v) := by
  intro fuel
  induction fuel with
  | zero => intro sts w _; left; simp [pollStages]
  | succ n ih =>
    intro sts w hinv
    obtain ⟨hv, ht, hst, r, rep, hr, hal, hrep, hci⟩ := hinv
    cases sts with
    | nil =>
      simp only [pollStages]
      cases hp : w.ov.poll sub with
      | none => left; rfl
      | some p =>
        obtain ⟨it, ov'⟩ := p
        simp only
        by_cases hpan : it = .panic
        · left; exact hpan
        right
        have hv' := vinv_poll w.ov ov' sub it hv hp
        have ht' := tinv_poll w.ov ov' sub it hv ht hp
        cases hd : itemDiffs it with
        | some ds =>
          obtain ⟨r1, r', rep1, rep', g1, g2, g3, g4, g5, g6, g7⟩ := poll_item_valid w.ov ov' sub it hv ht hp ds hd
          rw [hr] at g1; cases g1
          rw [hrep] at g3; cases g3
          refine ⟨⟨hv', ht', by intro st hst'; simp at hst', r', rep', g2, g5, g4, trivial⟩, rep, rep', ?_, ?_, ?_⟩
          · simp [pipeView, hr, hrep, chainView]
          · simp [pipeView, g2, g4, chainView]
          · simp only [hd]; exact ⟨g6, g7⟩
        | none =>
          obtain ⟨r1, r', rep1, g1, g2, g3, _, ⟨g5, g6⟩, _⟩ := poll_cases w.ov ov' sub it hv hp
          rw [hr] at g1; cases g1
          rw [hrep] at g3; cases g3
          have hg : ghostRep it (some rep) = some rep := by
            cases it <;> simp [itemDiffs] at hd <;> simp [ghostRep]
          rw [hg] at g5
          refine ⟨⟨hv', ht', by intro st hst'; simp at hst', r', rep, g2, g6, g5, trivial⟩, rep, rep, ?_, ?_, ?_⟩
          · simp [pipeView, hr, hrep, chainView]
          · simp [pipeView, g2, g5, chainView]
          · simp only [hd]
    | cons st inner =>
      obtain ⟨hready, hlim, hns⟩ := hst st (List.mem_cons_self ..)
      have hinner : ∀ st' ∈ inner, StaticStage st' := fun st' h => hst st' (List.mem_cons_of_mem _ h)
      rw [List.reverse_cons, chainInv_snoc] at hci
      obtain ⟨hci1, hsti⟩ := hci
      have hview0 : pipeView T sub (st :: inner) w = some (st.viewOn T (chainView T inner.reverse rep)) := by
        simp [pipeView, hr, hrep, List.reverse_cons, chainView_snoc]
      have hIH := ih inner w ⟨hv, ht, hinner, r, rep, hr, hal, hrep, hci1⟩
      simp only [pollStages, hready, hlim, limPoll]
      generalize hcall : pollStages T true sub n inner w = res at hIH
      obtain ⟨it, inner', w2⟩ := res
      simp only at hIH ⊢
      rcases hIH with hpan | ⟨hinv2, vin, vin', hv1, hv2, hitem⟩
      · left; subst hpan; simp [itemDiffs]
      · have hvin : vin = chainView T inner.reverse rep := by
          simp [pipeView, hr, hrep] at hv1; exact hv1.symm
        subst hvin
        obtain ⟨hva, hta, hsta, r2, rep2, hr2, hal2, hrep2, hci2⟩ := hinv2
        have hvin' : vin' = chainView T inner'.reverse rep2 := by
          simp [pipeView, hr2, hrep2] at hv2; exact hv2.symm
        subst hvin'
        cases hd : itemDiffs it with
        | none =>
          simp only [hd] at hitem ⊢
          right
          refine ⟨⟨hva, hta, ?_, r2, rep2, hr2, hal2, hrep2, ?_⟩, st.viewOn T (chainView T inner.reverse rep),
            st.viewOn T (chainView T inner'.reverse rep2), hview0, ?_, ?_⟩
          · intro st' hst'
            rcases List.mem_cons.mp hst' with rfl | h
            · exact ⟨hready, hlim, hns⟩
            · exact hsta st' h
          · rw [List.reverse_cons, chainInv_snoc]; exact ⟨hci2, by rw [hitem]; exact hsti⟩
          · simp [pipeView, hr2, hrep2, List.reverse_cons, chainView_snoc]
          · rw [hitem]
        | some ds =>
          simp only [hd] at hitem ⊢
          obtain ⟨hvs, hap⟩ := hitem
          obtain ⟨out, st2, below', g1, g2, g3, g4, g5, g6⟩ := stage_onDiffs_sound T st _ ds hsti hvs (by rw [hns]; intro h; cases h)
          rw [hap] at g2; cases g2
          simp only [g1]
          have hst2 : StaticStage st2 := ⟨(ready_onDiffs T st st2 ds out g1).trans hready, (limOf_onDiffs T st st2 ds out g1).trans hlim, g6.trans hns⟩
          have hinv3 : PipeInv T sub (st2 :: inner') w2 := by
            refine ⟨hva, hta, ?_, r2, rep2, hr2, hal2, hrep2, ?_⟩
            · intro st' hst'
              rcases List.mem_cons.mp hst' with rfl | h
              · exact hst2
              · exact hsta st' h
            · rw [List.reverse_cons, chainInv_snoc]; exact ⟨hci2, g3⟩
          have hview3 : pipeView T sub (st2 :: inner') w2 = some (st2.viewOn T (chainView T inner'.reverse rep2)) := by
            simp [pipeView, hr2, hrep2, List.reverse_cons, chainView_snoc]
          cases out with
          | nil =>
            simp only [emit]
            simp [applyAll] at g4
            have hIH2 := ih (st2 :: inner') w2 hinv3
            rcases hIH2 with hpan | ⟨hinv4, v3, v4, hv3, hv4, hitem4⟩
            · left; exact hpan
            · right
              rw [hview3] at hv3; cases hv3
              exact ⟨hinv4, st.viewOn T (chainView T inner.reverse rep), v4, hview0, hv4, by rw [g4]; exact hitem4⟩
          | cons d rest =>
            simp only [emit, if_true]
            right
            rw [setReady_self st2 hst2.1]
            exact ⟨hinv3, st.viewOn T (chainView T inner.reverse rep), st2.viewOn T (chainView T inner'.reverse rep2), hview0, hview3,
              by simp only [itemDiffs]; exact ⟨g5, g4⟩⟩


/-- static, non-Sort stage specifications -/
def StageSpec.isStaticNoSort : StageSpec → Bool
  | .head _ | .tail _ | .skip _ | .filter _ => true
  | _ => false

theorem mkStage_static {α} (T : Tables α) (vals : List α) (sp : StageSpec) (h : sp.isStaticNoSort = true) :
    StaticStage (mkStage T vals sp).1 ∧ (mkStage T vals sp).1.Inv T vals ∧ (mkStage T vals sp).1.viewOn T vals = (mkStage T vals sp).2 := by
  cases sp <;> simp [StageSpec.isStaticNoSort] at h <;>
    simp [mkStage, StaticStage, Stage.ready, Stage.limOf, Stage.isSort, Stage.Inv, Stage.viewOn, head_initial, tail_initial, skeep_eq,
      Skip.viewOf, lastN, Filter.init, FInv]

theorem mkPipe_static {α} (T : Tables α) (vals : List α) (specs : List StageSpec) (h : ∀ sp ∈ specs, sp.isStaticNoSort = true) :
    (∀ st ∈ (mkPipe T vals specs).1, StaticStage st) ∧ ChainInv T (mkPipe T vals specs).1.reverse vals ∧
    chainView T (mkPipe T vals specs).1.reverse vals = (mkPipe T vals specs).2 := by
  unfold mkPipe
  have key : ∀ (specs : List StageSpec) (acc : List (Stage α)) (v : List α), (∀ sp ∈ specs, sp.isStaticNoSort = true) →
      (∀ st ∈ acc, StaticStage st) → ChainInv T acc.reverse vals → chainView T acc.reverse vals = v →
      let r := specs.foldl (fun (acc : List (Stage α) × List α) sp =>
        let (st, v) := mkStage T acc.2 sp
        (st :: acc.1, v)) (acc, v)
      (∀ st ∈ r.1, StaticStage st) ∧ ChainInv T r.1.reverse vals ∧ chainView T r.1.reverse vals = r.2 := by
    intro specs
    induction specs with
    | nil => intro acc v _ h0 h1 h2; exact ⟨h0, h1, h2⟩
    | cons sp rest ih =>
      intro acc v hs h0 h1 h2
      simp only [List.foldl_cons]
      obtain ⟨g0, g1, g2⟩ := mkStage_static T v sp (hs sp (List.mem_cons_self ..))
      apply ih _ _ (fun sp' h' => hs sp' (List.mem_cons_of_mem _ h'))
      · intro st hst
        rcases List.mem_cons.mp hst with rfl | h'
        · exact g0
        · exact h0 st h'
      · rw [List.reverse_cons, chainInv_snoc, h2]; exact ⟨h1, g1⟩
      · rw [List.reverse_cons, chainView_snoc, h2]; exact g2
  exact key specs [] vals h (by intro st hst; simp at hst) trivial rfl

/-- **the pipeline invariant holds from construction on**: subscribe at any reachable state of the vector, build any
    static chain of Head / Tail / Skip / Filter stages on the snapshot — `PipeInv` holds and the composed view is the
    initial values the outermost constructor hands out -/
theorem pipeInv_initial {α} (T : Tables α) (s : OV α) (hr : Reach s) (htx : s.txn = none) (b : Bool)
    (specs : List StageSpec) (h : ∀ sp ∈ specs, sp.isStaticNoSort = true) (lims : List Lim) :
    let s' := (s.subscribe b).1
    let id := (s.subscribe b).2.1
    let p := mkPipe T (s.subscribe b).2.2 specs
    PipeInv T id p.1 { ov := s', lims } ∧ pipeView T id p.1 { ov := s', lims } = some p.2 := by
  obtain ⟨c, evs, hc, rfl⟩ := hr
  have hv := vinv_run (α := α) c hc evs
  have ht := tinv_run (α := α) c hc evs
  generalize evs.foldl OV.vstep (OV.new c) = s at *
  obtain ⟨g0, g1, g2⟩ := mkPipe_static T s.vals specs h
  have hsub : (s.subscribe b).1.subs[s.subs.length]? = some { alive := true, batched := b, next := s.log.length, rest := [], waiting := false, replica := some s.vals } := by
    simp [OV.subscribe]
  simp only
  refine ⟨⟨vinv_subscribe s b hv htx, tinv_subscribe s b ht htx, g0, _, s.vals, hsub, rfl, rfl, g1⟩, ?_⟩
  simp only [pipeView]
  have : (s.subscribe b).2.1 = s.subs.length := rfl
  rw [this, hsub]
  simp only [Option.bind_some, Option.map_some]
  exact congrArg some g2

end EV
