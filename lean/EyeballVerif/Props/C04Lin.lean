/-
  C04 — linearizability of the lock-level model, stated outright.

  The abstract specification is a single cell `(value, version)` on which every call acts atomically
  (`AS.apply`). Every call of the lock-level model has one segment — its *linearization point*, lying between its
  invocation and its response because it is one of the call's own segments — at which the abstraction of the
  concrete state (`CS.abs`) makes exactly the abstract call's transition and at which the result the call is going
  to return (`Th.pendingRes`) becomes the abstract call's result; every other segment of every thread leaves the
  abstraction and every determined result untouched. Along any schedule the concrete execution is therefore the
  abstract execution of the calls in the order of their linearization points.
-/
import EyeballVerif.Props.C04
namespace EV

/-- the abstract cell -/
structure AS where
  value : Nat
  version : Nat
  deriving DecidableEq, Repr

/-- atomic calls of the specification (`close` = the drop of the last owner) -/
inductive ACall where
  | set (v : Nat) | sne (v : Nat) | update (k : Nat) | get | nextNow | poll | close
  deriving DecidableEq, Repr

/-- the specification: new cell, result, new observed version of the calling subscriber -/
def AS.apply (a : AS) (c : ACall) (observed : Nat) : AS × CRes × Nat :=
  match c with
  | .set v => ({ value := v, version := a.version + 1 }, .prev a.value, observed)
  | .sne v =>
    if a.value = v then (a, .optPrev none, observed)
    else ({ value := v, version := a.version + 1 }, .optPrev (some a.value), observed)
  | .update k => ({ value := a.value + k, version := a.version + 1 }, .none, observed)
  | .get => (a, .value a.value, observed)
  | .nextNow => (a, .value a.value, a.version)
  | .poll =>
    if a.version = 0 then (a, .poll .done, observed)
    else if observed < a.version then (a, .poll (.ready a.value), a.version)
    else (a, .poll .pending, observed)
  | .close => ({ a with version := 0 }, .none, observed)

/-- a `set` / storing `set_if_not_eq` that has replaced the value but not yet bumped the version -/
def CS.pendingBump (s : CS) : Bool :=
  match s.writer with
  | some t => (match (s.thAt t).pc with | .writeBeforeNotify _ => true | _ => false)
  | none => false

/-- abstraction: the value, and the version counting the bump a writer inside its critical section still owes -/
def CS.abs (s : CS) : AS :=
  { value := s.value, version := if s.pendingBump then s.version + 1 else s.version }

/-- the linearization point: which abstract call the next segment of thread `t` performs, if any -/
def CS.linOf (s : CS) (t : Nat) : Option ACall :=
  match s.ths[t]? with
  | none => none
  | some th =>
    match th.op, th.pc with
    | .set v, .start => some (.set v)
    | .sne v, .start => some (.sne v)
    | .update k, .start => some (.update k)
    | .get, .start => some .get
    | .nextNow, .start => some .nextNow
    | .poll, .pollHoldingMeta => some .poll
    | .dropClone, .closeHoldingMeta => some .close
    | _, _ => none

/-- the calls that act on the cell (the others, `drop` and `upgrade`, act on the ownership counts: C03) -/
def COp.isCell : COp → Bool
  | .dropClone | .upgrade => false
  | _ => true

/-- the result a call is going to return, once its linearization point has passed -/
def Th.pendingRes (th : Th) : Option CRes :=
  match th.op, th.pc with
  | .set _, .writeBeforeNotify p | .set _, .writeAfterNotify p => some (.prev p)
  | .sne _, .writeBeforeNotify p | .sne _, .writeAfterNotify p => some (.optPrev (some p))
  | .update _, .writeAfterNotify _ => some .none
  | .poll, .pollAfterCheck r => some (.poll r)
  | .dropClone, .dropAfterDecision true => some .none
  | _, .finished => some th.res
  | _, _ => none

set_option maxHeartbeats 4000000 in
/-- **One step of any thread, any state satisfying the invariant.** If the segment is the thread's linearization
    point, the abstraction makes exactly the abstract call's transition, the result the call will return becomes
    the abstract result and its observed version the abstract one; otherwise the abstraction and the thread's
    observed version stay as they are and the result of a call on the cell stays what it is (a subscriber task starting
    its next poll forgets the previous result). No step touches what
    another thread has observed or is going to return. -/
theorem c04_lin_step (s s' : CS) (t : Nat) (hi : WInv s) (h : s.adv t = some s') :
    (match s.linOf t with
     | some c =>
        s'.abs = (s.abs.apply c (s.thAt t).observed).1 ∧
        (s'.thAt t).pendingRes = some (s.abs.apply c (s.thAt t).observed).2.1 ∧
        (s'.thAt t).observed = (s.abs.apply c (s.thAt t).observed).2.2
     | none =>
        s'.abs = s.abs ∧ (s'.thAt t).observed = (s.thAt t).observed ∧
        ((s.thAt t).op.isCell = true →
          (s'.thAt t).pendingRes = (s.thAt t).pendingRes ∨
          ((s.thAt t).pc = .finished ∧ (s'.thAt t).pendingRes = none))) ∧
    (∀ u, u ≠ t → (s'.thAt u).pendingRes = (s.thAt u).pendingRes ∧ (s'.thAt u).observed = (s.thAt u).observed) := by
  obtain ⟨h1, h2, h3, h4, h5, h6, h7, hat, h9, h10, h13, h11, h12, h14⟩ := hi
  unfold CS.adv at h
  cases hth : s.ths[t]? with
  | none => simp [hth] at h
  | some th =>
    obtain ⟨hthe, ht⟩ := thAt_eq s t th hth
    have g1 := h1 t; have g3 := h3 t; have g4 := h4 t
    rw [hthe] at g1 g3 g4
    have w1 := wakeAll_getD s.ths s.wakers
    simp only [hth] at h
    simp only [CS.linOf, hth, hthe]
    clear h6 h7 h9 h10 h13 h11 h12 h2 hthe
    obtain ⟨op, pc, observed, woken, res⟩ := th
    simp only at h g1 g3 g4 ⊢
    split at h <;> (try (split at h)) <;> (try (split at h)) <;> simp only [Option.some.injEq, reduceCtorEq] at h <;> (try subst h)
    all_goals (try simp only [Bool.or_eq_true, not_or, Bool.not_eq_true, Option.isSome_eq_false_iff, Option.isNone_iff_eq_none,
      Bool.not_eq_eq_eq_not, Bool.not_true, Bool.not_eq_false, List.isEmpty_iff] at *)
    all_goals (
      constructor
      · simp only [CS.abs, CS.pendingBump, CS.thAt, AS.apply, Th.pendingRes, COp.isCell, List.getElem?_set] at *
        first
          | grind [Pc.holdsRead, Pc.holdsWrite, Pc.holdsMeta, idle]
          | (cases hw : s.writer with
             | none => simp only [hw] at *; grind [Pc.holdsRead, Pc.holdsWrite, Pc.holdsMeta, idle]
             | some w =>
               have g3w := h3 w
               simp only [hw] at *
               by_cases hwt : t = w <;> grind [Pc.holdsRead, Pc.holdsWrite, Pc.holdsMeta, idle])
      · intro u hu
        have hne : ¬ t = u := fun e => hu e.symm
        first
          | (simp only [CS.thAt, List.getElem?_set, hne, if_false, and_self]; done)
          | (simp only [CS.thAt, List.getElem?_set, hne, if_false]
             rw [w1 u]
             by_cases hc : (u < s.ths.length ∧ s.wakers.contains u = true) <;>
               simp only [hc, if_true, if_false, Th.pendingRes, and_self]))

/-! ### From one step to every schedule -/

/-- every segment of every call leaves every thread's call what it is -/
theorem adv_op (s s' : CS) (t : Nat) (h : s.adv t = some s') (u : Nat) : (s'.thAt u).op = (s.thAt u).op := by
  unfold CS.adv at h
  cases hth : s.ths[t]? with
  | none => simp [hth] at h
  | some th =>
    have w1 := wakeAll_getD s.ths s.wakers
    have ht : t < s.ths.length := (thAt_eq s t th hth).2
    simp only [hth] at h
    obtain ⟨op, pc, observed, woken, res⟩ := th
    simp only at h
    split at h <;> (try (split at h)) <;> (try (split at h)) <;> simp only [Option.some.injEq, reduceCtorEq] at h <;> (try subst h)
    all_goals (
      by_cases hu : t = u
      · subst hu
        simp only [CS.thAt, List.getElem?_set, hth, if_true, Option.getD_some]
        first
          | rfl
          | (simp only [ht, if_true, Option.getD_some]; done)
          | (split <;> simp_all [wakeAll]; done)
          | (simp_all [wakeAll]; done)
      · first
          | (simp only [CS.thAt, List.getElem?_set, hu, if_false]; done)
          | (simp only [CS.thAt, List.getElem?_set, hu, if_false]
             first
               | rfl
               | (split <;> rfl)
               | (rw [w1 u]; split <;> simp)))

/-- the abstract history of a schedule: the calls in the order of their linearization points, each with the thread
    that makes it (a step that is not enabled is skipped — the thread is blocked) -/
def CS.linHist (s : CS) : List Nat → List (Nat × ACall)
  | [] => []
  | t :: ts =>
    match s.adv t with
    | none => s.linHist ts
    | some s' =>
      match s.linOf t with
      | some c => (t, c) :: s'.linHist ts
      | none => s'.linHist ts

/-- the specification run: the cell, what every subscriber has observed, and the results in order -/
def AS.runCalls (a : AS) (obs : Nat → Nat) : List (Nat × ACall) → AS × (Nat → Nat) × List (Nat × CRes)
  | [] => (a, obs, [])
  | (t, c) :: l =>
    let r := a.apply c (obs t)
    let rest := AS.runCalls r.1 (fun u => if u = t then r.2.2 else obs u) l
    (rest.1, rest.2.1, (t, r.2.1) :: rest.2.2)

/-- the result of thread `u`'s last call in a list of results -/
def lastRes (l : List (Nat × CRes)) (u : Nat) : Option CRes :=
  ((l.filter fun p => p.1 = u).getLast?).map (·.2)

theorem lastRes_cons (p : Nat × CRes) (l : List (Nat × CRes)) (u : Nat) :
    lastRes (p :: l) u = match lastRes l u with
      | some r => some r
      | none => if p.1 = u then some p.2 else none := by
  unfold lastRes
  simp only [List.filter_cons]
  by_cases hp : p.1 = u
  · simp only [hp, decide_true, if_true]
    cases hf : (l.filter fun p => decide (p.1 = u)) with
    | nil => simp
    | cons q qs =>
      rw [List.getLast?_cons_cons]
      cases hq : (q :: qs).getLast? with
      | none => simp at hq
      | some z => simp
  · simp only [hp, decide_false, Bool.false_eq_true, if_false]
    cases (List.filter (fun p => decide (p.1 = u)) l).getLast? <;> simp

def CS.obsOf (s : CS) : Nat → Nat := fun u => (s.thAt u).observed

/-- **Linearizability along every schedule.** From any state satisfying the invariant (every reachable one, `winv_run`)
    and for every schedule of any number of threads: the specification, run on the calls in the order of their
    linearization points, ends in the abstraction of the concrete final state and in exactly what every subscriber has
    observed; and the result every call on the cell is about to return or has returned is the result the specification
    gave that thread's last call (or the one it already had, if it passed no linearization point in this run). -/
theorem c04_lin_run (s : CS) (hi : WInv s) (sched : List Nat) :
    let f := s.run sched
    let a := AS.runCalls s.abs s.obsOf (s.linHist sched)
    a.1 = f.abs ∧ a.2.1 = f.obsOf ∧
    ∀ u r, (s.thAt u).op.isCell = true → (f.thAt u).pendingRes = some r →
      lastRes a.2.2 u = some r ∨ (lastRes a.2.2 u = none ∧ (s.thAt u).pendingRes = some r) := by
  induction sched generalizing s with
  | nil => simp [CS.run, CS.linHist, AS.runCalls, lastRes]
  | cons t ts ih =>
    have hrun : s.run (t :: ts) = ((s.adv t).getD s).run ts := by simp [CS.run]
    cases h : s.adv t with
    | none =>
      simp only [hrun, h, Option.getD_none, CS.linHist]
      exact ih s hi
    | some s' =>
      have hi' := winv_adv s s' t hi h
      have step := c04_lin_step s s' t hi h
      have hop := adv_op s s' t h
      obtain ⟨ih1, ih2, ih3⟩ := ih s' hi'
      simp only [hrun, h, Option.getD_some, CS.linHist]
      cases hl : s.linOf t with
      | none =>
        simp only [hl] at step ⊢
        obtain ⟨⟨sa, so, sr⟩, soth⟩ := step
        have hobs : s.obsOf = s'.obsOf := by
          funext u; simp only [CS.obsOf]
          by_cases hu : u = t
          · subst hu; exact so.symm
          · exact ((soth u hu).2).symm
        rw [← sa, hobs]
        refine ⟨ih1, ih2, ?_⟩
        intro u r hc hr
        rcases ih3 u r (by rw [hop u]; exact hc) hr with h1 | ⟨h1, h2⟩
        · exact Or.inl h1
        · refine Or.inr ⟨h1, ?_⟩
          by_cases hu : u = t
          · subst hu
            rcases sr hc with e | ⟨_, e⟩
            · rw [← e]; exact h2
            · rw [e] at h2; cases h2
          · rw [← (soth u hu).1]; exact h2
      | some c =>
        simp only [hl] at step ⊢
        obtain ⟨⟨sa, sr, so⟩, soth⟩ := step
        have hobs : (fun u => if u = t then (s.abs.apply c (s.obsOf t)).2.2 else s.obsOf u) = s'.obsOf := by
          funext u; simp only [CS.obsOf]
          by_cases hu : u = t
          · subst hu; simp only [if_true]; exact so.symm
          · simp only [hu, if_false]; exact ((soth u hu).2).symm
        simp only [AS.runCalls]
        have e1 : (s.abs.apply c (s.obsOf t)).1 = s'.abs := sa.symm
        rw [hobs, e1]
        refine ⟨ih1, ih2, ?_⟩
        intro u r hc hr
        rw [lastRes_cons]
        rcases ih3 u r (by rw [hop u]; exact hc) hr with h1 | ⟨h1, h2⟩
        · left; simp only [h1]
        · simp only [h1]
          by_cases hu : u = t
          · subst hu
            left
            simp only [if_true]
            rw [sr] at h2
            simpa [CS.obsOf] using h2
          · right
            have : ¬ t = u := fun e => hu e.symm
            simp only [this, if_false, true_and]
            rw [← (soth u hu).1]; exact h2

/-- in particular, from the initial state of any program: the final cell and every call's result are those of the
    specification run on the linearization order -/
theorem c04_lin_init (v c n : Nat) (ops : List (COp × Bool)) (hc : 1 ≤ c)
    (hh : (ops.filter fun p => p.1.needsClone).length ≤ c) (sched : List Nat) :
    let s := CS.init true v c n ops
    (AS.runCalls s.abs s.obsOf (s.linHist sched)).1 = (s.run sched).abs :=
  (c04_lin_run _ (winv_init v c n ops hc hh) sched).1

/-- non-vacuity: two writers and a subscriber; the specification run on the linearization order of a schedule that
    interleaves them reproduces the concrete final cell (value 9 written last, version bumped twice) and the results:
    the first writer replaced 5, the second 7, the subscriber sees 9 -/
example :
    let s := CS.init true 5 2 1 [(.set 7, false), (.set 9, false), (.poll, false)]
    let sched := [0, 2, 0, 0, 1, 1, 2, 1, 2, 2, 2, 2]
    (s.run sched).abs = { value := 9, version := 3 } ∧
    (s.linHist sched) = [(0, .set 7), (1, .set 9), (2, .poll)] ∧
    (AS.runCalls s.abs s.obsOf (s.linHist sched)).2.2 = [(0, .prev 5), (1, .prev 7), (2, .poll (.ready 9))] ∧
    ((s.run sched).thAt 2).res = .poll (.ready 9) := by decide

end EV
