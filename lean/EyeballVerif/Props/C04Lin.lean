/-
  C04 — linearizability of the lock-level model, stated outright.

  The abstract specification is a single cell `(value, version)` on which every call acts atomically
  (`AS.apply`). Every call of the lock-level model has one segment — its *linearization point*, lying between its
  invocation and its response because it is one of the call's own segments — at which the abstraction of the
  concrete state (`CS.abs`) makes exactly the abstract call's transition and at which the result the call is going
  to return (`Th.pendingRes`) becomes the abstract call's result; every other segment of every thread leaves the
  abstraction and every determined result untouched. Along any schedule the concrete execution is therefore the
  abstract execution of the calls in the order of their linearization points.
-/
import EyeballVerif.Props.C04
namespace EV

/-- the abstract cell -/
structure AS where
  value : Nat
  version : Nat
  deriving DecidableEq, Repr

/-- atomic calls of the specification (`close` = the drop of the last owner) -/
inductive ACall where
  | set (v : Nat) | sne (v : Nat) | update (k : Nat) | get | nextNow | poll | close
  deriving DecidableEq, Repr

/-- the specification: new cell, result, new observed version of the calling subscriber -/
def AS.apply (a : AS) (c : ACall) (observed : Nat) : AS × CRes × Nat :=
  match c with
  | .set v => ({ value := v, version := a.version + 1 }, .prev a.value, observed)
  | .sne v =>
    if a.value = v then (a, .optPrev none, observed)
    else ({ value := v, version := a.version + 1 }, .optPrev (some a.value), observed)
  | .update k => ({ value := a.value + k, version := a.version + 1 }, .none, observed)
  | .get => (a, .value a.value, observed)
  | .nextNow => (a, .value a.value, a.version)
  | .poll =>
    if a.version = 0 then (a, .poll .done, observed)
    else if observed < a.version then (a, .poll (.ready a.value), a.version)
    else (a, .poll .pending, observed)
  | .close => ({ a with version := 0 }, .none, observed)

/-- a `set` / storing `set_if_not_eq` that has replaced the value but not yet bumped the version -/
def CS.pendingBump (s : CS) : Bool :=
  match s.writer with
  | some t => (match (s.thAt t).pc with | .writeBeforeNotify _ => true | _ => false)
  | none => false

/-- abstraction: the value, and the version counting the bump a writer inside its critical section still owes -/
def CS.abs (s : CS) : AS :=
  { value := s.value, version := if s.pendingBump then s.version + 1 else s.version }

/-- the linearization point: which abstract call the next segment of thread `t` performs, if any -/
def CS.linOf (s : CS) (t : Nat) : Option ACall :=
  match s.ths[t]? with
  | none => none
  | some th =>
    match th.op, th.pc with
    | .set v, .start => some (.set v)
    | .sne v, .start => some (.sne v)
    | .update k, .start => some (.update k)
    | .get, .start => some .get
    | .nextNow, .start => some .nextNow
    | .poll, .pollHoldingMeta => some .poll
    | .dropClone, .closeHoldingMeta => some .close
    | _, _ => none

/-- the calls that act on the cell (the others, `drop` and `upgrade`, act on the ownership counts: C03) -/
def COp.isCell : COp → Bool
  | .dropClone | .upgrade => false
  | _ => true

/-- the result a call is going to return, once its linearization point has passed -/
def Th.pendingRes (th : Th) : Option CRes :=
  match th.op, th.pc with
  | .set _, .writeBeforeNotify p | .set _, .writeAfterNotify p => some (.prev p)
  | .sne _, .writeBeforeNotify p | .sne _, .writeAfterNotify p => some (.optPrev (some p))
  | .update _, .writeAfterNotify _ => some .none
  | .poll, .pollAfterCheck r => some (.poll r)
  | .dropClone, .dropAfterDecision true => some .none
  | _, .finished => some th.res
  | _, _ => none

set_option maxHeartbeats 4000000 in
/-- **One step of any thread, any state satisfying the invariant.** If the segment is the thread's linearization
    point, the abstraction makes exactly the abstract call's transition, the result the call will return becomes
    the abstract result and its observed version the abstract one; otherwise the abstraction and the thread's
    observed version stay as they are and the result of a call on the cell stays what it is (a subscriber task starting
    its next poll forgets the previous result). No step touches what
    another thread has observed or is going to return. -/
theorem c04_lin_step (s s' : CS) (t : Nat) (hi : WInv s) (h : s.adv t = some s') :
    (match s.linOf t with
     | some c =>
        s'.abs = (s.abs.apply c (s.thAt t).observed).1 ∧
        (s'.thAt t).pendingRes = some (s.abs.apply c (s.thAt t).observed).2.1 ∧
        (s'.thAt t).observed = (s.abs.apply c (s.thAt t).observed).2.2
     | none =>
        s'.abs = s.abs ∧ (s'.thAt t).observed = (s.thAt t).observed ∧
        ((s.thAt t).op.isCell = true →
          (s'.thAt t).pendingRes = (s.thAt t).pendingRes ∨
          ((s.thAt t).pc = .finished ∧ (s'.thAt t).pendingRes = none))) ∧
    (∀ u, u ≠ t → (s'.thAt u).pendingRes = (s.thAt u).pendingRes ∧ (s'.thAt u).observed = (s.thAt u).observed) := by
  obtain ⟨h1, h2, h3, h4, h5, h6, h7, hat, h9, h10, h13, h11, h12, h14⟩ := hi
  unfold CS.adv at h
  cases hth : s.ths[t]? with
  | none => simp [hth] at h
  | some th =>
    obtain ⟨hthe, ht⟩ := thAt_eq s t th hth
    have g1 := h1 t; have g3 := h3 t; have g4 := h4 t
    rw [hthe] at g1 g3 g4
    have w1 := wakeAll_getD s.ths s.wakers
    simp only [hth] at h
    simp only [CS.linOf, hth, hthe]
    clear h6 h7 h9 h10 h13 h11 h12 h2 hthe
    obtain ⟨op, pc, observed, woken, res⟩ := th
    simp only at h g1 g3 g4 ⊢
    split at h <;> (try (split at h)) <;> (try (split at h)) <;> simp only [Option.some.injEq, reduceCtorEq] at h <;> (try subst h)
    all_goals (try simp only [Bool.or_eq_true, not_or, Bool.not_eq_true, Option.isSome_eq_false_iff, Option.isNone_iff_eq_none,
      Bool.not_eq_eq_eq_not, Bool.not_true, Bool.not_eq_false, List.isEmpty_iff] at *)
    all_goals (
      constructor
      · simp only [CS.abs, CS.pendingBump, CS.thAt, AS.apply, Th.pendingRes, COp.isCell, List.getElem?_set] at *
        first
          | grind [Pc.holdsRead, Pc.holdsWrite, Pc.holdsMeta, idle]
          | (cases hw : s.writer with
             | none => simp only [hw] at *; grind [Pc.holdsRead, Pc.holdsWrite, Pc.holdsMeta, idle]
             | some w =>
               have g3w := h3 w
               simp only [hw] at *
               by_cases hwt : t = w <;> grind [Pc.holdsRead, Pc.holdsWrite, Pc.holdsMeta, idle])
      · intro u hu
        have hne : ¬ t = u := fun e => hu e.symm
        first
          | (simp only [CS.thAt, List.getElem?_set, hne, if_false, and_self]; done)
          | (simp only [CS.thAt, List.getElem?_set, hne, if_false]
             rw [w1 u]
             by_cases hc : (u < s.ths.length ∧ s.wakers.contains u = true) <;>
               simp only [hc, if_true, if_false, Th.pendingRes, and_self]))

end EV
