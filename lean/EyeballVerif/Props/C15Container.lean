/-
  C15 for whole containers: the prefix bound of Head / Tail holds along the output for every valid container, not only
  for single diffs.
-/
import EyeballVerif.Props.C15
import EyeballVerif.Props.StageSound
namespace EV

theorem runBounded_append {α} (L : Nat) (a b : List (Diff α)) : ∀ (l l' : List α), applyAll a l = some l' →
    runBounded L a l = true → runBounded L b l' = true → runBounded L (a ++ b) l = true := by
  induction a with
  | nil => intro l l' h _ hb; simp [applyAll] at h; subst h; simpa using hb
  | cons d ds ih =>
    intro l l' h ha hb
    simp only [applyAll] at h
    simp only [runBounded, Bool.and_eq_true, decide_eq_true_eq] at ha
    obtain ⟨⟨h1, h2⟩, h3⟩ := ha
    simp only [h2, if_true] at h
    cases hd : d.apply l with
    | none => simp [hd] at h
    | some w =>
      simp only [hd, Option.bind_some] at h h3
      simp only [List.cons_append, runBounded, h1, h2, hd, decide_true, Bool.and_self, Bool.true_and]
      exact ih w l' h h3 hb

/-- **C15 for whole containers**: whatever valid container arrives, every intermediate state of a strict replica of a
    Head's (Tail's) output has at most `limit` items -/
theorem c15_mapDiffs_bounded {α} (h : Diff α → Nat → List α → List (Diff α)) (V : List α → List α) (L : Nat)
    (hs : ∀ d v v', d.validOn v = true → d.apply v = some v' → applyAll (h d v.length v') (V v) = some (V v'))
    (hb : ∀ d v v', d.validOn v = true → d.apply v = some v' → runBounded L (h d v.length v') (V v) = true)
    (hV : ∀ v, (V v).length ≤ L) :
    ∀ (ds : List (Diff α)) (buf : List α) (out : List (Diff α)), ValidSeq ds buf →
      ∃ buf' ds', mapDiffs h ds buf out = some (buf', out ++ ds') ∧ runBounded L ds' (V buf) = true := by
  intro ds
  induction ds with
  | nil => intro buf out _; exact ⟨buf, [], by simp [mapDiffs], by simpa [runBounded] using hV buf⟩
  | cons d ds ih =>
    intro buf out ⟨h1, v', h2, h3⟩
    obtain ⟨buf', ds', g1, g2⟩ := ih v' (out ++ h d buf.length v') h3
    refine ⟨buf', h d buf.length v' ++ ds', by simp [mapDiffs, h2, g1], ?_⟩
    exact runBounded_append L _ _ _ _ (hs d buf v' h1 h2) (hb d buf v' h1 h2) g2

theorem c15_head_container {α} (T : Tables α) (l : Nat) (k : Option Nat) (buf : List α) (r ds : List (Diff α)) (hv : ValidSeq ds buf) :
    ∃ out st', (Stage.head l k buf r).onDiffs T ds = some (out, st') ∧ runBounded l out (buf.take l) = true := by
  obtain ⟨buf', ds', g1, g2⟩ := c15_mapDiffs_bounded (fun d pl b => Head.handleDiff d l pl b) (fun v => v.take l) l
    (fun d v v' a b => head_handle_diff d v v' l a b) (fun d v v' a b => head_prefix_bound d v v' l a b)
    (fun v => by simp; omega) ds buf [] hv
  exact ⟨ds', .head l k buf' r, by simp [Stage.onDiffs, g1], g2⟩

theorem c15_tail_container {α} (T : Tables α) (l : Nat) (k : Option Nat) (buf : List α) (r ds : List (Diff α)) (hv : ValidSeq ds buf) :
    ∃ out st', (Stage.tail l k buf r).onDiffs T ds = some (out, st') ∧ runBounded l out (lastN l buf) = true := by
  obtain ⟨buf', ds', g1, g2⟩ := c15_mapDiffs_bounded (fun d pl b => Tail.handleDiff d l pl b) (fun v => lastN l v) l
    (fun d v v' a b => tail_handle_diff d v v' l a b) (fun d v v' a b => tail_prefix_bound d v v' l a b)
    (fun v => by simp [lastN]; omega) ds buf [] hv
  exact ⟨ds', .tail l k buf' r, by simp [Stage.onDiffs, g1], g2⟩

end EV
