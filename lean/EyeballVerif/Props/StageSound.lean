/-
  Stage level (C09 / C10 / C11): what one whole incoming container does to a stage — the loop of push_into_*_buf,
  Filter's filter_map over the container, Sort's arm-by-arm handler — lifted from the per-diff theorems by
  induction over the container.
-/
import EyeballVerif.Props.C09
import EyeballVerif.Props.C10
import EyeballVerif.Props.C11Sort
import EyeballVerif.Model.Pipe
namespace EV

/-- the diffs of a container are valid on the successive contents (what an `ObservableVector` emits) -/
def ValidSeq {α} : List (Diff α) → List α → Prop
  | [], _ => True
  | d :: ds, v => d.validOn v = true ∧ ∃ v', d.apply v = some v' ∧ ValidSeq ds v'

theorem validOn_applicable {α} (d : Diff α) (v : List α) (h : d.validOn v = true) : d.applicable v = true := by
  cases d <;> simp_all [Diff.validOn, Diff.applicable]

theorem validSeq_applyAll {α} (ds : List (Diff α)) : ∀ v, ValidSeq ds v → ∃ v', applyAll ds v = some v' := by
  induction ds with
  | nil => intro v _; exact ⟨v, rfl⟩
  | cons d ds ih =>
    intro v ⟨h1, v', h2, h3⟩
    obtain ⟨v'', h4⟩ := ih v' h3
    exact ⟨v'', by simp [applyAll, validOn_applicable d v h1, h2, h4]⟩

/-- **Stage-level loop invariant of `push_into_*_buf`** (Head / Tail / Skip): if every single diff is rewritten
    soundly with respect to the view `V`, then a whole container is: the buffered vector follows the source, and
    the concatenated output takes the old view to the new one. -/
theorem mapDiffs_sound {α} (h : Diff α → Nat → List α → List (Diff α)) (V : List α → List α)
    (hs : ∀ d v v', d.validOn v = true → d.apply v = some v' → applyAll (h d v.length v') (V v) = some (V v')) :
    ∀ (ds : List (Diff α)) (buf : List α) (out : List (Diff α)), ValidSeq ds buf →
      ∃ buf' ds', mapDiffs h ds buf out = some (buf', out ++ ds') ∧ applyAll ds buf = some buf' ∧
        applyAll ds' (V buf) = some (V buf') := by
  intro ds
  induction ds with
  | nil => intro buf out _; exact ⟨buf, [], by simp [mapDiffs], rfl, rfl⟩
  | cons d ds ih =>
    intro buf out ⟨h1, v', h2, h3⟩
    obtain ⟨buf', ds', g1, g2, g3⟩ := ih v' (out ++ h d buf.length v') h3
    refine ⟨buf', h d buf.length v' ++ ds', ?_, ?_, ?_⟩
    · simp [mapDiffs, h2, g1]
    · simp [applyAll, validOn_applicable d buf h1, h2, g2]
    · rw [applyAll_append, hs d buf v' h1 h2]; exact g3

/-- the view a stage presents of its buffered source -/
def Stage.view {α} (T : Tables α) : Stage α → List α
  | .head l _ buf _ => buf.take l
  | .tail l _ buf _ => lastN l buf
  | .skip c _ buf _ => Skip.viewOf c buf
  | .filter _ _ => []       -- the filter keeps no copy: its view is `src.filterMap f` of the source it follows
  | .sort _ buf _ => buf.map (·.2)

theorem head_onDiffs {α} (T : Tables α) (l : Nat) (k : Option Nat) (buf : List α) (r ds : List (Diff α)) (hv : ValidSeq ds buf) :
    ∃ buf' out, (Stage.head l k buf r).onDiffs T ds = some (out, .head l k buf' r) ∧ applyAll ds buf = some buf' ∧
      applyAll out (buf.take l) = some (buf'.take l) := by
  obtain ⟨buf', ds', g1, g2, g3⟩ := mapDiffs_sound (fun d pl b => Head.handleDiff d l pl b) (fun v => v.take l)
    (fun d v v' a b => head_handle_diff d v v' l a b) ds buf [] hv
  exact ⟨buf', ds', by simp [Stage.onDiffs, g1], g2, g3⟩

theorem tail_onDiffs {α} (T : Tables α) (l : Nat) (k : Option Nat) (buf : List α) (r ds : List (Diff α)) (hv : ValidSeq ds buf) :
    ∃ buf' out, (Stage.tail l k buf r).onDiffs T ds = some (out, .tail l k buf' r) ∧ applyAll ds buf = some buf' ∧
      applyAll out (lastN l buf) = some (lastN l buf') := by
  obtain ⟨buf', ds', g1, g2, g3⟩ := mapDiffs_sound (fun d pl b => Tail.handleDiff d l pl b) (fun v => lastN l v)
    (fun d v v' a b => tail_handle_diff d v v' l a b) ds buf [] hv
  exact ⟨buf', ds', by simp [Stage.onDiffs, g1], g2, g3⟩

theorem skip_onDiffs {α} (T : Tables α) (c : Option Nat) (k : Option Nat) (buf : List α) (r ds : List (Diff α)) (hv : ValidSeq ds buf) :
    ∃ buf' out, (Stage.skip c k buf r).onDiffs T ds = some (out, .skip c k buf' r) ∧ applyAll ds buf = some buf' ∧
      applyAll out (Skip.viewOf c buf) = some (Skip.viewOf c buf') := by
  cases c with
  | none =>
    obtain ⟨buf', ds', g1, g2, g3⟩ := mapDiffs_sound (fun (_ : Diff α) (_ : Nat) (_ : List α) => ([] : List (Diff α))) (fun _ => ([] : List α))
      (fun d v v' _ _ => rfl) ds buf [] hv
    exact ⟨buf', ds', by simp [Stage.onDiffs, g1], g2, by simpa [Skip.viewOf] using g3⟩
  | some c =>
    obtain ⟨buf', ds', g1, g2, g3⟩ := mapDiffs_sound (fun d pl b => Skip.handleDiff d c pl b) (fun v => v.drop c)
      (fun d v v' a b => skip_handle_diff d v v' c a b) ds buf [] hv
    exact ⟨buf', ds', by simp [Stage.onDiffs, g1], g2, by simpa [Skip.viewOf] using g3⟩


/-- Filter / FilterMap: a whole container through `filter_map(handle)` -/
theorem filter_onDiffs {α} (T : Tables α) (fid : Nat) (st : FilterSt) (ds : List (Diff α)) :
    ∀ (src : List α), ValidSeq ds src → FInv (T.filt fid) st src →
    ∃ src' out st', (Stage.filter fid st).onDiffs T ds = some (out, .filter fid st') ∧ applyAll ds src = some src' ∧
      FInv (T.filt fid) st' src' ∧ applyAll out (src.filterMap (T.filt fid)) = some (src'.filterMap (T.filt fid)) := by
  have key : ∀ (ds : List (Diff α)) (src : List α) (st : FilterSt) (acc : List (Diff α)), ValidSeq ds src → FInv (T.filt fid) st src →
      ∃ src' out st', ds.foldl (fun (acc : List (Diff α) × FilterSt) d =>
          let (o, s) := Filter.handle (T.filt fid) d acc.2
          (acc.1 ++ o.toList, s)) (acc, st) = (acc ++ out, st') ∧ applyAll ds src = some src' ∧
        FInv (T.filt fid) st' src' ∧ applyAll out (src.filterMap (T.filt fid)) = some (src'.filterMap (T.filt fid)) := by
    intro ds
    induction ds with
    | nil => intro src st acc _ hi; exact ⟨src, [], st, by simp, rfl, hi, rfl⟩
    | cons d ds ih =>
      intro src st acc ⟨h1, v', h2, h3⟩ hi
      obtain ⟨g1, g2⟩ := filter_handle (T.filt fid) d src v' st h1 h2 hi
      obtain ⟨src', out, st', e1, e2, e3, e4⟩ := ih v' (Filter.handle (T.filt fid) d st).2 (acc ++ (Filter.handle (T.filt fid) d st).1.toList) h3 g1
      refine ⟨src', (Filter.handle (T.filt fid) d st).1.toList ++ out, st', ?_, ?_, e3, ?_⟩
      · simp only [List.foldl_cons]; rw [e1]; simp
      · simp [applyAll, validOn_applicable d src h1, h2, e2]
      · rw [applyAll_append, g2]; exact e4
  intro src hv hi
  obtain ⟨src', out, st', e1, e2, e3, e4⟩ := key ds src st [] hv hi
  refine ⟨src', out, st', ?_, e2, e3, e4⟩
  simp only [Stage.onDiffs]
  rw [e1]; simp

/-- no `Truncate` in the container (the Sort arm for it is the known finding D4) -/
def NoTrunc {α} (ds : List (Diff α)) : Prop := ∀ d ∈ ds, ∀ n, d ≠ .truncate n

/-- Sort / SortBy / SortByKey: a whole container through the arm-by-arm handler -/
theorem sort_onDiffs {α} (T : Tables α) (cid : Nat) (hc : LawfulCmp (T.cmp cid)) (hss : SortSpec (T.cmp cid) (T.sort cid))
    (r : List (Diff α)) (ds : List (Diff α)) :
    ∀ (src : List α) (buf : List (Nat × α)), ValidSeq ds src → NoTrunc ds → SInvP (T.cmp cid) buf src →
    ∃ src' out buf', (Stage.sort cid buf r).onDiffs T ds = some (out, .sort cid buf' r) ∧ applyAll ds src = some src' ∧
      SInvP (T.cmp cid) buf' src' ∧ applyAll out (buf.map (·.2)) = some (buf'.map (·.2)) := by
  have key : ∀ (ds : List (Diff α)) (src : List α) (buf : List (Nat × α)) (acc : List (Diff α)), ValidSeq ds src → NoTrunc ds →
      SInvP (T.cmp cid) buf src →
      ∃ src' out buf', sortDiffs (T.cmp cid) (T.sort cid) ds acc buf = some (acc ++ out, buf') ∧ applyAll ds src = some src' ∧
        SInvP (T.cmp cid) buf' src' ∧ applyAll out (buf.map (·.2)) = some (buf'.map (·.2)) := by
    intro ds
    induction ds with
    | nil => intro src buf acc _ _ hi; exact ⟨src, [], buf, by simp [sortDiffs], rfl, hi, rfl⟩
    | cons d ds ih =>
      intro src buf acc ⟨h1, v', h2, h3⟩ hnt hi
      obtain ⟨o, b', g1, g2, g3⟩ := sort_handle_sound hc (T.sort cid) hss d src v' buf h1 h2
        (by intro n hn; exact absurd hn (hnt d (List.mem_cons_self ..) n)) hi
      obtain ⟨src', out, buf', e1, e2, e3, e4⟩ := ih v' b' (acc ++ o) h3 (fun d' hd' => hnt d' (List.mem_cons_of_mem _ hd')) g2
      refine ⟨src', o ++ out, buf', ?_, ?_, e3, ?_⟩
      · simp only [sortDiffs, g1]; rw [e1]; simp
      · simp [applyAll, validOn_applicable d src h1, h2, e2]
      · rw [applyAll_append, g3]; exact e4
  intro src buf hv hnt hi
  obtain ⟨src', out, buf', e1, e2, e3, e4⟩ := key ds src buf [] hv hnt hi
  refine ⟨src', out, buf', ?_, e2, e3, e4⟩
  simp only [Stage.onDiffs]
  rw [e1]; simp

end EV
