/-
  C18 — `VectorDiff::map` commutes with `apply`; `map id` is the identity; `apply` panics exactly for
  insert/set/remove beyond the end and otherwise performs the documented change.
  Only property theorems and their non-vacuity examples live in this file.
-/
import EyeballVerif.Model.Diff
import EyeballVerif.Lemmas.ListExtra
namespace EV

/-- Mapping the diff and the vector, then applying, equals applying and then mapping
    (a panic on one side is a panic on the other): for every diff, vector and mapping. -/
theorem c18_map_apply {α β} (f : α → β) (d : Diff α) (l : List α) :
    (d.map f).apply (l.map f) = (d.apply l).map (List.map f) := by
  cases d <;> simp [Diff.map, Diff.apply, List.map_take, List.map_drop, List.map_dropLast,
    List.map_tail]
  all_goals (split <;> simp [map_eraseIdx])

theorem c18_map_id {α} (d : Diff α) : d.map id = d := by
  cases d <;> simp [Diff.map]

/-- `apply` panics exactly for insert beyond the end and set/remove at or beyond the end. -/
theorem c18_apply_panics_iff {α} (d : Diff α) (l : List α) :
    d.apply l = none ↔
      (∃ i v, d = .insert i v ∧ l.length < i) ∨ (∃ i v, d = .set i v ∧ l.length ≤ i) ∨
      (∃ i, d = .remove i ∧ l.length ≤ i) := by
  cases d <;> simp [Diff.apply] <;> omega

/-- A diff that is strictly applicable never panics. -/
theorem c18_applicable_no_panic {α} (d : Diff α) (l : List α) (h : d.applicable l = true) :
    (d.apply l).isSome = true := by
  cases d <;> simp_all [Diff.apply, Diff.applicable]

/-- The documented change, arm by arm, as the effect on the length … -/
theorem c18_apply_length {α} (d : Diff α) (l l' : List α) (h : d.apply l = some l') :
    l'.length = match d with
      | .append vs => l.length + vs.length
      | .clear => 0
      | .pushFront _ => l.length + 1
      | .pushBack _ => l.length + 1
      | .popFront => l.length - 1
      | .popBack => l.length - 1
      | .insert _ _ => l.length + 1
      | .set _ _ => l.length
      | .remove _ => l.length - 1
      | .truncate n => min n l.length
      | .reset vs => vs.length := by
  cases d <;> simp [Diff.apply] at h <;> (try subst h) <;> simp
  · obtain ⟨h1, rfl⟩ := h; simp; omega
  · obtain ⟨h1, rfl⟩ := h; simp
  · obtain ⟨h1, rfl⟩ := h; simp [List.length_eraseIdx, h1]

/-- … and on every position (`l'[j]?` in terms of `l`). -/
theorem c18_apply_get {α} (d : Diff α) (l l' : List α) (h : d.apply l = some l') (j : Nat) :
    l'[j]? = match d with
      | .append vs => if j < l.length then l[j]? else vs[j - l.length]?
      | .clear => none
      | .pushFront v => if j = 0 then some v else l[j - 1]?
      | .pushBack v => if j < l.length then l[j]? else if j = l.length then some v else none
      | .popFront => l[j + 1]?
      | .popBack => if j + 1 < l.length then l[j]? else none
      | .insert i v => if j < i then l[j]? else if j = i then some v else l[j - 1]?
      | .set i v => if j = i then some v else l[j]?
      | .remove i => if j < i then l[j]? else l[j + 1]?
      | .truncate n => if j < n then l[j]? else none
      | .reset vs => vs[j]? := by
  cases d with
  | append vs => simp [Diff.apply] at h; subst h; simp [List.getElem?_append]
  | clear => simp [Diff.apply] at h; subst h; simp
  | pushFront v => simp [Diff.apply] at h; subst h; cases j <;> simp
  | pushBack v => simp [Diff.apply] at h; subst h; grind
  | popFront => simp [Diff.apply] at h; subst h; cases l <;> simp
  | popBack => simp [Diff.apply] at h; subst h; grind
  | insert i v => simp [Diff.apply] at h; obtain ⟨h1, rfl⟩ := h; grind
  | set i v => simp [Diff.apply] at h; obtain ⟨h1, rfl⟩ := h; grind
  | remove i => simp [Diff.apply] at h; obtain ⟨h1, rfl⟩ := h; grind
  | truncate n => simp [Diff.apply] at h; subst h; grind
  | reset vs => simp [Diff.apply] at h; subst h; rfl
-- non-vacuity / sanity: a concrete non-trivial instance of each clause
example : (Diff.insert 1 7).apply [1, 2, 3] = some [1, 7, 2, 3] := by decide
example : ((Diff.insert 1 7).map (· + 1)).apply ([1, 2, 3].map (· + 1)) = some [2, 8, 3, 4] := by decide
example : (Diff.set 3 7).apply [1, 2, 3] = none := by decide
example : (Diff.truncate 5 : Diff Nat).apply [1, 2, 3] = some [1, 2, 3] := by decide

end EV
