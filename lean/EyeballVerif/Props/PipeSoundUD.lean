/-
  The poll loop of the UNBATCHED flavour with dynamic limits / counts: a limit change is a second source of diffs, the
  first of which is handed out at once while the rest is buffered in the stage (`ready`), in front of anything the
  inner stream delivers later — the order in which the real adapters look at "buffered diff, limit stream, inner stream".
-/
import EyeballVerif.Props.PipeSoundU
import EyeballVerif.Props.PipeSoundD
namespace EV

theorem isTail_setReady {α} (st : Stage α) (r : List (Diff α)) : (st.setReady r).isTail = st.isTail := by
  cases st <;> rfl

/-- a stage that is not a Sort; a Tail only if it is static (the dynamic Tail's `update_limit` is the known finding D2) -/
def UDStage {α} (st : Stage α) : Prop := st.isSort = false ∧ (st.isTail = true → st.limOf = none)

/-- **the poll-loop theorem for the unbatched flavour with dynamic limits / counts** (chains of static or dynamic Head and
    Skip, static Tail, Filter / FilterMap, any depth, any queue of announced values): every poll hands out one diff that is
    valid on what the consumer has been shown so far and leads to a state from which the diffs still buffered in the stages
    lead to the stages' true views — whether the diff stems from the source or from a limit / count change -/
theorem pipe_poll_sound_ud {α} (T : Tables α) (sub : Nat) :
    ∀ (fuel : Nat) (sts : List (Stage α)) (w : PWorld α) (r : Sub α) (rep top : List α),
      VInv w.ov → TInv w.ov → (∀ st ∈ sts, UDStage st) →
      w.ov.subs[sub]? = some r → r.alive = true → r.batched = false → r.replica = some rep → ShownTop T sts rep top →
      (pollStages T false sub fuel sts w).1 = .panic ∨
      (VInv (pollStages T false sub fuel sts w).2.2.ov ∧ TInv (pollStages T false sub fuel sts w).2.2.ov ∧
       (∀ st ∈ (pollStages T false sub fuel sts w).2.1, UDStage st) ∧
       ∃ r' rep' top', (pollStages T false sub fuel sts w).2.2.ov.subs[sub]? = some r' ∧ r'.alive = true ∧ r'.batched = false ∧
         r'.replica = some rep' ∧ ShownTop T (pollStages T false sub fuel sts w).2.1 rep' top' ∧
         match (pollStages T false sub fuel sts w).1 with
         | .one d => d.validOn top = true ∧ d.apply top = some top'
         | .pending | .done => top' = top
         | _ => False) := by
  intro fuel
  induction fuel with
  | zero => intro sts w r rep top _ _ _ _ _ _ _ _; left; simp [pollStages]
  | succ n ih =>
    intro sts w r rep top hv ht hst hr hal hnb hrep hsh
    cases sts with
    | nil =>
      -- the bottom of the chain: the static theorem's case
      have := pipe_poll_sound_u T sub (n + 1) [] w r rep top hv ht (by intro st h; simp at h) hr hal hnb hrep hsh
      rcases this with h | ⟨h1, h2, _, h4⟩
      · left; exact h
      · right; exact ⟨h1, h2, by intro st h; simp [pollStages] at h; revert h; cases w.ov.poll sub <;> simp, h4⟩
    | cons st inner =>
      obtain ⟨hns, htl⟩ := hst st (List.mem_cons_self ..)
      have hinner : ∀ st' ∈ inner, UDStage st' := fun st' h => hst st' (List.mem_cons_of_mem _ h)
      obtain ⟨mid, hsm, hinv, hvr, har⟩ := hsh
      cases hready : st.ready with
      | cons d rest =>
        -- hand out a buffered diff
        simp only [pollStages, hready]
        right
        rw [hready] at hvr har
        obtain ⟨a1, top1, a2, a3⟩ := hvr
        simp only [applyAll, validOn_applicable d top a1, if_true, a2, Option.bind_some] at har
        have hnf : ∀ f s, st ≠ .filter f s := by intro f s h; rw [filter_ready st f s h] at hready; cases hready
        refine ⟨hv, ht, ?_, r, rep, top1, hr, hal, hnb, hrep, ⟨mid, hsm, (inv_setReady T st rest mid).mpr hinv, ?_, ?_⟩, a1, a2⟩
        · intro st' hst'
          rcases List.mem_cons.mp hst' with rfl | h
          · exact ⟨(isSort_setReady st rest).trans hns, fun h => (limOf_setReady st rest).trans (htl ((isTail_setReady st rest) ▸ h))⟩
          · exact hinner st' h
        · rw [ready_setReady st rest hns hnf]; exact a3
        · rw [ready_setReady st rest hns hnf, viewOn_setReady]; exact har
      | nil =>
        rw [hready] at har
        simp only [applyAll, Option.some.injEq] at har
        subst har
        by_cases hval : ∃ v, (limPoll w st.limOf).1 = .value v
        · -- the limit / count stream announces a value
          obtain ⟨v, hval⟩ := hval
          have hnotail : st.isTail = false := by
            cases hh : st.isTail with
            | false => rfl
            | true => rw [htl hh] at hval; simp [limPoll] at hval
          generalize hlp : limPoll w st.limOf = lp at hval
          obtain ⟨lres, w1⟩ := lp
          simp only at hval; subst hval
          have hov : w1.ov = w.ov := by have := limPoll_frame w st.limOf; rw [hlp] at this; exact this
          rw [pollStages_cons_value T false sub n st inner w v w1 hready hlp]
          obtain ⟨l1, l2, l3, l4, l5, l6⟩ := stage_onLimit_sound T st mid v hinv hnotail
          have hnf1 : (st.onLimit v).1 ≠ [] → ∀ f s, (st.onLimit v).2 ≠ .filter f s := by
            intro hne f s h
            cases st <;> simp [Stage.onLimit] at hne h
          generalize hol : st.onLimit v = ol at l1 l2 l3 l4 l5 l6 hnf1
          obtain ⟨ds, st1⟩ := ol
          simp only at l1 l2 l3 l4 l5 l6 hnf1 ⊢
          have hst1 : UDStage st1 := ⟨l5.trans hns, fun h => by rw [l6, hnotail] at h; cases h⟩
          have hall1 : ∀ st' ∈ st1 :: inner, UDStage st' := by
            intro st' hst'
            rcases List.mem_cons.mp hst' with rfl | h
            · exact hst1
            · exact hinner st' h
          cases ds with
          | nil =>
            simp only [emit]
            simp [applyAll] at l2
            have hsh3 : ShownTop T (st1 :: inner) rep (st.viewOn T mid) :=
              ⟨mid, hsm, l1, by rw [l4, hready]; trivial, by rw [l4, hready, l2]; rfl⟩
            exact ih (st1 :: inner) w1 r rep (st.viewOn T mid) (hov ▸ hv) (hov ▸ ht) hall1 (hov ▸ hr) hal hnb hrep hsh3
          | cons d rest =>
            simp only [emit, Bool.false_eq_true, if_false]
            right
            obtain ⟨c1, top1, c2, c3⟩ := l3
            simp only [applyAll, validOn_applicable d _ c1, if_true, c2, Option.bind_some] at l2
            have hrest : (st1.setReady rest).ready = rest := ready_setReady st1 rest hst1.1 (hnf1 (by simp))
            refine ⟨hov ▸ hv, hov ▸ ht, ?_, r, rep, top1, hov ▸ hr, hal, hnb, hrep,
              ⟨mid, hsm, (inv_setReady T st1 rest mid).mpr l1, by rw [hrest]; exact c3, by rw [hrest, viewOn_setReady]; exact l2⟩, c1, c2⟩
            intro st' hst'
            rcases List.mem_cons.mp hst' with rfl | h
            · exact ⟨(isSort_setReady st1 rest).trans hst1.1, fun h => (limOf_setReady st1 rest).trans (hst1.2 ((isTail_setReady st1 rest) ▸ h))⟩
            · exact hinner st' h
        · -- nothing from the limit stream: poll the inner stream
          rw [pollStages_cons_novalue T false sub n st inner w hready (fun v hv' => hval ⟨v, hv'⟩)]
          generalize hw1 : (limPoll w st.limOf).2 = w1
          have hov : w1.ov = w.ov := by rw [← hw1]; exact limPoll_frame w st.limOf
          have hIH := ih inner w1 r rep mid (hov ▸ hv) (hov ▸ ht) hinner (hov ▸ hr) hal hnb hrep hsm
          generalize hcall : pollStages T false sub n inner w1 = res at hIH
          obtain ⟨it, inner', w2⟩ := res
          simp only at hIH ⊢
          rcases hIH with hpan | ⟨hva, hta, hsta, r2, rep2, mid2, hr2, hal2, hnb2, hrep2, hsm2, hitem⟩
          · left; subst hpan; simp [itemDiffs]
          · cases it with
            | panic => exact absurd hitem (by simp)
            | batch ds0 => exact absurd hitem (by simp)
            | pending =>
              simp only at hitem; subst hitem
              right
              simp only [itemDiffs]
              refine ⟨hva, hta, ?_, r2, rep2, _, hr2, hal2, hnb2, hrep2, ⟨mid2, hsm2, hinv, by rw [hready]; trivial, by rw [hready]; rfl⟩, rfl⟩
              intro st' hst'
              rcases List.mem_cons.mp hst' with rfl | h
              · exact ⟨hns, htl⟩
              · exact hsta st' h
            | done =>
              simp only at hitem; subst hitem
              right
              simp only [itemDiffs]
              refine ⟨hva, hta, ?_, r2, rep2, _, hr2, hal2, hnb2, hrep2, ⟨mid2, hsm2, hinv, by rw [hready]; trivial, by rw [hready]; rfl⟩, rfl⟩
              intro st' hst'
              rcases List.mem_cons.mp hst' with rfl | h
              · exact ⟨hns, htl⟩
              · exact hsta st' h
            | one d0 =>
              simp only at hitem
              obtain ⟨b1, b2⟩ := hitem
              simp only [itemDiffs]
              have hvs : ValidSeq [d0] mid := ⟨b1, mid2, b2, trivial⟩
              obtain ⟨out, st2, below', g1, g2, g3, g4, g5, g6⟩ := stage_onDiffs_sound T st mid [d0] hinv hvs (by rw [hns]; intro h; cases h)
              have hb' : below' = mid2 := by
                simp only [applyAll, validOn_applicable d0 mid b1, if_true, b2, Option.bind_some, Option.some.injEq] at g2
                exact g2.symm
              subst hb'
              simp only [g1]
              have hst2 : UDStage st2 := ⟨g6.trans hns, fun h => (limOf_onDiffs T st st2 [d0] out g1).trans (htl ((isTail_onDiffs T st st2 [d0] out g1) ▸ h))⟩
              have hready2 : st2.ready = [] := (ready_onDiffs T st st2 [d0] out g1).trans hready
              have hall2 : ∀ st' ∈ st2 :: inner', UDStage st' := by
                intro st' hst'
                rcases List.mem_cons.mp hst' with rfl | h
                · exact hst2
                · exact hsta st' h
              cases out with
              | nil =>
                simp only [emit]
                simp [applyAll] at g4
                have hsh3 : ShownTop T (st2 :: inner') rep2 (st.viewOn T mid) :=
                  ⟨below', hsm2, g3, by rw [hready2]; trivial, by rw [hready2, g4]; rfl⟩
                exact ih (st2 :: inner') w2 r2 rep2 (st.viewOn T mid) hva hta hall2 hr2 hal2 hnb2 hrep2 hsh3
              | cons d rest =>
                simp only [emit, Bool.false_eq_true, if_false]
                right
                obtain ⟨c1, top1, c2, c3⟩ := g5
                simp only [applyAll, validOn_applicable d _ c1, if_true, c2, Option.bind_some] at g4
                have hrest : (st2.setReady rest).ready = rest := by
                  by_cases hf : ∃ f s, st = .filter f s
                  · obtain ⟨f, s, rfl⟩ := hf
                    obtain ⟨hl, fs2, rfl⟩ := filter_onDiffs_single T f s d0 (d :: rest) st2 g1
                    have : rest = [] := by cases rest <;> simp_all
                    subst this; rfl
                  · have hnf2 : ∀ f s, st2 ≠ .filter f s := by
                      intro f s h2
                      cases st <;> simp only [Stage.onDiffs, Option.map_eq_some_iff] at g1
                      all_goals first
                        | (obtain ⟨⟨x, y⟩, _, e⟩ := g1; cases e; cases h2)
                        | (exact hf ⟨_, _, rfl⟩)
                    exact ready_setReady st2 rest hst2.1 hnf2
                refine ⟨hva, hta, ?_, r2, rep2, top1, hr2, hal2, hnb2, hrep2, ⟨below', hsm2, (inv_setReady T st2 rest below').mpr g3, ?_, ?_⟩, c1, c2⟩
                · intro st' hst'
                  rcases List.mem_cons.mp hst' with rfl | h
                  · exact ⟨(isSort_setReady st2 rest).trans hst2.1, fun h => (limOf_setReady st2 rest).trans (hst2.2 ((isTail_setReady st2 rest) ▸ h))⟩
                  · exact hsta st' h
                · rw [hrest]; exact c3
                · rw [hrest, viewOn_setReady]; exact g4


/-- the constructors the theorem covers: everything but Sort and a dynamic Tail -/
def StageSpec.isUD : StageSpec → Bool
  | .sort _ | .dtail _ | .dtaili _ _ => false
  | _ => true

theorem mkStage_ud {α} (T : Tables α) (vals : List α) (sp : StageSpec) (h : sp.isUD = true) :
    UDStage (mkStage T vals sp).1 ∧ (mkStage T vals sp).1.ready = [] ∧ (mkStage T vals sp).1.Inv T vals ∧
    (mkStage T vals sp).1.viewOn T vals = (mkStage T vals sp).2 := by
  cases sp <;> simp [StageSpec.isUD] at h <;>
    simp [mkStage, UDStage, Stage.ready, Stage.limOf, Stage.isSort, Stage.isTail, Stage.Inv, Stage.viewOn, head_initial, tail_initial, skeep_eq,
      Skip.viewOf, lastN, Filter.init, FInv]

/-- the invariant of the unbatched pipeline with dynamic stages holds from construction on -/
theorem shownTop_initial_ud {α} (T : Tables α) (vals : List α) (specs : List StageSpec) (h : ∀ sp ∈ specs, sp.isUD = true) :
    ShownTop T (mkPipe T vals specs).1 vals (mkPipe T vals specs).2 ∧ ∀ st ∈ (mkPipe T vals specs).1, UDStage st := by
  unfold mkPipe
  have key : ∀ (specs : List StageSpec) (acc : List (Stage α)) (v : List α), (∀ sp ∈ specs, sp.isUD = true) →
      ShownTop T acc vals v → (∀ st ∈ acc, UDStage st) →
      let r := specs.foldl (fun (acc : List (Stage α) × List α) sp =>
        let (st, v) := mkStage T acc.2 sp
        (st :: acc.1, v)) (acc, v)
      ShownTop T r.1 vals r.2 ∧ ∀ st ∈ r.1, UDStage st := by
    intro specs
    induction specs with
    | nil => intro acc v _ h1 h2; exact ⟨h1, h2⟩
    | cons sp rest ih =>
      intro acc v hs h1 h2
      simp only [List.foldl_cons]
      obtain ⟨g0, gr, g1, g2⟩ := mkStage_ud T v sp (hs sp (List.mem_cons_self ..))
      apply ih _ _ (fun sp' h' => hs sp' (List.mem_cons_of_mem _ h'))
      · exact ⟨v, h1, g1, by rw [gr]; trivial, by rw [gr, ← g2]; rfl⟩
      · intro st hst
        rcases List.mem_cons.mp hst with rfl | h'
        · exact g0
        · exact h2 st h'
  exact key specs [] vals h rfl (by intro st hst; simp at hst)

end EV
