/-
  C01 — subscribers see the latest value and exactly the updates they have not observed.

  `fresh` is the specification-level ghost flag of a subscriber: set by every notifying update and by
  `reset` / `subscribe_reset` / `clone_reset`, copied by `clone`, cleared by a ready poll, `next_now` and
  `subscribe`; `get` / `read` do not touch it. The theorems say that the version-counter mechanism of the code
  computes exactly this flag, for every reachable world.
-/
import EyeballVerif.Lemmas.ObsInv
namespace EV
open OWorld

/-- reachable worlds: any sequence of calls on a fresh `Observable` or `SharedObservable` -/
def OReach {α} (eqv : α → α → Bool) (hash : α → Nat) (dflt : α) (w : OWorld α) : Prop :=
  ∃ (v : α) (evs : List (OEv α)), w = evs.foldl (OWorld.step eqv hash dflt) (OWorld.newUnique v) ∨
           w = evs.foldl (OWorld.step eqv hash dflt) (OWorld.newShared v)

theorem c01_reach_inv {α} (eqv : α → α → Bool) (hash : α → Nat) (dflt : α) (w : OWorld α)
    (h : OReach eqv hash dflt w) : OInv w := by
  obtain ⟨v, evs, h | h⟩ := h
  · rw [h]; exact oinv_run _ _ _ _ (oinv_newUnique v) evs
  · rw [h]; exact oinv_run _ _ _ _ (oinv_newShared v) evs

/-- **`next()` / the stream is ready exactly when there is something new**: in every reachable world, a
    poll of a live subscriber answers `End` iff no owner is left, otherwise `Ready(latest value)` iff the
    subscriber has not yet been shown a notifying update (or was reset), otherwise `Pending`. -/
theorem c01_poll_spec {α} (w : OWorld α) (hi : OInv w) (i : Nat) (s : SubSt) (hs : w.subs[i]? = some s)
    (ha : s.alive = true) :
    ∃ w', w.poll i = some (w',
      if w.st.version = 0 then .done else if s.fresh then .ready w.st.value else .pending) := by
  have h6 := (hi.subs_ok i s hs ha).1
  unfold OWorld.poll
  simp only [hs, ha, Bool.not_true, Bool.false_eq_true, if_false]
  unfold ObsSt.pollUpdate
  by_cases hv : w.st.version = 0
  · simp [hv]
  · have := h6 hv
    by_cases hf : s.fresh
    · have hlt : s.observed < w.st.version := this.2.mpr hf
      simp [hv, hf, hlt]
    · have hlt : ¬ s.observed < w.st.version := fun h => hf (this.2.mp h)
      simp [hv, hf, hlt]

/-- a ready poll shows the value once: the flag is cleared, so (without a further notifying update) the
    next poll is `Pending` — intermediate values are skipped, the latest one is delivered once -/
theorem c01_ready_clears {α} (w w' : OWorld α) (i : Nat) (v : α) (h : w.poll i = some (w', .ready v)) :
    ∃ s', w'.subs[i]? = some s' ∧ s'.fresh = false ∧ s'.observed = w.st.version ∧ v = w.st.value ∧ w'.st = w.st := by
  unfold OWorld.poll at h
  cases hs : w.subs[i]? with
  | none => simp [hs] at h
  | some s =>
    simp only [hs] at h
    split at h
    · simp at h
    · unfold ObsSt.pollUpdate at h
      have hi : i < w.subs.length := by
        rcases List.getElem?_eq_some_iff.mp hs with ⟨h1, _⟩; exact h1
      by_cases hv : w.st.version = 0
      · simp [hv] at h
      · by_cases hlt : s.observed < w.st.version
        · simp [hv, hlt] at h
          obtain ⟨rfl, rfl⟩ := h
          refine ⟨{ s with observed := w.st.version, fresh := false, parked := false }, by simp [hi], rfl, rfl, rfl, rfl⟩
        · simp [hv, hlt] at h

/-- the decision logic of the setters, stated outright -/
theorem c01_set_notifies {α} (s : ObsSt α) (v : α) :
    (s.set v).1.value = v ∧ (s.set v).1.version = s.version + 1 ∧ (s.set v).2.1 = s.value ∧ (s.set v).2.2 = s.wakers := by
  simp [ObsSt.set, ObsSt.bump]

theorem c01_set_if_not_eq {α} (eqv : α → α → Bool) (s : ObsSt α) (v : α) :
    (eqv s.value v = true → s.setIfNotEq eqv v = (s, none, [])) ∧
    (eqv s.value v = false → s.setIfNotEq eqv v = ((s.set v).1, some s.value, s.wakers)) := by
  constructor <;> intro h <;> simp [ObsSt.setIfNotEq, h, ObsSt.set, ObsSt.bump]

theorem c01_set_if_hash_not_eq {α} (hash : α → Nat) (s : ObsSt α) (v : α) :
    (hash s.value = hash v → s.setIfHashNotEq hash v = (s, none, [])) ∧
    (hash s.value ≠ hash v → s.setIfHashNotEq hash v = ((s.set v).1, some s.value, s.wakers)) := by
  constructor <;> intro h <;> simp [ObsSt.setIfHashNotEq, h, ObsSt.set, ObsSt.bump]

theorem c01_update_if {α} (s : ObsSt α) (f : α → α) :
    (s.updateIf f false = ({ s with value := f s.value }, [])) ∧
    (s.updateIf f true = ({ value := f s.value, version := s.version + 1, wakers := [] }, s.wakers)) := by
  simp [ObsSt.updateIf, ObsSt.bump]

/-- every notifying writer marks *all* subscribers; a non-notifying one marks nobody -/
theorem c01_write_marks {α} (eqv : α → α → Bool) (hash : α → Nat) (dflt : α) (w w' : OWorld α) (h : Nat)
    (op : WOp α) (r : WRet α) (wk : List Nat) (hw : w.write eqv hash dflt h op = some (w', r, wk)) :
    (w'.st.version = w.st.version + 1 ∧ ∀ s ∈ w'.subs, s.fresh = true) ∨ (w'.st.version = w.st.version ∧ w'.subs = w.subs) := by
  unfold OWorld.write at hw
  split at hw
  · simp at hw
  · cases op with
    | set v => simp [ObsSt.set, ObsSt.bump, OWorld.markFresh] at hw; obtain ⟨rfl, _, _⟩ := hw; left; simp
    | take => simp [ObsSt.set, ObsSt.bump, OWorld.markFresh] at hw; obtain ⟨rfl, _, _⟩ := hw; left; simp
    | update f => simp [ObsSt.update, ObsSt.bump, OWorld.markFresh] at hw; obtain ⟨rfl, _, _⟩ := hw; left; simp
    | setIfNotEq v =>
      simp only [ObsSt.setIfNotEq] at hw
      by_cases he : eqv w.st.value v
      · simp [he] at hw; obtain ⟨rfl, _, _⟩ := hw; right; simp
      · simp [he, ObsSt.set, ObsSt.bump, OWorld.markFresh] at hw; obtain ⟨rfl, _, _⟩ := hw; left; simp
    | setIfHashNotEq v =>
      simp only [ObsSt.setIfHashNotEq] at hw
      by_cases he : hash w.st.value = hash v
      · simp [he] at hw; obtain ⟨rfl, _, _⟩ := hw; right; simp
      · simp [he, ObsSt.set, ObsSt.bump, OWorld.markFresh] at hw; obtain ⟨rfl, _, _⟩ := hw; left; simp
    | updateIf f n =>
      simp only [ObsSt.updateIf] at hw
      cases n with
      | true => simp [ObsSt.bump, OWorld.markFresh] at hw; obtain ⟨rfl, _, _⟩ := hw; left; simp
      | false => simp at hw; obtain ⟨rfl, _, _⟩ := hw; right; simp

/-- `get` / `read` never change anything; `next_now` hands out the latest value and marks it observed -/
theorem c01_next_now_marks {α} (w w' : OWorld α) (i : Nat) (v : α) (h : w.nextNow i = some (w', v)) :
    v = w.st.value ∧ w'.st = w.st ∧ ∃ s', w'.subs[i]? = some s' ∧ s'.fresh = false := by
  unfold OWorld.nextNow at h
  cases hs : w.subs[i]? with
  | none => simp [hs] at h
  | some s =>
    simp only [hs] at h
    split at h
    · simp at h
    · simp at h; obtain ⟨rfl, rfl⟩ := h
      have hi : i < w.subs.length := by
        rcases List.getElem?_eq_some_iff.mp hs with ⟨h1, _⟩; exact h1
      exact ⟨rfl, rfl, { s with observed := w.st.version, fresh := false }, by simp [hi], rfl⟩

theorem c01_get_latest {α} (w : OWorld α) (i : Nat) (v : α) (h : w.get i = some v) : v = w.st.value := by
  unfold OWorld.get at h; split at h <;> simp at h; exact h.symm

-- non-vacuity: a reachable world with a subscriber that skipped an intermediate value
example :
    let step := OWorld.step (α := Nat) (fun a b => a % 8 == b % 8) (fun a => a / 8) 0
    let w := [OEv.subscribe 0 false, .write 0 (.set 5), .write 0 (.set 6), .poll 0, .poll 0].foldl step (OWorld.newUnique 1)
    (w.subs.map (·.observed)) = [3] ∧ w.st.value = 6 ∧ (w.subs.map (·.parked)) = [true] ∧ w.st.wakers = [0] := by decide

end EV
