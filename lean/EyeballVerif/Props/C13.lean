/-
  C13 — batched adapters never expose a half-applied transaction.
-/
import EyeballVerif.Lemmas.PipeBasics
import EyeballVerif.Lemmas.Recv
namespace EV

/-- the vector never publishes an empty message (c07: a commit without recorded changes publishes nothing) -/
def NoEmptyMsg {α} (log : List (Msg α)) : Prop := ∀ m ∈ log, m.diffs ≠ []

theorem batchLoop_nonempty {α} (B : Nat) (log : List (Msg α)) (c : Bool) (fuel n : Nat) (acc : List (Diff α))
    (hacc : acc ≠ []) : (batchLoop B log c fuel n acc).1 ≠ .batch [] := by
  induction fuel generalizing n acc with
  | zero => simp [batchLoop, hacc]
  | succ f ih =>
    unfold batchLoop
    generalize tryRecv B log c n = t
    obtain ⟨a, n'⟩ := t
    cases a <;> simp only
    · exact ih _ _ (by simp [hacc])
    · simp [hacc]
    · simp [hacc]
    · generalize handleLag B log c (B + 2) n' none = q
      obtain ⟨q1, q2⟩ := q
      rcases q1 with _ | (_ | _) <;> simp

/-- the batched subscriber stream never yields an empty batch -/
theorem sub_no_empty_batch {α} (s s' : OV α) (i : Nat) (it : Item α) (hne : NoEmptyMsg s.log)
    (h : s.poll i = some (it, s')) : it ≠ .batch [] := by
  unfold OV.poll at h
  cases hs : s.subs[i]? with
  | none => simp [hs] at h
  | some r =>
    simp only [hs] at h
    split at h
    · simp at h
    · simp at h
      obtain ⟨rfl, _⟩ := h
      split
      · unfold pollBatched
        generalize ht : tryRecv s.B s.log (!s.alive) r.next = t
        obtain ⟨a, n⟩ := t
        cases a <;> simp only
        · rename_i m
          have hm : m ∈ s.log := by
            unfold tryRecv at ht
            split at ht
            · simp at ht
            · cases hx : s.log[r.next]? with
              | none => simp [hx] at ht; split at ht <;> simp at ht
              | some m' => simp [hx] at ht; rw [← ht.1]; exact List.mem_of_getElem? hx
          have := batchLoop_nonempty s.B s.log (!s.alive) (s.log.length - n + 1) n m.diffs (hne m hm)
          generalize batchLoop s.B s.log (!s.alive) (s.log.length - n + 1) n m.diffs = q at this
          obtain ⟨q1, q2⟩ := q
          simpa using this
        · simp
        · simp
        · generalize handleLag s.B s.log (!s.alive) (s.B + 2) n none = q
          obtain ⟨q1, q2⟩ := q
          rcases q1 with _ | (_ | _) <;> simp
      · unfold pollPlain
        cases r.rest with
        | cons d ds => simp
        | nil =>
          simp only
          generalize tryRecv s.B s.log (!s.alive) r.next = t
          obtain ⟨a, n⟩ := t
          cases a <;> simp only
          · rename_i m; cases m.diffs <;> simp
          · simp
          · simp
          · generalize handleLag s.B s.log (!s.alive) (s.B + 2) n none = q
            obtain ⟨q1, q2⟩ := q
            rcases q1 with _ | (_ | _) <;> simp

/-- **No adapter, alone or in a chain of any length, ever emits an empty batch** (given that the vector never
    publishes an empty message — which `c07_commit` guarantees). -/
theorem c13_no_empty_batch {α} (T : Tables α) (b : Bool) (sub fuel : Nat) (sts : List (Stage α)) (w : PWorld α)
    (hne : NoEmptyMsg w.ov.log) : (pollStages T b sub fuel sts w).1 ≠ .batch [] := by
  apply pollStages_item T b sub (fun w => NoEmptyMsg w.ov.log) (fun it => it ≠ .batch [])
  · intro w k h; rw [limPoll_frame]; exact h
  · intro w it ov' h hw; rw [(ov_poll_frame _ _ _ _ h).1]; exact hw
  · intro w it ov' hw h; exact sub_no_empty_batch _ _ _ _ hw h
  · intro d; simp
  · simp
  · intro ds it rest h
    rcases emit_kind b ds it rest h with ⟨d, rfl⟩ | ⟨xs, rfl, hx⟩
    · simp
    · simpa using hx
  · exact hne

/-- **The two containers run the same rewriting.** Handling a batch `ds₁ ++ ds₂` in one go (the `Vec`
    container's `flat_map`) produces exactly the diffs, in the same order, and the same buffered vector as
    handling `ds₁` and then `ds₂` (what the single-diff container does over consecutive polls). -/
theorem c13_mapDiffs_append {α} (h : Diff α → Nat → List α → List (Diff α)) (ds1 ds2 : List (Diff α))
    (buf : List α) (out : List (Diff α)) :
    mapDiffs h (ds1 ++ ds2) buf out = (mapDiffs h ds1 buf out).bind (fun p => mapDiffs h ds2 p.1 p.2) := by
  induction ds1 generalizing buf out with
  | nil => simp [mapDiffs]
  | cons d ds ih =>
    simp only [List.cons_append, mapDiffs]
    cases d.apply buf with
    | none => simp
    | some b' => simp [ih]

/-- the accumulator of `mapDiffs` is only a prefix: the diffs produced for a batch do not depend on what was
    produced before it -/
theorem c13_mapDiffs_acc {α} (h : Diff α → Nat → List α → List (Diff α)) (ds : List (Diff α))
    (buf : List α) (out : List (Diff α)) :
    mapDiffs h ds buf out = (mapDiffs h ds buf []).map (fun p => (p.1, out ++ p.2)) := by
  induction ds generalizing buf out with
  | nil => simp [mapDiffs]
  | cons d ds ih =>
    simp only [mapDiffs]
    cases d.apply buf with
    | none => simp
    | some b' =>
      simp only
      rw [ih b' (out ++ h d buf.length b'), ih b' ([] ++ h d buf.length b')]
      cases mapDiffs h ds b' [] with
      | none => simp
      | some p => simp [List.append_assoc]

end EV
