/-
  The poll-loop theorem for the unbatched flavour: the adapters hand out one diff at a time and buffer the rest of what
  one update maps to (ready_values); ShownTop relates what the consumer has been shown to the stages' true views.
-/
import EyeballVerif.Props.PipeSound
namespace EV

theorem inv_setReady {α} (T : Tables α) (st : Stage α) (r : List (Diff α)) (v : List α) : (st.setReady r).Inv T v ↔ st.Inv T v := by
  cases st <;> simp [Stage.setReady, Stage.Inv]
theorem viewOn_setReady {α} (T : Tables α) (st : Stage α) (r : List (Diff α)) (v : List α) : (st.setReady r).viewOn T v = st.viewOn T v := by
  cases st <;> simp [Stage.setReady, Stage.viewOn]
theorem isSort_setReady {α} (st : Stage α) (r : List (Diff α)) : (st.setReady r).isSort = st.isSort := by
  cases st <;> simp [Stage.setReady, Stage.isSort]
theorem ready_setReady {α} (st : Stage α) (r : List (Diff α)) (h : st.isSort = false) (hf : ∀ f s, st ≠ .filter f s) : (st.setReady r).ready = r := by
  cases st <;> simp_all [Stage.setReady, Stage.ready, Stage.isSort]

/-- what the consumer of the (unbatched) pipeline has been shown so far: below every stage the view shown by the stage
    underneath, and the stage's buffered diffs lead from what it has shown to its true view -/
def ShownTop {α} (T : Tables α) : List (Stage α) → List α → List α → Prop
  | [], rep, top => top = rep
  | st :: inner, rep, top => ∃ mid, ShownTop T inner rep mid ∧ st.Inv T mid ∧ ValidSeq st.ready top ∧ applyAll st.ready top = some (st.viewOn T mid)

/-- a Filter stage buffers nothing (`ready` is always empty) -/
theorem filter_ready {α} (st : Stage α) (f : Nat) (s : FilterSt) (h : st = .filter f s) : st.ready = [] := by subst h; rfl


theorem filter_onDiffs_single {α} (T : Tables α) (f : Nat) (fs : FilterSt) (d : Diff α) (out : List (Diff α)) (st2 : Stage α)
    (h : (Stage.filter f fs).onDiffs T [d] = some (out, st2)) : out.length ≤ 1 ∧ ∃ fs2, st2 = .filter f fs2 := by
  simp only [Stage.onDiffs, List.foldl_cons, List.foldl_nil, List.nil_append, Option.some.injEq, Prod.mk.injEq] at h
  obtain ⟨h1, h2⟩ := h
  subst h1; subst h2
  exact ⟨by cases (Filter.handle (T.filt f) d fs).1 <;> simp, _, rfl⟩

theorem plain_never_batch {α} (s s' : OV α) (i : Nat) (it : Item α) (r : Sub α) (hs : s.subs[i]? = some r) (hb : r.batched = false)
    (h : s.poll i = some (it, s')) : ∀ ds, it ≠ .batch ds := by
  obtain ⟨r0, hs0, _, hit, _⟩ := poll_unfold s s' i it h
  rw [hs] at hs0; cases hs0
  simp only [OV.pollOf, hb, Bool.false_eq_true, if_false] at hit
  intro ds hds
  rw [hds] at hit
  unfold pollPlain at hit
  split at hit
  · cases hit
  · split at hit
    · cases hit
    · cases hit
    · split at hit <;> cases hit
    · split at hit <;> cases hit

/-- **C12 / C13 at the level of the poll loop, unbatched flavour** (static chains of Head / Tail / Skip / Filter /
    FilterMap of any depth on a plain subscriber): the pipeline hands out one diff at a time, buffering the rest of what
    one update maps to; whatever the consumer has been shown so far (`top`), the diff handed out is valid on it and
    leads to a view `top'` from which the diffs still buffered in every stage lead to the stages' true views
    (`ShownTop`); `Pending` / `End` leave everything as it is; no stage panics. -/
theorem pipe_poll_sound_u {α} (T : Tables α) (sub : Nat) :
    ∀ (fuel : Nat) (sts : List (Stage α)) (w : PWorld α) (r : Sub α) (rep top : List α),
      VInv w.ov → TInv w.ov → (∀ st ∈ sts, st.limOf = none ∧ st.isSort = false) →
      w.ov.subs[sub]? = some r → r.alive = true → r.batched = false → r.replica = some rep → ShownTop T sts rep top →
      (pollStages T false sub fuel sts w).1 = .panic ∨
      (VInv (pollStages T false sub fuel sts w).2.2.ov ∧ TInv (pollStages T false sub fuel sts w).2.2.ov ∧
       (∀ st ∈ (pollStages T false sub fuel sts w).2.1, st.limOf = none ∧ st.isSort = false) ∧
       ∃ r' rep' top', (pollStages T false sub fuel sts w).2.2.ov.subs[sub]? = some r' ∧ r'.alive = true ∧ r'.batched = false ∧
         r'.replica = some rep' ∧ ShownTop T (pollStages T false sub fuel sts w).2.1 rep' top' ∧
         match (pollStages T false sub fuel sts w).1 with
         | .one d => d.validOn top = true ∧ d.apply top = some top'
         | .pending | .done => top' = top
         | _ => False) := by
  intro fuel
  induction fuel with
  | zero => intro sts w r rep top _ _ _ _ _ _ _ _; left; simp [pollStages]
  | succ n ih =>
    intro sts w r rep top hv ht hst hr hal hnb hrep hsh
    cases sts with
    | nil =>
      simp only [ShownTop] at hsh
      have htop : rep = top := hsh.symm
      subst htop
      simp only [pollStages]
      cases hp : w.ov.poll sub with
      | none => left; rfl
      | some p =>
        obtain ⟨it, ov'⟩ := p
        simp only
        by_cases hpan : it = .panic
        · left; exact hpan
        right
        have hv' := vinv_poll w.ov ov' sub it hv hp
        have ht' := tinv_poll w.ov ov' sub it hv ht hp
        have hnobatch := plain_never_batch w.ov ov' sub it r hr hnb hp
        obtain ⟨r0, hs0, _, _, hs'⟩ := poll_unfold w.ov ov' sub it hp
        rw [hr] at hs0; cases hs0
        have hbat' : ∀ r', ov'.subs[sub]? = some r' → r'.batched = false := by
          intro r' hr'
          have hil : sub < w.ov.subs.length := by
            rcases List.getElem?_eq_some_iff.mp hr with ⟨g, _⟩; exact g
          rw [hs'] at hr'; simp only [List.getElem?_set_self hil] at hr'; cases hr'
          simp only [OV.pollOf, hnb, Bool.false_eq_true, if_false]
          exact (pollPlain_frame w.ov.B w.ov.log (!w.ov.alive) r hv.window (hv.subs sub r hr hal).2.1).2.1.trans hnb
        cases hd : itemDiffs it with
        | some ds =>
          obtain ⟨r1, r', rep1, rep', g1, g2, g3, g4, g5, g6, g7⟩ := poll_item_valid w.ov ov' sub it hv ht hp ds hd
          rw [hr] at g1; cases g1
          rw [hrep] at g3; cases g3
          refine ⟨hv', ht', by intro st hst'; simp at hst', r', rep', rep', g2, g5, hbat' r' g2, g4, rfl, ?_⟩
          cases it with
          | one d =>
            simp [itemDiffs] at hd; subst hd
            simp only [ValidSeq] at g6
            obtain ⟨a1, v', a2, _⟩ := g6
            simp only [applyAll, validOn_applicable d rep a1, if_true, a2, Option.bind_some] at g7
            exact ⟨a1, by rw [a2, g7]⟩
          | batch ds0 => exact absurd rfl (hnobatch ds0)
          | _ => simp [itemDiffs] at hd
        | none =>
          obtain ⟨r1, r', rep1, g1, g2, g3, _, ⟨g5, g6⟩, _⟩ := poll_cases w.ov ov' sub it hv hp
          rw [hr] at g1; cases g1
          rw [hrep] at g3; cases g3
          have hg : ghostRep it (some rep) = some rep := by
            cases it <;> simp [itemDiffs] at hd <;> simp [ghostRep]
          rw [hg] at g5
          refine ⟨hv', ht', by intro st hst'; simp at hst', r', rep, rep, g2, g6, hbat' r' g2, g5, rfl, ?_⟩
          cases it <;> simp [itemDiffs] at hd <;> first | rfl | exact hpan rfl
    | cons st inner =>
      obtain ⟨hlim, hns⟩ := hst st (List.mem_cons_self ..)
      have hinner : ∀ st' ∈ inner, st'.limOf = none ∧ st'.isSort = false := fun st' h => hst st' (List.mem_cons_of_mem _ h)
      obtain ⟨mid, hsm, hinv, hvr, har⟩ := hsh
      simp only [pollStages]
      cases hready : st.ready with
      | cons d rest =>
        -- hand out a buffered diff
        simp only
        right
        rw [hready] at hvr har
        obtain ⟨a1, top1, a2, a3⟩ := hvr
        simp only [applyAll, validOn_applicable d top a1, if_true, a2, Option.bind_some] at har
        have hnf : ∀ f s, st ≠ .filter f s := by intro f s h; rw [filter_ready st f s h] at hready; cases hready
        refine ⟨hv, ht, ?_, r, rep, top1, hr, hal, hnb, hrep, ⟨mid, hsm, (inv_setReady T st rest mid).mpr hinv, ?_, ?_⟩, a1, a2⟩
        · intro st' hst'
          rcases List.mem_cons.mp hst' with rfl | h
          · exact ⟨(limOf_setReady st rest).trans hlim, (isSort_setReady st rest).trans hns⟩
          · exact hinner st' h
        · rw [ready_setReady st rest hns hnf]; exact a3
        · rw [ready_setReady st rest hns hnf, viewOn_setReady]; exact har
      | nil =>
        simp only [hlim, limPoll]
        rw [hready] at har
        simp only [applyAll, Option.some.injEq] at har
        subst har
        have hIH := ih inner w r rep mid hv ht hinner hr hal hnb hrep hsm
        generalize hcall : pollStages T false sub n inner w = res at hIH
        obtain ⟨it, inner', w2⟩ := res
        simp only at hIH ⊢
        rcases hIH with hpan | ⟨hva, hta, hsta, r2, rep2, mid2, hr2, hal2, hnb2, hrep2, hsm2, hitem⟩
        · left; subst hpan; simp [itemDiffs]
        · cases it with
          | panic => exact absurd hitem (by simp)
          | batch ds0 => exact absurd hitem (by simp)
          | pending =>
            simp only at hitem; subst hitem
            right
            simp only [itemDiffs]
            refine ⟨hva, hta, ?_, r2, rep2, _, hr2, hal2, hnb2, hrep2, ⟨mid2, hsm2, hinv, by rw [hready]; trivial, by rw [hready]; rfl⟩, rfl⟩
            intro st' hst'
            rcases List.mem_cons.mp hst' with rfl | h
            · exact ⟨hlim, hns⟩
            · exact hsta st' h
          | done =>
            simp only at hitem; subst hitem
            right
            simp only [itemDiffs]
            refine ⟨hva, hta, ?_, r2, rep2, _, hr2, hal2, hnb2, hrep2, ⟨mid2, hsm2, hinv, by rw [hready]; trivial, by rw [hready]; rfl⟩, rfl⟩
            intro st' hst'
            rcases List.mem_cons.mp hst' with rfl | h
            · exact ⟨hlim, hns⟩
            · exact hsta st' h
          | one d0 =>
            simp only at hitem
            obtain ⟨b1, b2⟩ := hitem
            simp only [itemDiffs]
            have hvs : ValidSeq [d0] mid := ⟨b1, mid2, b2, trivial⟩
            obtain ⟨out, st2, below', g1, g2, g3, g4, g5, g6⟩ := stage_onDiffs_sound T st mid [d0] hinv hvs (by rw [hns]; intro h; cases h)
            have hb' : below' = mid2 := by
              simp only [applyAll, validOn_applicable d0 mid b1, if_true, b2, Option.bind_some, Option.some.injEq] at g2
              exact g2.symm
            subst hb'
            simp only [g1]
            have hst2 : st2.limOf = none ∧ st2.isSort = false := ⟨(limOf_onDiffs T st st2 [d0] out g1).trans hlim, g6.trans hns⟩
            have hready2 : st2.ready = [] := (ready_onDiffs T st st2 [d0] out g1).trans hready
            have hall2 : ∀ st' ∈ st2 :: inner', st'.limOf = none ∧ st'.isSort = false := by
              intro st' hst'
              rcases List.mem_cons.mp hst' with rfl | h
              · exact hst2
              · exact hsta st' h
            cases out with
            | nil =>
              simp only [emit]
              simp [applyAll] at g4
              have hsh3 : ShownTop T (st2 :: inner') rep2 (st.viewOn T mid) :=
                ⟨below', hsm2, g3, by rw [hready2]; trivial, by rw [hready2, g4]; rfl⟩
              exact ih (st2 :: inner') w2 r2 rep2 (st.viewOn T mid) hva hta hall2 hr2 hal2 hnb2 hrep2 hsh3
            | cons d rest =>
              simp only [emit, Bool.false_eq_true, if_false]
              right
              obtain ⟨c1, top1, c2, c3⟩ := g5
              simp only [applyAll, validOn_applicable d _ c1, if_true, c2, Option.bind_some] at g4
              -- a Filter stage maps one diff to at most one: nothing is lost by its `setReady`
              have hrest : (st2.setReady rest).ready = rest := by
                by_cases hf : ∃ f s, st = .filter f s
                · obtain ⟨f, s, rfl⟩ := hf
                  obtain ⟨hl, fs2, rfl⟩ := filter_onDiffs_single T f s d0 (d :: rest) st2 g1
                  have : rest = [] := by cases rest <;> simp_all
                  subst this; rfl
                · have hnf2 : ∀ f s, st2 ≠ .filter f s := by
                    intro f s h2
                    cases st <;> simp only [Stage.onDiffs, Option.map_eq_some_iff] at g1
                    all_goals first
                      | (obtain ⟨⟨x, y⟩, _, e⟩ := g1; cases e; cases h2)
                      | (exact hf ⟨_, _, rfl⟩)
                  exact ready_setReady st2 rest hst2.2 hnf2
              refine ⟨hva, hta, ?_, r2, rep2, top1, hr2, hal2, hnb2, hrep2, ⟨below', hsm2, (inv_setReady T st2 rest below').mpr g3, ?_, ?_⟩, c1, c2⟩
              · intro st' hst'
                rcases List.mem_cons.mp hst' with rfl | h
                · exact ⟨(limOf_setReady st2 rest).trans hst2.1, (isSort_setReady st2 rest).trans hst2.2⟩
                · exact hsta st' h
              · rw [hrest]; exact c3
              · rw [hrest, viewOn_setReady]; exact g4


/-- the invariant of the unbatched pipeline holds from construction on: nothing buffered, the shown view is the
    initial values the outermost constructor hands out -/
theorem shownTop_initial {α} (T : Tables α) (vals : List α) (specs : List StageSpec) (h : ∀ sp ∈ specs, sp.isStaticNoSort = true) :
    ShownTop T (mkPipe T vals specs).1 vals (mkPipe T vals specs).2 := by
  unfold mkPipe
  have key : ∀ (specs : List StageSpec) (acc : List (Stage α)) (v : List α), (∀ sp ∈ specs, sp.isStaticNoSort = true) →
      ShownTop T acc vals v →
      let r := specs.foldl (fun (acc : List (Stage α) × List α) sp =>
        let (st, v) := mkStage T acc.2 sp
        (st :: acc.1, v)) (acc, v)
      ShownTop T r.1 vals r.2 := by
    intro specs
    induction specs with
    | nil => intro acc v _ h1; exact h1
    | cons sp rest ih =>
      intro acc v hs h1
      simp only [List.foldl_cons]
      obtain ⟨g0, g1, g2⟩ := mkStage_static T v sp (hs sp (List.mem_cons_self ..))
      apply ih _ _ (fun sp' h' => hs sp' (List.mem_cons_of_mem _ h'))
      exact ⟨v, h1, g1, by rw [g0.1]; trivial, by rw [g0.1, ← g2]; rfl⟩
  exact key specs [] vals h rfl

end EV
