/-
  C15 — a fixed-limit Head/Tail view never exceeds its limit, even between two diffs.
-/
import EyeballVerif.Lemmas.AdapterBasics
namespace EV

/-- every intermediate replica — before the first diff and after each single diff — has at most `L` items,
    and every diff is applicable -/
def runBounded {α} (L : Nat) : List (Diff α) → List α → Bool
  | [], l => decide (l.length ≤ L)
  | d :: ds, l =>
    decide (l.length ≤ L) && d.applicable l &&
      (match d.apply l with
       | some l' => runBounded L ds l'
       | none => false)

theorem runBounded_popFronts {α} (L k : Nat) (rest : List (Diff α)) (l : List α) (hl : l.length ≤ L)
    (hk : k ≤ l.length) :
    runBounded L (List.replicate k .popFront ++ rest) l = runBounded L rest (l.drop k) := by
  induction k generalizing l with
  | zero => simp
  | succ k ih =>
    have hne : l ≠ [] := by intro h; simp [h] at hk
    have hne' : l.isEmpty = false := by cases l <;> simp_all
    simp only [List.replicate_succ, List.cons_append, runBounded, Diff.applicable, Diff.apply, hne',
      decide_eq_true hl, Bool.not_false, Bool.and_self, Bool.true_and]
    rw [ih _ (by simp; omega) (by simp; omega)]
    simp [List.drop_drop]

theorem runBounded_popBacks {α} (L k : Nat) (rest : List (Diff α)) (l : List α) (hl : l.length ≤ L)
    (hk : k ≤ l.length) :
    runBounded L (List.replicate k .popBack ++ rest) l = runBounded L rest (l.take (l.length - k)) := by
  induction k generalizing l with
  | zero => simp
  | succ k ih =>
    have hne : l ≠ [] := by intro h; simp [h] at hk
    have hne' : l.isEmpty = false := by cases l <;> simp_all
    simp only [List.replicate_succ, List.cons_append, runBounded, Diff.applicable, Diff.apply, hne',
      decide_eq_true hl, Bool.not_false, Bool.and_self, Bool.true_and]
    rw [ih _ (by simp; omega) (by simp; omega)]
    simp [List.dropLast_eq_take, List.take_take]
    congr 2; omega

theorem runBounded_pushFronts {α} (L : Nat) (xs : List α) (l : List α) (h : xs.length + l.length ≤ L) :
    runBounded L (xs.map .pushFront) l = true := by
  induction xs generalizing l with
  | nil => simp [runBounded]; simpa using h
  | cons x xs ih =>
    simp only [List.map_cons, runBounded, Diff.applicable, Diff.apply]
    simp only [List.length_cons] at h
    simp only [decide_eq_true (show l.length ≤ L by omega), Bool.and_self, Bool.true_and]
    exact ih _ (by simp; omega)

/-- C15, Head: with a fixed limit, the view has at most `limit` items after every single emitted diff -/
theorem head_prefix_bound {α} (d : Diff α) (v v' : List α) (L : Nat)
    (hv : d.validOn v = true) (ha : d.apply v = some v') :
    runBounded L (Head.handleDiff d L v.length v') (v.take L) = true := by
  by_cases hL : L = 0
  · subst hL; simp [Head.handleDiff, runBounded]
  · cases d <;>
      simp [Diff.apply, Diff.validOn, Diff.applicable] at ha hv <;>
      (try (obtain ⟨_, rfl⟩ := ha)) <;> (try subst ha) <;>
      simp only [Head.handleDiff, hL, getPush, if_false, ↓reduceIte] <;>
      (repeat' split) <;>
      simp [runBounded, Diff.applicable, Diff.apply] <;> fin

theorem runBounded_mono_nil {α} (L : Nat) (l : List α) : runBounded L ([] : List (Diff α)) l = decide (l.length ≤ L) := rfl

/-- C15, Tail -/
theorem tail_prefix_bound {α} (d : Diff α) (v v' : List α) (L : Nat)
    (hv : d.validOn v = true) (ha : d.apply v = some v') :
    runBounded L (Tail.handleDiff d L v.length v') (lastN L v) = true := by
  by_cases hL : L = 0
  · subst hL; simp [Tail.handleDiff, runBounded, lastN]
  · cases d with
    | append vs =>
      simp [Diff.apply] at ha; subst ha
      simp only [Tail.handleDiff, hL, if_false, truncateFromEnd_eq]
      rw [runBounded_popFronts _ _ _ _ (by simp [lastN]; omega) (by simp [lastN]; omega)]
      simp [runBounded, Diff.applicable, Diff.apply, lastN]
      omega
    | truncate n =>
      simp [Diff.apply, Diff.validOn] at ha hv; subst ha
      simp only [Tail.handleDiff, hL, if_false]
      rw [runBounded_popBacks _ _ _ _ (by simp [lastN]; omega) (by simp [lastN]; omega)]
      apply runBounded_pushFronts
      simp [lastN]; omega
    | _ =>
      simp [Diff.apply, Diff.validOn, Diff.applicable] at ha hv <;>
      (try (obtain ⟨_, rfl⟩ := ha)) <;> (try subst ha) <;>
      simp only [Tail.handleDiff, hL, getPush, if_false, ↓reduceIte, truncateFromEnd_eq, lastN] <;>
      (repeat' split) <;>
      simp [runBounded, Diff.applicable, Diff.apply] <;> fin

/-- the initial values respect the bound -/
theorem c15_initial {α} (v : List α) (L : Nat) :
    (Head.initial v L).length ≤ L ∧ (Tail.initial v L).length ≤ L := by
  constructor
  · simp only [Head.initial]; split
    · simp; omega
    · omega
  · simp only [Tail.initial, truncateFromEnd_eq, lastN]; split
    · simp; omega
    · omega

/-- `runBounded` says what C15 says: every prefix of the emitted diffs leaves at most `L` items -/
theorem runBounded_prefix {α} (L : Nat) (ds : List (Diff α)) (l : List α) (h : runBounded L ds l = true)
    (k : Nat) (u : List α) (hu : applyAll (ds.take k) l = some u) : u.length ≤ L := by
  induction ds generalizing l k with
  | nil => simp [applyAll] at hu; subst hu; simpa [runBounded] using h
  | cons d ds ih =>
    simp only [runBounded, Bool.and_eq_true, decide_eq_true_eq] at h
    obtain ⟨⟨h1, h2⟩, h3⟩ := h
    cases k with
    | zero => simp [applyAll] at hu; subst hu; exact h1
    | succ k =>
      simp only [List.take_succ_cons, applyAll, h2, if_true] at hu
      cases hd : d.apply l with
      | none => simp [hd] at hu
      | some l' =>
        simp [hd] at hu h3
        exact ih l' h3 k hu

end EV
