/-
  Model of `eyeball_im::VectorDiff` (eyeball-im/src/vector.rs:347-470).

  `imbl::Vector<T>` is modelled as `List α` (API semantics read from imbl 5.0.0):
  `pop_front`/`pop_back` on an empty vector are no-ops, `truncate n` with `n ≥ len` is a no-op,
  `insert i` panics iff `i > len`, `set i`/`remove i` panic iff `i ≥ len`.
  A Rust panic is `none` (never a totalised default).
-/
namespace EV

inductive Diff (α : Type) where
  | append (vs : List α)
  | clear
  | pushFront (v : α)
  | pushBack (v : α)
  | popFront
  | popBack
  | insert (i : Nat) (v : α)
  | set (i : Nat) (v : α)
  | remove (i : Nat)
  | truncate (n : Nat)
  | reset (vs : List α)
  deriving Repr, DecidableEq

/-- `VectorDiff::apply` (vector.rs:433-469). `none` = the Rust code panics. -/
def Diff.apply {α} : Diff α → List α → Option (List α)
  | .append vs,  l => some (l ++ vs)
  | .clear,      _ => some []
  | .pushFront v, l => some (v :: l)
  | .pushBack v, l => some (l ++ [v])
  | .popFront,   l => some l.tail
  | .popBack,    l => some l.dropLast
  | .insert i v, l => if i ≤ l.length then some (l.take i ++ v :: l.drop i) else none
  | .set i v,    l => if i < l.length then some (l.set i v) else none
  | .remove i,   l => if i < l.length then some (l.eraseIdx i) else none
  | .truncate n, l => some (l.take n)
  | .reset vs,   _ => some vs

/-- `VectorDiff::map` (vector.rs:409-423). -/
def Diff.map {α β} (f : α → β) : Diff α → Diff β
  | .append vs   => .append (vs.map f)
  | .clear       => .clear
  | .pushFront v => .pushFront (f v)
  | .pushBack v  => .pushBack (f v)
  | .popFront    => .popFront
  | .popBack     => .popBack
  | .insert i v  => .insert i (f v)
  | .set i v     => .set i (f v)
  | .remove i    => .remove i
  | .truncate n  => .truncate n
  | .reset vs    => .reset (vs.map f)

/-- Strict applicability: what a bounds-checking replica demands
    (index in range, pop only from a non-empty replica). -/
def Diff.applicable {α} : Diff α → List α → Bool
  | .popFront,   l => !l.isEmpty
  | .popBack,    l => !l.isEmpty
  | .insert i _, l => i ≤ l.length
  | .set i _,    l => i < l.length
  | .remove i,   l => i < l.length
  | _,           _ => true

/-- What an `ObservableVector` (or a transaction) can emit when its contents are `l`:
    strict applicability plus "a `Truncate` really shortens" (vector.rs:211-219).
    `Clear` on an empty vector is included: a transaction records it (transaction.rs:81-88). -/
def Diff.validOn {α} : Diff α → List α → Bool
  | .truncate n, l => n < l.length
  | d,           l => d.applicable l

/-- Strict replay of a list of diffs: `none` as soon as one is not applicable. -/
def applyAll {α} : List (Diff α) → List α → Option (List α)
  | [],      l => some l
  | d :: ds, l => if d.applicable l then (d.apply l).bind (applyAll ds) else none

/-- the last `n` items -/
def lastN {α} (n : Nat) (l : List α) : List α := l.drop (l.length - n)

end EV
