/-
  Models of the diff-rewriting cores of the `eyeball-im-util` adapters, arm by arm.

  * Head   — eyeball-im-util/src/vector/head.rs   (`handle_diff` 338-448, `update_limit` 247-303, constructors 82-118)
  * Tail   — eyeball-im-util/src/vector/tail.rs   (`handle_diff` 357-493, `update_limit` 267-354, `truncate_from_end`)
  * Skip   — eyeball-im-util/src/vector/skip.rs   (`handle_diff` 377-505, `update_count` 273-374, `skeep`)
  * Filter — eyeball-im-util/src/vector/filter.rs (`handle_*` 151-393, constructors)
  * Sort   — eyeball-im-util/src/vector/sort.rs   (`handle_diff_and_update_buffered_vector` 319-710, `SortImpl::new`)

  `buf` is always the adapter's `buffered_vector` *after* the incoming diff has been applied to it
  (the Rust closures apply first and then call `handle_diff`), `prevLen` its length before.
  `usize` subtraction that the Rust writes with `saturating_sub` is `Nat` subtraction; a plain Rust `a - b`
  is only reached with `b ≤ a` for diffs that are `validOn` the buffered vector (the stage theorems carry that
  hypothesis; the harness builds with overflow checks, so a violation would show up as a panic).
-/
import EyeballVerif.Model.Diff
namespace EV

/-- `Vector::get(i).cloned()` as a 0/1-element list of diffs built with `mk` -/
def getPush {α} (buf : List α) (i : Nat) (mk : α → Diff α) : List (Diff α) :=
  match buf[i]? with
  | some x => [mk x]
  | none => []

/-! ## Head -/
namespace Head

/-- head.rs:338-448 -/
def handleDiff {α} (d : Diff α) (limit prevLen : Nat) (buf : List α) : List (Diff α) :=
  if limit = 0 then [] else
  let isFull := decide (prevLen ≥ limit)
  match d with
  | .append vs => if isFull then [] else [.append (vs.take (min (limit - prevLen) vs.length))]
  | .clear => [.clear]
  | .pushFront v => (if isFull then [.popBack] else []) ++ [.pushFront v]
  | .pushBack v => if isFull then [] else [.pushBack v]
  | .popFront => [.popFront] ++ getPush buf (limit - 1) .pushBack
  | .popBack => if prevLen > limit then [] else [.popBack]
  | .insert i v => if i ≥ limit then [] else (if isFull then [.popBack] else []) ++ [.insert i v]
  | .set i v => if i ≥ limit then [] else [.set i v]
  | .remove i => if i ≥ limit then [] else [.remove i] ++ getPush buf (limit - 1) .pushBack
  | .truncate n => if n ≥ limit then [] else [.truncate n]
  | .reset vs => [.reset (if vs.length > limit then vs.take limit else vs)]

/-- head.rs:247-303 (`buf` = current buffered vector); at most one diff -/
def updateLimit {α} (old new : Nat) (buf : List α) : List (Diff α) :=
  if buf.isEmpty then [] else
  if old < new then
    let missing := (buf.drop old).take (new - old)
    if missing.isEmpty then [] else [.append missing]
  else if old > new then
    if buf.length ≤ new then [] else [.truncate new]
  else []

/-- `dynamic_with_initial_limit` (head.rs:98-118): the initial values handed out -/
def initial {α} (vals : List α) (limit : Nat) : List α :=
  if limit < vals.length then vals.take limit else vals

end Head

/-! ## Tail -/

/-- `truncate_from_end` (tail.rs:499-518) -/
def truncateFromEnd {α} (l : List α) (n : Nat) : List α :=
  if n = 0 then [] else
  let index := l.length - n
  if index = 0 then l else l.drop index

namespace Tail

/-- tail.rs:357-493 -/
def handleDiff {α} (d : Diff α) (limit prevLen : Nat) (buf : List α) : List (Diff α) :=
  if limit = 0 then [] else
  let iol := prevLen - limit
  let isFull := decide (prevLen ≥ limit)
  match d with
  | .append vs =>
    let vs' := truncateFromEnd vs limit
    List.replicate (min vs'.length ((prevLen + vs'.length) - limit)) .popFront ++ [.append vs']
  | .clear => [.clear]
  | .pushFront v => if isFull then [] else [.pushFront v]
  | .pushBack v => (if isFull then [.popFront] else []) ++ [.pushBack v]
  | .popFront => if prevLen > limit then [] else [.popFront]
  | .popBack => [.popBack] ++ (if prevLen > limit then getPush buf (iol - 1) .pushFront else [])
  | .insert i v =>
    if limit > prevLen ∨ i > iol then
      (if isFull then [.popFront] else []) ++
        [.insert (if isFull then i - iol - 1 else i) v]
    else []
  | .set i v => if i ≥ iol then [.set (i - iol) v] else []
  | .remove i =>
    if i ≥ iol then
      let ri := i - iol
      [.remove ri] ++ (if ri ≠ i then getPush buf (iol - 1) .pushFront else [])
    else []
  | .truncate n =>
    let r := min limit (prevLen - n)
    List.replicate r .popBack ++ ((buf.reverse.drop (limit - r)).take r).map .pushFront
  | .reset vs => [.reset (truncateFromEnd vs limit)]

/-- tail.rs:267-354 -/
def updateLimit {α} (old new : Nat) (buf : List α) : List (Diff α) :=
  if buf.isEmpty then [] else
  if old < new then
    let missing := (buf.reverse.drop old).take (new - old)
    if missing.isEmpty then []
    else if old = 0 then [.append missing.reverse]
    else missing.map .pushFront
  else if old > new then
    if buf.length ≤ new then []
    else if new = 0 then [.clear]
    else List.replicate (old - new) .popFront
  else []

/-- `dynamic_with_initial_limit` (tail.rs:88-112) -/
def initial {α} (vals : List α) (limit : Nat) : List α :=
  if limit < vals.length then truncateFromEnd vals limit else vals

end Tail

/-! ## Skip -/

/-- `skeep` (skip.rs:520-537) -/
def skeep {α} (l : List α) (count : Nat) : List α :=
  if count = 0 then l else if count ≥ l.length then [] else l.drop count

namespace Skip

/-- skip.rs:377-505 -/
def handleDiff {α} (d : Diff α) (count prevLen : Nat) (buf : List α) : List (Diff α) :=
  match d with
  | .append vs =>
    if buf.length > count then [.append (if prevLen < count then skeep vs (count - prevLen) else vs)] else []
  | .clear => [.clear]
  | .pushFront v =>
    if prevLen ≥ count then
      if count = 0 then [.pushFront v] else getPush buf count .pushFront
    else []
  | .pushBack v => if prevLen ≥ count then [.pushBack v] else []
  | .popFront => if prevLen > count then [.popFront] else []
  | .popBack => if prevLen > count then [.popBack] else []
  | .insert i v =>
    if prevLen ≥ count then
      if count > 0 ∧ i < count then getPush buf count .pushFront else [.insert (i - count) v]
    else []
  | .set i v => if i ≥ count then [.set (i - count) v] else []
  | .remove i =>
    if prevLen > count then
      if i < count then [.popFront] else [.remove (i - count)]
    else []
  | .truncate n =>
    if prevLen > count then
      if n > count then [.truncate (n - count)] else [.clear]
    else []
  | .reset vs => [.reset (skeep vs count)]

/-- skip.rs:273-374; `old = none` is the not-yet-initialised count of `Skip::dynamic` -/
def updateCount {α} (old : Option Nat) (new : Nat) (buf : List α) : List (Diff α) :=
  if buf.isEmpty then [] else
  match old with
  | none => [.append (skeep buf new)]
  | some old =>
    let len := buf.length
    let old := min old len
    let new := min new len
    if old < new then
      if len ≤ new then [.clear] else List.replicate (new - old) .popFront
    else if old > new then
      if old = len ∧ new = 0 then [.append buf]
      else
        let missing := (buf.reverse.drop (len - old)).take (old - new)
        if missing.isEmpty then [] else missing.map .pushFront
    else []

end Skip

/-! ## Filter / FilterMap -/

/-- `FilterImpl` bookkeeping (filter.rs:128-142) -/
structure FilterSt where
  /-- `filtered_indices`: source indices of the items that pass, ascending -/
  idx : List Nat
  /-- `original_len` -/
  olen : Nat
  deriving Repr, DecidableEq

/-- `VecDeque::partition_point(|&i| i < n)` on an ascending deque -/
def ppoint (idx : List Nat) (n : Nat) : Nat := (idx.takeWhile (· < n)).length

namespace Filter

/-- indices (offset `k`) of the items of `l` that pass `f` — what the constructors and
    `append_filter{,_map}` push (filter.rs:41-49, 96-103, 156-165, 178-190) -/
def idxFrom {α β} (f : α → Option β) : Nat → List α → List Nat
  | _, [] => []
  | k, x :: xs => if (f x).isSome then k :: idxFrom f (k + 1) xs else idxFrom f (k + 1) xs

/-- `Filter::new` / `FilterMap::new` -/
def init {α β} (f : α → Option β) (vals : List α) : List β × FilterSt :=
  (vals.filterMap f, { idx := idxFrom f 0 vals, olen := vals.length })

/-- `append_filter_map` (filter.rs:168-193): `none` when nothing passes -/
def appendFilter {α β} (f : α → Option β) (vs : List α) (st : FilterSt) : Option (List β) × FilterSt :=
  let st' := { idx := st.idx ++ idxFrom f st.olen vs, olen := st.olen + vs.length }
  let mapped := vs.filterMap f
  (if mapped.isEmpty then none else some mapped, st')

/-- the eleven `handle_*` functions (filter.rs:195-393), dispatched as in `handle_diff_filter{,_map}` -/
def handle {α β} (f : α → Option β) (d : Diff α) (st : FilterSt) : Option (Diff β) × FilterSt :=
  match d with
  | .append vs =>
    let (r, st') := appendFilter f vs st
    (r.map .append, st')
  | .clear => (some .clear, { idx := [], olen := 0 })
  | .pushFront v =>
    let shifted := st.idx.map (· + 1)
    match f v with
    | some w => (some (.pushFront w), { idx := 0 :: shifted, olen := st.olen + 1 })
    | none => (none, { idx := shifted, olen := st.olen + 1 })
  | .pushBack v =>
    match f v with
    | some w => (some (.pushBack w), { idx := st.idx ++ [st.olen], olen := st.olen + 1 })
    | none => (none, { idx := st.idx, olen := st.olen + 1 })
  | .popFront =>
    let olen := st.olen - 1
    if st.idx.head? = some 0 then (some .popFront, { idx := st.idx.tail.map (· - 1), olen })
    else (none, { idx := st.idx.map (· - 1), olen })
  | .popBack =>
    let olen := st.olen - 1
    if st.idx.getLast? = some olen then (some .popBack, { idx := st.idx.dropLast, olen })
    else (none, { idx := st.idx, olen })
  | .insert i v =>
    let pos := ppoint st.idx i
    let shifted := st.idx.take pos ++ (st.idx.drop pos).map (· + 1)
    match f v with
    | some w => (some (.insert pos w), { idx := shifted.take pos ++ i :: shifted.drop pos, olen := st.olen + 1 })
    | none => (none, { idx := shifted, olen := st.olen + 1 })
  | .set i v =>
    let pos := ppoint st.idx i
    if st.idx[pos]? = some i then
      match f v with
      | some w => (some (.set pos w), st)
      | none => (some (.remove pos), { st with idx := st.idx.eraseIdx pos })
    else
      match f v with
      | some w => (some (.insert pos w), { st with idx := st.idx.take pos ++ i :: st.idx.drop pos })
      | none => (none, st)
  | .remove i =>
    let pos := ppoint st.idx i
    let olen := st.olen - 1
    if st.idx[pos]? = some i then
      let idx := st.idx.eraseIdx pos
      (some (.remove pos), { idx := idx.take pos ++ (idx.drop pos).map (· - 1), olen })
    else
      (none, { idx := st.idx.take pos ++ (st.idx.drop pos).map (· - 1), olen })
  | .truncate n =>
    let k := (st.idx.takeWhile (· < n)).length
    if k < st.idx.length then (some (.truncate k), { idx := st.idx.take k, olen := n })
    else (none, { idx := st.idx, olen := n })
  | .reset vs =>
    let (r, st') := appendFilter f vs { idx := [], olen := 0 }
    (some (.reset (r.getD [])), st')       -- always forwarded (`unwrap_or_default`)

end Filter

/-! ## Sort -/

namespace Srt

/-- the probe of `binary_search_by` at position `i` (always in range by construction) -/
def probe {α} (l : List α) (f : α → Ordering) (i : Nat) : Ordering :=
  match l[i]? with
  | some x => f x
  | none => .gt

/-- the `while size > 1` loop of imbl's `binary_search_by` (imbl 5.0.0 vector/mod.rs:583-606) -/
def bsLoop {α} (f : α → Ordering) (l : List α) (size base : Nat) : Nat :=
  if size ≤ 1 then base else
    let half := size / 2
    let mid := base + half
    let base' := if probe l f mid = .gt then base else mid
    bsLoop f l (size - half) base'
termination_by size
decreasing_by omega

/-- `binary_search_by`: `(found, index)` for `Ok(index)` / `Err(index)` -/
def bsearch {α} (f : α → Ordering) (l : List α) : Bool × Nat :=
  if l.length = 0 then (false, 0) else
    let base := bsLoop f l l.length 0
    match probe l f base with
    | .eq => (true, base)
    | .gt => (false, base)
    | .lt => (false, base + 1)

/-- position at which the sorted buffer is searched for `v`: `binary_search_by(|(_, x)| compare(x, v))` -/
def findPos {α} (cmp : α → α → Ordering) (buf : List (Nat × α)) (v : α) : Nat :=
  (bsearch (fun p : Nat × α => cmp p.2 v) buf).2

/-- the three-way "beginning / middle / end" emission used by PushFront, PushBack and Insert
    (sort.rs:362-439): insert `(ui, v)` at `pos` -/
def insertAt {α} (buf : List (Nat × α)) (pos ui : Nat) (v : α) : List (Diff α) × List (Nat × α) :=
  if pos = 0 then ([.pushFront v], (ui, v) :: buf)
  else if pos ≠ buf.length then ([.insert pos v], buf.take pos ++ (ui, v) :: buf.drop pos)
  else ([.pushBack v], buf ++ [(ui, v)])

/-- the three-way removal emission used by PopFront, PopBack and Remove (sort.rs:441-540) -/
def removeAt {α} (buf : List (Nat × α)) (pos : Nat) : List (Diff α) × List (Nat × α) :=
  let last := buf.length - 1
  if pos = 0 then ([.popFront], buf.tail)
  else if pos = last then ([.popBack], buf.dropLast)
  else ([.remove pos], buf.eraseIdx pos)

/-- the `while let Some(new_value) = new_values.get(0)` loop of the Append arm (sort.rs:282-345);
    `new` is already sorted. Returns emitted diffs, buffer, the values left for the final `Append`. -/
def appendLoop {α} (cmp : α → α → Ordering) :
    List (Nat × α) → List (Nat × α) → List (Diff α) → List (Diff α) × List (Nat × α) × List (Nat × α)
  | [], buf, out => (out, buf, [])
  | (ui, v) :: rest, buf, out =>
    match buf.getLast? with
    | none => (out, buf, (ui, v) :: rest)          -- unreachable: `buffered_vector` is not empty here
    | some last =>
      if cmp v last.2 ≠ .lt then (out, buf, (ui, v) :: rest)          -- fast path: `is_ge`
      else
        let pos := findPos cmp buf v
        if pos ≠ buf.length then
          let d : Diff α := if pos = 0 then .pushFront v else .insert pos v
          appendLoop cmp rest (buf.take pos ++ (ui, v) :: buf.drop pos) (out ++ [d])
        else (out, buf, (ui, v) :: rest)

/-- position of the item with unsorted index `ui` -/
def posOf {α} (buf : List (Nat × α)) (ui : Nat) : Option Nat :=
  let i := buf.findIdx (·.1 = ui)
  if i < buf.length then some i else none

/-- `handle_diff_and_update_buffered_vector` (sort.rs:237-710). `sortFn` stands for
    `Vector::sort_by(|(_, l), (_, r)| compare(l, r))` on index-tagged values. `none` = an `expect` fails. -/
def handle {α} (cmp : α → α → Ordering) (sortFn : List (Nat × α) → List (Nat × α))
    (d : Diff α) (buf : List (Nat × α)) : Option (List (Diff α) × List (Nat × α)) :=
  match d with
  | .append vs =>
    let offset := buf.length
    let new := sortFn (vs.mapIdx fun i v => (i + offset, v))
    if buf.isEmpty then some ([.append (new.map (·.2))], buf ++ new)
    else
      let (out, buf', left) := appendLoop cmp new buf []
      if left.isEmpty then some (out, buf')
      else some (out ++ [.append (left.map (·.2))], buf' ++ left)
  | .clear => some ([.clear], [])
  | .pushFront v =>
    let buf1 := buf.map fun p => (p.1 + 1, p.2)
    some (insertAt buf1 (findPos cmp buf1 v) 0 v)
  | .pushBack v => some (insertAt buf (findPos cmp buf v) buf.length v)
  | .insert i v =>
    let buf1 := buf.map fun p => (if p.1 ≥ i then p.1 + 1 else p.1, p.2)
    some (insertAt buf1 (findPos cmp buf1 v) i v)
  | .popFront =>
    match posOf buf 0 with
    | none => none
    | some pos =>
      -- the fold shifts every other index left before the removal
      let buf1 := buf.mapIdx fun j p => if j = pos then p else (p.1 - 1, p.2)
      some (removeAt buf1 pos)
  | .popBack =>
    match posOf buf (buf.length - 1) with
    | none => none
    | some pos => some (removeAt buf pos)
  | .remove i =>
    match posOf buf i with
    | none => none
    | some pos =>
      let buf1 := buf.map fun p => (if p.1 > i then p.1 - 1 else p.1, p.2)
      some (removeAt buf1 pos)
  | .set i v =>
    match posOf buf i with
    | none => none
    | some old =>
      let new := findPos cmp buf v
      if old < new then
        let new := new - 1
        if old = new then some ([.set old v], buf.set old (i, v))
        else
          let b := buf.eraseIdx old
          some ([.remove old, .insert new v], b.take new ++ (i, v) :: b.drop new)
      else if old = new then some ([.set new v], buf.set new (i, v))
      else
        let b := buf.eraseIdx old
        some ([.remove old, .insert new v], b.take new ++ (i, v) :: b.drop new)
  | .truncate n => some ([.truncate n], buf.filter (·.1 < n))
  | .reset vs =>
    let new := sortFn (vs.mapIdx fun i v => (i, v))
    some ([.reset (new.map (·.2))], new)

/-- `SortImpl::new` (sort.rs:193-212) -/
def init {α} (sortFn : List (Nat × α) → List (Nat × α)) (vals : List α) : List α × List (Nat × α) :=
  let new := sortFn (vals.mapIdx fun i v => (i, v))
  (new.map (·.2), new)

/-- a reference sort: stable insertion sort (used by the driver when no permutation hint is given,
    and as the witness that a `sortFn` satisfying the sort specification exists) -/
def insertSorted {α} (cmp : α → α → Ordering) (x : Nat × α) : List (Nat × α) → List (Nat × α)
  | [] => [x]
  | y :: ys => if cmp x.2 y.2 = .lt then x :: y :: ys else y :: insertSorted cmp x ys

def stableSort {α} (cmp : α → α → Ordering) (l : List (Nat × α)) : List (Nat × α) :=
  l.foldl (fun acc x => insertSorted cmp x acc) []

end Srt

end EV
