/-
  `ReusableBoxFuture` (eyeball-im/src/reusable_box.rs, copied from tokio-util) — the hand-written `unsafe` in-place
  replacement of a boxed future that both subscriber streams use for their receive future (C20).

  * `new`       — reusable_box.rs:24-29: `Box::pin(future)`
  * `set`       — :35-42: `try_set`, on `Err` a new box
  * `try_set`   — :49-71: `mem::replace(&mut this.boxed, Box::pin(pending()))` (a ZST: no allocation), then
                  `reuse_pin_box` (:103-138): layouts differ → `Err(new_value)` and the old box is dropped on the way out;
                  equal → `Box::into_raw`, a `CallOnDrop` guard that writes the new value into the old allocation and
                  re-installs it, `ptr::drop_in_place(raw)`, then the guard is called — or runs from its destructor
                  when the old future's destructor panics
  * `Drop`      — the box drops the future and frees the allocation

  A future is (id, layout class, does its destructor panic). The ledger records in which order futures were dropped,
  which were leaked, and how many heap allocations are alive / were ever made.
  Excluded: a destructor panicking while another panic unwinds (the process aborts).
-/
namespace EV

structure Fut where
  id : Nat
  layout : Nat
  dropPanics : Bool
  deriving Repr, DecidableEq

structure RB where
  /-- the future stored in `boxed`; `none` = the `Pending` placeholder left behind by an unwinding `try_set` -/
  cur : Option Fut
  /-- the `ReusableBoxFuture` itself has not been dropped -/
  alive : Bool
  dropped : List Nat
  leaked : List Nat
  allocLive : Nat
  allocs : Nat
  /-- ghost: the ids of all futures handed to the box so far -/
  given : List Nat
  deriving Repr, DecidableEq

def RB.new (f : Fut) : RB := { cur := some f, alive := true, dropped := [], leaked := [], allocLive := 1, allocs := 1, given := [f.id] }

/-- `set`: the new state and whether the call panicked (the panic of the old future's destructor propagates) -/
def RB.set (b0 : RB) (f : Fut) : RB × Bool :=
  let b := { b0 with given := b0.given ++ [f.id] }
  match b.cur with
  | none =>
    -- the placeholder is a ZST: its layout differs from every real future's; `Err`, the placeholder box is dropped
    -- (nothing to do), a new box is allocated
    ({ b with cur := some f, allocLive := b.allocLive + 1, allocs := b.allocs + 1 }, false)
  | some old =>
    if old.layout = f.layout then
      -- in place: the old future is dropped in place, `f` is written into the same allocation and re-installed —
      -- by `guard.call()`, or by the guard's destructor if the old future's destructor panics
      ({ b with cur := some f, dropped := b.dropped ++ [old.id] }, old.dropPanics)
    else
      -- `Err(f)`; the old box (a local of `reuse_pin_box`) is dropped on the way out: destructor, then deallocation
      let b1 := { b with cur := none, dropped := b.dropped ++ [old.id], allocLive := b.allocLive - 1 }
      if old.dropPanics then
        -- unwinding out of `try_set`: `boxed` stays the placeholder, and the new future — already moved into the return
        -- slot — is NOT dropped by the unwinding: it is leaked (observed; rustc does not drop the return place here)
        ({ b1 with leaked := b1.leaked ++ [f.id] }, true)
      else ({ b1 with cur := some f, allocLive := b1.allocLive + 1, allocs := b1.allocs + 1 }, false)

/-- dropping the `ReusableBoxFuture`: the future's destructor runs (it may panic), the allocation is freed -/
def RB.drop (b : RB) : RB × Bool :=
  match b.cur with
  | none => ({ b with alive := false }, false)
  | some f => ({ b with cur := none, alive := false, dropped := b.dropped ++ [f.id], allocLive := b.allocLive - 1 }, f.dropPanics)

inductive RBOp where
  | set (f : Fut)
  | poll          -- polls whatever is stored: no effect on ownership
  | drop
  deriving Repr, DecidableEq

def RB.step (b : RB) : RBOp → RB
  | .set f => if b.alive then (b.set f).1 else b
  | .poll => b
  | .drop => if b.alive then b.drop.1 else b

end EV
