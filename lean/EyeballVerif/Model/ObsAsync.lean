/-
  The async-lock flavour (`AsyncLock`, eyeball/src/lock.rs:73-108, eyeball/src/subscriber/async_lock.rs,
  the `async fn`s of shared.rs / unique.rs): the same `ObservableState` functions as the default flavour,
  reached through `tokio::sync::RwLock` instead of `std::sync::RwLock`.

  `tokio::sync::RwLock` is a FIFO permit semaphore (tokio 1.53.1 `batch_semaphore`): a read takes 1 permit,
  a write all `max` permits; an `Acquire` that cannot be satisfied takes what is available and queues for the
  rest; released permits go to the queued waiters first, in order, and a waiter is woken (and leaves the
  queue) when its request is complete; a cancelled `Acquire` gives back what it had collected.
-/
import EyeballVerif.Model.Obs
namespace EV

/-- who waits for / holds permits: a subscriber's reusable `get_lock` future, or a pending call / guard future -/
inductive AOwner where
  | sub (i : Nat)
  | fut (k : Nat)
  deriving Repr, DecidableEq

structure AWaiter where
  owner : AOwner
  total : Nat
  remaining : Nat
  deriving Repr, DecidableEq

structure ASem where
  max : Nat
  avail : Nat
  queue : List AWaiter
  deriving Repr

/-- first poll of an `Acquire` of `n` permits: acquired at once, or queued behind everybody else -/
def ASem.acquire (s : ASem) (o : AOwner) (n : Nat) : ASem × Bool :=
  if n ≤ s.avail then ({ s with avail := s.avail - n }, true)
  else ({ s with avail := 0, queue := s.queue ++ [{ owner := o, total := n, remaining := n - s.avail }] }, false)

/-- hand `rem` permits to the waiters in order: remaining queue, leftover, owners whose request is complete -/
def releaseLoop : List AWaiter → Nat → List AWaiter × Nat × List AOwner
  | [], rem => ([], rem, [])
  | w :: ws, rem =>
    if rem = 0 then (w :: ws, 0, [])
    else if w.remaining ≤ rem then
      let r := releaseLoop ws (rem - w.remaining)
      (r.1, r.2.1, w.owner :: r.2.2)
    else ({ w with remaining := w.remaining - rem } :: ws, 0, [])

/-- `add_permits` -/
def ASem.release (s : ASem) (n : Nat) : ASem × List AOwner :=
  let r := releaseLoop s.queue n
  ({ s with queue := r.1, avail := s.avail + r.2.1 }, r.2.2)

/-- a queued `Acquire` is dropped: it leaves the queue and returns what it had collected -/
def ASem.cancel (s : ASem) (o : AOwner) : ASem × List AOwner :=
  match s.queue.find? (·.owner = o) with
  | none => (s, [])
  | some w => ({ s with queue := s.queue.filter (·.owner ≠ o) }.release (w.total - w.remaining))

/-- state of a subscriber's `get_lock` future / of a call future -/
inductive FSt where
  | idle        -- not polled yet (nothing queued)
  | queued
  | granted     -- woken: holds its permits, will complete when polled
  | done
  deriving Repr, DecidableEq

inductive FKind where
  | write (h : Nat) (op : OWorld.WOp Nat)
  | rguard
  | wguard
  /-- `Subscriber::<_, AsyncLock>::next_ref()` (async_lock.rs:96-101) of subscriber `i`: first the update check
      through the subscriber's reusable lock future (phase A, `st = idle`), then a second, fresh read-lock
      acquisition (phase B, queued / granted like a read guard) under which the version is marked observed -/
  | nextRef (i : Nat)
  /-- `Subscriber::<_, AsyncLock>::next_now()` of subscriber `i`: one read-lock acquisition, value and observed version under it -/
  | nextNow (i : Nat)
  /-- `SharedObservable::<_, AsyncLock>::subscribe()` through owner `h`: the read lock is awaited first, the new
      subscriber's references are created under it -/
  | subscribe (h : Nat)

structure AFut where
  kind : FKind
  st : FSt

/-- waker identity of future `k` (subscriber `i` polled as a stream has waker identity `i`) -/
def futWaker (k : Nat) : Nat := 1000 + k

structure AWorld where
  w : OWorld Nat
  sem : ASem
  /-- per subscriber: state of its `get_lock` future -/
  subLock : List FSt
  futs : List AFut
  /-- held guards: permits each holds (0 = dropped) -/
  guards : List Nat

def AWorld.init (w : OWorld Nat) : AWorld :=
  { w, sem := { max := 1000, avail := 1000, queue := [] }, subLock := [], futs := [], guards := [] }

/-- `l[i] := x`, padding with `idle` if the list is too short -/
def lset (l : List FSt) (i : Nat) (x : FSt) : List FSt :=
  if i < l.length then l.set i x else l ++ List.replicate (i - l.length) .idle ++ [x]

/-- mark the owners woken by a release as granted -/
def AWorld.grant (a : AWorld) (owners : List AOwner) : AWorld :=
  owners.foldl (fun a o =>
    match o with
    | .sub i => { a with subLock := lset a.subLock i .granted }
    | .fut k => { a with futs := a.futs.modify k fun f => { f with st := .granted } }) a

def AWorld.releaseN (a : AWorld) (n : Nat) : AWorld × List AOwner :=
  let (s, wk) := a.sem.release n
  ({ a with sem := s }.grant wk, wk)

/-- `Subscriber::<_, AsyncLock>::poll_next` (async_lock.rs:94-116): wait for the read lock through the reusable
    future, then the same `poll_update`; the lock is released when the poll returns -/
def AWorld.pollSub (a : AWorld) (i : Nat) (wk : Nat := i) :
    Option (AWorld × PollRes Nat × List AOwner) :=
  if !a.w.subAlive i then none else
  let st := a.subLock.getD i .idle
  let proceed (a : AWorld) : Option (AWorld × PollRes Nat × List AOwner) :=
    match a.w.pollW i wk with
    | none => none
    | some (w', r) =>
      let (a', lw) := { a with w := w', subLock := lset a.subLock i .idle }.releaseN 1
      some (a', r, lw)
  match st with
  | .idle | .done =>
    let (s, ok) := a.sem.acquire (.sub i) 1
    if ok then proceed { a with sem := s }
    else some ({ a with sem := s, subLock := lset a.subLock i .queued }, .pending, [])
  | .queued => some (a, .pending, [])
  | .granted => proceed a

/-- first poll of a new call / guard future -/
def AWorld.startFut (a : AWorld) (kind : FKind) : AWorld × Nat × Bool :=
  let k := a.futs.length
  let need := match kind with | .rguard => 1 | .nextRef _ => 1 | .nextNow _ => 1 | .subscribe _ => 1 | _ => a.sem.max
  let (s, ok) := a.sem.acquire (.fut k) need
  ({ a with sem := s, futs := a.futs ++ [{ kind, st := if ok then .granted else .queued }] }, k, ok)

/-- a granted future is polled: the call happens (under the lock it holds) -/
def AWorld.finishFut (eqv : Nat → Nat → Bool) (hash : Nat → Nat) (a : AWorld) (k : Nat) :
    Option (AWorld × String × List AOwner × List Nat) :=
  match a.futs[k]? with
  | none => none
  | some f =>
    if f.st ≠ .granted then none else
    let a0 := { a with futs := a.futs.set k { f with st := .done } }
    match f.kind with
    | .write h op =>
      match a0.w.write eqv hash 0 h op with
      | none => none
      | some (w', r, wk) =>
        let (a1, lw) := { a0 with w := w' }.releaseN a0.sem.max
        let rs := match r with | .unit => "-" | .val v => toString v | .opt none => "none" | .opt (some v) => "some(" ++ toString v ++ ")"
        some (a1, rs, lw, wk)
    | .rguard => some ({ a0 with guards := a0.guards ++ [1] }, "guard " ++ toString a0.guards.length, [], [])
    | .nextRef i =>
      -- phase B completes: `next_ref_now` marks the version it sees as observed; the guard shows the value
      match a0.w.nextNow i with
      | none => none
      | some (w', v) =>
        some ({ a0 with w := w', guards := a0.guards ++ [1] }, "guard " ++ toString a0.guards.length ++ " " ++ toString v, [], [])
    | .nextNow i =>
      match a0.w.nextNow i with
      | none => none
      | some (w', v) =>
        let (a1, lw) := { a0 with w := w' }.releaseN 1
        some (a1, toString v, lw, [])
    | .subscribe h =>
      match a0.w.subscribe h false with
      | none => none
      | some (w', id) =>
        -- the async subscriber holds two references to the state (known finding D8)
        let (a1, lw) := { a0 with w := { w' with arcState := w'.arcState + 1 } }.releaseN 1
        some (a1, "sub " ++ toString id, lw, [])
    | .wguard => some ({ a0 with guards := a0.guards ++ [a0.sem.max] }, "guard " ++ toString a0.guards.length, [], [])

/-- a `next_ref()` future of subscriber `i` is created (nothing happens until it is polled) -/
def AWorld.newNextRef (a : AWorld) (i : Nat) : AWorld × Nat :=
  ({ a with futs := a.futs ++ [{ kind := .nextRef i, st := .idle }] }, a.futs.length)

/-- a `next_ref()` future is polled. Result text: `Pending`, `none` (the observable is gone) or the guard. -/
def AWorld.pollNextRef (eqv : Nat → Nat → Bool) (hash : Nat → Nat) (a : AWorld) (k : Nat) :
    Option (AWorld × Option String × List AOwner) :=
  match a.futs[k]? with
  | none => none
  | some f =>
    match f.kind with
    | .nextRef i =>
      match f.st with
      | .idle =>
        -- phase A: `poll_fn(|cx| self.poll_update(cx))`
        match a.pollSub i (futWaker k) with
        | none => none
        | some (a1, r, lw) =>
          match r with
          | .pending => some (a1, none, lw)
          | .done => some ({ a1 with futs := a1.futs.set k { f with st := .done } }, some "none", lw)
          | .ready _ =>
            -- phase B: `self.state.inner.lock().await`, a new `Acquire` at the back of the queue
            let (s, ok) := a1.sem.acquire (.fut k) 1
            let a2 := { a1 with sem := s, futs := a1.futs.set k { f with st := if ok then .granted else .queued } }
            if ok then
              match a2.finishFut eqv hash k with
              | some (a3, rs, _, _) => some (a3, some rs, lw)
              | none => none
            else some (a2, none, lw)
      | .queued => some (a, none, [])
      | .granted =>
        match a.finishFut eqv hash k with
        | some (a3, rs, lw, _) => some (a3, some rs, lw)
        | none => none
      | .done => none
    | _ => none

/-- dropping a guard releases its permits -/
def AWorld.dropGuard (a : AWorld) (g : Nat) : Option (AWorld × List AOwner) :=
  match a.guards[g]? with
  | none => none
  | some n => if n = 0 then none else some ({ a with guards := a.guards.set g 0 }.releaseN n)

/-- dropping a pending future: a queued one leaves the queue, a granted one gives its permits back -/
def AWorld.dropFut (a : AWorld) (k : Nat) : Option (AWorld × List AOwner) :=
  match a.futs[k]? with
  | none => none
  | some f =>
    let need := match f.kind with | .rguard => 1 | .nextRef _ => 1 | .nextNow _ => 1 | .subscribe _ => 1 | _ => a.sem.max
    let a0 := { a with futs := a.futs.set k { f with st := .done } }
    match f.st with
    | .idle => (match f.kind with | .nextRef _ => some (a0, []) | _ => none)   -- phase A: the lock future belongs to the subscriber
    | .queued =>
      let (s, wk) := a0.sem.cancel (.fut k)
      some ({ a0 with sem := s }.grant wk, wk)
    | .granted => some (a0.releaseN need)
    | _ => none

/-- dropping a subscriber whose `get_lock` future is queued or granted -/
def AWorld.dropSubLock (a : AWorld) (i : Nat) : AWorld × List AOwner :=
  match a.subLock.getD i .idle with
  | .queued =>
    let (s, wk) := a.sem.cancel (.sub i)
    ({ a with sem := s, subLock := lset a.subLock i .idle }.grant wk, wk)
  | .granted => { a with subLock := lset a.subLock i .idle }.releaseN 1
  | _ => (a, [])

end EV
