/-
  Fine-grained model of the subscriber streams: `poll_next` taken apart into its receive operations.

  `VectorSubscriberStream::poll_next` / `VectorSubscriberBatchedStream::poll_next` / `handle_lag`
  (eyeball-im/src/vector/subscriber.rs:102-246) perform a *sequence* of receive operations on the broadcast
  channel — the `recv()` that becomes ready, then `try_recv()` in the batched drain loop and in `handle_lag` — and
  the `ObservableVector` lives on another thread: between any two of them the writer may publish, commit a
  transaction or be dropped, and other subscribers may run. `Model/OVec` treats a poll as one atomic step; here one
  step is ONE receive operation (each is atomic: tokio's channel takes its lock), which is the granularity of the
  real interleavings. `Phase` records where a receiver is inside a `poll_next` that has not returned yet.

  The correspondence run drives the real code through exactly these steps: the verification hook
  `eyeball_im::verif::set_recv_hook` is called after every receive operation, and the harness performs vector
  operations from inside it (engine `vstep`).
-/
import EyeballVerif.Model.OVec
namespace EV

/-- where a receiver is inside a `poll_next` that has not returned yet -/
inductive Phase (α : Type) where
  | idle
  /-- batched stream inside its `try_recv` loop (subscriber.rs:190-211): the batch gathered so far and (ghost) the
      replica of what the consumer has been handed so far -/
  | drain (acc : List (Diff α)) (shown : Option (List α))
  /-- inside `handle_lag` (subscriber.rs:216-246): the last message drained -/
  | lag (msg : Option (Msg α))

structure SOV (α : Type) where
  ov : OV α
  ph : Nat → Phase α

def SOV.init {α} (capacity : Nat) : SOV α := { ov := OV.new capacity, ph := fun _ => .idle }

def updPh {α} (f : Nat → Phase α) (i : Nat) (p : Phase α) : Nat → Phase α := fun j => if j = i then p else f j

/-- the diffs of the messages at positions `a .. b-1` -/
def skipped {α} (log : List (Msg α)) (a b : Nat) : List (Diff α) := ((log.drop a).take (b - a)).flatMap (·.diffs)

/-- which receive operation result the step saw (what the verification hook reports) -/
inductive RK where
  | none | ok | empty | closed | lagged
  deriving Repr, DecidableEq

/-- receiver `i` becomes `r'` in phase `p` -/
def SOV.put {α} (s : SOV α) (i : Nat) (r' : Sub α) (p : Phase α) : SOV α :=
  { ov := { s.ov with subs := s.ov.subs.set i r' }, ph := updPh s.ph i p }

/-- **One receive operation** of receiver `i`'s `poll_next` (or the hand-out of a `YieldBatch` remainder, which needs
    none). `some item` = `poll_next` returns `item`. The ghost replica follows the cursor: it has every diff of every
    message the cursor has passed applied strictly (in the `drain` phase it is therefore ahead of the consumer by the
    batch gathered so far — `shown` is what the consumer has). `none` = no such live receiver. -/
def SOV.micro {α} (s : SOV α) (i : Nat) : Option (RK × Option (Item α) × SOV α) :=
  match s.ov.subs[i]? with
  | none => none
  | some r =>
    if !r.alive then none else
    let B := s.ov.B
    let log := s.ov.log
    let closed := !s.ov.alive
    let reset (vs : List α) : Item α := if r.batched then .batch [.reset vs] else .one (.reset vs)
    match s.ph i with
    | .idle =>
      match r.rest with
      | d :: ds =>                                                    -- YieldBatch (subscriber.rs:141-158)
        some (.none, some (.one d), s.put i { r with rest := ds, replica := r.replica.bind (applyAll [d]) } .idle)
      | [] =>
        match tryRecv B log closed r.next with
        | (.empty, _) => some (.none, some .pending, s.put i { r with waiting := true } .idle)
        | (.closed, n) => some (.closed, some .done, s.put i { r with next := n, waiting := false } .idle)
        | (.ok m, n) =>
          if r.batched then
            some (.ok, none, s.put i { r with next := n, waiting := false, replica := r.replica.bind (applyAll m.diffs) }
                                 (.drain m.diffs r.replica))
          else
            match m.diffs with
            | [] => some (.ok, some .panic, s.put i { r with next := n } .idle)        -- `unreachable!`
            | d :: ds =>
              some (.ok, some (.one d),
                    s.put i { r with next := n, rest := ds, waiting := false, replica := r.replica.bind (applyAll [d]) } .idle)
        | (.lagged, n) =>
          some (.lagged, none,
                s.put i { r with next := n, waiting := false, replica := r.replica.bind (applyAll (skipped log r.next n)) } (.lag none))
    | .drain acc shown =>
      match tryRecv B log closed r.next with
      | (.ok m, n) =>
        some (.ok, none, s.put i { r with next := n, replica := r.replica.bind (applyAll m.diffs) } (.drain (acc ++ m.diffs) shown))
      | (.empty, _) => some (.empty, some (.batch acc), s.put i r .idle)
      | (.closed, _) => some (.closed, some (.batch acc), s.put i r .idle)
      | (.lagged, n) =>
        some (.lagged, none, s.put i { r with next := n, replica := r.replica.bind (applyAll (skipped log r.next n)) } (.lag none))
    | .lag msg =>
      match tryRecv B log closed r.next with
      | (.ok m, n) =>
        some (.ok, none, s.put i { r with next := n, replica := r.replica.bind (applyAll m.diffs) } (.lag (some m)))
      | (.lagged, n) =>
        some (.lagged, none, s.put i { r with next := n, replica := r.replica.bind (applyAll (skipped log r.next n)) } (.lag msg))
      | (.closed, n) =>
        match msg with
        | some m =>
          some (.closed, some (reset m.state), s.put i { r with next := n, replica := r.replica.bind (applyAll [.reset m.state]) } .idle)
        | none => some (.closed, some .done, s.put i { r with next := n } .idle)
      | (.empty, n) =>
        match msg with
        | some m =>
          some (.empty, some (reset m.state), s.put i { r with next := n, replica := r.replica.bind (applyAll [.reset m.state]) } .idle)
        | none => some (.empty, some .panic, s.put i r .idle)                          -- `unreachable!`

end EV
