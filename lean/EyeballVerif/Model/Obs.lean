/-
  Model of the `eyeball` crate at operation granularity.

  * `ObservableState` (value, version counter with 0 = closed, waker list)   — eyeball/src/state.rs
  * `Subscriber` (observed-version cursor)                                    — eyeball/src/subscriber.rs
  * `Observable` (unique owner, closes on drop), `into_shared`                — eyeball/src/unique.rs
  * `SharedObservable` clones (side counter `_num_clones`), weak references   — eyeball/src/shared.rs

  Every subscriber polls with its own waker, identified with the subscriber's id. `wakers` is the real list
  (duplicates and stale entries included, as in the code). The `fresh` flag of a subscriber is a *ghost*
  field — written by the operations according to the specification ("has something it was not shown"),
  never read by them.
-/
namespace EV

structure ObsSt (α : Type) where
  value : α
  /-- `ObservableStateMetadata::version`; 0 after `close` -/
  version : Nat
  wakers : List Nat
  deriving Repr

structure SubSt where
  alive : Bool
  /-- `Subscriber::observed_version` -/
  observed : Nat
  /-- ghost: a notifying update happened that this subscriber has not been shown, or it was reset -/
  fresh : Bool
  /-- ghost: its last poll answered `Pending` and no notifying update / close happened since -/
  parked : Bool
  deriving Repr, DecidableEq

structure OWorld (α : Type) where
  st : ObsSt α
  /-- a unique `Observable` owns the state -/
  unique : Bool
  /-- live flags of the `SharedObservable` clones, by handle id -/
  clones : List Bool
  subs : List SubSt
  /-- live flags of the `WeakObservable`s -/
  weaks : List Bool
  /-- `Arc::strong_count` of the state (`Arc<RwLock<ObservableState>>`): one per clone / unique owner / subscriber -/
  arcState : Nat
  /-- `Arc::weak_count` of the state -/
  arcWeak : Nat
  /-- `Arc::strong_count` of `_num_clones` -/
  arcNc : Nat
  deriving Repr

inductive PollRes (α : Type) where
  | ready (v : α)
  | pending
  | done
  deriving Repr, DecidableEq

def dedupSorted (l : List Nat) : List Nat :=
  (List.range (l.foldl max 0 + 1)).filter (fun i => l.contains i)

namespace ObsSt

/-- `incr_version_and_wake` (state.rs:122-126): returns the woken waker ids -/
def bump {α} (s : ObsSt α) : ObsSt α × List Nat :=
  ({ s with version := s.version + 1, wakers := [] }, s.wakers)

/-- `set` (state.rs:75-79) -/
def set {α} (s : ObsSt α) (v : α) : ObsSt α × α × List Nat :=
  let (s', w) := ({ s with value := v } : ObsSt α).bump
  (s', s.value, w)

/-- `set_if_not_eq` (state.rs:81-90); `eqv` is the type's `PartialEq` -/
def setIfNotEq {α} (eqv : α → α → Bool) (s : ObsSt α) (v : α) : ObsSt α × Option α × List Nat :=
  if !eqv s.value v then let (s', p, w) := s.set v; (s', some p, w) else (s, none, [])

/-- `set_if_hash_not_eq` (state.rs:92-101); `hash` is what the type's `Hash` impl feeds the hasher -/
def setIfHashNotEq {α} (hash : α → Nat) (s : ObsSt α) (v : α) : ObsSt α × Option α × List Nat :=
  if hash s.value != hash v then let (s', p, w) := s.set v; (s', some p, w) else (s, none, [])

/-- `update` (state.rs:103-106) -/
def update {α} (s : ObsSt α) (f : α → α) : ObsSt α × List Nat :=
  ({ s with value := f s.value } : ObsSt α).bump

/-- `update_if` (state.rs:108-112): the closure may change the value and says whether to notify -/
def updateIf {α} (s : ObsSt α) (f : α → α) (notify : Bool) : ObsSt α × List Nat :=
  let s1 : ObsSt α := { s with value := f s.value }
  if notify then s1.bump else (s1, [])

/-- `close` (state.rs:114-120) -/
def close {α} (s : ObsSt α) : ObsSt α × List Nat :=
  ({ s with version := 0, wakers := [] }, s.wakers)

/-- `poll_update` (state.rs:57-73) with waker `wk` -/
def pollUpdate {α} (s : ObsSt α) (observed : Nat) (wk : Nat) : PollRes α × Nat × ObsSt α :=
  if s.version = 0 then (.done, observed, s)
  else if observed < s.version then (.ready s.value, s.version, s)
  else (.pending, observed, { s with wakers := s.wakers ++ [wk] })

end ObsSt

namespace OWorld

def newUnique {α} (v : α) : OWorld α :=
  { st := { value := v, version := 1, wakers := [] }, unique := true, clones := [], subs := [], weaks := [],
    arcState := 1, arcWeak := 0, arcNc := 0 }

def newShared {α} (v : α) : OWorld α :=
  { st := { value := v, version := 1, wakers := [] }, unique := false, clones := [true], subs := [], weaks := [],
    arcState := 1, arcWeak := 0, arcNc := 1 }

def cloneCount {α} (w : OWorld α) : Nat := (w.clones.filter id).length
def subCount {α} (w : OWorld α) : Nat := (w.subs.filter (·.alive)).length
def weakCount {α} (w : OWorld α) : Nat := (w.weaks.filter id).length
/-- owning handles: the unique `Observable`, or the live `SharedObservable` clones -/
def ownerCount {α} (w : OWorld α) : Nat := (if w.unique then 1 else 0) + w.cloneCount

/-- does handle `h` designate a live owner? (`h = 0` for the unique observable) -/
def ownerAlive {α} (w : OWorld α) (h : Nat) : Bool :=
  if w.unique then h == 0 else w.clones.getD h false

/-- mark all live subscribers as having something new (ghost) -/
def markFresh {α} (w : OWorld α) : OWorld α :=
  { w with subs := w.subs.map fun s => { s with fresh := true, parked := false } }

/-- ghost: every registered waker has been woken -/
def unparkAll {α} (w : OWorld α) : OWorld α :=
  { w with subs := w.subs.map fun s => { s with parked := false } }

/-- the writers: every setter of `Observable`, `SharedObservable` and `ObservableWriteGuard` ends in one of these -/
inductive WOp (α : Type) where
  | set (v : α)
  | setIfNotEq (v : α)
  | setIfHashNotEq (v : α)
  | take                      -- `set(T::default())`
  | update (f : α → α)
  | updateIf (f : α → α) (notify : Bool)

inductive WRet (α : Type) where
  | unit
  | val (v : α)
  | opt (o : Option α)
  deriving Repr, DecidableEq

/-- a writer call through owner `h`: new world, return value, woken wakers -/
def write {α} (eqv : α → α → Bool) (hash : α → Nat) (dflt : α) (w : OWorld α) (h : Nat) (op : WOp α) :
    Option (OWorld α × WRet α × List Nat) :=
  if !w.ownerAlive h then none else
  match op with
  | .set v => let (s, p, wk) := w.st.set v; some ({ w with st := s }.markFresh, .val p, wk)
  | .take => let (s, p, wk) := w.st.set dflt; some ({ w with st := s }.markFresh, .val p, wk)
  | .setIfNotEq v =>
    let (s, p, wk) := w.st.setIfNotEq eqv v
    some (if p.isSome then { w with st := s }.markFresh else { w with st := s }, .opt p, wk)
  | .setIfHashNotEq v =>
    let (s, p, wk) := w.st.setIfHashNotEq hash v
    some (if p.isSome then { w with st := s }.markFresh else { w with st := s }, .opt p, wk)
  | .update f => let (s, wk) := w.st.update f; some ({ w with st := s }.markFresh, .unit, wk)
  | .updateIf f n =>
    let (s, wk) := w.st.updateIf f n
    some (if n then { w with st := s }.markFresh else { w with st := s }, .unit, wk)

/-- `subscribe` (captures the current version) / `subscribe_reset` (version 0) -/
def subscribe {α} (w : OWorld α) (h : Nat) (reset : Bool) : Option (OWorld α × Nat) :=
  if !w.ownerAlive h then none else
  some ({ w with subs := w.subs ++ [{ alive := true, observed := if reset then 0 else w.st.version, fresh := reset, parked := false }],
                 arcState := w.arcState + 1 },
        w.subs.length)

def subAlive {α} (w : OWorld α) (i : Nat) : Bool := (w.subs[i]?.map (·.alive)).getD false

/-- `Subscriber::poll_next` / `Next::poll` (subscriber.rs:123-128, 196-212) -/
def poll {α} (w : OWorld α) (i : Nat) : Option (OWorld α × PollRes α) :=
  match w.subs[i]? with
  | none => none
  | some s =>
    if !s.alive then none else
    let (r, obs', st') := w.st.pollUpdate s.observed i
    let fresh' := match r with | .ready _ => false | _ => s.fresh
    let parked' := match r with | .pending => true | _ => false
    some ({ w with st := st', subs := w.subs.set i { s with observed := obs', fresh := fresh', parked := parked' } }, r)

/-- the same poll with an explicit waker identity (a `next_ref()` future polls the subscriber with its own
    task's waker); `poll w i = pollW w i i` -/
def pollW {α} (w : OWorld α) (i wk : Nat) : Option (OWorld α × PollRes α) :=
  match w.subs[i]? with
  | none => none
  | some s =>
    if !s.alive then none else
    let (r, obs', st') := w.st.pollUpdate s.observed wk
    let fresh' := match r with | .ready _ => false | _ => s.fresh
    let parked' := match r with | .pending => true | _ => false
    some ({ w with st := st', subs := w.subs.set i { s with observed := obs', fresh := fresh', parked := parked' } }, r)

theorem pollW_self {α} (w : OWorld α) (i : Nat) : w.pollW i i = w.poll i := rfl

/-- `next_now` / `next_ref_now` (subscriber.rs:57-65, 92-96): marks as observed -/
def nextNow {α} (w : OWorld α) (i : Nat) : Option (OWorld α × α) :=
  match w.subs[i]? with
  | none => none
  | some s =>
    if !s.alive then none else
    some ({ w with subs := w.subs.set i { s with observed := w.st.version, fresh := false } }, w.st.value)

/-- `get` / `read` (subscriber.rs:70-76, 100-102): no marking -/
def get {α} (w : OWorld α) (i : Nat) : Option α :=
  if w.subAlive i then some w.st.value else none

/-- `reset` (subscriber.rs:135-137) -/
def reset {α} (w : OWorld α) (i : Nat) : Option (OWorld α) :=
  match w.subs[i]? with
  | none => none
  | some s => if !s.alive then none else some { w with subs := w.subs.set i { s with observed := 0, fresh := true } }

/-- `clone` (copies the observed version) / `clone_reset` (0) -/
def subClone {α} (w : OWorld α) (i : Nat) (reset : Bool) : Option (OWorld α × Nat) :=
  match w.subs[i]? with
  | none => none
  | some s =>
    if !s.alive then none else
    some ({ w with subs := w.subs ++ [{ alive := true, observed := if reset then 0 else s.observed,
                                        fresh := if reset then true else s.fresh, parked := false }],
                   arcState := w.arcState + 1 }, w.subs.length)

def subDrop {α} (w : OWorld α) (i : Nat) : Option (OWorld α) :=
  match w.subs[i]? with
  | none => none
  | some s => if !s.alive then none else
    some { w with subs := w.subs.set i { s with alive := false }, arcState := w.arcState - 1 }

/-- `SharedObservable::clone` -/
def cloneOwner {α} (w : OWorld α) (h : Nat) : Option (OWorld α × Nat) :=
  if w.unique || !w.ownerAlive h then none else
  some ({ w with clones := w.clones ++ [true], arcState := w.arcState + 1, arcNc := w.arcNc + 1 }, w.clones.length)

/-- dropping an owner: `Observable::drop` closes; `SharedObservable::drop` closes iff it is the last clone
    (shared.rs:427-436, atomically since the repair of D7) -/
def dropOwner {α} (w : OWorld α) (h : Nat) : Option (OWorld α × List Nat) :=
  if !w.ownerAlive h then none else
  if w.unique then
    let (s, wk) := w.st.close
    some ({ w with st := s, unique := false, arcState := w.arcState - 1 }.unparkAll, wk)
  else
    let w1 := { w with clones := w.clones.set h false, arcState := w.arcState - 1, arcNc := w.arcNc - 1 }
    -- `Arc::into_inner(_num_clones).is_some()`: this was the last reference to the clone counter
    if w.arcNc = 1 then
      let (s, wk) := w.st.close
      some ({ w1 with st := s }.unparkAll, wk)
    else some (w1, [])

/-- `downgrade` -/
def downgrade {α} (w : OWorld α) (h : Nat) : Option (OWorld α × Nat) :=
  if w.unique || !w.ownerAlive h then none else
  some ({ w with weaks := w.weaks ++ [true], arcWeak := w.arcWeak + 1 }, w.weaks.length)

/-- `WeakObservable::clone` (shared.rs, `impl Clone for WeakObservable`): one more weak reference to the state and to
    the clone counter; possible whether or not an owner still exists -/
def cloneWeak {α} (w : OWorld α) (k : Nat) : Option (OWorld α × Nat) :=
  if !(w.weaks.getD k false) then none else
  some ({ w with weaks := w.weaks ++ [true], arcWeak := w.arcWeak + 1 }, w.weaks.length)

/-- `WeakObservable::upgrade` (shared.rs:447-451): succeeds iff a clone is alive -/
def upgrade {α} (w : OWorld α) (k : Nat) : Option (OWorld α × Option Nat) :=
  if !(w.weaks.getD k false) then none else
  -- `Weak::upgrade(&self.state)?` then `Weak::upgrade(&self._num_clones)?`
  if w.arcState = 0 then some (w, none)
  else if w.arcNc = 0 then some (w, none)          -- the temporary state reference is dropped again
  else some ({ w with clones := w.clones ++ [true], arcState := w.arcState + 1, arcNc := w.arcNc + 1 }, some w.clones.length)

def dropWeak {α} (w : OWorld α) (k : Nat) : Option (OWorld α) :=
  if !(w.weaks.getD k false) then none else some { w with weaks := w.weaks.set k false, arcWeak := w.arcWeak - 1 }

/-- `Observable::into_shared` (unique.rs:245-251): keeps the state, fresh clone counter, no close -/
def intoShared {α} (w : OWorld α) : Option (OWorld α × Nat) :=
  if !w.unique then none else
  some ({ w with unique := false, clones := w.clones ++ [true], arcNc := 1 }, w.clones.length)

/-- the four counters of `SharedObservable` (shared.rs:366-396) and `Observable::subscriber_count` -/
structure Counts where
  observable : Nat
  subscriber : Nat
  strong : Nat
  weak : Nat
  deriving Repr, DecidableEq

/-- as the code computes them: from the `Arc` counters -/
def counts {α} (w : OWorld α) : Counts :=
  { observable := w.arcNc, subscriber := w.arcState - w.arcNc, strong := w.arcState, weak := w.arcWeak }

/-- `Observable::subscriber_count` = `Shared::read_count` = strong count - 1 -/
def uniqueSubscriberCount {α} (w : OWorld α) : Nat := w.arcState - 1

end OWorld
end EV
