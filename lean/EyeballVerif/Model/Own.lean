/-
  Ownership ledger of the `eyeball` crate (C20): which instances of the user's value type the library owns,
  which it has handed to the caller, which it has destroyed. Every instance (a construction or a clone) gets a
  fresh id. The library never clones the value for itself: it owns exactly the current value while the state
  is alive (`ObservableState::value`, state.rs:18), everything else goes to the caller.

  * `set v`                      — state.rs:75-79: the new value moves in, the previous one is returned
  * `set_if_not_eq / hash` equal — state.rs:81-101: the argument is dropped by the library at the end of the call
  * `take`                       — `set(T::default())`: the library constructs the default
  * `get` / `next_now` / ready poll — one clone, handed to the caller (subscriber.rs:57-76, 214-216)
  * `update`, `update_if`        — in place
  * last strong handle dropped   — the state, and with it the current value, is destroyed
  * `into_shared`                — unique.rs:245-251: `ptr::read` + `mem::forget`: a move, nothing is destroyed
-/
namespace EV

structure Ledger where
  next : Nat
  /-- owned by the library -/
  held : List Nat
  /-- handed to the caller -/
  caller : List Nat
  /-- dropped by the library -/
  destroyed : List Nat
  deriving Repr, DecidableEq

inductive OwnOp where
  | set            -- a new value moves in, the previous one goes to the caller
  | setSkipped     -- `set_if_*` with an equal value: the argument is destroyed, nothing else changes
  | take           -- the library constructs `T::default()`, the previous value goes to the caller
  | cloneOut       -- `get` / `next_now` / ready poll / `Deref`-clone
  | update         -- in place
  | dropState      -- the last strong handle (owner or subscriber) is gone
  | intoShared
  deriving Repr, DecidableEq

def Ledger.init : Ledger := { next := 1, held := [0], caller := [], destroyed := [] }

def Ledger.step (l : Ledger) : OwnOp → Ledger
  | .set => { l with next := l.next + 1, held := [l.next], caller := l.caller ++ l.held }
  | .setSkipped => { l with next := l.next + 1, destroyed := l.destroyed ++ [l.next] }
  | .take => { l with next := l.next + 1, held := [l.next], caller := l.caller ++ l.held }
  | .cloneOut => { l with next := l.next + 1, caller := l.caller ++ [l.next] }
  | .update => l
  | .dropState => { l with held := [], destroyed := l.destroyed ++ l.held }
  | .intoShared => l

/-- a call sequence is admissible if nothing touches the value after the state is gone -/
def admissible : List OwnOp → Bool
  | [] => true
  | .dropState :: rest => rest.isEmpty
  | _ :: rest => admissible rest

end EV
