/-
  Lock-level model of a `SharedObservable` used from several threads.

  Any number of threads, each executing one library call, advance one *segment* at a time; a segment is the
  code between two consecutive pause points of the instrumented build (`eyeball::verif::PausePoint`), so a
  step of the model is what the forced-schedule director can make the real code do. A step is enabled only
  if the lock it has to take is free — that is the schedule quantifier.

  * subscriber poll  — `Subscriber::poll_next` → `state.lock()` (outer read lock) → `poll_update`
                       (state.rs:57-73: metadata lock, check, advance / register) → unlock both
  * writer `set`     — `state.write()` (outer write lock) → replace → `incr_version_and_wake` → unlock
  * `get`            — outer read lock, read, unlock (no pause point inside: one segment)
  * drop of a clone  — shared.rs `Drop`: decide "last clone?" and give up the clone-counter reference (one atomic
                       step since the repair of D7: `Arc::into_inner`), if last: `read_noblock` + `close`
                       (state.rs:114-120: metadata lock, version := 0, wake), then release the state reference
  * `upgrade`        — shared.rs:447-451: upgrade the state, then the clone counter (undoing the first on failure)

  `std::sync::RwLock` is modelled as many-readers/one-writer mutual exclusion, `Arc` counts as exact and
  atomic (trusted base). Whether the repaired or the original drop protocol is modelled is a parameter
  (`atomicDrop`), so that the race of the original code (D7) can be exhibited on the same model.
-/
namespace EV

inductive PRes where
  | ready (v : Nat)
  | pending
  | done
  deriving Repr, DecidableEq

/-- the call a thread executes -/
inductive COp where
  | poll            -- subscriber poll (the thread is a subscriber task; its waker is its thread id)
  | set (v : Nat)
  | get
  | dropClone
  | upgrade
  | sne (v : Nat)     -- `set_if_not_eq`
  | update (k : Nat)  -- `update(|v| *v += k)`
  | nextNow           -- `Subscriber::next_now` (the thread is a subscriber task)
  deriving Repr, DecidableEq

/-- where a thread is inside its call (named after the pause point it is parked at) -/
inductive Pc where
  | start
  | pollBeforeMeta            -- holds the outer read lock
  | pollHoldingMeta           -- + the metadata lock
  | pollAfterCheck (r : PRes) -- check done (observed advanced / waker registered), still holding both
  | writeBeforeNotify (prev : Nat)   -- holds the outer write lock, value replaced
  | writeAfterNotify (prev : Nat)    -- version bumped, wakers woken
  | closeBeforeMeta           -- last clone: holds the outer read lock
  | closeHoldingMeta          -- + the metadata lock
  | dropAfterDecision (last : Bool)  -- decision made (and acted upon); references not yet released
  | upgradeBetween            -- holds a temporary state reference
  | finished
  deriving Repr, DecidableEq

/-- result of a finished call -/
inductive CRes where
  | none
  | poll (r : PRes)
  | prev (v : Nat)
  | value (v : Nat)
  | upgraded (ok : Bool)
  | optPrev (o : Option Nat)
  deriving Repr, DecidableEq

structure Th where
  op : COp
  pc : Pc
  /-- subscriber: `observed_version` -/
  observed : Nat
  /-- its waker was woken since it last polled -/
  woken : Bool
  res : CRes
  deriving Repr, DecidableEq

structure CS where
  value : Nat
  version : Nat
  wakers : List Nat
  /-- threads holding the outer read lock -/
  readers : List Nat
  /-- thread holding the outer write lock -/
  writer : Option Nat
  /-- thread holding the metadata lock -/
  metaHeld : Option Nat
  /-- `Arc` strong count of the clone counter = clones whose reference has not been given up -/
  ncStrong : Nat
  /-- `Arc` strong count of the state -/
  stStrong : Nat
  /-- owners created by a successful upgrade and kept (ghost, for the statement of C03) -/
  ths : List Th
  /-- the repaired drop protocol (decision and release of the clone reference in one step) -/
  atomicDrop : Bool
  deriving Repr

def wakeAll (ths : List Th) (wk : List Nat) : List Th :=
  ths.mapIdx fun i t => if wk.contains i then { t with woken := true } else t

/-- what advancing thread `t` by one segment does; `none` = the thread cannot move now
    (it is blocked on a lock, or it has finished) -/
def CS.adv (s : CS) (t : Nat) : Option CS :=
  match s.ths[t]? with
  | none => none
  | some th =>
    let setTh (s : CS) (th' : Th) : CS := { s with ths := s.ths.set t th' }
    match th.op, th.pc with
    -- subscriber poll (a finished poll can be followed by the next poll of the same task)
    | .poll, .start | .poll, .finished =>
      if s.writer.isSome then none
      else some (setTh { s with readers := t :: s.readers } { th with pc := .pollBeforeMeta, woken := false })
    | .poll, .pollBeforeMeta =>
      if s.metaHeld.isSome then none
      else some (setTh { s with metaHeld := some t } { th with pc := .pollHoldingMeta })
    | .poll, .pollHoldingMeta =>
      if s.version = 0 then some (setTh s { th with pc := .pollAfterCheck .done })
      else if th.observed < s.version then
        some (setTh s { th with pc := .pollAfterCheck (.ready s.value), observed := s.version })
      else some (setTh { s with wakers := s.wakers ++ [t] } { th with pc := .pollAfterCheck .pending })
    | .poll, .pollAfterCheck r =>
      some (setTh { s with metaHeld := none, readers := s.readers.erase t } { th with pc := .finished, res := .poll r })
    -- writer
    | .set v, .start =>
      if s.writer.isSome || !s.readers.isEmpty then none
      else some (setTh { s with writer := some t, value := v } { th with pc := .writeBeforeNotify s.value })
    | .set _, .writeBeforeNotify p =>
      let s1 := { s with version := s.version + 1, wakers := [], ths := wakeAll s.ths s.wakers }
      some ({ s1 with ths := s1.ths.set t { th with pc := .writeAfterNotify p } })
    | .set _, .writeAfterNotify p =>
      some (setTh { s with writer := none } { th with pc := .finished, res := .prev p })
    -- get
    | .get, .start =>
      if s.writer.isSome then none
      else some (setTh s { th with pc := .finished, res := .value s.value })
    -- drop of a clone
    | .dropClone, .start =>
      let last := s.ncStrong == 1
      let s1 := if s.atomicDrop then { s with ncStrong := s.ncStrong - 1 } else s
      if last then
        -- `read_noblock`: `try_read().unwrap()`
        if s.writer.isSome then none
        else some (setTh { s1 with readers := t :: s1.readers } { th with pc := .closeBeforeMeta })
      else some (setTh s1 { th with pc := .dropAfterDecision false })
    | .dropClone, .closeBeforeMeta =>
      if s.metaHeld.isSome then none
      else some (setTh { s with metaHeld := some t } { th with pc := .closeHoldingMeta })
    | .dropClone, .closeHoldingMeta =>
      let s1 := { s with version := 0, wakers := [], ths := wakeAll s.ths s.wakers,
                         metaHeld := none, readers := s.readers.erase t }
      some ({ s1 with ths := s1.ths.set t { th with pc := .dropAfterDecision true } })
    | .dropClone, .dropAfterDecision _ =>
      let s1 := if s.atomicDrop then s else { s with ncStrong := s.ncStrong - 1 }
      some (setTh { s1 with stStrong := s1.stStrong - 1 } { th with pc := .finished, res := .none })
    -- upgrade
    | .upgrade, .start =>
      if s.stStrong = 0 then some (setTh s { th with pc := .finished, res := .upgraded false })
      else some (setTh { s with stStrong := s.stStrong + 1 } { th with pc := .upgradeBetween })
    | .upgrade, .upgradeBetween =>
      if s.ncStrong = 0 then
        some (setTh { s with stStrong := s.stStrong - 1 } { th with pc := .finished, res := .upgraded false })
      else some (setTh { s with ncStrong := s.ncStrong + 1 } { th with pc := .finished, res := .upgraded true })
    -- `set_if_not_eq`: state.rs:95-104 — under the write lock; equal: nothing happens (no pause point inside: one
    -- segment), different: the segments of `set`
    | .sne v, .start =>
      if s.writer.isSome || !s.readers.isEmpty then none
      else if s.value = v then some (setTh s { th with pc := .finished, res := .optPrev none })
      else some (setTh { s with writer := some t, value := v } { th with pc := .writeBeforeNotify s.value })
    | .sne _, .writeBeforeNotify p =>
      let s1 := { s with version := s.version + 1, wakers := [], ths := wakeAll s.ths s.wakers }
      some ({ s1 with ths := s1.ths.set t { th with pc := .writeAfterNotify p } })
    | .sne _, .writeAfterNotify p =>
      some (setTh { s with writer := none } { th with pc := .finished, res := .optPrev (some p) })
    -- `update`: state.rs:117-120 — the closure runs and `incr_version_and_wake` follows with no pause point between
    | .update k, .start =>
      if s.writer.isSome || !s.readers.isEmpty then none
      else
        let s1 := { s with writer := some t, value := s.value + k, version := s.version + 1, wakers := [],
                           ths := wakeAll s.ths s.wakers }
        some ({ s1 with ths := s1.ths.set t { th with pc := .writeAfterNotify s.value } })
    | .update _, .writeAfterNotify _ =>
      some (setTh { s with writer := none } { th with pc := .finished, res := .none })
    -- `next_now`: subscriber.rs — outer read lock, `version()` (metadata read lock), value; no pause point: one segment
    | .nextNow, .start =>
      if s.writer.isSome || s.metaHeld.isSome then none
      else some (setTh s { th with pc := .finished, observed := s.version, res := .value s.value })
    | _, _ => none

/-- initial state: `clones` clones exist, value `v`; the threads with their calls (subscriber threads start
    with the current version observed unless `fresh`) -/
def CS.init (atomicDrop : Bool) (v : Nat) (clones : Nat) (subs : Nat) (ops : List (COp × Bool)) : CS :=
  { value := v, version := 1, wakers := [], readers := [], writer := none, metaHeld := none,
    ncStrong := clones, stStrong := clones + subs, atomicDrop,
    ths := ops.map fun (op, fresh) =>
      { op, pc := .start, observed := if fresh then 0 else 1, woken := false, res := .none } }

end EV
