/-
  Model of the adapter *streams*: the `poll_next` loops of Head / Tail / Skip / Filter / FilterMap / Sort
  (head.rs:193-245, tail.rs:204-264, skip.rs:205-270, filter.rs:395-456, sort.rs:214-247), the two
  diff-container behaviours of ops.rs (single `VectorDiff` items buffer their surplus in `ready_values`;
  `Vec<VectorDiff>` items `flat_map` and drop empty results), chains of stages, the limit/count streams,
  and which wakers are registered where (for C14).

  A limit/count stream is modelled as a queue of announced values that can be closed; an
  `eyeball::Subscriber<usize>` used as limit stream is the special case "queue of length ≤ 1, overwritten".
-/
import EyeballVerif.Model.OVec
import EyeballVerif.Model.Adapters
namespace EV

/-- limit / count stream -/
structure Lim where
  q : List Nat
  closed : Bool
  /-- the adapter's waker is registered with this stream -/
  waiting : Bool
  deriving Repr, DecidableEq

inductive LimRes where
  | value (v : Nat)
  | pending
  | ended
  deriving DecidableEq

/-- resolution of the user-supplied closures, by id (shared table with the harness) -/
structure Tables (α : Type) where
  filt : Nat → (α → Option α)
  cmp : Nat → (α → α → Ordering)
  sort : Nat → List (Nat × α) → List (Nat × α)

inductive Stage (α : Type) where
  /-- `lim = none` is `EmptyLimitStream` (static limit) -/
  | head (limit : Nat) (lim : Option Nat) (buf : List α) (ready : List (Diff α))
  | tail (limit : Nat) (lim : Option Nat) (buf : List α) (ready : List (Diff α))
  | skip (count : Option Nat) (lim : Option Nat) (buf : List α) (ready : List (Diff α))
  | filter (fid : Nat) (st : FilterSt)
  | sort (cid : Nat) (buf : List (Nat × α)) (ready : List (Diff α))
  deriving Repr

structure PWorld (α : Type) where
  ov : OV α
  lims : List Lim
  deriving Repr

/-- poll a limit stream (`None` = `EmptyLimitStream`, which is always `Ready(None)`) -/
def limPoll {α} (w : PWorld α) : Option Nat → LimRes × PWorld α
  | none => (.ended, w)
  | some k =>
    match w.lims[k]? with
    | none => (.ended, w)
    | some l =>
      match l.q with
      | v :: rest => (.value v, { w with lims := w.lims.set k { l with q := rest, waiting := false } })
      | [] =>
        if l.closed then (.ended, w)
        else (.pending, { w with lims := w.lims.set k { l with waiting := true } })

/-- wrap the diffs a stage produced for one poll: `none` = nothing to hand out (loop again) -/
def emit {α} (batched : Bool) (ds : List (Diff α)) : Option (Item α × List (Diff α)) :=
  match ds with
  | [] => none
  | d :: rest => if batched then some (.batch (d :: rest), []) else some (.one d, rest)

/-- apply an incoming container to a buffered vector + rewrite it (`push_into_*_buf`):
    for every diff, `diff.clone().apply(buffered_vector)` then `handle_diff`; `none` = `apply` panicked -/
def mapDiffs {α} (h : Diff α → Nat → List α → List (Diff α)) :
    List (Diff α) → List α → List (Diff α) → Option (List α × List (Diff α))
  | [], buf, out => some (buf, out)
  | d :: ds, buf, out =>
    match d.apply buf with
    | none => none
    | some buf' => mapDiffs h ds buf' (out ++ h d buf.length buf')

def itemDiffs {α} : Item α → Option (List (Diff α))
  | .one d => some [d]
  | .batch ds => some ds
  | _ => none

/-- `ready_values` of a stage (Filter has none: it maps one diff to at most one) -/
def Stage.ready {α} : Stage α → List (Diff α)
  | .head _ _ _ r | .tail _ _ _ r | .skip _ _ _ r | .sort _ _ r => r
  | .filter _ _ => []

def Stage.setReady {α} (r : List (Diff α)) : Stage α → Stage α
  | .head l k b _ => .head l k b r
  | .tail l k b _ => .tail l k b r
  | .skip c k b _ => .skip c k b r
  | .sort c b _ => .sort c b r
  | .filter f st => .filter f st

/-- the stage's limit / count stream (`none`: `EmptyLimitStream` / no such stream) -/
def Stage.limOf {α} : Stage α → Option Nat
  | .head _ k _ _ | .tail _ k _ _ | .skip _ k _ _ => k
  | .filter _ _ | .sort _ _ _ => none

/-- `VectorObserver::into_parts` of Head / Tail / Skip (head.rs, tail.rs, skip.rs): the initial values for an
    adapter stacked on this one — its current view. `none`: Filter / Sort are not observers themselves. -/
def Stage.intoParts {α} : Stage α → Option (List α)
  | .head l _ buf _ => some (if l < buf.length then buf.take l else buf)
  | .tail l _ buf _ => some (if l < buf.length then truncateFromEnd buf l else buf)
  | .skip c _ buf _ => some (match c with | some c => skeep buf c | none => [])
  | .filter _ _ | .sort _ _ _ => none

/-- `update_limit` / `update_count`: the diffs to emit and the stage with the new parameter -/
def Stage.onLimit {α} (v : Nat) : Stage α → List (Diff α) × Stage α
  | .head l k b r => (Head.updateLimit l v b, .head v k b r)
  | .tail l k b r => (Tail.updateLimit l v b, .tail v k b r)
  | .skip c k b r => (Skip.updateCount c v b, .skip (some v) k b r)
  | st => ([], st)

/-- a whole container through the Sort arms, in order; `none` = an `expect` failed -/
def sortDiffs {α} (cmp : α → α → Ordering) (sortFn : List (Nat × α) → List (Nat × α)) :
    List (Diff α) → List (Diff α) → List (Nat × α) → Option (List (Diff α) × List (Nat × α))
  | [], out, b => some (out, b)
  | d :: ds, out, b =>
    match Srt.handle cmp sortFn d b with
    | none => none
    | some (o, b') => sortDiffs cmp sortFn ds (out ++ o) b'

/-- one incoming container through the stage (`push_into_*_buf` / `filter_map` with the stage's closure):
    the diffs produced, in order, and the updated stage; `none` = a panic (`apply` out of range, `expect`) -/
def Stage.onDiffs {α} (T : Tables α) (ds : List (Diff α)) : Stage α → Option (List (Diff α) × Stage α)
  | .head l k buf r =>
    (mapDiffs (fun d pl b => Head.handleDiff d l pl b) ds buf []).map fun (buf', out) => (out, .head l k buf' r)
  | .tail l k buf r =>
    (mapDiffs (fun d pl b => Tail.handleDiff d l pl b) ds buf []).map fun (buf', out) => (out, .tail l k buf' r)
  | .skip c k buf r =>
    let h : Diff α → Nat → List α → List (Diff α) := fun d pl b =>
      match c with
      | some c => Skip.handleDiff d c pl b
      | none => []
    (mapDiffs h ds buf []).map fun (buf', out) => (out, .skip c k buf' r)
  | .filter fid st =>
    let (out, st') := ds.foldl (fun (acc : List (Diff α) × FilterSt) d =>
        let (o, s) := Filter.handle (T.filt fid) d acc.2
        (acc.1 ++ o.toList, s)) ([], st)
    some (out, .filter fid st')
  | .sort cid buf r =>
    (sortDiffs (T.cmp cid) (T.sort cid) ds [] buf).map fun (out, buf') => (out, .sort cid buf' r)

/-- `poll_next` of a chain of stages (outermost first) sitting on receiver `sub` of the vector — the common
    skeleton of head.rs:193-245, tail.rs:204-264, skip.rs:205-270, filter.rs:395-456, sort.rs:214-247:
    1. hand out a buffered diff if there is one; 2. drain the limit/count stream, returning as soon as a change
    produces diffs; 3. poll the inner stream; rewrite what it yields; if nothing comes out, start over.
    One unit of fuel per loop iteration / nested poll. -/
def pollStages {α} (T : Tables α) (batched : Bool) (sub : Nat) :
    Nat → List (Stage α) → PWorld α → Item α × List (Stage α) × PWorld α
  | 0, sts, w => (.panic, sts, w)
  | _ + 1, [], w =>
    match w.ov.poll sub with
    | some (it, ov') => (it, [], { w with ov := ov' })
    | none => (.panic, [], w)
  | fuel + 1, st :: inner, w =>
    match st.ready with
    | d :: rest => (.one d, st.setReady rest :: inner, w)
    | [] =>
      match limPoll w st.limOf with
      | (.value v, w1) =>
        let (ds, st1) := st.onLimit v
        match emit batched ds with
        | some (it, rest) => (it, st1.setReady rest :: inner, w1)
        | none => pollStages T batched sub fuel (st1 :: inner) w1
      | (_, w1) =>
        match pollStages T batched sub fuel inner w1 with
        | (it, inner', w2) =>
          match itemDiffs it with
          | none => (it, st :: inner', w2)                       -- Pending / End / panic pass through
          | some ds =>
            match st.onDiffs T ds with
            | none => (.panic, st :: inner', w2)
            | some (out, st2) =>
              match emit batched out with
              | some (it', rest) => (it', st2.setReady rest :: inner', w2)
              | none => pollStages T batched sub fuel (st2 :: inner') w2

/-- how a stage is asked for -/
inductive StageSpec where
  | head (limit : Nat)
  | dhead (lim : Nat)
  | dheadi (limit : Nat) (lim : Nat)
  | tail (limit : Nat)
  | dtail (lim : Nat)
  | dtaili (limit : Nat) (lim : Nat)
  | skip (count : Nat)
  | dskip (lim : Nat)
  | dskipi (count : Nat) (lim : Nat)
  | filter (fid : Nat)
  | sort (cid : Nat)
  deriving Repr, DecidableEq

/-- Constructor of one stage on top of an observer with initial values `vals`:
    the new stage and the initial values it hands on (for the purely dynamic adapters:
    `into_parts` — the current view: the buffered vector cut to the limit 0, resp. nothing while the count is unknown). -/
def mkStage {α} (T : Tables α) (vals : List α) : StageSpec → Stage α × List α
  | .head l => (.head l none vals [], Head.initial vals l)
  | .dhead k => (.head 0 (some k) vals [], Head.initial vals 0)
  | .dheadi l k => (.head l (some k) vals [], Head.initial vals l)
  | .tail l => (.tail l none vals [], Tail.initial vals l)
  | .dtail k => (.tail 0 (some k) vals [], Tail.initial vals 0)
  | .dtaili l k => (.tail l (some k) vals [], Tail.initial vals l)
  | .skip c => (.skip (some c) none vals [], skeep vals c)
  | .dskip k => (.skip none (some k) vals [], [])
  | .dskipi c k => (.skip (some c) (some k) vals [], skeep vals c)
  | .filter fid => let (v, st) := Filter.init (T.filt fid) vals; (.filter fid st, v)
  | .sort cid => let (v, b) := Srt.init (T.sort cid) vals; (.sort cid b [], v)

/-- build a chain (specs innermost first); returns stages outermost first and the final initial values -/
def mkPipe {α} (T : Tables α) (vals : List α) (specs : List StageSpec) : List (Stage α) × List α :=
  specs.foldl (fun (acc : List (Stage α) × List α) sp =>
    let (st, v) := mkStage T acc.2 sp
    (st :: acc.1, v)) ([], vals)

/-- announce a new limit / count value: wakes the adapter if it is registered -/
def PWorld.limPush {α} (w : PWorld α) (k v : Nat) : PWorld α × Bool :=
  match w.lims[k]? with
  | none => (w, false)
  | some l => ({ w with lims := w.lims.set k { l with q := l.q ++ [v], waiting := false } }, l.waiting)

/-- the limit / count stream ends (its sender is dropped) -/
def PWorld.limClose {α} (w : PWorld α) (k : Nat) : PWorld α × Bool :=
  match w.lims[k]? with
  | none => (w, false)
  | some l => ({ w with lims := w.lims.set k { l with closed := true, waiting := false } }, l.waiting)

end EV
