/-
  Model of `eyeball_im::ObservableVector` and its subscriber streams.

  * mutators                      — eyeball-im/src/vector.rs:73-219
  * `broadcast_diff`              — vector.rs:279-290 (guarded by `receiver_count() != 0`)
  * transactions                  — eyeball-im/src/vector/transaction.rs
  * entries / for_each            — eyeball-im/src/vector/entry.rs
  * plain / batched stream, lag   — eyeball-im/src/vector/subscriber.rs:102-246

  `tokio::sync::broadcast` is modelled as an append-only log with a retained window of the last `B`
  messages (`B = next_power_of_two(capacity)`), a cursor per receiver, and a flag per receiver saying
  that its `recv()` future is parked (registered in the channel's waiter list). This abstraction is
  part of the trusted base; it is validated by the correspondence runs over many capacities.
-/
import EyeballVerif.Model.Diff
namespace EV

/-- `BroadcastMessage` (vector.rs:326-336): `many = true` for `OneOrManyDiffs::Many`. -/
structure Msg (α : Type) where
  diffs : List (Diff α)
  many : Bool
  state : List α
  deriving Repr

/-- value returned by a mutator -/
inductive Ret (α : Type) where
  | unit
  | opt (o : Option α)
  | val (v : α)
  deriving Repr, DecidableEq

/-- the mutators of `ObservableVector` / `ObservableVectorTransaction` -/
inductive VOp (α : Type) where
  | append (vs : List α)
  | clear
  | pushFront (v : α)
  | pushBack (v : α)
  | popFront
  | popBack
  | insert (i : Nat) (v : α)
  | set (i : Nat) (v : α)
  | remove (i : Nat)
  | truncate (n : Nat)
  deriving Repr, DecidableEq

structure OpRes (α : Type) where
  vals : List α
  diff : Option (Diff α)
  ret : Ret α

/-- One direct mutator on contents `l` (vector.rs:73-219): new contents, the diff handed to
    `broadcast_diff` (none for the documented no-ops), the return value. `none` = panic. -/
def VOp.exec {α} : VOp α → List α → Option (OpRes α)
  | .append vs, l => some ⟨l ++ vs, some (.append vs), .unit⟩
  | .clear, l => if l.isEmpty then some ⟨l, none, .unit⟩ else some ⟨[], some .clear, .unit⟩
  | .pushFront v, l => some ⟨v :: l, some (.pushFront v), .unit⟩
  | .pushBack v, l => some ⟨l ++ [v], some (.pushBack v), .unit⟩
  | .popFront, l =>
    match l with
    | [] => some ⟨[], none, .opt none⟩
    | x :: xs => some ⟨xs, some .popFront, .opt (some x)⟩
  | .popBack, l =>
    match l.getLast? with
    | none => some ⟨l, none, .opt none⟩
    | some x => some ⟨l.dropLast, some .popBack, .opt (some x)⟩
  | .insert i v, l =>
    if i ≤ l.length then some ⟨l.take i ++ v :: l.drop i, some (.insert i v), .unit⟩ else none
  | .set i v, l =>
    match l[i]? with
    | some old => some ⟨l.set i v, some (.set i v), .val old⟩
    | none => none
  | .remove i, l =>
    match l[i]? with
    | some old => some ⟨l.eraseIdx i, some (.remove i), .val old⟩
    | none => none
  | .truncate n, l =>
    if n < l.length then some ⟨l.take n, some (.truncate n), .unit⟩ else some ⟨l, none, .unit⟩

/-- what the same call does to a plain vector (the specification side of C17) -/
def VOp.plain {α} : VOp α → List α → Option (List α × Ret α)
  | .append vs, l => some (l ++ vs, .unit)
  | .clear, _ => some ([], .unit)
  | .pushFront v, l => some (v :: l, .unit)
  | .pushBack v, l => some (l ++ [v], .unit)
  | .popFront, l => some (l.tail, .opt l.head?)
  | .popBack, l => some (l.dropLast, .opt l.getLast?)
  | .insert i v, l => if i ≤ l.length then some (l.take i ++ v :: l.drop i, .unit) else none
  | .set i v, l => if h : i < l.length then some (l.set i v, .val l[i]) else none
  | .remove i, l => if h : i < l.length then some (l.eraseIdx i, .val l[i]) else none
  | .truncate n, l => some (l.take n, .unit)

/-- receiver side of the broadcast channel + the stream state built on it -/
structure Sub (α : Type) where
  alive : Bool
  batched : Bool
  /-- absolute position in the log of the next message to receive -/
  next : Nat
  /-- plain stream: `YieldBatch` remainder (subscriber.rs:95-99); empty = `Recv` state -/
  rest : List (Diff α)
  /-- the parked `recv()` future is registered in the channel's waiter list -/
  waiting : Bool
  /-- ghost (written, never read): the subscription snapshot with every delivered diff applied strictly;
      `none` once a delivered diff was not applicable -/
  replica : Option (List α)
  deriving Repr

structure Txn (α : Type) where
  working : List α
  batch : List (Diff α)
  deriving Repr

structure OV (α : Type) where
  vals : List α
  /-- the `ObservableVector` (and with it the `Sender`) still exists -/
  alive : Bool
  /-- retained window: `next_power_of_two(capacity)` -/
  B : Nat
  log : List (Msg α)
  subs : List (Sub α)
  txn : Option (Txn α)
  deriving Repr

def nextPow2Aux : Nat → Nat → Nat → Nat
  | 0, p, _ => p
  | f + 1, p, n => if p < n then nextPow2Aux f (p * 2) n else p

/-- `usize::next_power_of_two` for the capacities tokio accepts (`≤ usize::MAX / 2`) -/
def nextPow2 (n : Nat) : Nat := nextPow2Aux 64 1 n

def OV.new {α} (capacity : Nat) : OV α :=
  { vals := [], alive := true, B := nextPow2 capacity, log := [], subs := [], txn := none }

def OV.rxCount {α} (s : OV α) : Nat := (s.subs.filter (·.alive)).length

/-- ids of the receivers whose parked future is woken by a `send` / by dropping the sender -/
def OV.parked {α} (s : OV α) : List Nat :=
  (List.range s.subs.length).filter fun i =>
    match s.subs[i]? with
    | some r => r.alive && r.waiting
    | none => false

def OV.unparkAll {α} (s : OV α) : OV α :=
  { s with subs := s.subs.map fun r => { r with waiting := false } }

/-- `Sender::send` guarded by `receiver_count() != 0` (vector.rs:279-290, transaction.rs:43-52):
    returns the new state and the receivers woken. -/
def OV.send {α} (s : OV α) (m : Msg α) : OV α × List Nat :=
  if s.rxCount ≠ 0 then ({ s.unparkAll with log := s.log ++ [m] }, s.parked) else (s, [])

/-- a direct mutator call on the vector -/
def OV.direct {α} (s : OV α) (op : VOp α) : Option (OV α × Ret α × List Nat) :=
  match op.exec s.vals with
  | none => none
  | some r =>
    let s1 := { s with vals := r.vals }
    match r.diff with
    | none => some (s1, r.ret, [])
    | some d =>
      let (s2, w) := s1.send { diffs := [d], many := false, state := r.vals }
      some (s2, r.ret, w)

/-- `ObservableVector::subscribe` (vector.rs:66-69): snapshot + receiver positioned at the tail -/
def OV.subscribe {α} (s : OV α) (batched : Bool) : OV α × Nat × List α :=
  ({ s with subs := s.subs ++ [{ alive := true, batched, next := s.log.length, rest := [], waiting := false,
                                   replica := some s.vals }] },
   s.subs.length, s.vals)

def OV.dropSub {α} (s : OV α) (i : Nat) : OV α :=
  { s with subs := s.subs.modify i fun r => { r with alive := false, waiting := false } }

/-- dropping the `ObservableVector` drops the `Sender`: the channel closes, parked receivers are woken -/
def OV.dropVec {α} (s : OV α) : OV α × List Nat :=
  ({ s.unparkAll with alive := false }, s.parked)

/-! ### transactions (transaction.rs) -/

def OV.txnBegin {α} (s : OV α) : OV α := { s with txn := some { working := s.vals, batch := [] } }

/-- a mutator called on the transaction: operates on the working copy, records into the batch only
    while there are receivers (`add_to_batch`, transaction.rs:282-286); `clear` discards the batch
    recorded so far and records `Clear` unconditionally of emptiness (transaction.rs:81-88). -/
def OV.txnOp {α} (s : OV α) (op : VOp α) : Option (OV α × Ret α) :=
  match s.txn with
  | none => none
  | some t =>
    match op with
    | .clear =>
      let b := if s.rxCount ≠ 0 then [Diff.clear] else []
      some ({ s with txn := some { working := [], batch := b } }, .unit)
    | op =>
      match op.exec t.working with
      | none => none
      | some r =>
        let b := match r.diff with
          | some d => if s.rxCount ≠ 0 then t.batch ++ [d] else t.batch
          | none => t.batch
        some ({ s with txn := some { working := r.vals, batch := b } }, r.ret)

def OV.txnRollback {α} (s : OV α) : OV α :=
  match s.txn with
  | none => s
  | some _ => { s with txn := some { working := s.vals, batch := [] } }

def OV.txnDrop {α} (s : OV α) : OV α := { s with txn := none }

/-- `commit` (transaction.rs:32-54) -/
def OV.txnCommit {α} (s : OV α) : OV α × List Nat :=
  match s.txn with
  | none => (s, [])
  | some t =>
    let s1 := { s with vals := t.working, txn := none }
    if t.batch.isEmpty then (s1, [])
    else
      -- `send` directly, not guarded: with no receivers tokio's `send` stores nothing either
      s1.send { diffs := t.batch, many := true, state := t.working }

/-! ### entries / for_each (entry.rs) -/

/-- what the closure does with the entry it is handed -/
inductive Dec (α : Type) where
  | keep
  | set (v : α)
  | remove
  | setRemove (v : α)
  | stop
  deriving Repr, DecidableEq

/-- The `entries()` loop (entry.rs:108-134, vector.rs:241-246) over an abstract "vector with set/remove":
    `idx` is `ObservableVectorEntries::index`; an entry that is dropped advances it (entry.rs:63-80),
    `remove` takes the index out of the entry first (`make_owned`) so it is not advanced.
    Returns the final state and the list of (reported index, item seen) per visited element. -/
def forEachLoop {α σ} (vals : σ → List α) (doSet : σ → Nat → α → σ) (doRemove : σ → Nat → σ) :
    Nat → Nat → List (Dec α) → σ → List (Nat × α) → σ × List (Nat × α)
  | 0, _, _, st, seen => (st, seen)
  | fuel + 1, idx, decs, st, seen =>
    match (vals st)[idx]? with
    | none => (st, seen)
    | some x =>
      let seen := seen ++ [(idx, x)]
      match decs.headD .keep with
      | .keep => forEachLoop vals doSet doRemove fuel (idx + 1) decs.tail st seen
      | .set v => forEachLoop vals doSet doRemove fuel (idx + 1) decs.tail (doSet st idx v) seen
      | .remove => forEachLoop vals doSet doRemove fuel idx decs.tail (doRemove st idx) seen
      | .setRemove v => forEachLoop vals doSet doRemove fuel idx decs.tail (doRemove (doSet st idx v) idx) seen
      | .stop => (st, seen)

/-- woken receivers are accumulated in the state for the traversal -/
def OV.forEach {α} (s : OV α) (decs : List (Dec α)) : (OV α × List Nat) × List (Nat × α) :=
  let step (st : OV α × List Nat) (op : VOp α) : OV α × List Nat :=
    match st.1.direct op with
    | some (s', _, w) => (s', st.2 ++ w)
    | none => st
  forEachLoop (fun st => st.1.vals) (fun st i v => step st (.set i v)) (fun st i => step st (.remove i))
    s.vals.length 0 decs (s, []) []

def OV.txnForEach {α} (s : OV α) (decs : List (Dec α)) : OV α × List (Nat × α) :=
  let step (st : OV α) (op : VOp α) : OV α :=
    match st.txnOp op with
    | some (s', _) => s'
    | none => st
  let tvals (st : OV α) : List α := match st.txn with | some t => t.working | none => []
  forEachLoop tvals (fun st i v => step st (.set i v)) (fun st i => step st (.remove i))
    (tvals s).length 0 decs s []

/-! ### receiving (subscriber.rs) -/

inductive Recv (α : Type) where
  | ok (m : Msg α)
  | empty
  | closed
  | lagged

/-- `Receiver::try_recv` / the ready outcomes of `recv()`: cursor `next` against the log window -/
def tryRecv {α} (B : Nat) (log : List (Msg α)) (closed : Bool) (next : Nat) : Recv α × Nat :=
  if next + B < log.length then (.lagged, log.length - B)
  else
    match log[next]? with
    | some m => (.ok m, next + 1)
    | none => (if closed then .closed else .empty, next)

/-- `handle_lag` (subscriber.rs:216-246): drain with `try_recv`, keep the last message's state.
    Result: `some (some vs)` = Reset to `vs`; `some none` = the function returned `None` (channel closed
    and nothing drained);
    `none` = `unreachable!` panic. Fuel = number of retained messages + 2. -/
def handleLag {α} (B : Nat) (log : List (Msg α)) (closed : Bool) :
    Nat → Nat → Option (Msg α) → Option (Option (List α)) × Nat
  | 0, next, _ => (none, next)
  | fuel + 1, next, msg =>
    match tryRecv B log closed next with
    | (.ok m, n') => handleLag B log closed fuel n' (some m)
    | (.closed, n') => (some (msg.map (·.state)), n')          -- final state if anything was drained
    | (.lagged, n') => handleLag B log closed fuel n' msg
    | (.empty, n') =>
      match msg with
      | some m => (some (some m.state), n')
      | none => (none, n')

/-- what one `poll_next` yields -/
inductive Item (α : Type) where
  | one (d : Diff α)
  | batch (ds : List (Diff α))
  | pending
  | done
  | panic
  deriving Repr, DecidableEq

/-- `VectorSubscriberStream::poll_next` (subscriber.rs:102-160) -/
def pollPlain {α} (B : Nat) (log : List (Msg α)) (closed : Bool) (r : Sub α) : Item α × Sub α :=
  match r.rest with
  | d :: ds => (.one d, { r with rest := ds })                        -- YieldBatch
  | [] =>
    match tryRecv B log closed r.next with
    | (.empty, _) => (.pending, { r with waiting := true })
    | (.closed, n) => (.done, { r with next := n, waiting := false })
    | (.ok m, n) =>
      match m.diffs with
      | [] => (.panic, { r with next := n })                            -- `unreachable!`
      | d :: ds => (.one d, { r with next := n, rest := ds, waiting := false })
    | (.lagged, n) =>
      match handleLag B log closed (B + 2) n none with
      | (some (some vs), n') => (.one (.reset vs), { r with next := n', waiting := false })
      | (some none, n') => (.done, { r with next := n', waiting := false })
      | (none, n') => (.panic, { r with next := n' })

/-- the `try_recv` loop of the batched stream (subscriber.rs:185-199) -/
def batchLoop {α} (B : Nat) (log : List (Msg α)) (closed : Bool) :
    Nat → Nat → List (Diff α) → Item α × Nat
  | 0, next, acc => (.batch acc, next)
  | fuel + 1, next, acc =>
    match tryRecv B log closed next with
    | (.ok m, n') => batchLoop B log closed fuel n' (acc ++ m.diffs)
    | (.empty, n') => (.batch acc, n')
    | (.closed, n') => (.batch acc, n')
    | (.lagged, n') =>
      match handleLag B log closed (B + 2) n' none with
      | (some (some vs), n'') => (.batch [.reset vs], n'')
      | (some none, n'') => (.done, n'')
      | (none, n'') => (.panic, n'')

/-- `VectorSubscriberBatchedStream::poll_next` (subscriber.rs:165-213) -/
def pollBatched {α} (B : Nat) (log : List (Msg α)) (closed : Bool) (r : Sub α) : Item α × Sub α :=
  match tryRecv B log closed r.next with
  | (.empty, _) => (.pending, { r with waiting := true })
  | (.closed, n) => (.done, { r with next := n, waiting := false })
  | (.ok m, n) =>
    let (it, n') := batchLoop B log closed (log.length - n + 1) n m.diffs
    (it, { r with next := n', waiting := false })
  | (.lagged, n) =>
    match handleLag B log closed (B + 2) n none with
    | (some (some vs), n') => (.batch [.reset vs], { r with next := n', waiting := false })
    | (some none, n') => (.done, { r with next := n', waiting := false })
    | (none, n') => (.panic, { r with next := n' })

def OV.poll {α} (s : OV α) (i : Nat) : Option (Item α × OV α) :=
  match s.subs[i]? with
  | none => none
  | some r =>
    if !r.alive then none else
    let (it, r') := if r.batched then pollBatched s.B s.log (!s.alive) r else pollPlain s.B s.log (!s.alive) r
    -- ghost: replay what was delivered
    let rep' := match it with
      | .one d => r'.replica.bind (applyAll [d])
      | .batch ds => r'.replica.bind (applyAll ds)
      | _ => r'.replica
    some (it, { s with subs := s.subs.set i { r' with replica := rep' } })

end EV
