//! Engine `adp` (C09–C15): adapter pipelines (Head/Tail/Skip static+dynamic, Filter, FilterMap, Sort*) over a
//! real ObservableVector, both stream flavours, chains, taps between the stages, flag wakers.
use crate::common::*;
use crate::eng_vec::{flag_waker, Flag, Op};
use eyeball_im::{ObservableVector, ObservableVectorTransaction, VectorDiff};
use eyeball_im_util::vector::{Head, Skip, Tail, VectorObserver, VectorObserverExt, VectorSubscriberExt};
use futures_core::Stream;
use imbl::Vector;
use std::cell::RefCell;
use std::cmp::Ordering as O;
use std::collections::VecDeque;
use std::pin::Pin;
use std::rc::Rc;
use std::sync::atomic::Ordering;
use std::sync::Arc;
use std::task::{Context, Poll, Waker};

// ---------------------------------------------------------------------------------------------------------
// limit / count stream: a queue of announced values that can be closed
pub struct LimInner { q: VecDeque<usize>, closed: bool, waker: Option<Waker> }
#[derive(Clone)]
pub struct Lim(Rc<RefCell<LimInner>>);
impl Lim {
    fn new() -> Self { Lim(Rc::new(RefCell::new(LimInner { q: VecDeque::new(), closed: false, waker: None }))) }
    fn push(&self, v: usize) { let w = { let mut i = self.0.borrow_mut(); i.q.push_back(v); i.waker.take() }; if let Some(w) = w { w.wake() } }
    fn close(&self) { let w = { let mut i = self.0.borrow_mut(); i.closed = true; i.waker.take() }; if let Some(w) = w { w.wake() } }
    fn pending(&self) -> usize { self.0.borrow().q.len() }
}
impl Stream for Lim {
    type Item = usize;
    fn poll_next(self: Pin<&mut Self>, cx: &mut Context<'_>) -> Poll<Option<usize>> {
        let mut i = self.0.borrow_mut();
        if let Some(v) = i.q.pop_front() { i.waker = None; return Poll::Ready(Some(v)); }
        if i.closed { return Poll::Ready(None); }
        i.waker = Some(cx.waker().clone());
        Poll::Pending
    }
}

// transparent tap: records every item that passes
pub struct Tap<I> { inner: Pin<Box<dyn Stream<Item = I>>>, log: Rc<RefCell<Vec<I>>> }
impl<I: Clone> Stream for Tap<I> {
    type Item = I;
    fn poll_next(mut self: Pin<&mut Self>, cx: &mut Context<'_>) -> Poll<Option<I>> {
        let r = self.inner.as_mut().poll_next(cx);
        if let Poll::Ready(Some(it)) = &r { self.log.borrow_mut().push(it.clone()); }
        r
    }
}

// ---------------------------------------------------------------------------------------------------------
#[derive(Clone, Debug, PartialEq)]
pub enum Spec {
    Head(usize), DHead(usize), DHeadI(usize, usize),
    Tail(usize), DTail(usize), DTailI(usize, usize),
    Skip(usize), DSkip(usize), DSkipI(usize, usize),
    Filter(u32), FMap(u32, usize), Sort(usize),
}
impl Spec {
    pub fn text(&self) -> String {
        match self {
            Spec::Head(l) => format!("head:{l}"), Spec::DHead(k) => format!("dhead:{k}"), Spec::DHeadI(l, k) => format!("dheadi:{l}:{k}"),
            Spec::Tail(l) => format!("tail:{l}"), Spec::DTail(k) => format!("dtail:{k}"), Spec::DTailI(l, k) => format!("dtaili:{l}:{k}"),
            Spec::Skip(c) => format!("skip:{c}"), Spec::DSkip(k) => format!("dskip:{k}"), Spec::DSkipI(c, k) => format!("dskipi:{c}:{k}"),
            Spec::Filter(m) => format!("filter:{m}"), Spec::FMap(m, f) => format!("fmap:{m}:{f}"), Spec::Sort(c) => format!("sort:{c}"),
        }
    }
    fn lim(&self) -> Option<usize> {
        match self { Spec::DHead(k) | Spec::DHeadI(_, k) | Spec::DTail(k) | Spec::DTailI(_, k) | Spec::DSkip(k) | Spec::DSkipI(_, k) => Some(*k), _ => None }
    }
    fn pure_dynamic(&self) -> bool { matches!(self, Spec::DHead(_) | Spec::DTail(_) | Spec::DSkip(_)) }
    fn is_sort(&self) -> bool { matches!(self, Spec::Sort(_)) }
    fn is_tail(&self) -> bool { matches!(self, Spec::Tail(_) | Spec::DTail(_) | Spec::DTailI(..)) }
    fn kind(&self) -> &'static str {
        match self { Spec::Head(_) => "head", Spec::DHead(_) => "dhead", Spec::DHeadI(..) => "dheadi", Spec::Tail(_) => "tail", Spec::DTail(_) => "dtail",
            Spec::DTailI(..) => "dtaili", Spec::Skip(_) => "skip", Spec::DSkip(_) => "dskip", Spec::DSkipI(..) => "dskipi", Spec::Filter(_) => "filter",
            Spec::FMap(..) => "fmap", Spec::Sort(_) => "sort" }
    }
}

pub fn passes(mask: u32, x: V) -> bool { (mask >> (x % 8)) & 1 == 1 }
pub fn cmp_table(cid: usize, a: &V, b: &V) -> O {
    match cid { 0 => a.cmp(b), 1 => (a % 4).cmp(&(b % 4)), 2 => b.cmp(a), _ => (a / 2).cmp(&(b / 2)) }
}

type BoxS<I> = Pin<Box<dyn Stream<Item = I>>>;
/// the outermost stage, kept with its concrete type while it is a dynamic Head / Tail / Skip, so that the adapter
/// itself can later be used as the observer of one more stage (`VectorObserver::into_parts`)
enum Top<I: eyeball_im_util::vector::VectorDiffContainer<Element = V>> { H(Head<BoxS<I>, Lim>), T(Tail<BoxS<I>, Lim>), K(Skip<BoxS<I>, Lim>) }
impl<I: eyeball_im_util::vector::VectorDiffContainer<Element = V>> Top<I> {
    fn poll(&mut self, cx: &mut Context<'_>) -> Poll<Option<I>> {
        match self { Top::H(h) => Pin::new(h).poll_next(cx), Top::T(h) => Pin::new(h).poll_next(cx), Top::K(h) => Pin::new(h).poll_next(cx) }
    }
    fn into_parts(self) -> (Vector<V>, BoxS<I>) where I: 'static {
        match self {
            Top::H(h) => { let (v, s) = VectorObserver::into_parts(h); (v, Box::pin(s)) }
            Top::T(h) => { let (v, s) = VectorObserver::into_parts(h); (v, Box::pin(s)) }
            Top::K(h) => { let (v, s) = VectorObserver::into_parts(h); (v, Box::pin(s)) }
        }
    }
}
type SS = Pin<Box<dyn Stream<Item = VectorDiff<V>>>>;
type BS = Pin<Box<dyn Stream<Item = Vec<VectorDiff<V>>>>>;

macro_rules! builder {
    ($name:ident, $item:ty, $boxty:ty) => {
        /// builds the chain; returns the stream, the initial values each stage handed on, the tap logs (index 0 = source)
        fn $name(init: Vector<V>, src: $boxty, specs: &[Spec], lims: &[Lim]) -> (Option<$boxty>, Option<Top<$item>>, Vec<Vector<V>>, Vec<Rc<RefCell<Vec<$item>>>>) {
            let mut taps = vec![];
            let mut inits = vec![init.clone()];
            let log0 = Rc::new(RefCell::new(vec![]));
            taps.push(log0.clone());
            let mut stream: $boxty = Box::pin(Tap { inner: src, log: log0 });
            let mut vals = init;
            for (si, sp) in specs.iter().enumerate() {
                // the last stage stays concrete if it is a dynamic Head / Tail / Skip
                if si + 1 == specs.len() && sp.lim().is_some() {
                    let (v, top): (Vector<V>, Top<$item>) = match sp.clone() {
                        Spec::DHead(k) => (Vector::new(), Top::H((vals, stream).dynamic_head(lims[k].clone()))),
                        Spec::DHeadI(l, k) => { let (v, s) = (vals, stream).dynamic_head_with_initial_value(l, lims[k].clone()); (v, Top::H(s)) }
                        Spec::DTail(k) => (Vector::new(), Top::T((vals, stream).dynamic_tail(lims[k].clone()))),
                        Spec::DTailI(l, k) => { let (v, s) = (vals, stream).dynamic_tail_with_initial_value(l, lims[k].clone()); (v, Top::T(s)) }
                        Spec::DSkip(k) => (Vector::new(), Top::K((vals, stream).dynamic_skip(lims[k].clone()))),
                        Spec::DSkipI(c, k) => { let (v, s) = (vals, stream).dynamic_skip_with_initial_count(c, lims[k].clone()); (v, Top::K(s)) }
                        _ => unreachable!(),
                    };
                    taps.push(Rc::new(RefCell::new(vec![])));
                    inits.push(v);
                    return (None, Some(top), inits, taps);
                }
                let (v, s): (Vector<V>, $boxty) = match sp.clone() {
                    Spec::Head(l) => { let (v, s) = (vals, stream).head(l); (v, Box::pin(s)) }
                    Spec::DHead(k) => { let h = (vals, stream).dynamic_head(lims[k].clone()); let (v, s) = VectorObserver::into_parts(h); (v, Box::pin(s)) }
                    Spec::DHeadI(l, k) => { let (v, s) = (vals, stream).dynamic_head_with_initial_value(l, lims[k].clone()); (v, Box::pin(s)) }
                    Spec::Tail(l) => { let (v, s) = (vals, stream).tail(l); (v, Box::pin(s)) }
                    Spec::DTail(k) => { let h = (vals, stream).dynamic_tail(lims[k].clone()); let (v, s) = VectorObserver::into_parts(h); (v, Box::pin(s)) }
                    Spec::DTailI(l, k) => { let (v, s) = (vals, stream).dynamic_tail_with_initial_value(l, lims[k].clone()); (v, Box::pin(s)) }
                    Spec::Skip(c) => { let (v, s) = (vals, stream).skip(c); (v, Box::pin(s)) }
                    Spec::DSkip(k) => { let h = (vals, stream).dynamic_skip(lims[k].clone()); let (v, s) = VectorObserver::into_parts(h); (v, Box::pin(s)) }
                    Spec::DSkipI(c, k) => { let (v, s) = (vals, stream).dynamic_skip_with_initial_count(c, lims[k].clone()); (v, Box::pin(s)) }
                    Spec::Filter(m) => { let (v, s) = (vals, stream).filter(move |x: &V| passes(m, *x)); (v, Box::pin(s)) }
                    Spec::FMap(m, f) => { let g = crate::eng_diff::map_fn(f); let (v, s) = (vals, stream).filter_map(move |x: V| if passes(m, x) { Some(g(x)) } else { None }); (v, Box::pin(s)) }
                    Spec::Sort(0) => { let (v, s) = (vals, stream).sort(); (v, Box::pin(s)) }
                    Spec::Sort(1) => { let (v, s) = (vals, stream).sort_by_key(|x: &V| *x % 4); (v, Box::pin(s)) }
                    Spec::Sort(c) => { let (v, s) = (vals, stream).sort_by(move |a: &V, b: &V| cmp_table(c, a, b)); (v, Box::pin(s)) }
                };
                let log = Rc::new(RefCell::new(vec![]));
                taps.push(log.clone());
                stream = Box::pin(Tap { inner: s, log });
                inits.push(v.clone());
                vals = v;
            }
            (Some(stream), None, inits, taps)
        }
    };
}
builder!(build_single, VectorDiff<V>, SS);
builder!(build_batched, Vec<VectorDiff<V>>, BS);

enum PStream {
    S(Option<SS>, Option<Top<VectorDiff<V>>>, Vec<Rc<RefCell<Vec<VectorDiff<V>>>>>),
    B(Option<BS>, Option<Top<Vec<VectorDiff<V>>>>, Vec<Rc<RefCell<Vec<Vec<VectorDiff<V>>>>>>),
}

#[derive(PartialEq, Debug, Clone)]
pub enum Got { Item(Vec<VectorDiff<V>>, bool /*batch*/), Pending, End, Panic }

/// what a stage's view must be, given the view below it (`None` = any sorted permutation, checked separately)
fn stage_spec(sp: &Spec, below: &[V], param: Option<usize>) -> Option<Vec<V>> {
    Some(match sp {
        Spec::Head(_) | Spec::DHead(_) | Spec::DHeadI(..) => below.iter().take(param.unwrap_or(0)).copied().collect(),
        Spec::Tail(_) | Spec::DTail(_) | Spec::DTailI(..) => { let l = param.unwrap_or(0); below[below.len().saturating_sub(l)..].to_vec() }
        Spec::Skip(_) | Spec::DSkip(_) | Spec::DSkipI(..) => match param { Some(c) => below.iter().skip(c).copied().collect(), None => vec![] },
        Spec::Filter(m) => below.iter().copied().filter(|x| passes(*m, *x)).collect(),
        Spec::FMap(m, f) => { let g = crate::eng_diff::map_fn(*f); below.iter().copied().filter(|x| passes(*m, *x)).map(g).collect() }
        Spec::Sort(_) => return None,
    })
}
fn sorted_perm_of(cid: usize, view: &[V], below: &[V]) -> bool {
    let mut a = view.to_vec(); a.sort();
    let mut b = below.to_vec(); b.sort();
    a == b && view.windows(2).all(|w| cmp_table(cid, &w[0], &w[1]) != O::Greater)
}

pub struct PW {
    ov: Option<Box<ObservableVector<V>>>,
    txn: Option<ObservableVectorTransaction<'static, V>>,
    stream: Option<PStream>,
    specs: Vec<Spec>,
    lims: Vec<Lim>,
    /// latest value announced per limit stream (None = none yet), and the initial parameter per stage
    params: Vec<Option<usize>>,
    /// per stage: the largest limit in force or announced since the stream was last Pending (bound for C15 while a dynamic
    /// Head / Tail is catching up with its limit stream)
    lim_hi: Vec<usize>,
    batched: bool,
    flag: Arc<Flag>,
    waker: Waker,
    views: Vec<Vec<V>>,       // views[0] = replica of the source stream, views[k] = view of stage k
    consumed: Vec<usize>,     // tap items already folded into views
    parked: bool,
    ended: bool,
    boundary: Vec<Vec<V>>,    // source contents at top-level boundaries since the last quiescent point
    pub emitted: Vec<VectorDiff<V>>, // flattened output of the final stage
    kf: bool,
    sorted_once: Vec<(usize, Vec<V>)>,
}

impl PW {
    pub fn new(sink: &mut Sink, cap: usize, init: &[V]) -> PW {
        sink.line(&format!("newvec {cap}"), "ok");
        let mut ov = Box::new(ObservableVector::with_capacity(cap));
        if !init.is_empty() {
            ov.append(init.iter().copied().collect());
            sink.line(&format!("append {}", fmt_list(init)), &format!("- vals={} woke=[]", fmt_list(init)));
        }
        let (flag, waker) = flag_waker();
        PW { ov: Some(ov), txn: None, stream: None, specs: vec![], lims: vec![], params: vec![], lim_hi: vec![], batched: false, flag, waker,
             views: vec![], consumed: vec![], parked: false, ended: false, boundary: vec![], emitted: vec![], kf: false, sorted_once: vec![] }
    }
    fn contents(&self) -> Vec<V> { self.ov.as_ref().map(|o| o.iter().copied().collect()).unwrap_or_default() }
    pub fn len(&self) -> usize { if let Some(t) = &self.txn { t.len() } else { self.ov.as_ref().map(|o| o.len()).unwrap_or(0) } }
    pub fn alive(&self) -> bool { self.ov.is_some() }
    pub fn in_txn(&self) -> bool { self.txn.is_some() }

    fn hint(&mut self, sink: &mut Sink, cid: usize, vals: &[V]) {
        if vals.len() < 2 || self.sorted_once.iter().any(|(c, v)| *c == cid && v == vals) { return; }
        let mut a: Vector<(usize, V)> = vals.iter().copied().enumerate().collect();
        a.sort_by(|x, y| cmp_table(cid, &x.1, &y.1));
        let perm: Vec<V> = a.iter().map(|p| p.0 as V).collect();
        let mut st: Vec<(usize, V)> = vals.iter().copied().enumerate().collect();
        st.sort_by(|x, y| cmp_table(cid, &x.1, &y.1)); // std: stable
        let sperm: Vec<V> = st.iter().map(|p| p.0 as V).collect();
        if perm != sperm {
            sink.stat("sorthint");
            sink.line(&format!("sorthint {cid} {} {}", fmt_list(vals), fmt_list(&perm)), "ok");
            self.sorted_once.push((cid, vals.to_vec()));
        }
    }

    pub fn pipe(&mut self, sink: &mut Sink, batched: bool, specs: &[Spec]) {
        let nl = specs.iter().filter_map(|s| s.lim()).map(|k| k + 1).max().unwrap_or(0);
        self.lims = (0..nl).map(|_| Lim::new()).collect();
        self.specs = specs.to_vec();
        self.batched = batched;
        let sub = self.ov.as_ref().unwrap().subscribe();
        let inits: Vec<Vector<V>>;
        if batched {
            let (v, s) = VectorObserver::into_parts(sub.batched());
            let (st, top, i, taps) = build_batched(v, Box::pin(s), specs, &self.lims);
            inits = i;
            self.stream = Some(PStream::B(st, top, taps));
        } else {
            let (v, s) = VectorObserver::into_parts(sub);
            let (st, top, i, taps) = build_single(v, Box::pin(s), specs, &self.lims);
            inits = i;
            self.stream = Some(PStream::S(st, top, taps));
        }
        self.params = specs.iter().map(|s| match s {
            Spec::Head(l) | Spec::DHeadI(l, _) | Spec::Tail(l) | Spec::DTailI(l, _) | Spec::Skip(l) | Spec::DSkipI(l, _) => Some(*l),
            Spec::DHead(_) | Spec::DTail(_) => Some(0),
            _ => None,
        }).collect();
        self.lim_hi = self.params.iter().map(|p| p.unwrap_or(0)).collect();
        // sort hints for the constructors
        for (k, sp) in specs.iter().enumerate() {
            if let Spec::Sort(c) = sp { let below: Vec<V> = inits[k].iter().copied().collect(); self.hint(sink, *c, &below); }
        }
        // initial views: what each stage handed on. For a purely dynamic stage the user holds no initial values: the view starts empty.
        self.views = inits.iter().map(|v| v.iter().copied().collect()).collect();
        self.consumed = vec![0; specs.len() + 1];
        // C12 / C09-C11: initial values of every stage are its current view of the stage below
        for (k, sp) in specs.iter().enumerate() {
            let below = self.views[k].clone();
            let got = self.views[k + 1].clone();
            let expect = stage_spec(sp, &below, self.params[k]);
            let ok = match (&expect, sp) {
                (Some(e), _) => *e == got || (sp.pure_dynamic() && k + 1 == specs.len()),
                (None, Spec::Sort(c)) => sorted_perm_of(*c, &got, &below),
                _ => true,
            };
            if !ok {
                let prop = match sp { Spec::Filter(_) | Spec::FMap(..) => "C10,C12", Spec::Sort(_) => "C11,C12", _ => if sp.pure_dynamic() { "C12" } else { "C09,C12" } };
                sink.oracle_fail(prop, &format!("stage {k} ({}): initial values handed on are {got:?}, its view of {below:?} is {:?}", sp.text(), expect));
                // continue checking with what the next stage was actually given
            }
            if let (Spec::Head(l) | Spec::Tail(l), true) = (sp, got.len() > match sp { Spec::Head(l) | Spec::Tail(l) => *l, _ => 0 }) {
                sink.oracle_fail("C15", &format!("stage {k} ({}): initial values {got:?} exceed the limit {l}", sp.text()));
            }
        }
        let last = specs.len();
        if specs.last().map(|s| s.pure_dynamic()).unwrap_or(false) { self.views[last] = vec![]; }
        let shown = self.views[last].clone();
        self.boundary = vec![self.contents()];
        let sp: Vec<String> = specs.iter().map(|s| s.text()).collect();
        for s in specs { sink.stat(&format!("stage.{}", s.kind())); }
        sink.stat(if batched { "pipe.batched" } else { "pipe.plain" });
        sink.line(&format!("pipe {} {}", if batched { "batched" } else { "plain" }, sp.join(" ")), &format!("init={}", fmt_list(&shown)));
    }

    /// can the adapter itself be used as the observer of one more stage?
    pub fn stackable(&self) -> bool {
        match self.stream.as_ref() { Some(PStream::S(_, t, _)) => t.is_some(), Some(PStream::B(_, t, _)) => t.is_some(), None => false }
    }
    pub fn n_lims(&self) -> usize { self.lims.len() }
    pub fn specs(&self) -> &[Spec] { &self.specs }

    /// `VectorObserver::into_parts` of the current outermost dynamic Head/Tail/Skip, then one more stage on top of it
    pub fn stack(&mut self, sink: &mut Sink, sp: &Spec) {
        let n = self.specs.len();
        if let Some(k) = sp.lim() { while self.lims.len() <= k { self.lims.push(Lim::new()); } }
        let handed: Vec<V>;
        let new_init: Vec<V>;
        let taken = self.stream.take().unwrap();
        // a panic inside `into_parts` is a violation in itself (C12): report it and end the case's pipeline
        let parts = catch(move || match taken {
            PStream::S(_, top, taps) => { let (v, s) = top.unwrap().into_parts(); (Some((v, s, taps)), None) }
            PStream::B(_, top, taps) => { let (v, s) = top.unwrap().into_parts(); (None, Some((v, s, taps))) }
        });
        let Ok(parts) = parts else {
            sink.oracle_fail("C12", &format!("stage {} ({}) used as observer: into_parts panicked", n - 1, self.specs[n - 1].text()));
            sink.line(&format!("stack {}", sp.text()), "panic");
            self.ended = true;
            return;
        };
        match parts {
            (Some((v, s, mut taps)), _) => {
                handed = v.iter().copied().collect();
                let (st, ntop, inits, ntaps) = build_single(v, s, std::slice::from_ref(sp), &self.lims);
                taps[n] = ntaps[0].clone();
                taps.push(ntaps[1].clone());
                new_init = inits[1].iter().copied().collect();
                self.stream = Some(PStream::S(st, ntop, taps));
            }
            (_, Some((v, s, mut taps))) => {
                handed = v.iter().copied().collect();
                let (st, ntop, inits, ntaps) = build_batched(v, s, std::slice::from_ref(sp), &self.lims);
                taps[n] = ntaps[0].clone();
                taps.push(ntaps[1].clone());
                new_init = inits[1].iter().copied().collect();
                self.stream = Some(PStream::B(st, ntop, taps));
            }
            _ => unreachable!(),
        }
        self.consumed[n] = 0;
        self.consumed.push(0);
        self.parked = false; // the new outermost stream has not been polled yet: nothing is registered
        // C12: what the adapter hands to the next one is its current view
        if handed != self.views[n] {
            sink.oracle_fail("C12", &format!("stage {} ({}) used as observer hands on {handed:?}; its current view is {:?}", n - 1, self.specs[n - 1].text(), self.views[n]));
        }
        if let Spec::Sort(c) = sp { let h = handed.clone(); self.hint(sink, *c, &h); }
        self.params.push(match sp {
            Spec::Head(l) | Spec::DHeadI(l, _) | Spec::Tail(l) | Spec::DTailI(l, _) | Spec::Skip(l) | Spec::DSkipI(l, _) => Some(*l),
            Spec::DHead(_) | Spec::DTail(_) => Some(0),
            _ => None,
        });
        self.lim_hi.push(self.params.last().unwrap().unwrap_or(0));
        let expect = stage_spec(sp, &handed, *self.params.last().unwrap());
        let ok = match (&expect, sp) { (Some(e), _) => *e == new_init || sp.pure_dynamic(), (None, Spec::Sort(c)) => sorted_perm_of(*c, &new_init, &handed), _ => true };
        if !ok { sink.oracle_fail(&format!("{},C12", Self::prop_of(sp)), &format!("stacked stage ({}): initial values {new_init:?}, its view of {handed:?} is {expect:?}", sp.text())); }
        let shown = if sp.pure_dynamic() { vec![] } else { new_init.clone() };
        self.views.push(shown.clone());
        self.specs.push(sp.clone());
        sink.stat("op.stack");
        sink.stat(&format!("stage.{}", sp.kind()));
        sink.line(&format!("stack {}", sp.text()), &format!("handed={} init={}", fmt_list(&handed), fmt_list(&shown)));
    }

    fn woke(&mut self) -> bool {
        let w = self.flag.0.swap(false, Ordering::SeqCst);
        if w { self.parked = false; }
        w
    }
    fn woke_vec(&mut self) -> String { if self.woke() { " woke=[0]".into() } else { " woke=[]".into() } }

    fn boundary_push(&mut self) { let c = self.contents(); self.boundary.push(c); }

    pub fn direct(&mut self, sink: &mut Sink, op: &Op) {
        sink.stat(&format!("op.{}", op.kind()));
        let ov = self.ov.as_mut().unwrap();
        let opc = op.clone();
        let res = catch(move || match opc {
            Op::Append(v) => { ov.append(v.into_iter().collect()); "-".to_string() }
            Op::Clear => { ov.clear(); "-".into() }
            Op::PushF(v) => { ov.push_front(v); "-".into() }
            Op::PushB(v) => { ov.push_back(v); "-".into() }
            Op::PopF => fmt_opt(ov.pop_front()),
            Op::PopB => fmt_opt(ov.pop_back()),
            Op::Ins(i, v) => { ov.insert(i, v); "-".into() }
            Op::Set(i, v) => ov.set(i, v).to_string(),
            Op::Rem(i) => ov.remove(i).to_string(),
            Op::Trunc(n) => { ov.truncate(n); "-".into() }
        });
        let shown = res.unwrap_or_else(|_| "panic".into());
        self.boundary_push();
        let c = self.contents();
        let w = self.woke_vec();
        sink.line(&op.text(), &format!("{shown} vals={}{w}", fmt_list(&c)));
    }
    pub fn txn_begin(&mut self, sink: &mut Sink) {
        let p: *mut ObservableVector<V> = &mut **self.ov.as_mut().unwrap();
        self.txn = Some(unsafe { &mut *p }.transaction());
        sink.stat("op.txn");
        sink.line("txn", "ok");
    }
    pub fn txn_op(&mut self, sink: &mut Sink, op: &Op) {
        sink.stat(&format!("top.{}", op.kind()));
        let t = self.txn.as_mut().unwrap();
        let opc = op.clone();
        let res = catch(move || match opc {
            Op::Append(v) => { t.append(v.into_iter().collect()); "-".to_string() }
            Op::Clear => { t.clear(); "-".into() }
            Op::PushF(v) => { t.push_front(v); "-".into() }
            Op::PushB(v) => { t.push_back(v); "-".into() }
            Op::PopF => fmt_opt(t.pop_front()),
            Op::PopB => fmt_opt(t.pop_back()),
            Op::Ins(i, v) => { t.insert(i, v); "-".into() }
            Op::Set(i, v) => t.set(i, v).to_string(),
            Op::Rem(i) => t.remove(i).to_string(),
            Op::Trunc(n) => { t.truncate(n); "-".into() }
        });
        let shown = res.unwrap_or_else(|_| "panic".into());
        let tv: Vec<V> = self.txn.as_ref().unwrap().iter().copied().collect();
        sink.line(&format!("t.{}", op.text()), &format!("{shown} tvals={}", fmt_list(&tv)));
    }
    pub fn txn_end(&mut self, sink: &mut Sink, commit: bool) {
        let t = self.txn.take().unwrap();
        if commit {
            t.commit();
            self.boundary_push();
            let c = self.contents();
            let w = self.woke_vec();
            sink.line("t.commit", &format!("ok vals={}{w}", fmt_list(&c)));
        } else {
            drop(t);
            let c = self.contents();
            sink.line("t.drop", &format!("ok vals={}", fmt_list(&c)));
        }
    }
    pub fn drop_vec(&mut self, sink: &mut Sink) {
        assert!(self.txn.is_none());
        self.ov = None;
        let w = self.woke_vec();
        sink.stat("op.dropvec");
        sink.line("dropvec", &format!("ok{w}"));
    }
    pub fn limit(&mut self, sink: &mut Sink, k: usize, v: usize) {
        self.lims[k].push(v);
        for (i, sp) in self.specs.clone().iter().enumerate() { if sp.lim() == Some(k) { self.params[i] = Some(v); self.lim_hi[i] = self.lim_hi[i].max(v); } }
        let w = self.woke();
        sink.stat("op.limit");
        sink.line(&format!("limit {k} {v}"), &format!("ok w={}", w as u8));
    }
    pub fn lim_close(&mut self, sink: &mut Sink, k: usize) {
        self.lims[k].close();
        let w = self.woke();
        sink.stat("op.limclose");
        sink.line(&format!("limclose {k}"), &format!("ok w={}", w as u8));
    }

    fn poll_raw(&mut self) -> Got {
        let mut cx = Context::from_waker(&self.waker);
        let st = self.stream.as_mut().unwrap();
        catch(|| match st {
            PStream::S(s, top, taps) => {
                let r = match top { Some(t) => { let r = t.poll(&mut cx); if let Poll::Ready(Some(d)) = &r { taps.last().unwrap().borrow_mut().push(d.clone()); } r }
                                    None => s.as_mut().unwrap().as_mut().poll_next(&mut cx) };
                match r { Poll::Ready(Some(d)) => Got::Item(vec![d], false), Poll::Ready(None) => Got::End, Poll::Pending => Got::Pending }
            }
            PStream::B(s, top, taps) => {
                let r = match top { Some(t) => { let r = t.poll(&mut cx); if let Poll::Ready(Some(d)) = &r { taps.last().unwrap().borrow_mut().push(d.clone()); } r }
                                    None => s.as_mut().unwrap().as_mut().poll_next(&mut cx) };
                match r { Poll::Ready(Some(d)) => Got::Item(d, true), Poll::Ready(None) => Got::End, Poll::Pending => Got::Pending }
            }
        }).unwrap_or(Got::Panic)
    }

    fn prop_of(sp: &Spec) -> &'static str {
        match sp { Spec::Filter(_) | Spec::FMap(..) => "C10", Spec::Sort(_) => "C11", _ => "C09" }
    }

    /// fold the new tap items into the per-stage views (strictly), C15 after every single diff, sort hints
    fn absorb(&mut self, sink: &mut Sink) {
        let n = self.specs.len();
        let new_items: Vec<Vec<Vec<VectorDiff<V>>>> = match self.stream.as_ref().unwrap() {
            PStream::S(_, _, taps) => (0..=n).map(|k| taps[k].borrow()[self.consumed[k]..].iter().map(|d| vec![d.clone()]).collect()).collect(),
            PStream::B(_, _, taps) => (0..=n).map(|k| taps[k].borrow()[self.consumed[k]..].to_vec()).collect(),
        };
        let multi = n > 1;
        for k in 0..=n {
            self.consumed[k] += new_items[k].len();
            for batch in &new_items[k] {
                if batch.is_empty() {
                    sink.oracle_fail(if k == 0 { "C07,C13" } else { "C13" }, &format!("stage {k} emitted an empty batch"));
                }
                for d in batch {
                    // hints for a sort stage sitting on top of this stream
                    if k < n { if let Spec::Sort(c) = self.specs[k].clone() {
                        if let VectorDiff::Append { values } | VectorDiff::Reset { values } = d { let v: Vec<V> = values.iter().copied().collect(); self.hint(sink, c, &v); }
                    } }
                    if let Err(e) = strict_apply(d, &mut self.views[k]) {
                        if k == 0 { sink.oracle_fail("C06", &format!("source stream: diff {} not applicable: {e}", fmt_diff(d))); }
                        else {
                            let p = Self::prop_of(&self.specs[k - 1]);
                            let t = if multi { format!("{p},C12") } else { p.to_string() };
                            sink.oracle_fail(&t, &format!("stage {} ({}) emitted {} which is not applicable to its view: {e}", k - 1, self.specs[k - 1].text(), fmt_diff(d)));
                        }
                    }
                    if k > 0 { if let Spec::Head(l) | Spec::Tail(l) = self.specs[k - 1] {
                        if self.views[k].len() > l {
                            sink.oracle_fail("C15", &format!("stage {} ({}): after {} the view has {} items, limit {l}", k - 1, self.specs[k - 1].text(), fmt_diff(d), self.views[k].len()));
                        }
                    } }
                    // dynamic Head / Tail: never more than the largest limit in force or announced since the last Pending
                    if k > 0 { if let Spec::DHead(_) | Spec::DHeadI(..) | Spec::DTail(_) | Spec::DTailI(..) = self.specs[k - 1] {
                        if !self.kf && self.views[k].len() > self.lim_hi[k - 1] {
                            sink.oracle_fail("C15", &format!("stage {} ({}): after {} the view has {} items; no limit above {} was in force or announced", k - 1, self.specs[k - 1].text(), fmt_diff(d), self.views[k].len(), self.lim_hi[k - 1]));
                        }
                    } }
                }
            }
        }
    }

    /// at a quiescent point every stage's view is the correct view of the stage below it
    fn check_quiescent(&mut self, sink: &mut Sink) {
        let n = self.specs.len();
        // the limit streams have been drained: from here on only the current limits count (C15)
        for k in 0..n {
            if let Some(l) = self.params[k] {
                self.lim_hi[k] = l;
                if let Spec::DHead(_) | Spec::DHeadI(..) | Spec::DTail(_) | Spec::DTailI(..) = self.specs[k] {
                    if !self.kf && self.views[k + 1].len() > l {
                        sink.oracle_fail("C15", &format!("at Pending, stage {k} ({}) shows {} items, its limit is {l}", self.specs[k].text(), self.views[k + 1].len()));
                    }
                }
            }
        }
        if self.ov.is_some() && self.views[0] != self.contents() {
            // batched: the committed transactions have all been handed on, the view below the chain is the current top-level state (C13)
            sink.oracle_fail(if self.batched { "C06,C13" } else { "C06" }, &format!("source stream Pending with replica {:?}, contents {:?}", self.views[0], self.contents()));
        }
        for k in 0..n {
            let sp = self.specs[k].clone();
            let below = self.views[k].clone();
            let got = self.views[k + 1].clone();
            let ok = match stage_spec(&sp, &below, self.params[k]) {
                Some(e) => e == got,
                None => if let Spec::Sort(c) = sp { sorted_perm_of(c, &got, &below) } else { true },
            };
            if !ok {
                let p = Self::prop_of(&sp);
                let t = if n > 1 { format!("{p},C12") } else { p.to_string() };
                // C13: a batched stream's batches, applied in order, rebuild the right view as well
                let t = if self.batched { format!("{t},C13") } else { t };
                sink.oracle_fail(&t, &format!("at Pending, stage {k} ({}, parameter {:?}) shows {got:?}; the stage below shows {below:?}", sp.text(), self.params[k]));
            }
        }
    }

    /// C13: after an emitted batch the rebuilt view is the chain's view of a source state at a top-level boundary
    fn check_boundary(&mut self, sink: &mut Sink) {
        let n = self.specs.len();
        if self.specs.iter().any(|s| s.lim().is_some()) { return; } // fixed parameters only
        if self.specs.iter().take(n.saturating_sub(1)).any(|s| s.is_sort()) { return; } // sort in the middle: tie order not determined by the spec
        let view = self.views[n].clone();
        let ok = self.boundary.iter().any(|s0| {
            let mut cur = s0.clone();
            for (k, sp) in self.specs.iter().enumerate() {
                match stage_spec(sp, &cur, self.params[k]) {
                    Some(v) => cur = v,
                    None => { if let Spec::Sort(c) = sp { return sorted_perm_of(*c, &view, &cur); } }
                }
            }
            cur == view
        });
        if !ok {
            sink.oracle_fail("C13", &format!("after a batch the view is {view:?}, which is not the chain's view of any top-level state {:?}", self.boundary));
        }
    }

    pub fn poll(&mut self, sink: &mut Sink) -> Got {
        if self.stream.is_none() { return Got::End; }
        let lost_possible = self.parked && !self.flag.0.load(Ordering::SeqCst);
        // a parked stream that is polled again (without having been woken) is polled with a NEW waker — a stream handed to
        // another task, a combinator with its own waker: from now on that one is the one every input has to wake (C14)
        if lost_possible { let (f, w) = flag_waker(); self.flag = f; self.waker = w; }
        let got = self.poll_raw();
        self.absorb(sink);
        if lost_possible && got != Got::Pending {
            let t = if self.specs.is_empty() { "C14".to_string() } else { "C14".to_string() };
            sink.oracle_fail(&t, &format!("the stream was Pending, its waker was not woken, yet a further poll returned {}", Self::got_text(&got)));
        }
        match &got {
            Got::Pending => {
                self.parked = true;
                self.flag.0.store(false, Ordering::SeqCst);
                if self.ov.is_none() { sink.oracle_fail("C08,C09,C10,C11", "Pending although the source vector was dropped"); }
                self.check_quiescent(sink);
                let c = self.contents();
                self.boundary = vec![c];
            }
            Got::End => {
                self.parked = false;
                if self.ov.is_some() && !self.ended { sink.oracle_fail("C09,C10,C11,C08", "the adapter's stream ended while the source vector is alive"); }
                if !self.ended { self.check_end(sink); }
                self.ended = true;
            }
            Got::Panic => { sink.oracle_fail("C09,C10,C11,C12", "poll panicked"); }
            Got::Item(ds, batch) => {
                self.parked = false;
                if *batch && ds.is_empty() { sink.oracle_fail("C13", "the adapter emitted an empty batch"); }
                self.emitted.extend(ds.iter().cloned());
                if *batch { self.check_boundary(sink); }
            }
        }
        got
    }

    /// stream ended (source dropped): the views must be the final views
    fn check_end(&mut self, sink: &mut Sink) {
        let n = self.specs.len();
        for k in 0..n {
            let sp = self.specs[k].clone();
            let below = self.views[k].clone();
            let got = self.views[k + 1].clone();
            let ok = match stage_spec(&sp, &below, self.params[k]) {
                Some(e) => e == got,
                None => if let Spec::Sort(c) = sp { sorted_perm_of(c, &got, &below) } else { true },
            };
            // pending limit values are legitimately not applied once the source has ended
            if !ok && self.lims.iter().all(|l| l.pending() == 0) {
                let p = Self::prop_of(&sp);
                sink.oracle_fail(p, &format!("at the end of the stream, stage {k} ({}) shows {got:?}; the stage below shows {below:?}", sp.text()));
            }
        }
    }

    fn got_text(g: &Got) -> String {
        match g {
            Got::Pending => "Pending".into(), Got::End => "End".into(), Got::Panic => "panic".into(),
            Got::Item(ds, false) => format!("Ready({})", fmt_diff(&ds[0])),
            Got::Item(ds, true) => format!("Ready{}", fmt_diffs(ds)),
        }
    }
    pub fn ppoll(&mut self, sink: &mut Sink) -> Got {
        if self.stream.is_none() { return Got::End; }
        let g = self.poll(sink);
        sink.stat("op.ppoll");
        sink.line("ppoll", &Self::got_text(&g));
        g
    }
    pub fn pdrain(&mut self, sink: &mut Sink) {
        if self.stream.is_none() { return; }
        let mut items = vec![];
        for _ in 0..100000 {
            let g = self.poll(sink);
            items.push(Self::got_text(&g));
            if !matches!(g, Got::Item(..)) { break; }
        }
        sink.stat("op.pdrain");
        sink.line("pdrain", &items.join(" "));
    }
    pub fn quiescent(&self) -> bool { self.parked && !self.flag.0.load(Ordering::SeqCst) }
    pub fn view_len_below(&self, k: usize) -> usize { self.views[k].len() }
    pub fn finish(&mut self, sink: &mut Sink) {
        if self.txn.is_some() { self.txn_end(sink, false); }
        if !self.ended { self.pdrain(sink); }
    }
}

// ---------------------------------------------------------------------------------------------------------
fn source_ops(len: usize, sortish: bool) -> Vec<Op> {
    let mut ops = vec![Op::Clear, Op::PopF, Op::PopB, Op::PushF(6), Op::PushB(6), Op::PushF(7), Op::PushB(7),
                       Op::Append(vec![]), Op::Append(vec![6]), Op::Append(vec![6, 7]), Op::Append(vec![7, 6, 5])];
    for i in 0..=len {
        ops.push(Op::Ins(i, 6));
        ops.push(Op::Ins(i, 7));
    }
    for i in 0..len {
        ops.push(Op::Set(i, 6));
        ops.push(Op::Set(i, 7));
        ops.push(Op::Rem(i));
        if !sortish { ops.push(Op::Trunc(i)); }
    }
    ops
}

fn run_seq(sink: &mut Sink, id: &str, cap: usize, init: &[V], batched: bool, specs: &[Spec], body: &dyn Fn(&mut PW, &mut Sink)) -> Vec<VectorDiff<V>> {
    sink.case(id);
    let mut w = PW::new(sink, cap, init);
    w.kf = id.starts_with("kf:");
    w.pipe(sink, batched, specs);
    body(&mut w, sink);
    w.finish(sink);
    sink.nontrivial();
    w.emitted.clone()
}

fn d2_region(old: usize, new: usize, len: usize) -> bool { old > len && new > 0 && new < len }

pub fn run(args: &Args, sink: &mut Sink) {
    let thorough = args.tier == "thorough";
    let only = args.focus.clone();
    let _ = only;
    let mut n = 0u64;
    // ---- A. one adapter, one source operation: every (len, parameter, valid op), both flavours ----------------
    let max_len = if thorough { 5 } else { 4 };
    let max_par = if thorough { 6 } else { 5 };
    for len in 0..=max_len {
        let init: Vec<V> = (1..=len as V).collect();
        for par in 0..=max_par {
            for kind in 0..3 {
                let sp = match kind { 0 => Spec::Head(par), 1 => Spec::Tail(par), _ => Spec::Skip(par) };
                for op in source_ops(len, false) {
                    let mut outs = vec![];
                    for batched in [false, true] {
                        n += 1;
                        let opc = op.clone();
                        outs.push(run_seq(sink, &format!("A{n}"), 16, &init, batched, &[sp.clone()], &move |w, s| { w.pdrain(s); w.direct(s, &opc); w.pdrain(s); }));
                    }
                    if outs[0] != outs[1] { sink.oracle_fail("C13", &format!("batched and unbatched {} deliver different diffs: {} vs {}", sp.text(), fmt_diffs(&outs[1]), fmt_diffs(&outs[0]))); }
                }
            }
        }
    }
    sink.stat_n("exhaustive.A", n);
    // ---- B. limit / count changes: every (old, new, len); and the 2-step combinations before one poll ---------
    let mut nb = 0u64;
    for len in 0..=max_len {
        let init: Vec<V> = (1..=len as V).collect();
        for old in 0..=max_par {
            for new in 0..=max_par {
                for kind in 0..3 {
                    let sp = match kind { 0 => Spec::DHeadI(old, 0), 1 => Spec::DTailI(old, 0), _ => Spec::DSkipI(old, 0) };
                    if kind == 1 && d2_region(old, new, len) { continue; } // known finding D2: confirmed separately below
                    let mut outs = vec![];
                    for batched in [false, true] {
                        nb += 1;
                        outs.push(run_seq(sink, &format!("B{nb}"), 16, &init, batched, &[sp.clone()], &move |w, s| { w.pdrain(s); w.limit(s, 0, new); w.pdrain(s); w.direct(s, &Op::PushB(9)); w.pdrain(s); }));
                    }
                    if outs[0] != outs[1] { sink.oracle_fail("C13", &format!("batched and unbatched {} deliver different diffs for the limit change {old} -> {new} on {len} items: {} vs {}", sp.text(), fmt_diffs(&outs[1]), fmt_diffs(&outs[0]))); }
                }
            }
        }
        // purely dynamic: first value
        for new in 0..=max_par {
            for kind in 0..3 {
                let sp = match kind { 0 => Spec::DHead(0), 1 => Spec::DTail(0), _ => Spec::DSkip(0) };
                if kind == 1 && d2_region(new, 1, len) { continue; } // known finding D2
                for batched in [false, true] {
                    nb += 1;
                    run_seq(sink, &format!("B{nb}"), 16, &init, batched, &[sp.clone()], &move |w, s| { w.pdrain(s); w.direct(s, &Op::PushF(8)); w.pdrain(s); w.limit(s, 0, new); w.pdrain(s); w.direct(s, &Op::PopB); w.pdrain(s); w.limit(s, 0, 1); w.pdrain(s); });
                }
            }
        }
    }
    // 2-step combinations (diff;limit / limit;diff / limit;limit) before one poll — "the limit is polled first"
    for len in [0usize, 2, 4] {
        let init: Vec<V> = (1..=len as V).collect();
        for old in [0usize, 1, 3, 5] {
            for new in [0usize, 2, 4] {
                for kind in 0..3 {
                    if kind == 1 && (0..=len + 1).any(|l| d2_region(old, new, l) || d2_region(new, 1, l)) { continue; }
                    let sp = match kind { 0 => Spec::DHeadI(old, 0), 1 => Spec::DTailI(old, 0), _ => Spec::DSkipI(old, 0) };
                    for op in [Op::PushF(7), Op::PushB(7), Op::PopF, Op::PopB, Op::Clear, Op::Ins(1, 7), Op::Rem(0)] {
                        if matches!(op, Op::Ins(..)) && len < 1 { continue; }
                        if matches!(op, Op::Rem(..)) && len < 1 { continue; }
                        for order in 0..3 {
                            for batched in [false, true] {
                                nb += 1;
                                let opc = op.clone();
                                run_seq(sink, &format!("B{nb}"), 16, &init, batched, &[sp.clone()], &move |w, s| {
                                    w.pdrain(s);
                                    match order {
                                        0 => { w.direct(s, &opc); w.limit(s, 0, new); }
                                        1 => { w.limit(s, 0, new); w.direct(s, &opc); }
                                        _ => { w.limit(s, 0, new); w.limit(s, 0, 1); }
                                    }
                                    w.pdrain(s);
                                });
                            }
                        }
                    }
                }
            }
        }
    }
    sink.stat_n("exhaustive.B", nb);
    // ---- C. filter / filter_map: every pass/fail mask over the items present, every valid op ---------------------
    let mut nc = 0u64;
    let flen = if thorough { 4 } else { 3 };
    for len in 0..=flen {
        let init: Vec<V> = (1..=len as V).collect();
        // bits 1..=len for the items present, bits 6 and 7 for the two values operations introduce
        for m in 0..(1u32 << (len + 2)) {
            let mask: u32 = (0..len as u32).map(|b| ((m >> b) & 1) << (b + 1)).sum::<u32>() | (((m >> len) & 1) << 6) | (((m >> (len + 1)) & 1) << 7);
            for (j, sp) in [Spec::Filter(mask), Spec::FMap(mask, 0), Spec::FMap(mask, 2)].into_iter().enumerate() {
                if j == 2 && m % 3 != 0 { continue; }
                for op in source_ops(len, false) {
                    let mut outs = vec![];
                    for batched in [false, true] {
                        if j > 0 && batched && m % 2 == 1 { continue; }
                        nc += 1;
                        let opc = op.clone();
                        outs.push(run_seq(sink, &format!("C{nc}"), 16, &init, batched, &[sp.clone()], &move |w, s| { w.pdrain(s); w.direct(s, &opc); w.pdrain(s); }));
                    }
                    if outs.len() == 2 && outs[0] != outs[1] { sink.oracle_fail("C13", &format!("batched and unbatched {} deliver different diffs", sp.text())); }
                }
            }
        }
    }
    sink.stat_n("exhaustive.C", nc);
    // ---- D. sort: every source over a 3-value alphabet with ties, every comparator, every valid op but Truncate --
    let mut nd = 0u64;
    let slen = if thorough { 4 } else { 3 };
    let alpha: [V; 3] = [1, 2, 5]; // 1 and 5 tie under key x % 4; 6 and 7 tie under x / 2
    for len in 0..=slen {
        for code in 0..3usize.pow(len as u32) {
            let init: Vec<V> = (0..len).map(|i| alpha[(code / 3usize.pow(i as u32)) % 3]).collect();
            for cid in 0..4 {
                for op in source_ops(len, true) {
                    for batched in [false, true] {
                        if batched && (code + cid) % 2 == 1 { continue; }
                        nd += 1;
                        let opc = op.clone();
                        run_seq(sink, &format!("D{nd}"), 16, &init, batched, &[Spec::Sort(cid)], &move |w, s| { w.pdrain(s); w.direct(s, &opc); w.pdrain(s); w.direct(s, &Op::PushB(3)); w.pdrain(s); });
                    }
                }
            }
        }
    }
    sink.stat_n("exhaustive.D", nd);
    // ---- S. the adapter itself as observer (into_parts) after its limit/count has been set -------------------
    let mut ns = 0u64;
    for len in [0usize, 3, 5] {
        let init: Vec<V> = (1..=len as V).collect();
        for par in [0usize, 2, 4, 7] {
            for kind in 0..6 {
                let sp = match kind { 0 => Spec::DHead(0), 1 => Spec::DHeadI(par, 0), 2 => Spec::DTail(0), 3 => Spec::DTailI(par, 0), 4 => Spec::DSkip(0), _ => Spec::DSkipI(par, 0) };
                for upper in [Spec::Filter(255), Spec::Skip(1), Spec::Head(2), Spec::DTailI(2, 1)] {
                    for (batched, polled) in [(false, false), (false, true), (true, true)] {
                        ns += 1;
                        let up = upper.clone();
                        run_seq(sink, &format!("S{ns}"), 16, &init, batched, &[sp.clone()], &move |w, s| {
                            if polled {
                                w.pdrain(s);
                                if kind % 2 == 0 { w.limit(s, 0, par); w.pdrain(s); }
                                w.direct(s, &Op::PushB(8)); w.pdrain(s);
                            }
                            w.stack(s, &up);
                            w.pdrain(s);
                            w.direct(s, &Op::PushF(9)); w.pdrain(s);
                            // (known finding D2: a Tail limit only grows here)
                            w.limit(s, 0, if kind == 2 || kind == 3 { par + 1 } else { 3 }); w.pdrain(s);
                            w.direct(s, &Op::PopB); w.pdrain(s);
                        });
                    }
                }
            }
        }
    }
    sink.stat_n("exhaustive.S", ns);
    // ---- KF. confirmation set of the known findings (see /verif/known_findings.json) -----------------------------
    // D2: Tail::update_limit shrinking from a limit larger than the vector
    let mut nk = 0;
    for (len, old, new) in [(3usize, 10usize, 2usize), (2, 3, 1), (4, 6, 3), (5, 6, 1)] {
        let init: Vec<V> = (1..=len as V).collect();
        for batched in [false, true] {
            nk += 1;
            run_seq(sink, &format!("kf:D2:{nk}"), 16, &init, batched, &[Spec::DTailI(old, 0)], &move |w, s| { w.pdrain(s); w.limit(s, 0, new); w.pdrain(s); });
        }
    }
    // D4: Sort forwards Truncate{n} to the sorted view
    for (init, cid, nlen) in [(vec![3 as V, 4, 1], 0usize, 2usize), (vec![5, 1, 2, 3], 2, 1), (vec![2, 1], 0, 1), (vec![4, 3, 2, 1], 1, 3)] {
        for batched in [false, true] {
            nk += 1;
            let i2 = init.clone();
            run_seq(sink, &format!("kf:D4:{nk}"), 16, &i2, batched, &[Spec::Sort(cid)], &move |w, s| { w.pdrain(s); w.direct(s, &Op::Trunc(nlen)); w.pdrain(s); });
        }
    }
    // ---- G. a lagged receiver: `Reset` (of non-empty and of empty contents) into every kind of stage whose view is not
    //         empty, then every kind of source operation; capacity 1 -----------------------------------------------------
    {
        let mut ng = 0u64;
        let only_small: u32 = (1 << 1) | (1 << 2) | (1 << 3) | (1 << 7); // 1, 2, 3 and 7 pass
        let stages: Vec<Vec<Spec>> = vec![
            vec![Spec::Head(2)], vec![Spec::Tail(2)], vec![Spec::Skip(1)], vec![Spec::Filter(only_small)], vec![Spec::FMap(only_small, 0)], vec![Spec::FMap(only_small, 2)],
            vec![Spec::Sort(0)], vec![Spec::Sort(2)], vec![Spec::DHeadI(2, 0)], vec![Spec::DSkipI(1, 0)],
            vec![Spec::Filter(only_small), Spec::Sort(0)], vec![Spec::Skip(1), Spec::FMap(only_small, 0)],
        ];
        let lag_ops: Vec<Vec<Op>> = vec![
            vec![Op::PushB(7), Op::PushB(2)], vec![Op::PopF, Op::PushF(3)], vec![Op::PopB, Op::Clear], vec![Op::Clear, Op::PushB(1)],
            vec![Op::Set(0, 4), Op::Rem(1)], vec![Op::PushF(5), Op::PushF(7), Op::PushF(1)],
        ];
        for specs in &stages {
            let has_sort = specs.iter().any(|s| s.is_sort());
            for lag in &lag_ops {
                for batched in [false, true] {
                    let after: Vec<Op> = vec![Op::PushF(2), Op::PushB(7), Op::PopF, Op::PopB, Op::Ins(1, 3), Op::Set(0, 7), Op::Set(1, 2), Op::Rem(0), Op::Rem(1), Op::Trunc(1), Op::Clear, Op::Append(vec![7, 1])];
                    for op in after {
                        if has_sort && matches!(op, Op::Trunc(_)) { continue; } // known finding D4
                        ng += 1;
                        let (lagc, opc) = (lag.clone(), op.clone());
                        run_seq(sink, &format!("G{ng}"), 1, &[1, 4, 2, 3], batched, specs, &move |w, s| {
                            w.pdrain(s);
                            for o in &lagc { w.direct(s, o); }       // more than the capacity unpolled: the receiver lags
                            w.pdrain(s);
                            let len = w.len();
                            match &opc { Op::Set(i, _) | Op::Rem(i) if *i >= len => {}, Op::Ins(i, _) if *i > len => {}, o => w.direct(s, o) }
                            w.pdrain(s);
                            w.direct(s, &Op::PushB(3));
                            w.pdrain(s);
                        });
                    }
                }
            }
        }
        sink.stat_n("lag_reset_cases", ng);
    }
    // ---- H. a buffered second diff and a limit change: the unbatched dynamic adapters hand out the buffered diff first --
    {
        let mut nh = 0u64;
        let chains: Vec<Vec<Spec>> = vec![
            vec![Spec::DHeadI(2, 0)], vec![Spec::DTailI(2, 0)], vec![Spec::DSkipI(1, 0)],
            vec![Spec::Skip(1), Spec::DHeadI(2, 0)], vec![Spec::Skip(1), Spec::DHeadI(2, 0), Spec::Filter(0xfe)], vec![Spec::DHeadI(3, 0), Spec::Tail(2)],
            vec![Spec::Filter(0xfe), Spec::DTailI(2, 0)],
        ];
        for specs in &chains {
            let is_tail = specs.iter().any(|s| s.is_tail());
            for op in [Op::PushF(7), Op::Ins(1, 7), Op::PopF, Op::Rem(0), Op::Rem(1), Op::PushB(7), Op::PopB] {
                for new in [0usize, 1, 3, 5] {
                    // known finding D2: a dynamic Tail's limit shrinks to a non-zero value only from a limit not above the length
                    if is_tail && new == 1 { continue; }
                    for taken in 0..3usize {
                        nh += 1;
                        let opc = op.clone();
                        run_seq(sink, &format!("H{nh}"), 16, &[1, 2, 3, 4, 5], false, specs, &move |w, s| {
                            w.pdrain(s);
                            w.direct(s, &opc);
                            for _ in 0..taken { w.ppoll(s); }     // the consumer takes only some of the diffs the update maps to
                            w.limit(s, 0, new);
                            w.pdrain(s);
                            w.direct(s, &Op::PushB(9));
                            w.pdrain(s);
                        });
                    }
                }
            }
        }
        sink.stat_n("buffered_limit_cases", nh);
    }
    // ---- T. batched against unbatched through every kind of stage: transactions of three and four operations, and the
    //         end of the source with updates still unread (C13) ---------------------------------------------------------
    {
        let mut nt = 0u64;
        let stages: Vec<Vec<Spec>> = vec![vec![], vec![Spec::Head(2)], vec![Spec::Tail(2)], vec![Spec::Skip(1)], vec![Spec::Filter(0xfe)], vec![Spec::FMap(0xfe, 0)], vec![Spec::Sort(0)],
            vec![Spec::Skip(1), Spec::Head(2)], vec![Spec::Filter(0xfe), Spec::Sort(2)]];
        let bodies: Vec<Vec<Op>> = vec![
            vec![Op::Set(0, 4), Op::Ins(1, 3), Op::PushB(7)], vec![Op::PushF(5), Op::PopB, Op::Set(1, 6)], vec![Op::Rem(0), Op::PushB(2), Op::PushF(3), Op::Set(2, 7)],
            vec![Op::PushB(6), Op::PushB(7), Op::PopF], vec![Op::Ins(1, 5), Op::Rem(2), Op::Ins(0, 6), Op::PopB],
        ];
        for specs in &stages {
            for body in &bodies {
                for ending in 0..2 {
                    let mut outs = vec![];
                    for batched in [false, true] {
                        nt += 1;
                        let bc = body.clone();
                        outs.push(run_seq(sink, &format!("T{nt}"), 16, &[1, 2, 3], batched, specs, &move |w, s| {
                            w.pdrain(s);
                            w.txn_begin(s);
                            for o in &bc { w.txn_op(s, o); }
                            w.txn_end(s, true);
                            if ending == 1 { w.direct(s, &Op::PushB(1)); w.drop_vec(s); }
                            w.pdrain(s);
                        }));
                    }
                    if outs[0] != outs[1] {
                        sink.oracle_fail("C13", &format!("batched and unbatched {:?} deliver different diffs for a transaction of {} operations{}: {} vs {}", specs.iter().map(|x| x.text()).collect::<Vec<_>>(), body.len(),
                            if ending == 1 { " followed by an update and the drop of the vector" } else { "" }, fmt_diffs(&outs[1]), fmt_diffs(&outs[0])));
                    }
                }
            }
        }
        sink.stat_n("txn_compare_cases", nt);
    }
    // ---- L. long bursts: many source operations without a visible effect queued before one poll (capacity 128, no lag),
    //         then one with an effect, or the end of the source; a single poll must deliver / end, not stall -------------
    {
        let mut nl = 0u64;
        let only7: u32 = 1 << 7; // the filter that lets only the value 7 through
        let stages: Vec<Vec<Spec>> = vec![
            vec![Spec::Filter(only7)], vec![Spec::FMap(only7, 0)], vec![Spec::Head(1)], vec![Spec::Tail(0)], vec![Spec::Skip(200)],
            vec![Spec::Filter(only7), Spec::Head(2)], vec![Spec::Head(1), Spec::Filter(only7)], vec![Spec::Filter(only7), Spec::Sort(0)],
            vec![Spec::DSkipI(200, 0)], vec![Spec::DHeadI(1, 0)],
        ];
        let bursts: Vec<usize> = if thorough { vec![5, 31, 32, 33, 34, 40, 63, 64, 65, 100] } else { vec![31, 32, 33, 40, 65] };
        for specs in &stages {
            for batched in [false, true] {
                for &b in &bursts {
                    for ending in 0..3 {
                        nl += 1;
                        let specs2 = specs.clone();
                        run_seq(sink, &format!("L{nl}"), 128, &[1, 2], batched, specs, &move |w, s| {
                            w.pdrain(s);
                            // invisible to every stage list above: values 1..6 appended behind two existing items
                            for k in 0..b { w.direct(s, &Op::PushB(1 + (k % 6) as V)); }
                            match ending {
                                0 => { w.direct(s, &Op::PushB(7)); w.direct(s, &Op::PushF(7)); }
                                1 => { w.drop_vec(s); }
                                _ => { w.direct(s, &Op::Clear); w.direct(s, &Op::PushB(7)); }
                            }
                            let _ = &specs2;
                            w.ppoll(s);
                            w.ppoll(s);
                            w.pdrain(s);
                        });
                    }
                }
            }
        }
        sink.stat_n("burst_cases", nl);
    }
    // ---- LV. long VISIBLE bursts: 31..65 queued source updates, or one Append of as many values, every one of which shows in
    //          the view — a single drain must deliver all of them (nothing may be held back without a wake-up) --------------
    {
        let mut nlv = 0u64;
        let stages: Vec<Vec<Spec>> = vec![
            vec![Spec::Sort(0)], vec![Spec::Sort(2)], vec![Spec::Filter(0xFF)], vec![Spec::FMap(0xFF, 1)], vec![Spec::Head(100)], vec![Spec::Tail(100)], vec![Spec::Skip(1)],
            vec![Spec::Filter(0xFF), Spec::Sort(0)], vec![Spec::Sort(0), Spec::Head(100)], vec![Spec::DHeadI(100, 0)], vec![Spec::DSkipI(0, 0)],
        ];
        let bursts: Vec<usize> = if thorough { vec![5, 31, 32, 33, 34, 40, 63, 64, 65, 100] } else { vec![31, 32, 33, 40, 65] };
        for specs in &stages {
            for batched in [false, true] {
                for &b in &bursts {
                    for shape in 0..2 {
                        nlv += 1;
                        run_seq(sink, &format!("LV{nlv}"), 128, &[50], batched, specs, &move |w, s| {
                            w.pdrain(s);
                            // descending values: through a Sort stage each one becomes a diff of its own at the front
                            if shape == 0 { for k in 0..b { w.direct(s, &Op::PushB(40 - (k % 40) as V)); } }
                            else { w.direct(s, &Op::Append((0..b).map(|k| 40 - (k % 40) as V).collect())); }
                            w.pdrain(s);
                            w.direct(s, &Op::PushB(7));
                            w.pdrain(s);
                        });
                    }
                }
            }
        }
        sink.stat_n("visible_burst_cases", nlv);
    }
    // ---- LL. many limit / count values without a visible effect queued before one poll (a limit stream that is a queue),
    //          then Pending, then one with an effect: it must wake the adapter and be delivered (C14: the limit stream was
    //          polled to Pending, i.e. its waker is registered, however many values it had to swallow) --------------------
    {
        let mut nll = 0u64;
        let stages: Vec<(Vec<Spec>, usize, usize)> = vec![
            (vec![Spec::DTailI(2, 0)], 2, 3), (vec![Spec::DHeadI(2, 0)], 2, 3), (vec![Spec::DSkipI(1, 0)], 1, 0),
            (vec![Spec::DTailI(2, 0), Spec::Filter(0xFF)], 2, 3), (vec![Spec::Filter(0xFF), Spec::DHeadI(2, 0)], 2, 3),
        ];
        let counts: Vec<usize> = if thorough { vec![1, 7, 8, 9, 15, 16, 17, 31, 32, 33, 63, 64, 65, 128, 129] } else { vec![7, 8, 9, 16, 17, 32, 33, 64] };
        for (specs, same, eff) in &stages {
            for batched in [false, true] {
                for &n in &counts {
                    for src_too in [false, true] {
                        nll += 1;
                        let (same, eff) = (*same, *eff);
                        run_seq(sink, &format!("LL{nll}"), 16, &[1, 2, 3], batched, specs, &move |w, s| {
                            w.pdrain(s);
                            for _ in 0..n { w.limit(s, 0, same); }
                            w.ppoll(s);            // swallows the n values, nothing to hand out: Pending
                            w.ppoll(s);            // Pending again, with another waker: that one has to be woken from now on
                            if src_too { w.direct(s, &Op::PushB(4)); w.pdrain(s); }
                            w.limit(s, 0, eff);    // must wake
                            w.ppoll(s);
                            w.pdrain(s);
                        });
                    }
                }
            }
        }
        sink.stat_n("limit_burst_cases", nll);
    }
    // ---- R. random histories over random chains -----------------------------------------------------------------
    let mut rng = Rng(args.seed ^ 0xADA9);
    let rounds = if thorough { 200000 } else { 4000 };
    for k in 0..rounds {
        let mut r = rng.fork();
        let nst = 1 + r.below(3).min(if r.chance(1, 2) { 1 } else { 2 });
        let mut specs = vec![];
        let mut nlim = 0;
        let mut has_sort = false;
        #[allow(unused_assignments)]
        for _ in 0..nst {
            let par = r.below(5);
            let sp = loop {
                let c = match r.below(14) {
                    0 => Spec::Head(par), 1 => Spec::DHead(nlim), 2 => Spec::DHeadI(par, nlim),
                    3 => Spec::Tail(par), 4 => Spec::DTail(nlim), 5 => Spec::DTailI(par, nlim),
                    6 => Spec::Skip(par), 7 => Spec::DSkip(nlim), 8 => Spec::DSkipI(par, nlim),
                    9 | 10 => Spec::Filter(r.below(256) as u32), 11 => Spec::FMap(r.below(256) as u32, r.below(3)),
                    _ => Spec::Sort(r.below(4)),
                };
                // known finding D4: no Truncate may reach a Sort stage in the main exploration → no dynamic Head below a Sort
                if c.is_sort() && specs.iter().any(|s: &Spec| matches!(s, Spec::DHead(_) | Spec::DHeadI(..))) { continue; }
                break c;
            };
            if sp.lim().is_some() { nlim += 1; }
            if sp.is_sort() { has_sort = true; }
            specs.push(sp);
        }
        let batched = r.chance(1, 2);
        let cap = if r.chance(1, 4) { 1 + r.below(3) } else { 16 };
        let init: Vec<V> = (0..r.below(6)).map(|_| 1 + r.below(7) as V).collect();
        let wakecheck = r.chance(1, 2);
        let steps = 6 + r.below(if thorough { 30 } else { 18 });
        sink.case(&format!("R{k}"));
        let mut w = PW::new(sink, cap, &init);
        w.pipe(sink, batched, &specs);
        if r.chance(3, 4) { w.pdrain(sink); }
        let mut last_pushed: Vec<Option<usize>> = vec![None; nlim];
        let mut closed: Vec<bool> = vec![false; nlim];
        for _ in 0..steps {
            if !w.alive() { break; }
            let len = w.len();
            let c = r.below(100);
            let rand_op = |r: &mut Rng, len: usize| -> Op {
                let v = 1 + r.below(7) as V;
                let idx = r.below(len + 1);
                loop {
                    let o = match r.below(13) {
                        0 => Op::Append((0..r.below(4)).map(|_| 1 + r.below(7) as V).collect()),
                        1 => Op::Clear, 2 | 3 => Op::PushF(v), 4 | 5 => Op::PushB(v), 6 => Op::PopF, 7 => Op::PopB,
                        8 | 9 => Op::Ins(idx, v), 10 => Op::Set(idx, v), 11 => Op::Rem(idx), _ => Op::Trunc(idx),
                    };
                    if let Op::Set(i, _) | Op::Rem(i) = o { if i >= len { continue; } }
                    if has_sort { if let Op::Trunc(_) = o { continue; } }
                    break o;
                }
            };
            if w.in_txn() {
                match c {
                    0..=59 => { let o = rand_op(&mut r, len); w.txn_op(sink, &o) }
                    60..=84 => { w.txn_end(sink, true); if wakecheck { w.ppoll(sink); } }
                    85..=92 => w.txn_end(sink, false),
                    _ => { w.ppoll(sink); }
                }
                continue;
            }
            match c {
                0..=44 => { let o = rand_op(&mut r, len); w.direct(sink, &o); if wakecheck { w.ppoll(sink); } }
                45..=54 => w.txn_begin(sink),
                55..=72 if nlim > 0 => {
                    let kx = r.below(nlim);
                    if closed[kx] { continue; } // a stream that has ended announces nothing more
                    let mut v = r.below(7);
                    // known finding D2: a dynamic Tail limit shrinks to a non-zero value only at a quiescent point, from a limit not above the length
                    let tail_stage = specs.iter().position(|s| s.is_tail() && s.lim() == Some(kx));
                    if let Some(ts) = tail_stage {
                        let prev = last_pushed[kx].or(match specs[ts] { Spec::DTailI(l, _) => Some(l), _ => Some(0) }).unwrap();
                        if v < prev && v > 0 {
                            if !(w.quiescent() && prev <= w.view_len_below(ts)) { v = if r.chance(1, 2) { 0 } else { prev + r.below(3) }; }
                            w.limit(sink, kx, v);
                            last_pushed[kx] = Some(v);
                            w.pdrain(sink);
                            continue;
                        }
                    }
                    w.limit(sink, kx, v);
                    last_pushed[kx] = Some(v);
                    if wakecheck { w.ppoll(sink); }
                }
                73..=75 if nlim > 0 => { let kx = r.below(nlim); closed[kx] = true; w.lim_close(sink, kx); if wakecheck { w.ppoll(sink); } }
                76..=77 => { w.drop_vec(sink); if wakecheck { w.ppoll(sink); } }
                78..=86 => { w.ppoll(sink); }
                87..=89 if w.stackable() && w.specs().len() < 3 => {
                    // stack one more stage on the adapter itself, at a quiescent point
                    w.pdrain(sink);
                    if !w.alive() || !w.stackable() { continue; }
                    let nl = w.n_lims();
                    let par = r.below(5);
                    let sp = loop {
                        let c = match r.below(8) { 0 => Spec::Head(par), 1 => Spec::Tail(par), 2 => Spec::Skip(par), 3 => Spec::DHeadI(par, nl), 4 => Spec::DSkip(nl),
                                                   5 => Spec::Filter(r.below(256) as u32), 6 => Spec::FMap(r.below(256) as u32, r.below(3)), _ => Spec::Sort(r.below(4)) };
                        if c.is_sort() && w.specs().iter().any(|s| matches!(s, Spec::DHead(_) | Spec::DHeadI(..))) { continue; }
                        break c;
                    };
                    if sp.is_sort() { has_sort = true; }
                    if sp.lim().is_some() { nlim += 1; last_pushed.push(None); closed.push(false); }
                    specs.push(sp.clone());
                    w.stack(sink, &sp);
                }
                _ => w.pdrain(sink),
            }
        }
        if w.in_txn() { let c = r.chance(1, 2); w.txn_end(sink, c); }
        if w.alive() && r.chance(1, 2) { w.drop_vec(sink); }
        w.finish(sink);
        sink.nontrivial();
    }
}
