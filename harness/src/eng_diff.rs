//! Engine `diff` (C18): `VectorDiff::map` / `apply` on the real crate vs. the Lean model, plus the
//! implementation-side oracle (commutation, identity, panic condition, documented change vs a plain Vec).
use crate::common::*;
use eyeball_im::VectorDiff;
use imbl::Vector;

pub fn map_fn(id: usize) -> fn(V) -> V {
    match id {
        0 => |x| x + 1,
        1 => |x| x * 2,
        2 => |x| x % 2,
        _ => |_| 7,
    }
}

pub fn all_diffs(len: usize, vals: &[V], payloads: &[Vec<V>]) -> Vec<VectorDiff<V>> {
    let mut ds = vec![VectorDiff::Clear, VectorDiff::PopFront, VectorDiff::PopBack];
    for p in payloads {
        ds.push(VectorDiff::Append { values: p.iter().copied().collect() });
        ds.push(VectorDiff::Reset { values: p.iter().copied().collect() });
    }
    for &v in vals {
        ds.push(VectorDiff::PushFront { value: v });
        ds.push(VectorDiff::PushBack { value: v });
        for i in 0..=len + 2 {
            ds.push(VectorDiff::Insert { index: i, value: v });
            ds.push(VectorDiff::Set { index: i, value: v });
        }
    }
    for i in 0..=len + 2 {
        ds.push(VectorDiff::Remove { index: i });
        ds.push(VectorDiff::Truncate { length: i });
    }
    ds
}

/// documented change on a plain Vec; `Err` where the docs say "panics"
fn reference_apply(d: &VectorDiff<V>, l: &[V]) -> Result<Vec<V>, ()> {
    let mut r = l.to_vec();
    match d {
        VectorDiff::Append { values } => r.extend(values.iter().copied()),
        VectorDiff::Clear => r.clear(),
        VectorDiff::PushFront { value } => r.insert(0, *value),
        VectorDiff::PushBack { value } => r.push(*value),
        VectorDiff::PopFront => { if !r.is_empty() { r.remove(0); } }
        VectorDiff::PopBack => { r.pop(); }
        VectorDiff::Insert { index, value } => { if *index > r.len() { return Err(()); } r.insert(*index, *value) }
        VectorDiff::Set { index, value } => { if *index >= r.len() { return Err(()); } r[*index] = *value }
        VectorDiff::Remove { index } => { if *index >= r.len() { return Err(()); } r.remove(*index); }
        VectorDiff::Truncate { length } => r.truncate(*length),
        VectorDiff::Reset { values } => r = values.iter().copied().collect(),
    }
    Ok(r)
}

fn apply_impl(d: &VectorDiff<V>, l: &Vector<V>) -> Result<Vector<V>, ()> {
    let mut v = l.clone();
    let d = d.clone();
    catch(move || { d.apply(&mut v); v })
}

fn one(sink: &mut Sink, l: &Vector<V>, d: &VectorDiff<V>) {
    sink.stat(&format!("kind.{}", diff_kind(d)));
    let lv: Vec<V> = l.iter().copied().collect();
    // plain apply
    let r = apply_impl(d, l);
    let reference = reference_apply(d, &lv);
    let shown = match &r { Ok(v) => fmt_vec(v), Err(()) => "panic".into() };
    sink.line(&format!("diff.apply {} {}", fmt_diff(d), fmt_vec(l)), &shown);
    if r.is_err() { sink.stat("panic"); } else { sink.nontrivial(); }
    match (&r, &reference) {
        (Ok(a), Ok(b)) if a.iter().copied().collect::<Vec<_>>() == *b => {}
        (Err(()), Err(())) => {}
        _ => sink.oracle_fail("C18", &format!("apply deviates from the documented change / panic condition: impl {shown}, reference {reference:?}")),
    }
    // identity map
    if d.clone().map(|x| x) != *d {
        sink.oracle_fail("C18", "map(identity) returned a different diff");
    }
    // commutation, for every mapping in the table
    for fid in 0..4 {
        let f = map_fn(fid);
        let md = d.clone().map(f);
        let ml: Vector<V> = l.iter().map(|x| f(*x)).collect();
        let lhs = apply_impl(&md, &ml);
        let shown = match &lhs { Ok(v) => fmt_vec(v), Err(()) => "panic".into() };
        sink.line(&format!("diff.mapapply {fid} {} {}", fmt_diff(d), fmt_vec(l)), &format!("{} {}", fmt_diff(&md), shown));
        let rhs = r.clone().map(|v| v.iter().map(|x| f(*x)).collect::<Vector<V>>());
        if lhs != rhs {
            sink.oracle_fail("C18", &format!("map/apply do not commute for mapping #{fid}: mapped-then-applied {shown}, applied-then-mapped {:?}", rhs.map(|v| fmt_vec(&v))));
        }
    }
}

pub fn run(args: &Args, sink: &mut Sink) {
    let thorough = args.tier == "thorough";
    let max_len = if thorough { 6 } else { 4 };
    let payloads: Vec<Vec<V>> = vec![vec![], vec![1], vec![2, 1], vec![1, 2, 3]];
    // exhaustive: all vectors of length <= max_len over {1,2}, every diff kind with every index 0..len+2
    let mut n = 0u64;
    for len in 0..=max_len {
        for bits in 0..(1u32 << len) {
            let l: Vector<V> = (0..len).map(|i| 1 + ((bits >> i) & 1) as V).collect();
            for d in all_diffs(len, &[1, 3], &payloads) {
                n += 1;
                sink.case(&format!("ex{n}"));
                one(sink, &l, &d);
            }
        }
    }
    sink.stat_n("exhaustive_cases", n);
    // size classes around imbl's chunk boundaries (64 items per leaf): every vector length x payload length for
    // Append / Reset, and every boundary index for the indexed kinds; items are position-dependent so that any
    // reordering shows
    let sizes = [0usize, 1, 2, 3, 4, 5, 31, 32, 33, 63, 64, 65, 66, 127, 128, 129, 130, 200];
    let psizes = [0usize, 1, 2, 5, 63, 64, 65, 66, 128, 129, 200];
    let mut m = 0u64;
    for &len in &sizes {
        let l: Vector<V> = (0..len).map(|i| (i % 97) as V + 1).collect();
        let mut ds: Vec<VectorDiff<V>> = vec![VectorDiff::Clear, VectorDiff::PopFront, VectorDiff::PopBack,
            VectorDiff::PushFront { value: 777 }, VectorDiff::PushBack { value: 777 }];
        for &pl in &psizes {
            let values: Vector<V> = (0..pl).map(|i| 1000 + (i % 89) as V).collect();
            ds.push(VectorDiff::Append { values: values.clone() });
            ds.push(VectorDiff::Reset { values });
        }
        let mut idxs = vec![0usize, 1, len / 2, len.saturating_sub(1), len, len + 1, len + 2];
        idxs.sort(); idxs.dedup();
        for &i in &idxs {
            ds.push(VectorDiff::Insert { index: i, value: 555 });
            ds.push(VectorDiff::Set { index: i, value: 555 });
            ds.push(VectorDiff::Remove { index: i });
            ds.push(VectorDiff::Truncate { length: i });
        }
        for d in ds { m += 1; sink.case(&format!("sz{m}")); one(sink, &l, &d); }
    }
    sink.stat_n("size_class_cases", m);
    // random: long vectors (beyond imbl's 64-element chunks), random diffs
    let mut rng = Rng(args.seed ^ 0xD1FF);
    let rounds = if thorough { 100000 } else { 800 };
    for k in 0..rounds {
        let len = if rng.chance(1, 4) { rng.below(8) } else { 50 + rng.below(100) };
        let l: Vector<V> = (0..len).map(|_| rng.below(9) as V).collect();
        let idx = if rng.chance(1, 5) { len + rng.below(3) } else { rng.below(len + 1) };
        let v = rng.below(9) as V;
        let plmax = if rng.chance(1, 3) { 300 } else { 80 };
        let pl: Vector<V> = (0..rng.below(plmax)).map(|_| rng.below(9) as V).collect();
        let d = match rng.below(11) {
            0 => VectorDiff::Append { values: pl },
            1 => VectorDiff::Clear,
            2 => VectorDiff::PushFront { value: v },
            3 => VectorDiff::PushBack { value: v },
            4 => VectorDiff::PopFront,
            5 => VectorDiff::PopBack,
            6 => VectorDiff::Insert { index: idx, value: v },
            7 => VectorDiff::Set { index: idx, value: v },
            8 => VectorDiff::Remove { index: idx },
            9 => VectorDiff::Truncate { length: idx },
            _ => VectorDiff::Reset { values: pl },
        };
        sink.case(&format!("rnd{k}"));
        one(sink, &l, &d);
    }
}
