//! Engine `own` (C20): an instrumented element type (every construction and clone gets an id, every drop is
//! recorded, a second drop of the same id is detected) through histories of the observable crate (exact
//! ledger, compared with the Lean model after every call) and of the vector crates and adapters (invariants only).
use std::sync::Arc;
use std::task::Waker;
use crate::common::*;
use crate::eng_vec::flag_waker;
use eyeball::{AsyncLock, Observable, SharedObservable, Subscriber};
use eyeball_im::{ObservableVector, VectorDiff};
use eyeball_im_util::vector::VectorObserverExt;
use futures_core::Stream;
use std::cell::{Cell, RefCell};
use std::collections::BTreeSet;
use std::future::Future;
use std::hash::{Hash, Hasher};
use std::pin::Pin;
use std::task::{Context, Poll};

thread_local! {
    static LIVE: RefCell<BTreeSet<u64>> = const { RefCell::new(BTreeSet::new()) };
    static NEXT: Cell<u64> = const { Cell::new(0) };
    static DOUBLE: Cell<u64> = const { Cell::new(0) };
}
fn reset_registry() { LIVE.with(|l| l.borrow_mut().clear()); NEXT.with(|n| n.set(0)); DOUBLE.with(|d| d.set(0)); }
fn fresh_id() -> u64 { let id = NEXT.with(|n| { let v = n.get(); n.set(v + 1); v }); LIVE.with(|l| l.borrow_mut().insert(id)); id }

#[derive(Debug)]
pub struct Tok { pub v: u64, pub id: u64,
                 /// a heap allocation per instance: a double drop / use after free is then undefined behaviour that Miri reports
                 _heap: Box<u64> }
impl Tok { pub fn new(v: u64) -> Tok { Tok { v, id: fresh_id(), _heap: Box::new(v) } } }
impl Clone for Tok { fn clone(&self) -> Tok { Tok { v: self.v, id: fresh_id(), _heap: Box::new(*self._heap) } } }
impl Default for Tok { fn default() -> Tok { Tok::new(0) } }
impl Drop for Tok { fn drop(&mut self) { let had = LIVE.with(|l| l.borrow_mut().remove(&self.id)); if !had { DOUBLE.with(|d| d.set(d.get() + 1)); } } }
impl PartialEq for Tok { fn eq(&self, o: &Tok) -> bool { self.v % 8 == o.v % 8 } }
impl Eq for Tok {}
impl PartialOrd for Tok { fn partial_cmp(&self, o: &Tok) -> Option<std::cmp::Ordering> { Some(self.cmp(o)) } }
impl Ord for Tok { fn cmp(&self, o: &Tok) -> std::cmp::Ordering { self.v.cmp(&o.v) } }
impl Hash for Tok { fn hash<H: Hasher>(&self, h: &mut H) { (self.v / 8).hash(h) } }

fn now<F: Future>(f: F) -> F::Output {
    let (_fl, w) = flag_waker();
    let mut cx = Context::from_waker(&w);
    let mut f = std::pin::pin!(f);
    match f.as_mut().poll(&mut cx) { Poll::Ready(v) => v, Poll::Pending => panic!("future had to wait") }
}

enum Own { U(Observable<Tok>), S(SharedObservable<Tok>), UA(Observable<Tok, AsyncLock>), SA(SharedObservable<Tok, AsyncLock>) }
enum Sub { S(Subscriber<Tok>), A(Subscriber<Tok, AsyncLock>) }

struct LW { unique: Option<Own>, clones: Vec<Option<Own>>, subs: Vec<Option<Sub>>, caller: Vec<Tok>, cur: u64, state_alive: bool }

impl LW {
    fn held(&self) -> String {
        let callers: BTreeSet<u64> = self.caller.iter().map(|t| t.id).collect();
        let held: Vec<u64> = LIVE.with(|l| l.borrow().iter().copied().filter(|i| !callers.contains(i)).collect());
        format!("held={} next={}", fmt_list(&held), NEXT.with(|n| n.get()))
    }
    fn emit(&mut self, sink: &mut Sink, op: &str) {
        let h = self.held();
        let d = DOUBLE.with(|d| d.get());
        if d > 0 { sink.oracle_fail("C20", &format!("{d} value(s) dropped twice")); }
        sink.stat(op);
        sink.line(op, &h);
    }
    fn owner(&mut self) -> Option<&mut Own> { if self.unique.is_some() { self.unique.as_mut() } else { self.clones.iter_mut().flatten().next() } }
    fn strong(&self) -> usize { self.unique.iter().count() + self.clones.iter().flatten().count() + self.subs.iter().flatten().count() }
    fn after_handle_drop(&mut self, sink: &mut Sink) {
        if self.state_alive && self.strong() == 0 { self.state_alive = false; self.emit(sink, "l.drop"); } else { self.emit(sink, "l.none"); }
    }
}

fn obs_case(sink: &mut Sink, id: &str, unique: bool, asyncf: bool, r: &mut Rng, steps: usize) {
    sink.case(id);
    reset_registry();
    let mut w = LW { unique: None, clones: vec![], subs: vec![], caller: vec![], cur: 1, state_alive: true };
    let first = Tok::new(1);
    match (unique, asyncf) {
        (true, false) => w.unique = Some(Own::U(Observable::new(first))),
        (true, true) => w.unique = Some(Own::UA(Observable::new_async(first))),
        (false, false) => w.clones.push(Some(Own::S(SharedObservable::new(first)))),
        (false, true) => w.clones.push(Some(Own::SA(SharedObservable::new_async(first)))),
    }
    w.emit(sink, "lnew");
    for _ in 0..steps {
        let c = r.below(20);
        let live_subs: Vec<usize> = w.subs.iter().enumerate().filter(|(_, s)| s.is_some()).map(|(i, _)| i).collect();
        match c {
            0..=2 => { // set
                let v = r.below(40) as u64;
                let Some(o) = w.owner() else { continue };
                let prev = match o { Own::U(o) => Observable::set(o, Tok::new(v)), Own::UA(o) => now(Observable::set_async(o, Tok::new(v))), Own::S(o) => o.set(Tok::new(v)), Own::SA(o) => now(o.set(Tok::new(v))) };
                w.caller.push(prev); w.cur = v; w.emit(sink, "l.set");
            }
            3..=4 => { // set_if_not_eq
                let v = r.below(40) as u64;
                let differs = v % 8 != w.cur % 8;
                let Some(o) = w.owner() else { continue };
                let prev = match o { Own::U(o) => Observable::set_if_not_eq(o, Tok::new(v)), Own::UA(o) => now(Observable::set_if_not_eq_async(o, Tok::new(v))), Own::S(o) => o.set_if_not_eq(Tok::new(v)), Own::SA(o) => now(o.set_if_not_eq(Tok::new(v))) };
                if prev.is_some() != differs { sink.oracle_fail("C20,C01", "set_if_not_eq decided differently from the specification"); }
                if let Some(p) = prev { w.caller.push(p); w.cur = v; w.emit(sink, "l.set"); } else { w.emit(sink, "l.skip"); }
            }
            5 => { // set_if_hash_not_eq
                let v = r.below(40) as u64;
                let Some(o) = w.owner() else { continue };
                let prev = match o { Own::U(o) => Observable::set_if_hash_not_eq(o, Tok::new(v)), Own::UA(o) => now(Observable::set_if_hash_not_eq_async(o, Tok::new(v))), Own::S(o) => o.set_if_hash_not_eq(Tok::new(v)), Own::SA(o) => now(o.set_if_hash_not_eq(Tok::new(v))) };
                if let Some(p) = prev { w.caller.push(p); w.cur = v; w.emit(sink, "l.set"); } else { w.emit(sink, "l.skip"); }
            }
            6 => { // take
                let Some(o) = w.owner() else { continue };
                let prev = match o { Own::U(o) => Observable::take(o), Own::UA(o) => now(Observable::take_async(o)), Own::S(o) => o.take(), Own::SA(o) => now(o.take()) };
                w.caller.push(prev); w.cur = 0; w.emit(sink, "l.take");
            }
            7 => { // update in place
                let Some(o) = w.owner() else { continue };
                match o { Own::U(o) => Observable::update(o, |t| t.v += 1), Own::UA(o) => now(Observable::update_async(o, |t| t.v += 1)), Own::S(o) => o.update(|t| t.v += 1), Own::SA(o) => now(o.update(|t| t.v += 1)) };
                w.cur += 1; w.emit(sink, "l.update");
            }
            8 => { // get through an owner (clone)
                let Some(o) = w.owner() else { continue };
                let t = match o { Own::U(o) => Observable::get(o).clone(), Own::UA(o) => Observable::get_async(o).clone(), Own::S(o) => o.get(), Own::SA(o) => now(o.get()) };
                w.caller.push(t); w.emit(sink, "l.clone");
            }
            9..=10 => { // subscribe
                if live_subs.len() >= 3 { continue; }
                let reset = r.chance(1, 2);
                let Some(o) = w.owner() else { continue };
                let s = match o {
                    Own::U(o) => Sub::S(if reset { Observable::subscribe_reset(o) } else { Observable::subscribe(o) }),
                    Own::UA(o) => Sub::A(if reset { Observable::subscribe_reset_async(o) } else { Observable::subscribe_async(o) }),
                    Own::S(o) => Sub::S(if reset { o.subscribe_reset() } else { o.subscribe() }),
                    Own::SA(o) => Sub::A(if reset { o.subscribe_reset() } else { now(o.subscribe()) }),
                };
                w.subs.push(Some(s)); w.emit(sink, "l.none");
            }
            11..=13 if !live_subs.is_empty() => { // poll: a ready item is a clone
                let i = live_subs[r.below(live_subs.len())];
                let (_f, wk) = flag_waker();
                let mut cx = Context::from_waker(&wk);
                let res = match w.subs[i].as_mut().unwrap() { Sub::S(s) => Pin::new(s).poll_next(&mut cx), Sub::A(s) => Pin::new(s).poll_next(&mut cx) };
                if let Poll::Ready(Some(t)) = res { w.caller.push(t); w.emit(sink, "l.clone"); } else { w.emit(sink, "l.none"); }
            }
            14 if !live_subs.is_empty() => { // next_now / get of a subscriber
                let i = live_subs[r.below(live_subs.len())];
                let t = match w.subs[i].as_mut().unwrap() { Sub::S(s) => if r.chance(1, 2) { s.next_now() } else { s.get() }, Sub::A(s) => now(s.next_now()) };
                w.caller.push(t); w.emit(sink, "l.clone");
            }
            15 if !live_subs.is_empty() => { // clone / drop a subscriber
                let i = live_subs[r.below(live_subs.len())];
                if r.chance(1, 2) && live_subs.len() < 3 {
                    let s = match w.subs[i].as_ref().unwrap() { Sub::S(s) => Sub::S(s.clone()), Sub::A(s) => Sub::A(s.clone()) };
                    w.subs.push(Some(s)); w.emit(sink, "l.none");
                } else { w.subs[i] = None; w.after_handle_drop(sink); }
            }
            16 => { // clone an owner
                if w.unique.is_some() || w.clones.iter().flatten().count() >= 3 { continue; }
                let Some(o) = w.owner() else { continue };
                let c = match o { Own::S(o) => Own::S(o.clone()), Own::SA(o) => Own::SA(o.clone()), _ => unreachable!() };
                w.clones.push(Some(c)); w.emit(sink, "l.none");
            }
            17 => { // drop an owner
                if w.unique.is_some() { w.unique = None; } else if let Some(slot) = w.clones.iter_mut().find(|c| c.is_some()) { *slot = None; } else { continue; }
                w.after_handle_drop(sink);
            }
            18 => { // into_shared: a move, nothing is dropped
                let Some(o) = w.unique.take() else { continue };
                let s = match o { Own::U(o) => Own::S(Observable::into_shared(o)), Own::UA(o) => Own::SA(Observable::into_shared(o)), _ => unreachable!() };
                w.clones.push(Some(s)); w.emit(sink, "l.into");
            }
            _ => {}
        }
    }
    // drop every handle: the current value must be destroyed exactly then
    w.unique = None; if w.state_alive { w.after_handle_drop(sink); }
    for i in 0..w.clones.len() { if w.clones[i].take().is_some() { w.after_handle_drop(sink); } }
    for i in 0..w.subs.len() { if w.subs[i].take().is_some() { w.after_handle_drop(sink); } }
    w.caller.clear();
    let live = LIVE.with(|l| l.borrow().len());
    let d = DOUBLE.with(|d| d.get());
    if live != 0 || d != 0 { sink.oracle_fail("C20", &format!("after every handle and every handed-out value is gone: {live} value(s) still alive, {d} dropped twice")); }
    sink.line("lvecend", &format!("live={live} double={d}"));
    sink.nontrivial();
}

/// vector crates and adapters: only the invariants (imbl shares and copies chunks internally)
/// a count / limit stream that is a queue filled by the test
struct QStream(std::rc::Rc<std::cell::RefCell<std::collections::VecDeque<usize>>>);
impl Stream for QStream {
    type Item = usize;
    fn poll_next(self: Pin<&mut Self>, _: &mut Context<'_>) -> Poll<Option<usize>> {
        match self.0.borrow_mut().pop_front() { Some(v) => Poll::Ready(Some(v)), None => Poll::Pending }
    }
}

fn vec_case(sink: &mut Sink, id: &str, r: &mut Rng, steps: usize) {
    sink.case(id);
    reset_registry();
    {
        let cap = [1usize, 2, 4, 16][r.below(4)];
        let mut ov: ObservableVector<Tok> = ObservableVector::with_capacity(cap);
        // subscriptions are also taken from a vector that already has items (the subscriber then owns a snapshot)
        for _ in 0..r.below(4) { ov.push_back(Tok::new(r.below(9) as u64)); }
        let mut plain = Some(Box::pin(ov.subscribe().into_stream()));
        let mut batched = Some(Box::pin(ov.subscribe().into_batched_stream()));
        let (_iv, st) = ov.subscribe().head(3);
        let (_iv2, st2) = (_iv, st).filter(|t: &Tok| t.v % 2 == 0);
        let (_iv3, chain) = { let (v, s) = (_iv2, st2).sort(); (v, Box::pin(s)) };
        let mut chain = Some(chain);
        let (_iv4, dyn_tail) = ov.subscribe().tail(2);
        let mut dyn_tail = Some(Box::pin(dyn_tail));
        // a Skip whose count is not known yet (it buffers what comes in until the count stream speaks), a dynamic Head with an
        // initial limit, a FilterMap that builds new values, a SortBy: the other adapter kinds and constructors
        let counts = std::rc::Rc::new(std::cell::RefCell::new(std::collections::VecDeque::new()));
        let dskip = ov.subscribe().dynamic_skip(QStream(counts.clone()));
        let mut dskip = Some(Box::pin(dskip));
        let limits = std::rc::Rc::new(std::cell::RefCell::new(std::collections::VecDeque::new()));
        let (_iv6, dhead) = ov.subscribe().dynamic_head_with_initial_value(2, QStream(limits.clone()));
        let (_iv7, dhead_fm) = (_iv6, dhead).filter_map(|t: Tok| if t.v % 3 != 0 { Some(Tok::new(t.v + 100)) } else { None });
        let mut dhead_fm = Some(Box::pin(dhead_fm));
        let (_iv8, sby) = eyeball_im_util::vector::VectorSubscriberExt::batched(ov.subscribe()).sort_by(|a: &Tok, b: &Tok| b.v.cmp(&a.v));
        let mut sby = Some(Box::pin(sby));
        let mut kept: Vec<VectorDiff<Tok>> = vec![];
        let (_f, wk) = flag_waker();
        for _ in 0..steps {
            let len = ov.len();
            let v = r.below(9) as u64;
            match r.below(18) {
                0 | 1 => ov.push_back(Tok::new(v)),
                2 => ov.push_front(Tok::new(v)),
                3 => { ov.pop_back(); }
                4 => { ov.pop_front(); }
                5 => ov.insert(r.below(len + 1), Tok::new(v)),
                6 if len > 0 => { ov.set(r.below(len), Tok::new(v)); }
                7 if len > 0 => { ov.remove(r.below(len)); }
                8 => ov.truncate(r.below(len + 1)),
                9 => if r.chance(1, 3) { ov.clear() },
                10 => ov.append((0..r.below(4)).map(|_| Tok::new(r.below(9) as u64)).collect()),
                11 => { let mut t = ov.transaction(); t.push_back(Tok::new(v)); t.pop_front(); t.insert(0, Tok::new(v)); if r.chance(2, 3) { t.commit(); } }
                12 if len > 0 => { ov.for_each(|mut e| { if e.v % 3 == 0 { eyeball_im::ObservableVectorEntry::set(&mut e, Tok::new(1)); } else if e.v % 3 == 1 { eyeball_im::ObservableVectorEntry::remove(e); } }); }
                // a transaction with a random body of 1..3 calls (a single value-carrying diff included); the
                // subscribers may all go away while it is open
                13 | 14 => {
                    let mut t = ov.transaction();
                    let n = 1 + r.below(3);
                    for k in 0..n {
                        let tl = t.len();
                        match r.below(8) {
                            0 | 1 => t.push_back(Tok::new(v)),
                            2 => t.insert(r.below(tl + 1), Tok::new(v)),
                            3 if tl > 0 => { t.set(r.below(tl), Tok::new(v)); }
                            4 => t.append((0..r.below(3)).map(|_| Tok::new(v)).collect()),
                            // clear discards the diffs recorded before it — and the values they carry
                            5 => t.clear(),
                            6 => t.truncate(r.below(tl + 1)),
                            _ => { t.pop_front(); }
                        }
                        if k == 0 && r.chance(1, 6) { plain = None; batched = None; chain = None; dyn_tail = None; }
                        if r.chance(1, 5) { t.rollback(); }
                    }
                    if r.chance(3, 4) { t.commit(); }
                }
                15 if r.chance(1, 4) => {
                    match r.below(7) { 0 => plain = None, 1 => batched = None, 2 => chain = None, 3 => dyn_tail = None, 4 => dskip = None, 5 => dhead_fm = None, _ => sby = None }
                }
                // the count / limit streams speak
                16 => { if r.chance(1, 2) { counts.borrow_mut().push_back(r.below(4)); } else { limits.borrow_mut().push_back(r.below(5)); } }
                // out-of-range calls (they panic; the rejected value is the library's to drop), on the vector and in a transaction
                17 if r.chance(1, 2) => {
                    let k = r.below(3);
                    match r.below(4) {
                        0 => { let _ = catch(|| ov.insert(len + 1 + k, Tok::new(v))); }
                        1 => { let _ = catch(|| { ov.set(len + k, Tok::new(v)); }); }
                        2 => { let mut t = ov.transaction(); let _ = catch(|| t.insert(len + 1 + k, Tok::new(v))); t.commit(); }
                        _ => { let mut t = ov.transaction(); t.push_back(Tok::new(v)); let _ = catch(|| { t.set(len + 1 + k, Tok::new(v)); }); if r.chance(1, 2) { t.commit(); } }
                    }
                }
                // a new subscription replaces an old one: from the current (usually non-empty) contents, in every conversion
                15 => match r.below(4) {
                    0 => plain = Some(Box::pin(ov.subscribe().into_stream())),
                    1 => batched = Some(Box::pin(ov.subscribe().into_batched_stream())),
                    2 => { let (vals, st) = ov.subscribe().into_values_and_stream(); drop(vals); plain = Some(Box::pin(st)); }
                    _ => { let (vals, st) = ov.subscribe().into_values_and_batched_stream(); drop(vals); batched = Some(Box::pin(st)); }
                },
                _ => {
                    let mut cx = Context::from_waker(&wk);
                    for _ in 0..r.below(4) {
                        if let Some(p) = plain.as_mut() { if let Poll::Ready(Some(d)) = p.as_mut().poll_next(&mut cx) { if r.chance(1, 4) { kept.push(d); } } }
                        if let Some(b) = batched.as_mut() { let _ = b.as_mut().poll_next(&mut cx); }
                        if let Some(c) = chain.as_mut() { let _ = c.as_mut().poll_next(&mut cx); }
                        if let Some(t) = dyn_tail.as_mut() { let _ = t.as_mut().poll_next(&mut cx); }
                        if let Some(t) = dskip.as_mut() { let _ = t.as_mut().poll_next(&mut cx); }
                        if let Some(t) = dhead_fm.as_mut() { if let Poll::Ready(Some(d)) = t.as_mut().poll_next(&mut cx) { if r.chance(1, 4) { kept.push(d); } } }
                        if let Some(t) = sby.as_mut() { let _ = t.as_mut().poll_next(&mut cx); }
                    }
                }
            }
            if DOUBLE.with(|d| d.get()) > 0 { break; }
        }
        // mapped diffs are values too
        let mapped: Vec<VectorDiff<Tok>> = kept.iter().cloned().map(|d| d.map(|t| t)).collect();
        drop(mapped);
        if r.chance(1, 2) {
            drop(ov);
            let mut cx = Context::from_waker(&wk);
            if let Some(p) = plain.as_mut() { while let Poll::Ready(Some(_)) = p.as_mut().poll_next(&mut cx) {} }
            if let Some(c) = chain.as_mut() { while let Poll::Ready(Some(_)) = c.as_mut().poll_next(&mut cx) {} }
            if let Some(c) = dskip.as_mut() { while let Poll::Ready(Some(_)) = c.as_mut().poll_next(&mut cx) {} }
        }
    }
    let live = LIVE.with(|l| l.borrow().len());
    let d = DOUBLE.with(|d| d.get());
    if live != 0 || d != 0 { sink.oracle_fail("C20", &format!("after the vector, its subscribers, adapters and diffs are gone: {live} element(s) still alive, {d} dropped twice")); }
    sink.line("lvecend", &format!("live={live} double={d}"));
    sink.nontrivial();
}

/// a task that owns the subscriber it polls, and whose waker owns the task (what an executor's task looks like):
/// once the observable is closed and the last outside handle of the task is gone, the waker list must not keep it alive
struct OwningTask<S> { sub: std::sync::Mutex<Option<S>> }
impl<S: Send> std::task::Wake for OwningTask<S> { fn wake(self: Arc<Self>) {} }

/// W. reference cycle state -> waker -> task -> subscriber -> state (C20: nothing is leaked)
/// `weak`: a `WeakObservable` is alive while the last owner goes away (and is dropped after the task)
fn waker_cycle_case(sink: &mut Sink, id: &str, shared: bool, asyncf: bool, write_between: bool, poll_after_close: bool, unwinding: bool, weak: bool) {
    sink.case(id);
    reset_registry();
    {
        fn poll_task<S: Stream + Unpin + Send + 'static>(task: &Arc<OwningTask<S>>, waker: &Waker) {
            let mut cx = Context::from_waker(waker);
            let mut g = task.sub.lock().unwrap();
            let _ = Pin::new(g.as_mut().unwrap()).poll_next(&mut cx);
        }
        /// the handle goes away — by a plain drop, or dropped by a panic that unwinds through its owner
        fn gone<H>(h: H, unwinding: bool) { if unwinding { let _ = catch(move || { let _h = h; panic!("unwinding through the owner of the observable") }); } else { drop(h) } }
        fn cycle<S: Stream + Unpin + Send + 'static>(sub: S, write: impl FnOnce(), drop_ob: impl FnOnce(), write_between: bool, poll_after_close: bool) {
            let task = Arc::new(OwningTask { sub: std::sync::Mutex::new(Some(sub)) });
            let waker = Waker::from(task.clone());
            poll_task(&task, &waker);
            if write_between { write(); poll_task(&task, &waker); poll_task(&task, &waker); }
            drop_ob();
            if poll_after_close { poll_task(&task, &waker); }
            drop(waker);
            drop(task);
        }
        match (shared, asyncf) {
            (false, false) => { let mut ob = Observable::new(Tok::new(1)); let sub = Observable::subscribe(&ob); let p: *mut Observable<Tok> = &mut ob;
                cycle(sub, || { Observable::set(unsafe { &mut *p }, Tok::new(2)); }, || gone(unsafe { std::ptr::read(p) }, unwinding), write_between, poll_after_close); std::mem::forget(ob); }
            (true, false) => { let ob = SharedObservable::new(Tok::new(1)); let sub = ob.subscribe(); let ob2 = ob.clone();
                let wk = if weak { Some(ob.downgrade()) } else { None };
                cycle(sub, move || { ob2.set(Tok::new(2)); drop(ob2); }, move || gone(ob, unwinding), write_between, poll_after_close);
                if let Some(wk) = wk { if wk.upgrade().is_some() { sink.oracle_fail("C03,C20", "a weak reference upgrades after the last owner was dropped"); } } }
            (false, true) => { let mut ob = Observable::new_async(Tok::new(1)); let sub = Observable::subscribe_async(&ob); let p: *mut Observable<Tok, AsyncLock> = &mut ob;
                cycle(sub, || { now(Observable::set_async(unsafe { &mut *p }, Tok::new(2))); }, || gone(unsafe { std::ptr::read(p) }, unwinding), write_between, poll_after_close); std::mem::forget(ob); }
            (true, true) => { let ob = SharedObservable::new_async(Tok::new(1)); let sub = now(ob.subscribe()); let ob2 = ob.clone();
                let wk = if weak { Some(ob.downgrade()) } else { None };
                cycle(sub, move || { now(ob2.set(Tok::new(2))); drop(ob2); }, move || gone(ob, unwinding), write_between, poll_after_close);
                if let Some(wk) = wk { if wk.upgrade().is_some() { sink.oracle_fail("C03,C20", "a weak reference upgrades after the last owner was dropped"); } } }
        }
    }
    let live = LIVE.with(|l| l.borrow().len());
    let d = DOUBLE.with(|d| d.get());
    if live != 0 || d != 0 {
        sink.oracle_fail("C20", &format!("a task that owns its subscriber was parked when the observable was dropped; after the task's last handle is gone {live} element(s) are still alive, {d} dropped twice (the closed state keeps the waker: reference cycle)"));
    }
    sink.line("lvecend", &format!("live={live} double={d}"));
    sink.nontrivial();
}

/// P. a user closure given to `update` / `update_if` (directly or through a write guard) panics: the value it was working on
/// is still owned by the observable — dropped neither then nor twice later — and goes away with the last handle
fn panicking_closure_case(sink: &mut Sink, id: &str, shared: bool, asyncf: bool, which: u8, with_sub: bool) {
    sink.case(id);
    reset_registry();
    let mut early = None;
    {
        macro_rules! body { ($ob:ident, $sub:expr, $upd:expr, $updif:expr, $guard:expr) => {{
            let _s = if with_sub { Some($sub) } else { None };
            let _ = catch(|| match which { 0 => { $upd; } 1 => { $updif; } _ => { $guard; } });
            let live = LIVE.with(|l| l.borrow().len());
            let d = DOUBLE.with(|d| d.get());
            if live != 1 || d != 0 { early = Some((live, d)); }
            // everything goes away (a poisoned lock may make the drop itself panic: that is not this property's business)
            let _ = catch(move || drop($ob));
        }}; }
        match (shared, asyncf) {
            (false, false) => { let mut ob = Observable::new(Tok::new(1));
                body!(ob, Observable::subscribe(&ob), Observable::update(&mut ob, |t| { t.v += 1; panic!("closure") }), Observable::update_if(&mut ob, |t| { t.v += 1; panic!("closure") }), Observable::update(&mut ob, |_| panic!("closure"))); }
            (true, false) => { let ob = SharedObservable::new(Tok::new(1));
                body!(ob, ob.subscribe(), ob.update(|t| { t.v += 1; panic!("closure") }), ob.update_if(|t| { t.v += 1; panic!("closure") }),
                      { let mut g = ob.write(); eyeball::ObservableWriteGuard::update(&mut g, |t| { t.v += 1; panic!("closure") }) }); }
            (false, true) => { let mut ob = Observable::new_async(Tok::new(1));
                body!(ob, Observable::subscribe_async(&ob), now(Observable::update_async(&mut ob, |t| { t.v += 1; panic!("closure") })), now(Observable::update_if_async(&mut ob, |t| { t.v += 1; panic!("closure") })), now(Observable::update_async(&mut ob, |_| panic!("closure")))); }
            (true, true) => { let ob = SharedObservable::new_async(Tok::new(1));
                body!(ob, now(ob.subscribe()), now(ob.update(|t| { t.v += 1; panic!("closure") })), now(ob.update_if(|t| { t.v += 1; panic!("closure") })),
                      { let mut g = now(ob.write()); eyeball::ObservableWriteGuard::update(&mut g, |t| { t.v += 1; panic!("closure") }) }); }
        }
    }
    if let Some((live, d)) = early {
        sink.oracle_fail("C20", &format!("a closure given to {} panicked: right afterwards {live} value(s) are alive (the observable owns exactly 1) and {d} were dropped twice", ["update", "update_if", "update through a write guard"][which as usize]));
    }
    let live = LIVE.with(|l| l.borrow().len());
    let d = DOUBLE.with(|d| d.get());
    if live != 0 || d != 0 {
        sink.oracle_fail("C20", &format!("a closure given to update / update_if panicked; after every handle is gone {live} value(s) are still alive, {d} dropped twice"));
    }
    sink.line("lvecend", &format!("live={live} double={d}"));
    sink.nontrivial();
}

pub fn run(args: &Args, sink: &mut Sink) {
    let thorough = args.tier == "thorough";
    let mut nw = 0;
    for shared in [false, true] { for asyncf in [false, true] { for wb in [false, true] { for pa in [false, true] { for unw in [false, true] {
        for weak in [false, true] {
            if weak && !shared { continue; }
            nw += 1;
            waker_cycle_case(sink, &format!("W{nw}"), shared, asyncf, wb, pa, unw, weak);
        }
    } } } } }
    let mut np = 0;
    for shared in [false, true] { for asyncf in [false, true] { for which in 0..3u8 { for with_sub in [false, true] {
        np += 1;
        panicking_closure_case(sink, &format!("P{np}"), shared, asyncf, which, with_sub);
    } } } }
    let mut rng = Rng(args.seed ^ 0x0A17);
    // tier `miri`: the same generators under the Miri interpreter (undefined behaviour in the library's `unsafe` blocks,
    // double frees, use after free), far fewer and shorter histories
    let miri = args.tier == "miri";
    let rounds = if miri { 40 } else if thorough { 80000 } else { 1500 };
    for k in 0..rounds {
        let mut r = rng.fork();
        let steps = if miri { 5 + r.below(15) } else { 5 + r.below(40) };
        obs_case(sink, &format!("O{k}"), k % 2 == 0, (k / 2) % 2 == 0, &mut r, steps);
    }
    let rounds = if miri { 60 } else if thorough { 40000 } else { 800 };
    for k in 0..rounds {
        let mut r = rng.fork();
        let steps = if miri { 5 + r.below(25) } else { 5 + r.below(50) };
        vec_case(sink, &format!("V{k}"), &mut r, steps);
    }
}
