//! Engine `vconc` (C05, C06, C08 with a writer on another thread): one thread mutates an `ObservableVector` as fast as
//! it can while two other threads poll a plain and a batched subscriber stream of it. A poll is then no longer atomic
//! with respect to the updates: the channel can lap a receiver *between* two `try_recv` calls of one poll — the `Lagged`
//! arms inside the batched drain loop and inside `handle_lag`, which single-threaded histories never reach.
//! No model trace (the interleaving is not recorded): implementation-side oracles only — every delivered diff is strictly
//! applicable to the replica, and once the writer has finished the replica equals the final contents / the stream ends
//! exactly if the vector was dropped.
use crate::common::*;
use eyeball_im::{ObservableVector, VectorDiff};
use futures_core::Stream;
use std::pin::Pin;
use std::sync::atomic::{AtomicBool, Ordering};
use std::sync::Arc;
use std::task::{Context, Poll};

struct ReaderOut { replica: Vec<V>, err: Option<String>, resets: usize, items: usize, ended: bool, panicked: bool }

fn read_loop<I, S: Stream<Item = I> + Unpin>(mut st: S, snapshot: Vec<V>, done: Arc<AtomicBool>, diffs_of: impl Fn(I) -> Vec<VectorDiff<V>>) -> ReaderOut {
    let (_f, w) = crate::eng_vec::flag_waker();
    let mut cx = Context::from_waker(&w);
    let mut o = ReaderOut { replica: snapshot, err: None, resets: 0, items: 0, ended: false, panicked: false };
    let mut after_done = false;
    loop {
        match Pin::new(&mut st).poll_next(&mut cx) {
            Poll::Ready(Some(item)) => {
                o.items += 1;
                for d in diffs_of(item) {
                    if matches!(d, VectorDiff::Reset { .. }) { o.resets += 1; }
                    if o.err.is_none() { if let Err(e) = strict_apply(&d, &mut o.replica) { o.err = Some(format!("{} on replica of length {}: {e}", fmt_diff(&d), o.replica.len())); } }
                }
            }
            Poll::Ready(None) => { o.ended = true; break; }
            Poll::Pending => {
                // Pending seen after the writer had finished: nothing is left
                if after_done { break; }
                if done.load(Ordering::SeqCst) { after_done = true; } else { std::hint::spin_loop(); }
            }
        }
    }
    o
}

fn one_round(sink: &mut Sink, id: &str, r: &mut Rng, n_ops: usize) {
    sink.case(id);
    let cap = [1usize, 1, 2, 3, 4, 8][r.below(6)];
    let drop_at_end = r.chance(1, 2);
    let mut ov: ObservableVector<V> = ObservableVector::with_capacity(cap);
    for i in 0..r.below(4) { ov.push_back(100 + i as V); }
    let snap: Vec<V> = ov.iter().copied().collect();
    let plain = ov.subscribe().into_stream();
    let batched = ov.subscribe().into_batched_stream();
    let done = Arc::new(AtomicBool::new(false));
    let (d1, d2, d3) = (done.clone(), done.clone(), done.clone());
    let (s1, s2) = (snap.clone(), snap.clone());
    // a batched adapter chain on a third subscriber (C09 / C13 with the writer on another thread): skip(1) of the batches
    let (a_init, a_stream) = { use eyeball_im_util::vector::{VectorObserverExt, VectorSubscriberExt}; ov.subscribe().batched().skip(1) };
    let a_snap: Vec<V> = a_init.iter().copied().collect();
    let d4 = done.clone();
    let t_adp = std::thread::spawn(move || read_loop(Box::pin(a_stream), a_snap, d4, |ds: Vec<VectorDiff<V>>| ds));
    let t_plain = std::thread::spawn(move || read_loop(plain, s1, d1, |d: VectorDiff<V>| vec![d]));
    let t_batched = std::thread::spawn(move || read_loop(batched, s2, d2, |ds: Vec<VectorDiff<V>>| ds));
    let mut wr = r.fork();
    let t_writer = std::thread::spawn(move || {
        for k in 0..n_ops {
            let len = ov.len();
            let v = k as V;
            match wr.below(20) {
                0..=9 => ov.push_back(v),
                10 => ov.push_front(v),
                11 => { ov.pop_front(); }
                12 => { ov.pop_back(); }
                13 => ov.insert(wr.below(len + 1), v),
                14 if len > 0 => { ov.set(wr.below(len), v); }
                15 if len > 0 => { ov.remove(wr.below(len)); }
                16 => if wr.chance(1, 8) { ov.clear() } else { ov.truncate(wr.below(len + 1)) },
                17 => ov.append((0..wr.below(3)).map(|j| v * 10 + j as V).collect()),
                18 => { let mut t = ov.transaction(); t.push_back(v); if wr.chance(1, 2) { t.push_front(v); } if wr.chance(3, 4) { t.commit(); } }
                _ => { if wr.chance(1, 3) { std::thread::yield_now(); } ov.push_back(v); }
            }
        }
        let fin: Vec<V> = ov.iter().copied().collect();
        if drop_at_end { drop(ov); d3.store(true, Ordering::SeqCst); None::<ObservableVector<V>>.map(|_| ()); (fin, None) } else { d3.store(true, Ordering::SeqCst); (fin, Some(ov)) }
    });
    let (fin, keep) = t_writer.join().unwrap();
    let mut joined = |name: &str, tag: &str, j: std::thread::JoinHandle<ReaderOut>, sink: &mut Sink| match j.join() {
        Ok(o) => o,
        Err(_) => { sink.oracle_fail(tag, &format!("{name}, writer on another thread (capacity {cap}, {n_ops} updates): the poll panicked"));
                    ReaderOut { replica: fin.clone(), err: None, resets: 0, items: 0, ended: drop_at_end, panicked: true } }
    };
    let po = joined("plain subscriber", "C05,C06", t_plain, sink);
    let bo = joined("batched subscriber", "C05,C06", t_batched, sink);
    let ao = joined("batched skip(1) of a subscriber", "C13,C09", t_adp, sink);
    drop(keep);
    {
        let want: Vec<V> = fin.iter().skip(1).copied().collect();
        if ao.panicked {
        } else if let Some(e) = &ao.err {
            sink.oracle_fail("C13,C09", &format!("batched skip(1) of a subscriber, writer on another thread (capacity {cap}, {n_ops} updates): emitted diff not applicable to the view — {e}"));
        } else if ao.replica != want {
            sink.oracle_fail("C13,C09", &format!("batched skip(1) of a subscriber, writer on another thread (capacity {cap}, {n_ops} updates, {} resets): after the writer finished the view has {} items, skip(1) of the vector {}; first difference at {:?}",
                ao.resets, ao.replica.len(), want.len(), ao.replica.iter().zip(want.iter()).position(|(a, b)| a != b)));
        }
        if ao.ended != drop_at_end { sink.oracle_fail("C13,C09,C08", &format!("batched skip(1), writer on another thread: stream {} although the vector was {}", if ao.ended { "ended" } else { "did not end" }, if drop_at_end { "dropped" } else { "kept" })); }
        sink.stat_n("vconc.adapter.items", ao.items as u64);
    }
    for (name, o) in [("plain", &po), ("batched", &bo)] {
        if let Some(e) = &o.err {
            sink.oracle_fail("C05,C06", &format!("{name} subscriber, writer on another thread (capacity {cap}, {n_ops} updates): delivered diff not applicable — {e}"));
        } else if o.replica != fin {
            sink.oracle_fail("C05,C06,C08", &format!("{name} subscriber, writer on another thread (capacity {cap}, {n_ops} updates, {} resets): after the writer finished the replica has {} items, the vector {}; first difference at {:?}",
                o.resets, o.replica.len(), fin.len(), o.replica.iter().zip(fin.iter()).position(|(a, b)| a != b)));
        }
        if o.ended != drop_at_end {
            sink.oracle_fail("C08", &format!("{name} subscriber, writer on another thread: stream {} although the vector was {}", if o.ended { "ended" } else { "did not end" }, if drop_at_end { "dropped" } else { "kept" }));
        }
        sink.stat_n(&format!("vconc.{name}.resets"), o.resets as u64);
        sink.stat_n(&format!("vconc.{name}.items"), o.items as u64);
    }
    sink.line(&format!("vcdone {cap} {n_ops}"), "ok");
    sink.nontrivial();
}

pub fn run(args: &Args, sink: &mut Sink) {
    let thorough = args.tier == "thorough";
    let mut rng = Rng(args.seed ^ 0x7C0C);
    let rounds = if thorough { 40000 } else { 3000 };
    for k in 0..rounds {
        let mut r = rng.fork();
        let n_ops = if k % 10 == 0 { 5000 } else { 200 + r.below(600) };
        one_round(sink, &format!("VC{k}"), &mut r, n_ops);
    }
}
