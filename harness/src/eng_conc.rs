//! Engine `conc` (C02, C03, C04 across threads): real OS threads executing calls on one SharedObservable,
//! driven through every interleaving of the instrumented pause points by a director (forced schedules), plus
//! free-running randomized rounds. The recorded schedule trace is replayed on the Lean lock-level model.
use crate::common::*;
use crate::eng_vec::{flag_waker, Flag};
use eyeball::verif::{set_pause_hook, PausePoint};
use eyeball::{SharedObservable, Subscriber, WeakObservable};
use futures_core::Stream;
use std::cell::Cell;
use std::collections::VecDeque;
use std::pin::Pin;
use std::sync::atomic::Ordering;
use std::sync::{Arc, Condvar, Mutex};
use std::task::{Context, Poll, Waker};
use std::time::{Duration, Instant};

#[derive(Clone, Debug, PartialEq)]
pub enum COp { Poll { fresh: bool }, Set(u64), Get, Drop, Up,
               /// free-running rounds only (no ledger): `Subscriber::next_now`, `SharedObservable::set_if_not_eq`
               NextNow, Sne(u64), Shne(u64),
               /// `update(|v| *v += k)` (forced schedules and free-running rounds)
               Upd(u64),
               /// `next_ref()` awaited again and again until the value `until` has been seen / `set(1..=n)` in order
               NextRefs { until: u64 }, SetSeq(u64),
               /// hold the write guard for a moment without writing / `subscribe()` and poll the new subscriber once
               HoldWrite, SubPoll,
               /// `n` rounds of `update(|v| v + 1)` followed by a poll of the thread's own subscriber / `n` rounds of clone, downgrade, upgrade, drop
               UpdPoll(u64), Churn(u64),
               /// `n` rounds of `set(k)` followed by a poll of the thread's own subscriber
               SetPoll(u64),
               /// `n` rounds of `subscribe()` followed by the drop of the new subscriber
               SubChurn(u64),
               /// free-running rounds only: several simple calls (set / set_if_not_eq / set_if_hash_not_eq / update / get) one
               /// after the other on one thread — program order is real-time order for the linearizability oracle
               Script(Vec<COp>) }
impl COp {
    fn text(&self) -> String {
        match self { COp::Poll { fresh: false } => "poll".into(), COp::Poll { fresh: true } => "pollf".into(), COp::Set(v) => format!("set:{v}"),
            COp::Get => "get".into(), COp::Drop => "drop".into(), COp::Up => "up".into(), COp::NextNow => "nextnow".into(), COp::Sne(v) => format!("sne:{v}"), COp::Shne(v) => format!("shne:{v}"),
            COp::Upd(k) => format!("upd:{k}"),
            COp::NextRefs { until } => format!("nextrefs:{until}"), COp::SetSeq(n) => format!("setseq:{n}"),
            COp::HoldWrite => "holdwrite".into(), COp::SubPoll => "subpoll".into(),
            COp::UpdPoll(n) => format!("updpoll:{n}"), COp::SetPoll(n) => format!("setpoll:{n}"), COp::Churn(n) => format!("churn:{n}"), COp::SubChurn(n) => format!("subchurn:{n}"),
            COp::Script(ops) => format!("script:{}", ops.iter().map(|o| o.text()).collect::<Vec<_>>().join("+")) }
    }
}

// ---------------------------------------------------------------------------------------------------------
// harness-side ledger: a port of the lock/pc logic of the Lean model `CS.adv`, used only to enumerate schedules
// and to predict whether a released thread will arrive at its next pause point or block inside a lock call
#[derive(Clone, Debug, PartialEq)]
enum Pc { Start, PollBeforeMeta, PollHoldingMeta, PollAfterCheck, WriteBeforeNotify, WriteAfterNotify, CloseBeforeMeta, CloseHoldingMeta, DropAfterDecision, UpgradeBetween, Finished }
#[derive(Clone)]
struct Ledger { pcs: Vec<Pc>, ops: Vec<COp>, readers: Vec<usize>, writer: Option<usize>, meta: Option<usize>, nc: usize, st: usize, atomic_drop: bool, value: u64 }
impl Ledger {
    fn adv(&mut self, t: usize) -> bool {
        let pc = self.pcs[t].clone();
        match (&self.ops[t], pc) {
            (COp::Poll { .. }, Pc::Start) | (COp::Poll { .. }, Pc::Finished) => { if self.writer.is_some() { return false; } self.readers.push(t); self.pcs[t] = Pc::PollBeforeMeta; }
            (COp::Poll { .. }, Pc::PollBeforeMeta) => { if self.meta.is_some() { return false; } self.meta = Some(t); self.pcs[t] = Pc::PollHoldingMeta; }
            (COp::Poll { .. }, Pc::PollHoldingMeta) => self.pcs[t] = Pc::PollAfterCheck,
            (COp::Poll { .. }, Pc::PollAfterCheck) => { self.meta = None; self.readers.retain(|x| *x != t); self.pcs[t] = Pc::Finished; }
            (COp::Set(v), Pc::Start) => { if self.writer.is_some() || !self.readers.is_empty() { return false; } self.writer = Some(t); self.value = *v; self.pcs[t] = Pc::WriteBeforeNotify; }
            (COp::Set(_), Pc::WriteBeforeNotify) | (COp::Sne(_), Pc::WriteBeforeNotify) => self.pcs[t] = Pc::WriteAfterNotify,
            (COp::Set(_), Pc::WriteAfterNotify) | (COp::Sne(_), Pc::WriteAfterNotify) | (COp::Upd(_), Pc::WriteAfterNotify) => { self.writer = None; self.pcs[t] = Pc::Finished; }
            // set_if_not_eq: an equal value means lock, compare, unlock with no pause point in between
            (COp::Sne(v), Pc::Start) => {
                if self.writer.is_some() || !self.readers.is_empty() { return false; }
                if self.value == *v { self.pcs[t] = Pc::Finished; } else { self.writer = Some(t); self.value = *v; self.pcs[t] = Pc::WriteBeforeNotify; }
            }
            // update: the closure and incr_version_and_wake run without a pause point in between
            (COp::Upd(k), Pc::Start) => { if self.writer.is_some() || !self.readers.is_empty() { return false; } self.writer = Some(t); self.value += *k; self.pcs[t] = Pc::WriteAfterNotify; }
            // next_now: outer read lock, metadata read lock, value; no pause point
            (COp::NextNow, Pc::Start) => { if self.writer.is_some() || self.meta.is_some() { return false; } self.pcs[t] = Pc::Finished; }
            (COp::Get, Pc::Start) => { if self.writer.is_some() { return false; } self.pcs[t] = Pc::Finished; }
            (COp::Drop, Pc::Start) => {
                let last = self.nc == 1;
                if self.atomic_drop { self.nc -= 1; }
                if last { if self.writer.is_some() { return false; } self.readers.push(t); self.pcs[t] = Pc::CloseBeforeMeta; } else { self.pcs[t] = Pc::DropAfterDecision; }
            }
            (COp::Drop, Pc::CloseBeforeMeta) => { if self.meta.is_some() { return false; } self.meta = Some(t); self.pcs[t] = Pc::CloseHoldingMeta; }
            (COp::Drop, Pc::CloseHoldingMeta) => { self.meta = None; self.readers.retain(|x| *x != t); self.pcs[t] = Pc::DropAfterDecision; }
            (COp::Drop, Pc::DropAfterDecision) => { if !self.atomic_drop { self.nc -= 1; } self.st -= 1; self.pcs[t] = Pc::Finished; }
            (COp::Up, Pc::Start) => { if self.st == 0 { self.pcs[t] = Pc::Finished; } else { self.st += 1; self.pcs[t] = Pc::UpgradeBetween; } }
            (COp::Up, Pc::UpgradeBetween) => { if self.nc == 0 { self.st -= 1; } else { self.nc += 1; } self.pcs[t] = Pc::Finished; }
            _ => return false,
        }
        true
    }
    fn can(&self, t: usize) -> bool { self.clone().adv(t) }
    fn pc_name(&self, t: usize) -> &'static str {
        match self.pcs[t] { Pc::Start => "start", Pc::PollBeforeMeta => "PollBeforeMeta", Pc::PollHoldingMeta => "PollHoldingMeta", Pc::PollAfterCheck => "PollAfterCheck",
            Pc::WriteBeforeNotify => "WriteBeforeNotify", Pc::WriteAfterNotify => "WriteAfterNotify", Pc::CloseBeforeMeta => "CloseBeforeMeta", Pc::CloseHoldingMeta => "CloseHoldingMeta",
            Pc::DropAfterDecision => "DropAfterDecision", Pc::UpgradeBetween => "UpgradeBetween", Pc::Finished => "finished" }
    }
    fn finished(&self, t: usize, repoll: &[bool]) -> bool { self.pcs[t] == Pc::Finished && !repoll[t] }
}

// ---------------------------------------------------------------------------------------------------------
enum Ev { At(PausePoint), Done(String) }
struct Dir { reports: VecDeque<(usize, Ev)>, tokens: Vec<u32> }
struct Shared { m: Mutex<Dir>, cv: Condvar }
thread_local! { static TID: Cell<usize> = const { Cell::new(usize::MAX) }; }
static CURRENT: Mutex<Option<Arc<Shared>>> = Mutex::new(None);

fn wait_token(sh: &Shared, t: usize) {
    let mut d = sh.m.lock().unwrap();
    while d.tokens[t] == 0 { d = sh.cv.wait(d).unwrap(); }
    d.tokens[t] -= 1;
}
fn hook(p: PausePoint) {
    let t = TID.with(|c| c.get());
    if t == usize::MAX { return; }
    let sh = CURRENT.lock().unwrap().clone();
    let Some(sh) = sh else { return };
    { let mut d = sh.m.lock().unwrap(); d.reports.push_back((t, Ev::At(p))); sh.cv.notify_all(); }
    wait_token(&sh, t);
}

enum Handle { Sub(Subscriber<u64>, Arc<Flag>, Waker), Clone(SharedObservable<u64>), Weak(WeakObservable<u64>), None,
              /// an owner together with a subscriber of its own
              Both(SharedObservable<u64>, Subscriber<u64>, Waker) }

fn simple_call(o: &SharedObservable<u64>, op: &COp) -> String {
    match op {
        COp::Set(v) => o.set(*v).to_string(),
        COp::Get => o.get().to_string(),
        COp::Sne(v) => fmt_opt(o.set_if_not_eq(*v)),
        COp::Shne(v) => fmt_opt(o.set_if_hash_not_eq(*v)),
        COp::Upd(k) => { let k = *k; o.update(|v| *v += k); "-".into() }
        _ => unreachable!("not a simple call"),
    }
}

/// the sequential specification of the simple calls on a `u64` cell (equal hashes = equal values)
fn spec_call(cur: &mut u64, op: &COp) -> String {
    match op {
        COp::Set(v) => { let p = *cur; *cur = *v; p.to_string() }
        COp::Get => cur.to_string(),
        COp::Sne(v) | COp::Shne(v) => if *cur == *v { "none".into() } else { let p = *cur; *cur = *v; fmt_opt(Some(p)) },
        COp::Upd(k) => { *cur += *k; "-".into() }
        _ => unreachable!(),
    }
}

/// C04, stated outright on the implementation side: is there ONE total order of all calls, respecting each thread's program
/// order, in which the sequential specification returns exactly the observed results and ends on the observed value?
/// `threads[t]` = (calls, results). Returns a linearization if there is one.
fn linearization(init: u64, threads: &[(Vec<COp>, Vec<String>)], fin: u64) -> Option<Vec<(usize, usize)>> {
    fn rec(cur: u64, pos: &mut Vec<usize>, threads: &[(Vec<COp>, Vec<String>)], fin: u64, acc: &mut Vec<(usize, usize)>) -> bool {
        if pos.iter().zip(threads).all(|(p, t)| *p == t.0.len()) { return cur == fin; }
        for t in 0..threads.len() {
            let k = pos[t];
            if k == threads[t].0.len() { continue; }
            let mut c = cur;
            if spec_call(&mut c, &threads[t].0[k]) != threads[t].1[k] { continue; }
            pos[t] += 1; acc.push((t, k));
            if rec(c, pos, threads, fin, acc) { return true; }
            pos[t] -= 1; acc.pop();
        }
        false
    }
    let mut acc = vec![];
    if rec(init, &mut vec![0; threads.len()], threads, fin, &mut acc) { Some(acc) } else { None }
}

fn poll_once(s: &mut Subscriber<u64>, w: &Waker) -> String {
    let mut cx = Context::from_waker(w);
    match Pin::new(s).poll_next(&mut cx) { Poll::Ready(Some(v)) => format!("Ready({v})"), Poll::Ready(None) => "End".into(), Poll::Pending => "Pending".into() }
}

/// worker: waits for its first token, runs its call (the pause hook parks it at every pause point), reports the result;
/// a subscriber worker repeats its poll whenever it is given another token
fn worker(sh: Arc<Shared>, t: usize, op: COp, mut h: Handle, forced: bool, rounds: usize) -> (Handle, Vec<String>, Option<SharedObservable<u64>>) {
    if forced { TID.with(|c| c.set(t)); }
    let mut results = vec![];
    let mut upgraded = None;
    for _ in 0..rounds {
        if forced { wait_token(&sh, t); }
        let res = match (&op, &mut h) {
            (COp::Poll { .. }, Handle::Sub(s, f, w)) => { f.0.store(false, Ordering::SeqCst); poll_once(s, w) }
            (COp::Set(v), Handle::Clone(o)) => o.set(*v).to_string(),
            (COp::Get, Handle::Clone(o)) => o.get().to_string(),
            (COp::Drop, h2) => { let o = std::mem::replace(h2, Handle::None); drop(o); "-".into() }
            (COp::Up, Handle::Weak(w)) => match w.upgrade() { Some(o) => { upgraded = Some(o); "some".into() } None => "none".into() },
            (COp::NextNow, Handle::Sub(s, _, _)) => s.next_now().to_string(),
            (COp::Sne(v), Handle::Clone(o)) => fmt_opt(o.set_if_not_eq(*v)),
            (COp::Shne(v), Handle::Clone(o)) => fmt_opt(o.set_if_hash_not_eq(*v)),
            (COp::Upd(k), Handle::Clone(o)) => { let k = *k; o.update(|v| *v += k); "-".into() }
            (COp::SetSeq(n), Handle::Clone(o)) => { for i in 1..=*n { o.set(i); } "-".into() }
            (COp::Script(ops), Handle::Clone(o)) => ops.iter().map(|op| simple_call(o, op)).collect::<Vec<_>>().join(";"),
            (COp::UpdPoll(n), Handle::Both(o, s, w)) => {
                // every update of this thread is seen by this thread's subscriber on its next poll
                let mut missed = 0u64;
                let mut first = String::new();
                for k in 0..*n {
                    o.update(|v| *v += 1);
                    let r = poll_once(s, w);
                    if r == "Pending" { missed += 1; if first.is_empty() { first = format!("round {k}: value {}", o.get()); } }
                }
                format!("{missed};{first}")
            }
            (COp::SetPoll(n), Handle::Both(o, s, w)) => {
                let mut missed = 0u64;
                let mut first = String::new();
                for k in 1..=*n {
                    o.set(1000 + k);
                    let r = poll_once(s, w);
                    if r != format!("Ready({})", 1000 + k) { missed += 1; if first.is_empty() { first = format!("round {k}: poll answered {r}"); } }
                }
                format!("{missed};{first}")
            }
            (COp::Churn(n), Handle::Clone(o)) => {
                for _ in 0..*n { let c = o.clone(); let wk = c.downgrade(); let u = wk.upgrade(); drop(c); drop(u); drop(wk); }
                "-".into()
            }
            (COp::SubChurn(n), Handle::Clone(o)) => { for _ in 0..*n { let s = o.subscribe(); drop(s); } "-".into() }
            (COp::HoldWrite, Handle::Clone(o)) => {
                { let g = o.write(); for _ in 0..2000 { std::hint::spin_loop(); } drop(g); }
                o.update_if(|_| { for _ in 0..2000 { std::hint::spin_loop(); } false });
                "-".into()
            }
            (COp::SubPoll, Handle::Clone(o)) => {
                let mut out = vec![];
                for _ in 0..3 {
                    let mut s = o.subscribe();
                    let (_f, w) = flag_waker();
                    out.push(poll_once(&mut s, &w));
                }
                out.join(",")
            }
            (COp::NextRefs { until }, Handle::Sub(s, _, w)) => {
                // every value handed out under a guard, in order; gives up after a generous number of polls
                let mut seen: Vec<u64> = vec![];
                let mut polls = 0u64;
                'outer: while seen.last() != Some(until) {
                    let mut cx = Context::from_waker(w);
                    let mut fut = std::pin::pin!(s.next_ref());
                    loop {
                        polls += 1;
                        if polls > 50_000_000 { break 'outer; }
                        match std::future::Future::poll(fut.as_mut(), &mut cx) {
                            Poll::Ready(Some(g)) => { seen.push(*g); break; }
                            Poll::Ready(None) => break 'outer,
                            Poll::Pending => std::hint::spin_loop(),
                        }
                    }
                }
                seen.iter().map(|v| v.to_string()).collect::<Vec<_>>().join(",")
            }
            _ => unreachable!(),
        };
        results.push(res.clone());
        if forced {
            let mut d = sh.m.lock().unwrap();
            d.reports.push_back((t, Ev::Done(res)));
            sh.cv.notify_all();
        }
        if !matches!(op, COp::Poll { .. }) { break; }
    }
    (h, results, upgraded)
}

pub struct Program { pub init: u64, pub ops: Vec<COp>, pub extra_clones: usize,
                     /// no subscriber besides those of the program exists (the harness's monitor subscriber is dropped before the threads start):
                     /// the state's strong count can reach 0 while weak references remain
                     pub no_monitor: bool }

struct Setup { handles: Vec<Handle>, monitor: Option<Subscriber<u64>>, keep: Vec<SharedObservable<u64>>, n_clones: usize, n_subs: usize }
fn setup(p: &Program) -> Setup {
    let root = SharedObservable::new(p.init);
    let monitor = root.subscribe_reset();
    let mut handles = vec![];
    let mut n_clones = 0;
    let mut n_subs = if p.no_monitor { 0 } else { 1 };
    for op in &p.ops {
        handles.push(match op {
            COp::Poll { fresh } => { let (f, w) = flag_waker(); n_subs += 1; Handle::Sub(if *fresh { root.subscribe_reset() } else { root.subscribe() }, f, w) }
            COp::NextNow | COp::NextRefs { .. } => { let (f, w) = flag_waker(); n_subs += 1; Handle::Sub(root.subscribe(), f, w) }
            COp::UpdPoll(_) | COp::SetPoll(_) => { let (_f, w) = flag_waker(); n_subs += 1; n_clones += 1; Handle::Both(root.clone(), root.subscribe(), w) }
            COp::Set(_) | COp::Get | COp::Drop | COp::Sne(_) | COp::Shne(_) | COp::Upd(_) | COp::SetSeq(_) | COp::HoldWrite | COp::SubPoll | COp::Churn(_) | COp::SubChurn(_) | COp::Script(_) => { n_clones += 1; Handle::Clone(root.clone()) }
            COp::Up => Handle::Weak(root.downgrade()),
        });
    }
    let mut keep = vec![];
    for _ in 0..p.extra_clones { keep.push(root.clone()); n_clones += 1; }
    drop(root);
    Setup { handles, monitor: if p.no_monitor { None } else { Some(monitor) }, keep, n_clones, n_subs }
}

/// all maximal schedules of the program (DFS over the ledger): entries are (thread, expected-to-block)
fn schedules(p: &Program, atomic_drop: bool, n_clones: usize, n_subs: usize, repolls: usize, cap: usize) -> Vec<Vec<(usize, bool)>> {
    let n = p.ops.len();
    let l0 = Ledger { pcs: vec![Pc::Start; n], ops: p.ops.clone(), readers: vec![], writer: None, meta: None, nc: n_clones, st: n_clones + n_subs, atomic_drop, value: p.init };
    let mut out = vec![];
    // state: ledger, prefix, inflight (thread that was released into a lock it cannot take yet), remaining re-polls per poll thread
    fn rec(l: &Ledger, pre: &mut Vec<(usize, bool)>, inflight: Option<usize>, rep: &mut Vec<usize>, out: &mut Vec<Vec<(usize, bool)>>, cap: usize) {
        if out.len() >= cap { return; }
        let n = l.ops.len();
        // an in-flight thread that has become able to move goes next (the real thread has already moved)
        if let Some(t) = inflight { if l.can(t) {
            let mut l2 = l.clone(); l2.adv(t); pre.push((t, false)); rec(&l2, pre, None, rep, out, cap); pre.pop(); return;
        } }
        let mut any = false;
        for t in 0..n {
            if Some(t) == inflight { continue; }
            let fin = l.pcs[t] == Pc::Finished;
            if fin && !(matches!(l.ops[t], COp::Poll { .. }) && rep[t] > 0) { continue; }
            // std's RwLock makes new readers wait while a writer is queued: do not schedule a fresh read-lock
            // acquisition while the in-flight thread is a writer waiting for the lock
            let wants_read = matches!((&l.ops[t], &l.pcs[t]), (COp::Poll { .. }, Pc::Start) | (COp::Poll { .. }, Pc::Finished) | (COp::Get, Pc::Start) | (COp::NextNow, Pc::Start))
                || (matches!((&l.ops[t], &l.pcs[t]), (COp::Drop, Pc::Start)) && l.nc == 1);
            if wants_read && inflight.map(|w| matches!(l.ops[w], COp::Set(_) | COp::Sne(_) | COp::Upd(_))).unwrap_or(false) { continue; }
            // a `next_now` released while the metadata lock is held blocks on it holding the outer read lock: no writer can
            // start anyway (whoever holds the metadata lock holds the outer read lock), nothing further to exclude
            if l.can(t) {
                any = true;
                let mut l2 = l.clone(); l2.adv(t);
                if fin { rep[t] -= 1; }
                pre.push((t, false)); rec(&l2, pre, inflight, rep, out, cap); pre.pop();
                if fin { rep[t] += 1; }
            } else if inflight.is_none() && !fin {
                // release it into the lock: it must block
                any = true;
                pre.push((t, true)); rec(l, pre, Some(t), rep, out, cap); pre.pop();
            }
        }
        if !any { out.push(pre.clone()); }
    }
    let mut rep: Vec<usize> = p.ops.iter().map(|o| if matches!(o, COp::Poll { .. }) { repolls } else { 0 }).collect();
    rec(&l0, &mut vec![], None, &mut rep, &mut out, cap);
    out
}

fn point_name(p: PausePoint) -> &'static str {
    match p {
        PausePoint::PollBeforeMeta => "PollBeforeMeta", PausePoint::PollHoldingMeta => "PollHoldingMeta", PausePoint::PollAfterCheck => "PollAfterCheck",
        PausePoint::CloseBeforeMeta => "CloseBeforeMeta", PausePoint::CloseHoldingMeta => "CloseHoldingMeta", PausePoint::WriteBeforeNotify => "WriteBeforeNotify",
        PausePoint::WriteAfterNotify => "WriteAfterNotify", PausePoint::DropAfterDecision => "DropAfterDecision", PausePoint::UpgradeBetween => "UpgradeBetween",
    }
}

/// final observations and the implementation-side oracles (C02 lost wakeup by re-poll, C03 closed iff no owner, C04 set chain)
fn finish(sink: &mut Sink, p: &Program, joined: Vec<(Handle, Vec<String>, Option<SharedObservable<u64>>)>, mut st: Setup, emit: bool) {
    let (_mf, mw) = flag_waker();
    // without a monitor: look through an owner that is still alive (a kept clone, an upgraded handle, a thread's own handle)
    let probe: Option<SharedObservable<u64>> = if st.monitor.is_some() { None } else {
        st.keep.first().cloned().or_else(|| joined.iter().find_map(|j| j.2.clone())).or_else(|| joined.iter().find_map(|j| if let Handle::Clone(o) = &j.0 { Some(o.clone()) } else { None }))
    };
    let mut probe_sub = probe.as_ref().map(|o| o.subscribe_reset());
    let closed = match (st.monitor.as_mut(), probe_sub.as_mut()) {
        (Some(m), _) => poll_once(m, &mw) == "End",
        (None, Some(s)) => poll_once(s, &mw) == "End",
        (None, None) => true,      // nobody left who could tell: every owner and subscriber is gone
    };
    let mut owners = st.keep.len();
    let mut woken = vec![];
    let mut prevs: Vec<u64> = vec![];
    let mut written: Vec<u64> = vec![];
    let mut unwoken_pending: Vec<usize> = vec![];
    let value = match (&st.monitor, &probe) { (Some(m), _) => m.get(), (None, Some(o)) => o.get(), (None, None) => u64::MAX };
    // C04: linearizability of the simple calls, checked outright (programs made of set / set_if_not_eq / set_if_hash_not_eq /
    // update / get only, single calls or scripts; a thread's first result belongs to its call / script)
    let simple = |o: &COp| matches!(o, COp::Set(_) | COp::Get | COp::Sne(_) | COp::Shne(_) | COp::Upd(_));
    if p.ops.iter().all(|o| simple(o) || matches!(o, COp::Script(_))) && joined.iter().all(|j| !j.1.is_empty()) {
        let threads: Vec<(Vec<COp>, Vec<String>)> = p.ops.iter().zip(joined.iter()).map(|(o, j)| match o {
            COp::Script(ops) => (ops.clone(), j.1[0].split(';').map(|x| x.to_string()).collect()),
            o => (vec![o.clone()], vec![j.1[0].clone()]),
        }).collect();
        if threads.iter().all(|(o, r)| o.len() == r.len()) && linearization(p.init, &threads, value).is_none() {
            let shown: Vec<String> = threads.iter().enumerate().map(|(t, (o, r))| format!("thread {t}: {}", o.iter().zip(r).map(|(o, r)| format!("{} -> {r}", o.text())).collect::<Vec<_>>().join(", "))).collect();
            sink.oracle_fail("C04,C01", &format!("not linearizable: from the initial value {} no total order of the calls (respecting each thread's program order) makes the sequential specification return these results and end on {value}: {}", p.init, shown.join(" | ")));
        }
    }
    for (t, (h, results, up)) in joined.into_iter().enumerate() {
        if up.is_some() { owners += 1; }
        match (&p.ops[t], h) {
            (COp::Poll { .. }, Handle::Sub(mut s, f, w)) => {
                let was_woken = f.0.load(Ordering::SeqCst);
                if was_woken { woken.push(t as u64); }
                let mut late: Vec<String> = vec![];
                // C02: a task whose last poll was Pending and that was not woken must have nothing to receive
                if results.last().map(|r| r == "Pending").unwrap_or(false) && !was_woken {
                    unwoken_pending.push(t);
                    let again = poll_once(&mut s, &w);
                    if again.starts_with("Ready") { late.push(again.clone()); }
                    if again != "Pending" {
                        // not being told about the END of the stream is a failure of C03 as well
                        sink.oracle_fail(if again == "End" { "C02,C03,C01" } else { "C02,C04,C01" }, &format!("thread {t}: its last poll answered Pending, its waker was never woken, yet a further poll answers {again} (lost wakeup)"));
                    }
                }
                // C04: a value is handed out together with the version it belongs to: when every written value is different,
                // no subscriber receives the same value twice
                let mut got: Vec<String> = results.iter().filter(|r| r.starts_with("Ready")).cloned().collect();
                got.extend(late);
                let fin = poll_once(&mut s, &w);
                if fin.starts_with("Ready") { got.push(fin.clone()); }
                // C04 / C01 / C02: every store is announced: once the writers have finished, the last item a subscriber
                // was handed (polling until Pending) is the final value — whenever that differs from the value it started with
                // (`End`: the owners of the threads looked at before this one have been dropped by now; nothing to tell)
                if value != p.init && !closed && fin != "End" && got.last() != Some(&format!("Ready({value})")) && !p.ops.iter().any(|o| matches!(o, COp::Drop)) {
                    sink.oracle_fail("C04,C01,C02", &format!("thread {t}: the writers have finished with the value {value} (initially {}), the subscriber was handed {got:?} (polls: {results:?}, then {fin}) and is now Pending: a store was never announced", p.init));
                }
                let mut vals: Vec<u64> = p.ops.iter().filter_map(|o| match o { COp::Set(v) | COp::Sne(v) => Some(*v), _ => None }).collect();
                vals.push(p.init);
                let n0 = vals.len(); vals.sort(); vals.dedup();
                if vals.len() == n0 && !p.ops.iter().any(|o| matches!(o, COp::Upd(_))) {
                    let mut g2 = got.clone(); g2.sort(); g2.dedup();
                    if g2.len() != got.len() { sink.oracle_fail("C04", &format!("thread {t}: the subscriber received {got:?}: one update delivered twice (value and observed version do not belong together)")); }
                }
                // C04: after the writers finished a subscriber ends on the final value
                let last = s.get();
                if last != value { sink.oracle_fail("C04", &format!("thread {t}: subscriber reads {last}, the final value is {value}")); }
            }
            (COp::NextNow, Handle::Sub(mut s, _f, w)) => {
                // C04: the value next_now returned and the version it marked as observed belong together: a subscriber
                // that has not been handed the final value gets it on its next poll
                let seen: u64 = results.first().and_then(|r| r.parse().ok()).unwrap_or(u64::MAX);
                let again = poll_once(&mut s, &w);
                if again == "Pending" && seen != value {
                    sink.oracle_fail("C04,C01,C02", &format!("thread {t}: next_now returned {seen}, the final value is {value}, and the subscriber's next poll is Pending: the update was marked observed without being seen"));
                }
                if again.starts_with("Ready") && again != format!("Ready({value})") {
                    sink.oracle_fail("C04", &format!("thread {t}: after next_now the poll answers {again}, the final value is {value}"));
                }
            }
            (COp::NextRefs { until }, Handle::Sub(..)) => {
                // C04 / C01: each update is handed out at most once and in order: the values seen under the guards strictly increase
                let seen: Vec<u64> = results.first().map(|r| r.split(',').filter_map(|x| x.parse().ok()).collect()).unwrap_or_default();
                if let Some(k) = seen.windows(2).position(|w| w[0] >= w[1]) {
                    sink.oracle_fail("C04,C01", &format!("thread {t}: next_ref() handed out {} and then {} while the writer stores 1, 2, 3, ... in order (a value handed out twice / out of order)", seen[k], seen[k + 1]));
                }
                if seen.last() != Some(until) { sink.oracle_fail("C04,C01,C02", &format!("thread {t}: next_ref() never handed out the final value {until} (last seen {:?})", seen.last())); }
            }
            (COp::SetSeq(_), Handle::Clone(_)) => { owners += 1; }
            (COp::Script(_), Handle::Clone(_)) => { owners += 1; }
            (COp::HoldWrite, Handle::Clone(_)) => { owners += 1; }
            (COp::Churn(_), Handle::Clone(_)) => { owners += 1; }
            (COp::SubChurn(_), Handle::Clone(_)) => { owners += 1; }
            (COp::SetPoll(_), Handle::Both(..)) => {
                owners += 1;
                if let Some(r) = results.first() { let mut it = r.splitn(2, ';'); let missed: u64 = it.next().and_then(|x| x.parse().ok()).unwrap_or(0);
                    if missed > 0 { sink.oracle_fail("C04,C01,C02", &format!("thread {t}: {missed} of its own set() calls were not announced to its own subscriber (the only writer; other threads only clone, subscribe and drop handles; first: {})", it.next().unwrap_or(""))); } }
            }
            (COp::UpdPoll(_), Handle::Both(..)) => {
                owners += 1;
                if let Some(r) = results.first() { let mut it = r.splitn(2, ';'); let missed: u64 = it.next().and_then(|x| x.parse().ok()).unwrap_or(0);
                    if missed > 0 { sink.oracle_fail("C04,C01", &format!("thread {t}: {missed} of its own updates were not announced to its own subscriber (next poll Pending while other threads only cloned and dropped handles; first: {})", it.next().unwrap_or(""))); } }
            }
            (COp::SubPoll, Handle::Clone(_)) => {
                owners += 1;
                // C04 / C01: nothing is written in this program: a subscriber created by subscribe() has nothing to receive
                if let Some(r) = results.first() { if r.split(',').any(|x| x != "Pending") {
                    sink.oracle_fail("C04,C01", &format!("thread {t}: subscribers created by subscribe() while another thread held the write lock (without writing) answered {r} to their first poll; no update happened after the subscription"));
                } }
            }
            (COp::Shne(v), Handle::Clone(_)) => {
                owners += 1;
                if let Some(r) = results.first() { if let Some(x) = r.strip_prefix("some(").and_then(|x| x.strip_suffix(")")).and_then(|x| x.parse::<u64>().ok()) {
                    if x == *v { sink.oracle_fail("C04,C01", &format!("thread {t}: set_if_hash_not_eq({v}) replaced a value with the same hash ({x}) and notified (comparison and store are not one step)")); }
                    written.push(*v); prevs.push(x);
                } }
            }
            (COp::Sne(v), Handle::Clone(_)) => {
                owners += 1;
                if let Some(r) = results.first() { if let Some(x) = r.strip_prefix("some(").and_then(|x| x.strip_suffix(")")).and_then(|x| x.parse::<u64>().ok()) {
                    if x == *v { sink.oracle_fail("C04", &format!("thread {t}: set_if_not_eq({v}) replaced the equal value {x} (comparison and store are not one step)")); }
                    written.push(*v); prevs.push(x);
                } }
            }
            (COp::Set(v), Handle::Clone(_)) => { owners += 1; written.push(*v); if let Some(r) = results.first() { if let Ok(x) = r.parse() { prevs.push(x); } } }
            (COp::Get, Handle::Clone(_)) => { owners += 1; }
            (COp::Upd(_), Handle::Clone(_)) => { owners += 1; }
            (COp::Drop, _) => {}
            (COp::Up, _) => {}
            _ => {}
        }
    }
    // C02: when the last owner has gone, every subscriber whose poll answered Pending has been woken
    if owners == 0 { for t in unwoken_pending {
        sink.oracle_fail("C02,C01", &format!("thread {t}: its last poll answered Pending, every owner has been dropped since, and its waker was never woken"));
    } }
    if closed != (owners == 0) {
        sink.oracle_fail("C03", &format!("at quiescence the stream is {} while {owners} owner(s) exist", if closed { "ended" } else { "open" }));
    }
    // C04: the previous values returned by all sets plus the final value are the initial value plus all values written
    let mut lhs = prevs.clone(); lhs.push(value); lhs.sort();
    let mut rhs = written.clone(); rhs.push(p.init); rhs.sort();
    let upds: Vec<u64> = p.ops.iter().filter_map(|o| if let COp::Upd(k) = o { Some(*k) } else { None }).collect();
    if !upds.is_empty() {
        // C04: no update closure's effect is lost (programs whose only writers are updates)
        if !p.ops.iter().any(|o| matches!(o, COp::Set(_) | COp::Sne(_) | COp::Shne(_) | COp::SetSeq(_) | COp::UpdPoll(_) | COp::SetPoll(_))) && value != p.init + upds.iter().sum::<u64>() {
            sink.oracle_fail("C04", &format!("updates lost: initial value {} and update closures adding {upds:?} end on {value}", p.init));
        }
    } else if lhs != rhs && !written.is_empty() {
        sink.oracle_fail("C04", &format!("set chain broken: returned previous values {prevs:?} + final {value} vs initial {} + written {written:?}", p.init));
    }
    drop(probe_sub); drop(probe);
    if emit {
        if value == u64::MAX { sink.line("cfinalq", &format!("closed={} woken={}", closed as u8, fmt_list(&woken))); }
        else { sink.line("cfinal", &format!("value={value} closed={} woken={}", closed as u8, fmt_list(&woken))); }
    }
}

static TIMEOUTS: std::sync::atomic::AtomicUsize = std::sync::atomic::AtomicUsize::new(0);

fn run_forced(sink: &mut Sink, id: &str, p: &Program, atomic_drop: bool, sched: &[(usize, bool)], repolls: usize) {
    sink.case(id);
    let st = setup(p);
    let mut led = Ledger { pcs: vec![Pc::Start; p.ops.len()], ops: p.ops.clone(), readers: vec![], writer: None, meta: None, nc: st.n_clones, st: st.n_clones + st.n_subs, atomic_drop, value: p.init };
    let ops: Vec<String> = p.ops.iter().map(|o| o.text()).collect();
    sink.line(&format!("cnew {} {} {} {} {}", atomic_drop as u8, p.init, st.n_clones, st.n_subs, ops.join(";")), "ok");
    let n = p.ops.len();
    let sh = Arc::new(Shared { m: Mutex::new(Dir { reports: VecDeque::new(), tokens: vec![0; n] }), cv: Condvar::new() });
    *CURRENT.lock().unwrap() = Some(sh.clone());
    let mut st = st;
    let handles: Vec<Handle> = std::mem::take(&mut st.handles);
    let mut joins = vec![];
    for (t, h) in handles.into_iter().enumerate() {
        let (sh2, op) = (sh.clone(), p.ops[t].clone());
        joins.push(std::thread::spawn(move || worker(sh2, t, op, h, true, 1 + repolls)));
    }
    let mut released = vec![false; n]; // the thread has a token it has not yet reported for
    let mut timed_out = false;
    for &(t, expect_block) in sched {
        if timed_out { break; }
        if !released[t] {
            let mut d = sh.m.lock().unwrap();
            d.tokens[t] += 1;
            released[t] = true;
            sh.cv.notify_all();
        }
        if !expect_block { led.adv(t); }
        if expect_block {
            // it must not arrive: give it a moment, then look
            std::thread::sleep(Duration::from_millis(3));
            let d = sh.m.lock().unwrap();
            if d.reports.iter().any(|(x, _)| *x == t) {
                drop(d);
                sink.oracle_fail("C04", &format!("thread {t} ({}) got past a lock that another thread holds (mutual exclusion broken)", p.ops[t].text()));
                sink.line(&format!("adv {t}"), "arrived-unexpectedly");
                timed_out = true;
            } else { drop(d); sink.line(&format!("adv {t}"), "blocked"); }
            continue;
        }
        // expected to arrive
        let deadline = Instant::now() + Duration::from_secs(20);
        let mut d = sh.m.lock().unwrap();
        let ev = loop {
            if let Some(pos) = d.reports.iter().position(|(x, _)| *x == t) { break d.reports.remove(pos).map(|(_, e)| e); }
            let now = Instant::now();
            if now >= deadline { break None; }
            d = sh.cv.wait_timeout(d, deadline - now).unwrap().0;
        };
        drop(d);
        released[t] = false;
        match ev {
            Some(Ev::At(pp)) => {
                sink.line(&format!("adv {t}"), &format!("at {}", point_name(pp)));
                // the thread is somewhere else than the schedule assumed: the rest of the schedule is meaningless
                if point_name(pp) != led.pc_name(t) { timed_out = true; }
            }
            Some(Ev::Done(r)) => { sink.line(&format!("adv {t}"), &format!("done {r}")); if led.pc_name(t) != "finished" { timed_out = true; } }
            None => {
                sink.line(&format!("adv {t}"), "timeout");
                sink.oracle_fail("C02,C04", &format!("thread {t} did not reach its next pause point within 20 s (unexpected blocking)"));
                timed_out = true;
                TIMEOUTS.fetch_add(1, Ordering::SeqCst);
            }
        }
    }
    // let every worker run to completion: unlimited tokens, then join
    { let mut d = sh.m.lock().unwrap(); for t in 0..n { d.tokens[t] += 1000; } sh.cv.notify_all(); }
    let joined: Vec<_> = joins.into_iter().map(|j| j.join().unwrap()).collect();
    *CURRENT.lock().unwrap() = None;
    // the quiescent-state oracles hold whatever the interleaving was, also when the schedule could not be followed
    finish(sink, p, joined, st, !timed_out);
    sink.nontrivial();
}

fn run_free(sink: &mut Sink, id: &str, p: &Program) {
    sink.case(id);
    let mut st = setup(p);
    let sh = Arc::new(Shared { m: Mutex::new(Dir { reports: VecDeque::new(), tokens: vec![] }), cv: Condvar::new() });
    let handles: Vec<Handle> = std::mem::take(&mut st.handles);
    // spin barrier: the calls start within a few instructions of each other
    let nthreads = handles.len();
    let barrier = Arc::new(std::sync::atomic::AtomicUsize::new(0));
    let mut joins = vec![];
    for (t, h) in handles.into_iter().enumerate() {
        let (sh2, op, b) = (sh.clone(), p.ops[t].clone(), barrier.clone());
        joins.push(std::thread::spawn(move || {
            b.fetch_add(1, Ordering::SeqCst);
            while b.load(Ordering::SeqCst) < nthreads { std::hint::spin_loop(); }
            worker(sh2, t, op, h, false, 1)
        }));
    }
    let joined: Vec<_> = joins.into_iter().map(|j| j.join().unwrap()).collect();
    finish(sink, p, joined, st, false);
    sink.nontrivial();
}

pub fn programs() -> Vec<(&'static str, Program, usize)> {
    let pl = |fresh| COp::Poll { fresh };
    vec![
        ("poll|set", Program { init: 1, ops: vec![pl(false), COp::Set(5)], extra_clones: 0, no_monitor: false }, 1),
        ("pollf|set", Program { init: 1, ops: vec![pl(true), COp::Set(5)], extra_clones: 0, no_monitor: false }, 1),
        ("poll|droplast", Program { init: 1, ops: vec![pl(false), COp::Drop], extra_clones: 0, no_monitor: false }, 1),
        ("drop|drop|poll", Program { init: 1, ops: vec![COp::Drop, COp::Drop, pl(false)], extra_clones: 0, no_monitor: false }, 1),
        ("up|droplast", Program { init: 1, ops: vec![COp::Up, COp::Drop], extra_clones: 0, no_monitor: false }, 0),
        ("up|drop|drop", Program { init: 1, ops: vec![COp::Up, COp::Drop, COp::Drop], extra_clones: 0, no_monitor: false }, 0),
        ("set|set|get", Program { init: 1, ops: vec![COp::Set(5), COp::Set(6), COp::Get], extra_clones: 0, no_monitor: false }, 0),
        ("poll|poll|set", Program { init: 1, ops: vec![pl(false), pl(false), COp::Set(5)], extra_clones: 0, no_monitor: false }, 0),
        ("poll|pollf|set", Program { init: 1, ops: vec![pl(false), pl(true), COp::Set(5)], extra_clones: 0, no_monitor: false }, 0),
        ("poll|set|set", Program { init: 1, ops: vec![pl(false), COp::Set(5), COp::Set(6)], extra_clones: 0, no_monitor: false }, 0),
        ("poll|drop|drop", Program { init: 1, ops: vec![pl(false), COp::Drop, COp::Drop], extra_clones: 0, no_monitor: false }, 0),
        ("pollf|get|set", Program { init: 1, ops: vec![pl(true), COp::Get, COp::Set(7)], extra_clones: 1, no_monitor: false }, 0),
        ("nextnow|set", Program { init: 1, ops: vec![COp::NextNow, COp::Set(5)], extra_clones: 0, no_monitor: false }, 0),
        ("poll|nextnow|set", Program { init: 1, ops: vec![pl(false), COp::NextNow, COp::Set(5)], extra_clones: 0, no_monitor: false }, 0),
        ("poll|sne|sne", Program { init: 1, ops: vec![pl(false), COp::Sne(7), COp::Sne(7)], extra_clones: 0, no_monitor: false }, 1),
        ("poll|sne.eq|set", Program { init: 1, ops: vec![pl(false), COp::Sne(1), COp::Set(1)], extra_clones: 0, no_monitor: false }, 0),
        ("upd|upd|get", Program { init: 1, ops: vec![COp::Upd(3), COp::Upd(4), COp::Get], extra_clones: 0, no_monitor: false }, 0),
        ("poll|upd|nextnow", Program { init: 1, ops: vec![pl(false), COp::Upd(2), COp::NextNow], extra_clones: 0, no_monitor: false }, 1),
        // no subscriber at all: the state's strong count reaches 0 with weak references alive (upgrade must fail at its first step)
        ("nomon:up|droplast", Program { init: 1, ops: vec![COp::Up, COp::Drop], extra_clones: 0, no_monitor: true }, 0),
        ("nomon:up|up|droplast", Program { init: 1, ops: vec![COp::Up, COp::Up, COp::Drop], extra_clones: 0, no_monitor: true }, 0),
        ("nomon:up|drop|drop", Program { init: 1, ops: vec![COp::Up, COp::Drop, COp::Drop], extra_clones: 0, no_monitor: true }, 0),
        ("nomon:up|drop|set", Program { init: 1, ops: vec![COp::Up, COp::Drop, COp::Set(4)], extra_clones: 0, no_monitor: true }, 0),
    ]
}

/// programs for the free-running rounds only: races that have no pause point inside, calls the ledger does not model
pub fn free_programs() -> Vec<(&'static str, Program)> {
    let pl = |fresh| COp::Poll { fresh };
    vec![
        ("drop|drop", Program { init: 1, ops: vec![COp::Drop, COp::Drop], extra_clones: 0, no_monitor: false }),
        ("drop|drop|drop", Program { init: 1, ops: vec![COp::Drop, COp::Drop, COp::Drop], extra_clones: 0, no_monitor: false }),
        ("poll|droplast.free", Program { init: 1, ops: vec![pl(false), COp::Drop], extra_clones: 0, no_monitor: false }),
        ("poll|poll|droplast", Program { init: 1, ops: vec![pl(false), pl(false), COp::Drop], extra_clones: 0, no_monitor: false }),
        ("nextnow|set|set", Program { init: 1, ops: vec![COp::NextNow, COp::Set(5), COp::Set(6)], extra_clones: 0, no_monitor: false }),
        ("sne|sne", Program { init: 1, ops: vec![COp::Sne(7), COp::Sne(7)], extra_clones: 0, no_monitor: false }),
        ("sne|sne|sne", Program { init: 1, ops: vec![COp::Sne(7), COp::Sne(7), COp::Sne(7)], extra_clones: 0, no_monitor: false }),
        ("sne|set|poll", Program { init: 1, ops: vec![COp::Sne(7), COp::Set(7), pl(false)], extra_clones: 0, no_monitor: false }),
        ("pollf|set|set.free", Program { init: 1, ops: vec![pl(true), COp::Set(5), COp::Set(6)], extra_clones: 0, no_monitor: false }),
        ("poll|set|churn|churn", Program { init: 1, ops: vec![pl(false), COp::Set(5), COp::Churn(40), COp::Churn(40)], extra_clones: 0, no_monitor: false }),
        ("poll|setseq|subchurn|churn", Program { init: 0, ops: vec![pl(false), COp::SetSeq(30), COp::SubChurn(60), COp::Churn(60)], extra_clones: 0, no_monitor: false }),
        ("setpoll|churn|churn|subchurn", Program { init: 0, ops: vec![COp::SetPoll(1500), COp::Churn(1500), COp::Churn(1500), COp::SubChurn(1500)], extra_clones: 0, no_monitor: false }),
        ("holdwrite|subpoll", Program { init: 1, ops: vec![COp::HoldWrite, COp::SubPoll], extra_clones: 0, no_monitor: false }),
        ("holdwrite|subpoll|subpoll", Program { init: 1, ops: vec![COp::HoldWrite, COp::SubPoll, COp::SubPoll], extra_clones: 0, no_monitor: false }),
        ("updpoll|churn|churn|churn", Program { init: 0, ops: vec![COp::UpdPoll(1500), COp::Churn(1500), COp::Churn(1500), COp::Churn(1500)], extra_clones: 0, no_monitor: false }),
        ("shne|shne", Program { init: 1, ops: vec![COp::Shne(7), COp::Shne(7)], extra_clones: 0, no_monitor: false }),
        ("shne|shne|sne", Program { init: 1, ops: vec![COp::Shne(7), COp::Shne(7), COp::Sne(7)], extra_clones: 0, no_monitor: false }),
        ("nextrefs|setseq", Program { init: 0, ops: vec![COp::NextRefs { until: 300 }, COp::SetSeq(300)], extra_clones: 0, no_monitor: false }),
        // scripts: several calls per thread, judged by the linearizability oracle alone
        ("script.shne-upd-shne|script.get", Program { init: 1, ops: vec![COp::Script(vec![COp::Shne(5), COp::Upd(2), COp::Shne(5), COp::Get]), COp::Script(vec![COp::Get, COp::Get, COp::Get])], extra_clones: 0, no_monitor: false }),
        ("script.set-shne-upd-shne|script.upd-get", Program { init: 1, ops: vec![COp::Script(vec![COp::Set(3), COp::Shne(3), COp::Upd(1), COp::Shne(3), COp::Shne(4)]), COp::Script(vec![COp::Upd(10), COp::Get])], extra_clones: 0, no_monitor: false }),
        ("script.sne-upd-sne|script.shne-get|get", Program { init: 1, ops: vec![COp::Script(vec![COp::Sne(4), COp::Upd(1), COp::Sne(4), COp::Get]), COp::Script(vec![COp::Shne(9), COp::Get]), COp::Get], extra_clones: 0, no_monitor: false }),
        ("script.set-get|script.set-get|script.upd-sne", Program { init: 0, ops: vec![COp::Script(vec![COp::Set(1), COp::Get, COp::Set(2), COp::Get]), COp::Script(vec![COp::Set(3), COp::Get]), COp::Script(vec![COp::Upd(100), COp::Sne(2), COp::Get])], extra_clones: 0, no_monitor: false }),
    ]
}

pub fn run(args: &Args, sink: &mut Sink) {
    let thorough = args.tier == "thorough";
    set_pause_hook(Some(Arc::new(hook)));
    // the drop protocol of the code: decision and release of the clone reference are one step (since the repair of D7);
    // VERIF_CONC_RACY_DROP=1 makes model and ledger follow the original two-step protocol instead (used to reproduce D7)
    let atomic_drop = !std::env::var("VERIF_CONC_RACY_DROP").is_ok();
    let cap = if thorough { 4000 } else { 250 };
    let mut n = 0u64;
    for (name, p, repolls) in programs() {
        let st = setup(&p);
        let scheds = schedules(&p, atomic_drop, st.n_clones, st.n_subs, repolls, 200000);
        drop(st);
        sink.stat_n(&format!("schedules.{name}"), scheds.len() as u64);
        // all of them if few, otherwise an evenly spread sample (thorough: a much larger one)
        let step = (scheds.len() + cap - 1) / cap.max(1);
        for (i, sc) in scheds.iter().enumerate() {
            if step > 1 && i % step != (args.seed as usize) % step { continue; }
            n += 1;
            if TIMEOUTS.load(Ordering::SeqCst) >= 3 { continue; } // something is badly off: do not spend 5 s on every remaining schedule
            run_forced(sink, &format!("F{n}:{name}"), &p, atomic_drop, sc, repolls);
        }
    }
    sink.stat_n("forced", n);
    set_pause_hook(None);
    // free-running rounds
    let per = if thorough { 20000 } else { 600 };
    let mut progs: Vec<(&'static str, Program)> = programs().into_iter().map(|(n, p, _)| (n, p)).collect();
    progs.extend(free_programs());
    let mut k = 0u64;
    for (name, p) in &progs {
        for _ in 0..per { k += 1; run_free(sink, &format!("X{k}:{name}"), p); }
    }
    sink.stat_n("free", k);
}
