//! Engine `vec` (C05, C06, C07, C08, C17, subscriber level of C14): ObservableVector, transactions, entries,
//! plain and batched subscriber streams on the real crate, with implementation-side oracles.
use crate::common::*;
use eyeball_im::{
    ObservableVector, ObservableVectorEntry, ObservableVectorTransaction, ObservableVectorTransactionEntry,
    VectorDiff, VectorSubscriberBatchedStream, VectorSubscriberStream,
};
use futures_core::Stream;
use imbl::Vector;
use std::collections::VecDeque;
use std::pin::Pin;
use std::sync::atomic::{AtomicBool, Ordering};
use std::sync::Arc;
use std::task::{Context, Poll, Wake, Waker};

pub struct Flag(pub AtomicBool);
impl Wake for Flag {
    fn wake(self: Arc<Self>) {
        self.0.store(true, Ordering::SeqCst);
    }
}
pub fn flag_waker() -> (Arc<Flag>, Waker) {
    let f = Arc::new(Flag(AtomicBool::new(false)));
    (f.clone(), Waker::from(f))
}

#[derive(Clone, Debug)]
pub enum Op {
    Append(Vec<V>),
    Clear,
    PushF(V),
    PushB(V),
    PopF,
    PopB,
    Ins(usize, V),
    Set(usize, V),
    Rem(usize),
    Trunc(usize),
}
impl Op {
    pub fn text(&self) -> String {
        match self {
            Op::Append(v) => format!("append {}", fmt_list(v)),
            Op::Clear => "clear".into(),
            Op::PushF(v) => format!("pushf {v}"),
            Op::PushB(v) => format!("pushb {v}"),
            Op::PopF => "popf".into(),
            Op::PopB => "popb".into(),
            Op::Ins(i, v) => format!("ins {i} {v}"),
            Op::Set(i, v) => format!("set {i} {v}"),
            Op::Rem(i) => format!("rem {i}"),
            Op::Trunc(n) => format!("trunc {n}"),
        }
    }
    pub fn kind(&self) -> &'static str {
        match self {
            Op::Append(_) => "append", Op::Clear => "clear", Op::PushF(_) => "pushf", Op::PushB(_) => "pushb",
            Op::PopF => "popf", Op::PopB => "popb", Op::Ins(..) => "ins", Op::Set(..) => "set",
            Op::Rem(_) => "rem", Op::Trunc(_) => "trunc",
        }
    }
    /// plain-vector reference semantics: Err = the docs say "panics"; Ok((return value text, changed anything?))
    pub fn reference(&self, r: &mut Vec<V>) -> Result<(String, bool), ()> {
        Ok(match self {
            Op::Append(v) => { r.extend(v.iter().copied()); ("-".into(), true) }
            Op::Clear => { let ch = !r.is_empty(); r.clear(); ("-".into(), ch) }
            Op::PushF(v) => { r.insert(0, *v); ("-".into(), true) }
            Op::PushB(v) => { r.push(*v); ("-".into(), true) }
            Op::PopF => { if r.is_empty() { ("none".into(), false) } else { (fmt_opt(Some(r.remove(0))), true) } }
            Op::PopB => { match r.pop() { None => ("none".into(), false), Some(x) => (fmt_opt(Some(x)), true) } }
            Op::Ins(i, v) => { if *i > r.len() { return Err(()); } r.insert(*i, *v); ("-".into(), true) }
            Op::Set(i, v) => { if *i >= r.len() { return Err(()); } let o = r[*i]; r[*i] = *v; (o.to_string(), true) }
            Op::Rem(i) => { if *i >= r.len() { return Err(()); } (r.remove(*i).to_string(), true) }
            Op::Trunc(n) => { let ch = *n < r.len(); r.truncate(*n); ("-".into(), ch) }
        })
    }
}

#[derive(Clone, Copy, Debug, PartialEq)]
pub enum Dec { Keep, Set(V), Remove, SetRemove(V), Stop }
fn decs_text(d: &[Dec]) -> String {
    if d.is_empty() { return "-".into(); }
    d.iter().map(|x| match x {
        Dec::Keep => "k".to_string(), Dec::Set(v) => format!("s{v}"), Dec::Remove => "r".into(),
        Dec::SetRemove(v) => format!("x{v}"), Dec::Stop => "q".into(),
    }).collect::<Vec<_>>().join(",")
}

enum St {
    Plain(Pin<Box<VectorSubscriberStream<V>>>),
    Batched(Pin<Box<VectorSubscriberBatchedStream<V>>>),
    /// the `VectorSubscriber` is kept as it is and only turned into a stream at its first poll
    /// (`mode`: 0 `into_stream` / `into_batched_stream`, 1 `into_values_and_stream` / `into_values_and_batched_stream`)
    Lazy(Option<eyeball_im::VectorSubscriber<V>>, u8),
}

/// a message the harness knows was published while this subscriber existed
struct Pend {
    state: Vec<V>,
    size: usize,   // number of diffs (1 for a direct call; recorded ops for a commit)
    left: usize,   // plain stream: diffs of it not yet delivered
    direct: bool,
}

struct SubH {
    st: St,
    batched: bool,
    flag: Arc<Flag>,
    waker: Waker,
    replica: Vec<V>,
    queue: VecDeque<Pend>,
    parked: bool, // last poll returned Pending
    ended: bool,
}

#[derive(Debug, PartialEq)]
enum Polled { One(VectorDiff<V>), Batch(Vec<VectorDiff<V>>), Pending, End, Panic }

pub struct World {
    ov: Option<Box<ObservableVector<V>>>,
    txn: Option<ObservableVectorTransaction<'static, V>>,
    subs: Vec<Option<SubH>>,
    capacity: usize,
    reference: Vec<V>,       // plain-vector reference of the vector's contents
    tref: Vec<V>,            // reference of the transaction's working copy
    tsize: usize,            // predicted number of recorded diffs of the open transaction
    final_state: Option<Vec<V>>,
    panic_seen: bool, // an out-of-range call panicked earlier in this case (C17: it must leave no trace)
}

impl World {
    pub fn new(sink: &mut Sink, capacity: usize) -> World {
        sink.line(&format!("newvec {capacity}"), "ok");
        // capacity 16 is what `new()` / `default()` / `From<Vector<T>>` use: go through them, in turn
        static TURN: std::sync::atomic::AtomicUsize = std::sync::atomic::AtomicUsize::new(0);
        let ov: ObservableVector<V> = if capacity == 16 {
            match TURN.fetch_add(1, std::sync::atomic::Ordering::Relaxed) % 3 { 0 => ObservableVector::new(), 1 => ObservableVector::default(), _ => ObservableVector::from(Vector::new()) }
        } else { ObservableVector::with_capacity(capacity) };
        World {
            ov: Some(Box::new(ov)), txn: None, subs: vec![], capacity,
            reference: vec![], tref: vec![], tsize: 0, final_state: None, panic_seen: false,
        }
    }
    /// `ObservableVector::from(values)`: documented as `new()` followed by `append(values)`, and reported as that
    pub fn new_from(sink: &mut Sink, vals: Vec<V>) -> World {
        sink.line("newvec 16", "ok");
        let ov: ObservableVector<V> = ObservableVector::from(vals.iter().copied().collect::<Vector<V>>());
        let mut w = World { ov: Some(Box::new(ov)), txn: None, subs: vec![], capacity: 16,
            reference: vec![], tref: vec![], tsize: 0, final_state: None, panic_seen: false };
        let op = Op::Append(vals);
        w.after_direct(sink, &op.text(), &op, Ok("-".to_string()), vec![]);
        w
    }
    fn rx_count(&self) -> usize { self.subs.iter().filter(|s| s.is_some()).count() }
    fn contents(&self) -> Vec<V> { self.ov.as_ref().unwrap().iter().copied().collect() }

    fn woke_text(&mut self) -> String {
        let mut ids = vec![];
        for (i, s) in self.subs.iter_mut().enumerate() {
            if let Some(s) = s {
                if s.flag.0.swap(false, Ordering::SeqCst) {
                    ids.push(i as V);
                    s.parked = false;
                }
            }
        }
        format!(" woke={}", fmt_list(&ids))
    }

    /// a message was published: queue it for every live subscriber, and check the wake rule (C14)
    fn published(&mut self, sink: &mut Sink, state: Vec<V>, size: usize, direct: bool) {
        for (i, s) in self.subs.iter_mut().enumerate() {
            if let Some(s) = s {
                s.queue.push_back(Pend { state: state.clone(), size, left: size, direct });
                if s.parked && !s.flag.0.load(Ordering::SeqCst) {
                    sink.oracle_fail("C14", &format!("subscriber {i} was Pending and is not woken by an update"));
                }
            }
        }
    }

    pub fn direct(&mut self, sink: &mut Sink, op: &Op) {
        sink.stat(&format!("op.{}", op.kind()));
        let before = self.contents();
        let ov = self.ov.as_mut().unwrap();
        let opc = op.clone();
        let res = catch(move || match opc {
            Op::Append(v) => { ov.append(v.into_iter().collect()); "-".to_string() }
            Op::Clear => { ov.clear(); "-".into() }
            Op::PushF(v) => { ov.push_front(v); "-".into() }
            Op::PushB(v) => { ov.push_back(v); "-".into() }
            Op::PopF => fmt_opt(ov.pop_front()),
            Op::PopB => fmt_opt(ov.pop_back()),
            Op::Ins(i, v) => { ov.insert(i, v); "-".into() }
            Op::Set(i, v) => ov.set(i, v).to_string(),
            Op::Rem(i) => ov.remove(i).to_string(),
            Op::Trunc(n) => { ov.truncate(n); "-".into() }
        });
        self.after_direct(sink, &op.text(), op, res, before);
    }

    fn after_direct(&mut self, sink: &mut Sink, text: &str, op: &Op, res: Result<String, ()>, before: Vec<V>) {
        let after = self.contents();
        let mut rf = self.reference.clone();
        let expect = op.reference(&mut rf);
        match (&res, &expect) {
            (Ok(ret), Ok((eret, changed))) => {
                if ret != eret || after != rf {
                    sink.oracle_fail("C17", &format!("{text}: returned {ret} / contents {after:?}, a plain vector gives {eret} / {rf:?}"));
                }
                self.reference = after.clone();
                if *changed || !matches!(op, Op::Clear | Op::PopF | Op::PopB | Op::Trunc(_)) {
                    // not a documented no-op: publishes exactly one diff if anybody listens
                    if self.rx_count() > 0 { self.published(sink, after.clone(), 1, true); }
                }
            }
            (Err(()), Err(())) => {
                sink.stat("panic");
                self.panic_seen = true;
                if after != before { sink.oracle_fail("C17", &format!("{text}: panicked but changed the contents to {after:?}")); }
            }
            (Ok(ret), Err(())) => { sink.oracle_fail("C17", &format!("{text}: out of range but returned {ret}")); self.reference = after.clone(); }
            (Err(()), Ok(_)) => sink.oracle_fail("C17", &format!("{text}: in range but panicked")),
        }
        let shown = match res { Ok(r) => r, Err(()) => "panic".into() };
        let w = self.woke_text();
        sink.line(text, &format!("{shown} vals={}{w}", fmt_list(&after)));
    }

    pub fn entry(&mut self, sink: &mut Sink, i: usize, set: Option<V>) {
        let before = self.contents();
        let ov = self.ov.as_mut().unwrap();
        let res = catch(move || {
            let mut e = ov.entry(i);
            match set {
                Some(v) => ObservableVectorEntry::set(&mut e, v).to_string(),
                None => ObservableVectorEntry::remove(e).to_string(),
            }
        });
        let (text, op) = match set {
            Some(v) => (format!("entry {i} set {v}"), Op::Set(i, v)),
            None => (format!("entry {i} rem"), Op::Rem(i)),
        };
        sink.stat("op.entry");
        self.after_direct(sink, &text, &op, res, before);
    }

    /// `entry(i)` taken and dropped without using it: panics exactly when `i` is out of range (C17)
    pub fn entry_unused(&mut self, sink: &mut Sink, i: usize) {
        let (text, len, res) = if let Some(t) = self.txn.as_mut() {
            let len = t.len();
            (format!("t.entry {i}"), len, catch(move || { let _e = t.entry(i); }))
        } else {
            let ov = self.ov.as_mut().unwrap();
            let len = ov.len();
            (format!("entry {i} none"), len, catch(move || { let _e = ov.entry(i); }))
        };
        sink.stat("op.entry_unused");
        if res.is_ok() != (i < len) {
            sink.oracle_fail("C17", &format!("{text}: {} although the length is {len}", if res.is_ok() { "handed out an entry" } else { "panicked" }));
        }
        if res.is_err() { self.panic_seen = true; }
        sink.line(&text, if res.is_ok() { "ok" } else { "panic" });
    }
    /// `set` / `remove` through the transaction's `entry(i)`
    pub fn txn_entry(&mut self, sink: &mut Sink, i: usize, set: Option<V>) {
        let before = self.tvals();
        let t = self.txn.as_mut().unwrap();
        let res = catch(move || {
            let mut e = t.entry(i);
            match set {
                Some(v) => eyeball_im::ObservableVectorTransactionEntry::set(&mut e, v).to_string(),
                None => eyeball_im::ObservableVectorTransactionEntry::remove(e).to_string(),
            }
        });
        let op = match set { Some(v) => Op::Set(i, v), None => Op::Rem(i) };
        let after = self.tvals();
        let mut rf = self.tref.clone();
        let expect = op.reference(&mut rf);
        let text = match set { Some(v) => format!("t.eset {i} {v}"), None => format!("t.erem {i}") };
        sink.stat("top.entry");
        match (&res, &expect) {
            (Ok(ret), Ok((eret, _))) => {
                if ret != eret || after != rf { sink.oracle_fail("C17", &format!("{text}: returned {ret} / working contents {after:?}, a plain vector gives {eret} / {rf:?}")); }
                self.tref = after.clone();
                if self.rx_count() > 0 { self.tsize += 1; }
            }
            (Err(()), Err(())) => { self.panic_seen = true; if after != before { sink.oracle_fail("C17", &format!("{text}: panicked but changed the working contents")); } }
            (Ok(ret), Err(())) => { sink.oracle_fail("C17", &format!("{text}: out of range but returned {ret}")); self.tref = after.clone(); }
            (Err(()), Ok(_)) => sink.oracle_fail("C17", &format!("{text}: in range but panicked")),
        }
        let shown = match res { Ok(r) => r, Err(()) => "panic".into() };
        sink.line(&text, &format!("{shown} tvals={}", fmt_list(&after)));
    }

    /// reference traversal: visited (index reported, item), final contents
    fn ref_traverse(start: &[V], decs: &[Dec]) -> (Vec<(usize, V)>, Vec<V>) {
        let mut out = vec![];
        let mut seen = vec![];
        let mut k = 0;
        let mut stopped = false;
        for (j, x) in start.iter().enumerate() {
            if stopped { out.push(*x); continue; }
            let d = decs.get(k).copied().unwrap_or(Dec::Keep);
            k += 1;
            seen.push((out.len(), *x));
            match d {
                Dec::Keep => out.push(*x),
                Dec::Set(v) => out.push(v),
                Dec::Remove | Dec::SetRemove(_) => {}
                Dec::Stop => { out.push(*x); stopped = true; let _ = j; }
            }
        }
        (seen, out)
    }

    pub fn for_each(&mut self, sink: &mut Sink, decs: &[Dec]) {
        sink.stat("op.foreach");
        let before = self.contents();
        let mut seen: Vec<(usize, V)> = vec![];
        let mut msgs: Vec<Vec<V>> = vec![];
        {
            let ov = self.ov.as_mut().unwrap();
            let mut k = 0;
            if !decs.contains(&Dec::Stop) && decs.len() % 2 == 0 {
                ov.for_each(|mut e| {
                    let d = decs.get(k).copied().unwrap_or(Dec::Keep);
                    k += 1;
                    seen.push((ObservableVectorEntry::index(&e), *e));
                    match d {
                        Dec::Keep | Dec::Stop => {}
                        Dec::Set(v) => { ObservableVectorEntry::set(&mut e, v); msgs.push(vec![]); }
                        Dec::Remove => { ObservableVectorEntry::remove(e); msgs.push(vec![]); }
                        Dec::SetRemove(v) => { ObservableVectorEntry::set(&mut e, v); ObservableVectorEntry::remove(e); msgs.push(vec![]); msgs.push(vec![]); }
                    }
                });
            } else {
            let mut entries = ov.entries();
            while let Some(mut e) = entries.next() {
                let d = decs.get(k).copied().unwrap_or(Dec::Keep);
                k += 1;
                seen.push((ObservableVectorEntry::index(&e), *e));
                match d {
                    Dec::Keep => {}
                    Dec::Set(v) => { ObservableVectorEntry::set(&mut e, v); msgs.push(vec![]); }
                    Dec::Remove => { ObservableVectorEntry::remove(e); msgs.push(vec![]); }
                    Dec::SetRemove(v) => { ObservableVectorEntry::set(&mut e, v); ObservableVectorEntry::remove(e); msgs.push(vec![]); msgs.push(vec![]); }
                    Dec::Stop => break,
                }
            }
            }
        }
        let after = self.contents();
        let (eseen, efinal) = Self::ref_traverse(&before, decs);
        if seen != eseen || after != efinal {
            sink.oracle_fail("C17", &format!("traversal of {before:?} with {}: visited {seen:?} final {after:?}, expected visited {eseen:?} final {efinal:?}", decs_text(decs)));
        }
        self.reference = after.clone();
        // every set/remove through an entry is a direct call: one message each. The intermediate states are
        // reconstructed from the reference traversal (prefix processed so far + untouched suffix).
        if self.rx_count() > 0 && !msgs.is_empty() {
            let mut cur = before.clone();
            let mut pos = 0usize;
            let mut k = 0usize;
            let mut states = vec![];
            while pos < cur.len() {
                let d = decs.get(k).copied().unwrap_or(Dec::Keep);
                k += 1;
                match d {
                    Dec::Keep => pos += 1,
                    Dec::Set(v) => { cur[pos] = v; states.push(cur.clone()); pos += 1; }
                    Dec::Remove => { cur.remove(pos); states.push(cur.clone()); }
                    Dec::SetRemove(v) => { cur[pos] = v; states.push(cur.clone()); cur.remove(pos); states.push(cur.clone()); }
                    Dec::Stop => break,
                }
            }
            for st in states { self.published(sink, st, 1, true); }
        }
        let seen_txt: Vec<String> = seen.iter().map(|(i, v)| format!("{i}:{v}")).collect();
        let w = self.woke_text();
        sink.line(&format!("foreach {}", decs_text(decs)), &format!("seen=[{}] vals={}{w}", seen_txt.join(","), fmt_list(&after)));
    }

    pub fn subscribe(&mut self, sink: &mut Sink, batched: bool) -> usize {
        let sub = self.ov.as_ref().unwrap().subscribe();
        let snap: Vec<V> = sub.values().iter().copied().collect();
        let id = self.subs.len();
        let st = if id % 3 == 1 || id % 3 == 2 { St::Lazy(Some(sub), (id % 3 - 1) as u8) } else if batched { St::Batched(Box::pin(sub.into_batched_stream())) } else { St::Plain(Box::pin(sub.into_stream())) };
        let (flag, waker) = flag_waker();
        if snap != self.contents() { sink.oracle_fail("C05", "subscription snapshot differs from the vector's contents"); }
        self.subs.push(Some(SubH { st, batched, flag, waker, replica: snap.clone(), queue: VecDeque::new(), parked: false, ended: false }));
        sink.stat(if batched { "sub.batched" } else { "sub.plain" });
        sink.line(&format!("sub {}", if batched { "batched" } else { "plain" }), &format!("{id} vals={}", fmt_list(&snap)));
        id
    }

    fn poll_raw(s: &mut SubH) -> Polled {
        if let St::Lazy(sub, mode) = &mut s.st {
            let sub = sub.take().unwrap();
            let snap_ok = |v: imbl::Vector<V>, rep: &Vec<V>| v.iter().copied().collect::<Vec<V>>() == *rep;
            s.st = match (s.batched, *mode) {
                (true, 0) => St::Batched(Box::pin(sub.into_batched_stream())),
                (false, 0) => St::Plain(Box::pin(sub.into_stream())),
                (true, _) => { let (v, st) = sub.into_values_and_batched_stream(); if !snap_ok(v, &s.replica) { return Polled::Panic; } St::Batched(Box::pin(st)) }
                (false, _) => { let (v, st) = sub.into_values_and_stream(); if !snap_ok(v, &s.replica) { return Polled::Panic; } St::Plain(Box::pin(st)) }
            };
        }
        // a parked subscriber polled again is polled with a NEW waker: the most recent one is the one that has to be woken (C14)
        if s.parked && !s.flag.0.load(Ordering::SeqCst) { let (f, w) = flag_waker(); s.flag = f; s.waker = w; }
        let mut cx = Context::from_waker(&s.waker);
        let r = catch(|| match &mut s.st {
            St::Plain(p) => match p.as_mut().poll_next(&mut cx) {
                Poll::Ready(Some(d)) => Polled::One(d),
                Poll::Ready(None) => Polled::End,
                Poll::Pending => Polled::Pending,
            },
            St::Batched(p) => match p.as_mut().poll_next(&mut cx) {
                Poll::Ready(Some(d)) => Polled::Batch(d),
                Poll::Ready(None) => Polled::End,
                Poll::Pending => Polled::Pending,
            },
            St::Lazy(..) => unreachable!(),
        });
        r.unwrap_or(Polled::Panic)
    }

    /// poll once, run the oracles, return the canonical text
    fn poll_checked(&mut self, sink: &mut Sink, i: usize) -> (String, bool) {
        let alive = self.ov.is_some();
        let current: Vec<V> = if alive { self.contents() } else { self.final_state.clone().unwrap_or_default() };
        let cap = self.capacity;
        let ptag = if self.panic_seen { ",C17" } else { "" };
        let Some(s) = self.subs.get_mut(i).and_then(|x| x.as_mut()) else { return ("bad-sub".into(), true) };
        let was_parked = s.parked && !s.flag.0.load(Ordering::SeqCst);
        let r = Self::poll_raw(s);
        if was_parked && r != Polled::Pending {
            sink.oracle_fail("C14", &format!("subscriber {i} became ready again without its waker having been woken"));
        }
        let mut stop = false;
        let text = match &r {
            Polled::Pending => {
                s.parked = true;
                s.flag.0.store(false, Ordering::SeqCst);
                if !s.queue.is_empty() {
                    let t = if s.queue.iter().any(|p| !p.direct) { ",C07" } else { "" };
                    sink.oracle_fail(&format!("C05{t}{ptag}"), &format!("subscriber {i} reports Pending with {} published update(s) not delivered", s.queue.len()));
                }
                if s.replica != current {
                    sink.oracle_fail(&format!("C06,C05{ptag}"), &format!("subscriber {i} reports Pending but its replica {:?} differs from the contents {current:?}", s.replica));
                }
                if !alive { sink.oracle_fail("C08", &format!("subscriber {i} reports Pending after the vector was dropped")); }
                stop = true;
                "Pending".to_string()
            }
            Polled::End => {
                s.parked = false;
                stop = true;
                if alive { sink.oracle_fail("C08", &format!("subscriber {i}: stream ended while the vector is alive")); }
                else if s.replica != current && !s.ended {
                    sink.oracle_fail("C08", &format!("subscriber {i}: stream ended with replica {:?}, final contents {current:?}", s.replica));
                }
                s.ended = true;
                "End".into()
            }
            Polled::Panic => { stop = true; sink.oracle_fail("C05", &format!("subscriber {i}: poll panicked, or the values handed out with the stream differ from the snapshot taken at subscribe()")); "panic".into() }
            Polled::One(d) => {
                s.parked = false;
                Self::deliver(sink, i, s, std::slice::from_ref(d), cap, &current, false, ptag);
                format!("Ready({})", fmt_diff(d))
            }
            Polled::Batch(ds) => {
                s.parked = false;
                if ds.is_empty() { sink.oracle_fail("C07", &format!("subscriber {i} received an empty batch")); }
                Self::deliver(sink, i, s, ds, cap, &current, true, ptag);
                format!("Ready{}", fmt_diffs(ds))
            }
        };
        (text, stop)
    }

    fn deliver(sink: &mut Sink, i: usize, s: &mut SubH, ds: &[VectorDiff<V>], cap: usize, current: &[V], batched: bool, ptag: &str) {
        let last_txn = if s.queue.back().map(|p| !p.direct).unwrap_or(false) { ",C07" } else { "" };
        for d in ds {
            sink.stat(&format!("recv.{}", diff_kind(d)));
            if let VectorDiff::Reset { values } = d {
                // C06: only if more than `capacity` updates were pending (a partially delivered batch is not pending)
                let pending = s.queue.iter().filter(|p| p.left == p.size).count();
                if pending <= cap {
                    sink.oracle_fail("C06", &format!("subscriber {i} received a Reset with only {pending} pending update(s), capacity {cap}"));
                }
                let vs: Vec<V> = values.iter().copied().collect();
                if vs != current {
                    sink.oracle_fail(&format!("C06{last_txn}{ptag}"), &format!("subscriber {i}: Reset carries {vs:?} but the contents are {current:?}"));
                }
                s.queue.clear();
                s.replica = vs;
                continue;
            }
            if let Err(e) = strict_apply(d, &mut s.replica) {
                let t = if s.queue.front().map(|p| !p.direct).unwrap_or(false) { ",C07" } else { "" };
                sink.oracle_fail(&format!("C06,C05{t}{ptag}"), &format!("subscriber {i}: delivered diff {} is not applicable to its replica: {e}", fmt_diff(d)));
            }
            if !batched {
                match s.queue.front_mut() {
                    None => sink.oracle_fail(&format!("C05,C07{ptag}"), &format!("subscriber {i} received {} although nothing was published", fmt_diff(d))),
                    Some(p) => {
                        p.left = p.left.saturating_sub(1);
                        if p.left == 0 {
                            if s.replica != p.state {
                                let t = if p.direct { "" } else { ",C07" };
                                sink.oracle_fail(&format!("C05{t}{ptag}"), &format!("subscriber {i}: after replaying an update the replica is {:?}, the vector was {:?}", s.replica, p.state));
                            }
                            s.queue.pop_front();
                        }
                    }
                }
            }
        }
        if batched {
            let had_reset = ds.iter().any(|d| matches!(d, VectorDiff::Reset { .. }));
            if !had_reset {
                let expect: usize = s.queue.iter().map(|p| p.size).sum();
                if s.queue.is_empty() {
                    sink.oracle_fail(&format!("C05,C07{ptag}"), &format!("batched subscriber {i} received {} although nothing was published", fmt_diffs(ds)));
                } else if expect != ds.len() && s.queue.iter().all(|p| p.direct) {
                    sink.oracle_fail("C05", &format!("batched subscriber {i} received {} diffs for {expect} direct calls", ds.len()));
                }
            }
            s.queue.clear();
            // C06/C07: each batched item brings the subscriber fully up to date (a top-level state, never in between)
            if s.replica != current {
                sink.oracle_fail(&format!("C06,C05{last_txn}{ptag}"), &format!("batched subscriber {i}: after the item the replica is {:?}, the contents are {current:?}", s.replica));
            }
        }
    }

    pub fn poll(&mut self, sink: &mut Sink, i: usize) {
        let (t, _) = self.poll_checked(sink, i);
        sink.stat("op.poll");
        sink.line(&format!("poll {i}"), &t);
        self.show_replica(sink, i);
    }
    /// the harness's strict replica of subscriber `i` against the model's ghost replica (the object of the C05 invariant)
    fn show_replica(&mut self, sink: &mut Sink, i: usize) {
        if let Some(Some(s)) = self.subs.get(i) { let t = fmt_list(&s.replica); sink.line(&format!("replica {i}"), &t); }
    }

    pub fn drain(&mut self, sink: &mut Sink, i: usize) {
        let mut items = vec![];
        for _ in 0..100000 {
            let (t, stop) = self.poll_checked(sink, i);
            items.push(t);
            if stop { break; }
        }
        sink.stat("op.drain");
        sink.line(&format!("drain {i}"), &items.join(" "));
    }

    pub fn drop_sub(&mut self, sink: &mut Sink, i: usize) {
        if let Some(x) = self.subs.get_mut(i) { *x = None; }
        sink.stat("op.dropsub");
        sink.line(&format!("dropsub {i}"), "ok");
    }

    pub fn drop_vec(&mut self, sink: &mut Sink) {
        assert!(self.txn.is_none());
        self.final_state = Some(self.contents());
        // half of the time the vector is consumed by `into_inner` instead of being dropped: the same end for the subscribers
        if self.final_state.as_ref().map(|v| v.len() % 2 == 0).unwrap_or(false) {
            let inner: Vec<V> = self.ov.take().unwrap().into_inner().into_iter().collect();
            if Some(&inner) != self.final_state.as_ref() { sink.oracle_fail("C17,C08", &format!("into_inner returned {inner:?}, the contents were {:?}", self.final_state)); }
        }
        self.ov = None;
        for (i, s) in self.subs.iter().enumerate() {
            if let Some(s) = s {
                if s.parked && !s.flag.0.load(Ordering::SeqCst) {
                    sink.oracle_fail("C08", &format!("subscriber {i} was Pending and is not woken by the drop of the vector"));
                }
            }
        }
        let w = self.woke_text();
        sink.stat("op.dropvec");
        sink.line("dropvec", &format!("ok{w}"));
    }

    pub fn alive(&self) -> bool { self.ov.is_some() }
    pub fn in_txn(&self) -> bool { self.txn.is_some() }
    pub fn len(&self) -> usize { if let Some(t) = &self.txn { t.len() } else { self.ov.as_ref().map(|o| o.len()).unwrap_or(0) } }
    pub fn live_subs(&self) -> Vec<usize> { self.subs.iter().enumerate().filter(|(_, s)| s.is_some()).map(|(i, _)| i).collect() }

    // ---- transactions ----
    pub fn txn_begin(&mut self, sink: &mut Sink) {
        let p: *mut ObservableVector<V> = &mut **self.ov.as_mut().unwrap();
        // SAFETY (harness only): the vector is boxed and not touched until the transaction is gone.
        let t = unsafe { &mut *p }.transaction();
        self.txn = Some(t);
        self.tref = self.reference.clone();
        self.tsize = 0;
        sink.stat("op.txn");
        sink.line("txn", "ok");
    }
    fn tvals(&self) -> Vec<V> { self.txn.as_ref().unwrap().iter().copied().collect() }

    pub fn txn_op(&mut self, sink: &mut Sink, op: &Op) {
        sink.stat(&format!("top.{}", op.kind()));
        let before = self.tvals();
        let t = self.txn.as_mut().unwrap();
        let opc = op.clone();
        let res = catch(move || match opc {
            Op::Append(v) => { t.append(v.into_iter().collect()); "-".to_string() }
            Op::Clear => { t.clear(); "-".into() }
            Op::PushF(v) => { t.push_front(v); "-".into() }
            Op::PushB(v) => { t.push_back(v); "-".into() }
            Op::PopF => fmt_opt(t.pop_front()),
            Op::PopB => fmt_opt(t.pop_back()),
            Op::Ins(i, v) => { t.insert(i, v); "-".into() }
            Op::Set(i, v) => t.set(i, v).to_string(),
            Op::Rem(i) => t.remove(i).to_string(),
            Op::Trunc(n) => { t.truncate(n); "-".into() }
        });
        let after = self.tvals();
        let mut rf = self.tref.clone();
        let expect = op.reference(&mut rf);
        let text = format!("t.{}", op.text());
        match (&res, &expect) {
            (Ok(ret), Ok((eret, changed))) => {
                if ret != eret || after != rf {
                    sink.oracle_fail("C17", &format!("{text}: returned {ret} / working contents {after:?}, a plain vector gives {eret} / {rf:?}"));
                }
                self.tref = after.clone();
                if self.rx_count() > 0 {
                    if matches!(op, Op::Clear) { self.tsize = 1; }
                    else if *changed || !matches!(op, Op::PopF | Op::PopB | Op::Trunc(_)) { self.tsize += 1; }
                } else if matches!(op, Op::Clear) { self.tsize = 0; }
            }
            (Err(()), Err(())) => {
                sink.stat("panic");
                self.panic_seen = true;
                if after != before { sink.oracle_fail("C17", &format!("{text}: panicked but changed the working contents")); }
            }
            (Ok(ret), Err(())) => { sink.oracle_fail("C17", &format!("{text}: out of range but returned {ret}")); self.tref = after.clone(); }
            (Err(()), Ok(_)) => sink.oracle_fail("C17", &format!("{text}: in range but panicked")),
        }
        let shown = match res { Ok(r) => r, Err(()) => "panic".into() };
        sink.line(&text, &format!("{shown} tvals={}", fmt_list(&after)));
    }

    pub fn txn_for_each(&mut self, sink: &mut Sink, decs: &[Dec]) {
        sink.stat("top.foreach");
        let before = self.tvals();
        let mut seen: Vec<(usize, V)> = vec![];
        let mut n_ops = 0;
        {
            let t = self.txn.as_mut().unwrap();
            let mut k = 0;
            if !decs.contains(&Dec::Stop) && decs.len() % 2 == 0 {
                // no early exit wanted: `ObservableVectorTransaction::for_each`
                t.for_each(|mut e| {
                    let d = decs.get(k).copied().unwrap_or(Dec::Keep);
                    k += 1;
                    seen.push((ObservableVectorTransactionEntry::index(&e), *e));
                    match d {
                        Dec::Keep | Dec::Stop => {}
                        Dec::Set(v) => { ObservableVectorTransactionEntry::set(&mut e, v); n_ops += 1; }
                        Dec::Remove => { ObservableVectorTransactionEntry::remove(e); n_ops += 1; }
                        Dec::SetRemove(v) => { ObservableVectorTransactionEntry::set(&mut e, v); ObservableVectorTransactionEntry::remove(e); n_ops += 2; }
                    }
                });
            } else {
            let mut entries = t.entries();
            while let Some(mut e) = entries.next() {
                let d = decs.get(k).copied().unwrap_or(Dec::Keep);
                k += 1;
                seen.push((ObservableVectorTransactionEntry::index(&e), *e));
                match d {
                    Dec::Keep => {}
                    Dec::Set(v) => { ObservableVectorTransactionEntry::set(&mut e, v); n_ops += 1; }
                    Dec::Remove => { ObservableVectorTransactionEntry::remove(e); n_ops += 1; }
                    Dec::SetRemove(v) => { ObservableVectorTransactionEntry::set(&mut e, v); ObservableVectorTransactionEntry::remove(e); n_ops += 2; }
                    Dec::Stop => break,
                }
            }
            }
        }
        let after = self.tvals();
        let (eseen, efinal) = Self::ref_traverse(&before, decs);
        if seen != eseen || after != efinal {
            sink.oracle_fail("C17", &format!("transaction traversal of {before:?} with {}: visited {seen:?} final {after:?}, expected visited {eseen:?} final {efinal:?}", decs_text(decs)));
        }
        self.tref = after.clone();
        if self.rx_count() > 0 { self.tsize += n_ops; }
        let seen_txt: Vec<String> = seen.iter().map(|(i, v)| format!("{i}:{v}")).collect();
        sink.line(&format!("t.foreach {}", decs_text(decs)), &format!("seen=[{}] tvals={}", seen_txt.join(","), fmt_list(&after)));
    }

    pub fn txn_rollback(&mut self, sink: &mut Sink) {
        self.txn.as_mut().unwrap().rollback();
        let tv = self.tvals();
        if tv != self.reference { sink.oracle_fail("C07", &format!("after rollback the transaction shows {tv:?}, the vector holds {:?}", self.reference)); }
        self.tref = tv.clone();
        self.tsize = 0;
        sink.stat("top.rollback");
        sink.line("t.rollback", &format!("ok tvals={}", fmt_list(&tv)));
    }

    pub fn txn_drop(&mut self, sink: &mut Sink) {
        self.txn = None;
        let c = self.contents();
        if c != self.reference { sink.oracle_fail("C07", &format!("abandoned transaction changed the contents to {c:?} (were {:?})", self.reference)); }
        sink.stat("top.drop");
        sink.line("t.drop", &format!("ok vals={}", fmt_list(&c)));
    }

    pub fn txn_commit(&mut self, sink: &mut Sink) {
        let working = self.tvals();
        self.txn.take().unwrap().commit();
        let c = self.contents();
        if c != working { sink.oracle_fail("C07,C17", &format!("commit: contents {c:?} differ from the transaction's working contents {working:?}")); }
        self.reference = c.clone();
        if self.tsize > 0 && self.rx_count() > 0 { self.published(sink, c.clone(), self.tsize, false); }
        let w = self.woke_text();
        sink.stat("top.commit");
        sink.line("t.commit", &format!("ok vals={}{w}", fmt_list(&c)));
    }

    /// end of a case: bring every subscriber to quiescence so the final checks run
    pub fn finish(&mut self, sink: &mut Sink) {
        if self.txn.is_some() { self.txn_drop(sink); }
        for i in self.live_subs() { self.drain(sink, i); self.show_replica(sink, i); }
    }
}

fn op_alphabet(len: usize, vals: &[V]) -> Vec<Op> {
    let mut ops = vec![Op::Clear, Op::PopF, Op::PopB, Op::Append(vec![]), Op::Append(vec![7, 8])];
    for &v in vals {
        ops.push(Op::PushF(v));
        ops.push(Op::PushB(v));
    }
    let v = vals[0];
    for i in 0..=len + 2 {
        ops.push(Op::Ins(i, v));
        ops.push(Op::Set(i, v));
        ops.push(Op::Rem(i));
        ops.push(Op::Trunc(i));
    }
    ops
}

fn random_op(rng: &mut Rng, len: usize) -> Op {
    let v = 1 + rng.below(6) as V;
    let idx = if rng.chance(1, 8) { len + 1 + rng.below(2) } else { rng.below(len + 1) };
    match rng.below(14) {
        0 => { let n = if rng.chance(1, 6) { 4 + rng.below(40) } else { rng.below(4) }; Op::Append((0..n).map(|k| 1 + ((k as u64 + rng.below(6) as u64) % 6) as V).collect()) }
        1 => Op::Clear,
        2 | 3 => Op::PushF(v),
        4 | 5 => Op::PushB(v),
        6 => Op::PopF,
        7 => Op::PopB,
        8 | 9 => Op::Ins(idx, v),
        10 => Op::Set(idx, v),
        11 => Op::Rem(idx),
        12 => Op::Trunc(idx),
        _ => Op::PushB(v),
    }
}

fn random_decs(rng: &mut Rng, n: usize) -> Vec<Dec> {
    (0..n).map(|_| match rng.below(8) {
        0 | 1 | 2 => Dec::Keep,
        3 | 4 => Dec::Set(1 + rng.below(6) as V),
        5 => Dec::Remove,
        6 => Dec::SetRemove(1 + rng.below(6) as V),
        _ => if rng.chance(1, 3) { Dec::Stop } else { Dec::Keep },
    }).collect()
}

fn all_decs(n: usize) -> Vec<Vec<Dec>> {
    let basis = [Dec::Keep, Dec::Set(9), Dec::Remove, Dec::SetRemove(9), Dec::Stop];
    let mut out = vec![vec![]];
    for _ in 0..n {
        let mut nx = vec![];
        for p in &out { for b in basis { let mut q = p.clone(); q.push(b); nx.push(q); } }
        out = nx;
    }
    out
}

pub fn run(args: &Args, sink: &mut Sink) {
    let thorough = args.tier == "thorough";
    let mut n = 0u64;
    // A. per-operation faithfulness, exhaustive: initial contents of length 0..3, every op of the alphabet
    //    (all indices incl. out of range), sequences of length 1 and 2 (thorough: 3 over a reduced alphabet)
    for len in 0..=3usize {
        let init: Vec<V> = (1..=len as V).collect();
        let alpha = op_alphabet(len, &[5]);
        let mut seqs: Vec<Vec<Op>> = alpha.iter().map(|o| vec![o.clone()]).collect();
        for a in &alpha { for b in op_alphabet(len + 1, &[6]) { seqs.push(vec![a.clone(), b]); } }
        if thorough {
            let small = |l| -> Vec<Op> { vec![Op::PopF, Op::PopB, Op::Clear, Op::PushF(4), Op::Ins(1, 4), Op::Ins(l, 4), Op::Rem(0), Op::Rem(l), Op::Set(0, 4), Op::Trunc(1), Op::Append(vec![7])] };
            for a in small(len) { for b in small(len) { for c in op_alphabet(len, &[6]) { seqs.push(vec![a.clone(), b.clone(), c]); } } }
        }
        for seq in seqs {
            n += 1;
            sink.case(&format!("A{n}"));
            let mut w = World::new(sink, 16);
            if !init.is_empty() { w.direct(sink, &Op::Append(init.clone())); }
            let p = w.subscribe(sink, false);
            let b = w.subscribe(sink, true);
            for op in &seq { w.direct(sink, op); }
            w.drain(sink, p);
            w.drain(sink, b);
            w.drop_vec(sink);
            w.finish(sink);
            sink.nontrivial();
        }
    }
    sink.stat_n("exhaustive.A", n);
    // E. entries: `entry(i)` for every index 0..len+1 — taken and dropped unused, used for set, used for remove —
    //    on the vector and inside a transaction (also after the transaction changed the length)
    let mut ne = 0u64;
    for len in 0..=3usize {
        let init: Vec<V> = (1..=len as V).collect();
        for i in 0..=len + 1 {
            for pre in 0..3 {
                ne += 1;
                sink.case(&format!("E{ne}"));
                let mut w = World::new(sink, 16);
                if !init.is_empty() { w.direct(sink, &Op::Append(init.clone())); }
                let p = w.subscribe(sink, false);
                w.entry_unused(sink, i);
                w.entry(sink, i, Some(9));
                w.entry_unused(sink, i);
                w.txn_begin(sink);
                match pre { 0 => {} 1 => w.txn_op(sink, &Op::PopB), _ => w.txn_op(sink, &Op::PushB(7)) }
                w.entry_unused(sink, i);
                w.txn_entry(sink, i, Some(8));
                w.entry_unused(sink, i);
                w.txn_entry(sink, i, None);
                w.entry_unused(sink, i);
                w.txn_commit(sink);
                w.entry(sink, i, None);
                w.drain(sink, p);
                w.finish(sink);
                sink.nontrivial();
            }
        }
    }
    sink.stat_n("exhaustive.E", ne);
    // AP. append: every (existing length 0..6) x (payload length around small multiples and imbl's chunk size), position-
    //     dependent items, on the vector and inside a transaction (how the payload is merged must not depend on the sizes)
    let mut nap = 0u64;
    for e in 0..=6usize {
        for p in [0usize, 1, 2, 3, 4, 5, 8, 9, 13, 16, 17, 33, 64, 65, 130] {
            for in_txn in [false, true] {
                nap += 1;
                sink.case(&format!("AP{nap}"));
                let mut w = World::new(sink, 16);
                let init: Vec<V> = (1..=e as V).collect();
                if !init.is_empty() { w.direct(sink, &Op::Append(init.clone())); }
                let pl = w.subscribe(sink, false);
                let b = w.subscribe(sink, true);
                let payload: Vec<V> = (0..p as V).map(|k| 100 + k).collect();
                if in_txn { w.txn_begin(sink); w.txn_op(sink, &Op::Append(payload)); w.txn_op(sink, &Op::PushB(9)); w.txn_commit(sink); }
                else { w.direct(sink, &Op::Append(payload)); w.direct(sink, &Op::PushB(9)); }
                w.drain(sink, pl); w.drain(sink, b);
                w.finish(sink);
                sink.nontrivial();
            }
        }
    }
    sink.stat_n("append_size_cases", nap);
    // LT. long transactions: 17..40 recorded operations on a small vector (more diffs than elements), every way of ending
    let mut nlt = 0u64;
    {
        let mut lr = Rng(args.seed ^ 0x17A5);
        for k in 0..(if thorough { 600 } else { 120 }) {
            let mut r = lr.fork();
            nlt += 1;
            sink.case(&format!("LT{nlt}"));
            // a commit is one message whatever its size: also at capacities a split batch would overflow
            let cap = [16usize, 1, 2][(k % 3) as usize];
            let mut w = World::new(sink, cap);
            let init: Vec<V> = (1..=r.below(4) as V).collect();
            if !init.is_empty() { w.direct(sink, &Op::Append(init.clone())); }
            let p = w.subscribe(sink, false);
            let b = w.subscribe(sink, true);
            w.txn_begin(sink);
            let n = if cap == 16 { 17 + r.below(24) } else { 30 + r.below(45) };
            for _ in 0..n {
                let len = w.len();
                // keep the vector small: mostly sets and push/pop pairs
                let op = match r.below(8) {
                    0 | 1 if len > 0 => Op::Set(r.below(len), 1 + r.below(6) as V),
                    2 if len < 4 => Op::PushB(1 + r.below(6) as V),
                    3 if len < 4 => Op::PushF(1 + r.below(6) as V),
                    4 => Op::PopB, 5 => Op::PopF,
                    6 if len < 4 => Op::Ins(r.below(len + 1), 1 + r.below(6) as V),
                    7 if len > 0 => Op::Rem(r.below(len)),
                    _ => if len > 0 { Op::Set(0, 1 + r.below(6) as V) } else { Op::PushB(1 + r.below(6) as V) },
                };
                w.txn_op(sink, &op);
            }
            match k % 4 { 0 | 1 => w.txn_commit(sink), 2 => w.txn_drop(sink), _ => { w.txn_rollback(sink); w.txn_op(sink, &Op::PushB(9)); w.txn_commit(sink); } }
            w.drain(sink, p); w.drain(sink, b);
            w.direct(sink, &Op::PushB(3));
            w.finish(sink);
            sink.nontrivial();
        }
    }
    sink.stat_n("long_txn_cases", nlt);
    // B. transactions, exhaustive bodies of length <= 2 (thorough 3), every way of ending, with and without subscribers
    let mut nb = 0u64;
    for len in [0usize, 2] {
        let init: Vec<V> = (1..=len as V).collect();
        let alpha: Vec<Op> = vec![Op::Clear, Op::PopF, Op::PopB, Op::PushF(5), Op::PushB(5), Op::Append(vec![7, 8]),
            Op::Ins(0, 5), Op::Ins(1, 5), Op::Ins(3, 5), Op::Set(0, 5), Op::Set(2, 5), Op::Rem(0), Op::Rem(1), Op::Rem(2), Op::Trunc(1), Op::Trunc(2)];
        let mut bodies: Vec<Vec<Op>> = vec![vec![]];
        for a in &alpha { bodies.push(vec![a.clone()]); }
        for a in &alpha { for b in &alpha { bodies.push(vec![a.clone(), b.clone()]); } }
        if thorough { for a in &alpha { for b in &alpha { for c in &alpha { bodies.push(vec![a.clone(), b.clone(), c.clone()]); } } } }
        for body in &bodies {
            for ending in 0..5 {
                for with_subs in [true, false] {
                    nb += 1;
                    sink.case(&format!("B{nb}"));
                    let mut w = World::new(sink, 16);
                    if !init.is_empty() { w.direct(sink, &Op::Append(init.clone())); }
                    let (p, b) = if with_subs { (w.subscribe(sink, false), w.subscribe(sink, true)) } else { (0, 0) };
                    w.txn_begin(sink);
                    for op in body { w.txn_op(sink, op); }
                    match ending {
                        0 => w.txn_commit(sink),
                        1 => w.txn_drop(sink),
                        2 => { w.txn_rollback(sink); w.txn_drop(sink); }
                        3 => { w.txn_rollback(sink); w.txn_op(sink, &Op::PushB(9)); w.txn_commit(sink); }
                        _ => { w.txn_rollback(sink); w.txn_commit(sink); }
                    }
                    if with_subs { w.drain(sink, p); w.drain(sink, b); }
                    w.direct(sink, &Op::PushB(3));
                    if with_subs { w.drain(sink, p); w.drain(sink, b); }
                    w.finish(sink);
                    sink.nontrivial();
                }
            }
        }
    }
    sink.stat_n("exhaustive.B", nb);
    // C. lag: capacities x number of updates before the first poll x (plain|batched) x (vector dropped before polling?)
    let mut nc = 0u64;
    for cap in [1usize, 2, 3, 4, 5, 7, 8] {
        let bsz = cap.next_power_of_two();
        for k in 0..=bsz + 3 {
            for with_txn in [false, true] {
                for dropped in [false, true] {
                    for prepoll in [false, true] {
                        nc += 1;
                        sink.case(&format!("C{nc}"));
                        let mut w = World::new(sink, cap);
                        w.direct(sink, &Op::Append(vec![1, 2]));
                        let p = w.subscribe(sink, false);
                        let b = w.subscribe(sink, true);
                        if prepoll { w.poll(sink, p); w.poll(sink, b); }
                        for j in 0..k {
                            if with_txn && j % 2 == 1 {
                                w.txn_begin(sink);
                                w.txn_op(sink, &Op::PushF(10 + j as V));
                                w.txn_op(sink, &Op::PopB);
                                w.txn_op(sink, &Op::PushB(20 + j as V));
                                w.txn_commit(sink);
                            } else {
                                w.direct(sink, &Op::PushB(10 + j as V));
                            }
                        }
                        if dropped { w.drop_vec(sink); }
                        w.poll(sink, p);
                        w.drain(sink, p);
                        w.drain(sink, b);
                        if !dropped { w.direct(sink, &Op::PopF); w.drain(sink, p); w.drain(sink, b); w.drop_vec(sink); }
                        w.finish(sink);
                        sink.nontrivial();
                    }
                }
            }
        }
    }
    sink.stat_n("exhaustive.C", nc);
    // D. traversal: every decision sequence over vectors of length <= 3 (thorough 4), direct and in a transaction
    let mut nd = 0u64;
    for len in 0..=(if thorough { 4 } else { 3 }) {
        let init: Vec<V> = (1..=len as V).collect();
        for decs in all_decs(len) {
            for in_txn in [false, true] {
                nd += 1;
                sink.case(&format!("D{nd}"));
                let mut w = World::new(sink, 16);
                if !init.is_empty() { w.direct(sink, &Op::Append(init.clone())); }
                let p = w.subscribe(sink, false);
                if in_txn {
                    w.txn_begin(sink);
                    w.txn_for_each(sink, &decs);
                    w.txn_commit(sink);
                } else {
                    w.for_each(sink, &decs);
                }
                w.drain(sink, p);
                w.finish(sink);
                sink.nontrivial();
            }
        }
    }
    sink.stat_n("exhaustive.D", nd);
    // LP. large capacity, a transaction's diffs only partly taken by the plain stream, then a burst of further updates
    // that stays within / reaches / exceeds the capacity before the next poll
    let mut nlp = 0u64;
    for cap in [17usize, 20, 32, 64] {
        for n_after in [10usize, 16, 17, 19, cap - 1, cap, cap + 1] {
            for taken in [1usize, 2] {
                nlp += 1;
                sink.case(&format!("LP{nlp}"));
                let mut w = World::new(sink, cap);
                w.direct(sink, &Op::Append(vec![1, 2, 3, 4]));
                let p = w.subscribe(sink, false);
                let b = w.subscribe(sink, true);
                w.txn_begin(sink);
                w.txn_op(sink, &Op::Set(0, 9));
                w.txn_op(sink, &Op::Set(1, 10));
                w.txn_op(sink, &Op::PushB(5));
                w.txn_commit(sink);
                for _ in 0..taken { w.poll(sink, p); }
                for j in 0..n_after { w.direct(sink, &Op::Set(j % 4, 100 + j as V)); }
                w.drain(sink, p);
                w.drain(sink, b);
                w.drop_vec(sink);
                w.drain(sink, p);
                w.drain(sink, b);
                sink.nontrivial();
            }
        }
    }
    sink.stat_n("exhaustive.LP", nlp);
    // E. random histories
    let mut rng = Rng(args.seed ^ 0x5EC);
    let rounds = if thorough { 150000 } else { 2500 };
    for k in 0..rounds {
        sink.case(&format!("R{k}"));
        let mut r = rng.fork();
        let cap = [1usize, 2, 3, 5, 7, 16, 64][r.below(7)];
        let mut w = if cap == 16 && r.chance(1, 2) { let n = r.below(5); World::new_from(sink, (0..n).map(|j| 50 + j as V).collect()) } else { World::new(sink, cap) };
        let steps = 10 + r.below(if thorough { 70 } else { 40 });
        let poll_bias = 1 + r.below(6) as u64; // some histories poll rarely (lag), some often
        for _ in 0..steps {
            let len = w.len();
            let live = w.live_subs();
            let c = r.below(100);
            if w.in_txn() {
                match c {
                    0..=48 => { let op = random_op(&mut r, len); w.txn_op(sink, &op) }
                    49..=52 => { let i = if r.chance(1, 4) { len + r.below(2) } else { r.below(len + 1) }; let s = if r.chance(1, 2) { Some(1 + r.below(6) as V) } else { None }; w.txn_entry(sink, i, s) }
                    53..=54 => { let i = if r.chance(1, 2) { len + r.below(2) } else { r.below(len + 1) }; w.entry_unused(sink, i) }
                    55..=59 => { let d = random_decs(&mut r, len); w.txn_for_each(sink, &d) }
                    60..=66 => w.txn_rollback(sink),
                    67..=80 => w.txn_commit(sink),
                    81..=86 => w.txn_drop(sink),
                    87..=92 if !live.is_empty() => { let i = live[r.below(live.len())]; w.poll(sink, i) }
                    93..=95 if !live.is_empty() => { let i = live[r.below(live.len())]; w.drop_sub(sink, i) }
                    _ => { let op = random_op(&mut r, len); w.txn_op(sink, &op) }
                }
            } else {
                match c {
                    0..=39 => { let op = random_op(&mut r, len); w.direct(sink, &op) }
                    40..=42 => { let i = if r.chance(1, 6) { len + r.below(2) } else { r.below(len + 1) }; let s = if r.chance(1, 2) { Some(1 + r.below(6) as V) } else { None }; w.entry(sink, i, s) }
                    43 => { let i = if r.chance(1, 2) { len + r.below(2) } else { r.below(len + 1) }; w.entry_unused(sink, i) }
                    44..=47 => { let d = random_decs(&mut r, len); w.for_each(sink, &d) }
                    48..=55 => w.txn_begin(sink),
                    56..=63 if live.len() < 4 => { let b = r.chance(1, 2); w.subscribe(sink, b); }
                    64..=67 if !live.is_empty() => { let i = live[r.below(live.len())]; w.drop_sub(sink, i) }
                    _ if !live.is_empty() && r.chance(poll_bias, 6) => {
                        let i = live[r.below(live.len())];
                        if r.chance(1, 3) { w.drain(sink, i) } else { w.poll(sink, i) }
                    }
                    _ => { let op = random_op(&mut r, len); w.direct(sink, &op) }
                }
            }
        }
        if w.in_txn() { if r.chance(1, 2) { w.txn_commit(sink) } else { w.txn_drop(sink) } }
        if r.chance(2, 3) { w.drop_vec(sink); }
        w.finish(sink);
        sink.nontrivial();
    }
}
