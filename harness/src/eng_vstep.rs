//! Engine `vstep` (C05, C06, C08): `poll_next` of the vector subscriber streams taken apart into its receive
//! operations. The verification hook `eyeball_im::verif::set_recv_hook` is called after every receive operation
//! (`recv()` becoming ready, each `try_recv()` of the batched drain loop and of `handle_lag`); from inside it the
//! harness performs vector operations (updates, whole transactions, the drop of the vector) — exactly the
//! interleavings a writer on another thread can produce, but deterministic and recorded, so that the Lean model
//! `SOV.micro` (Model/OVecStep.lean) replays them step by step.
//!
//! Lines: `mrecv i` = one receive operation of subscriber `i`'s current `poll_next` (result: what it answered),
//! followed by the lines of the operations injected after it; `mret i` = `poll_next` returns (result: the item).
use crate::common::*;
use crate::eng_vec::{flag_waker, Flag, Op};
use eyeball_im::verif::{set_recv_hook, RecvKind};
use eyeball_im::{ObservableVector, VectorDiff, VectorSubscriberBatchedStream, VectorSubscriberStream};
use futures_core::Stream;
use std::cell::{Cell, RefCell};
use std::pin::Pin;
use std::rc::Rc;
use std::sync::atomic::Ordering;
use std::sync::Arc;
use std::task::{Context, Poll, Waker};

#[derive(Clone, Debug)]
pub enum Act {
    Op(Op),
    Txn(Vec<Op>),
    DropVec,
}

struct Vs {
    ov: Option<ObservableVector<V>>,
    final_state: Option<Vec<V>>,
}
impl Vs {
    fn contents(&self) -> Vec<V> {
        match &self.ov { Some(o) => o.iter().copied().collect(), None => self.final_state.clone().unwrap_or_default() }
    }
}

enum St {
    Plain(Pin<Box<VectorSubscriberStream<V>>>),
    Batched(Pin<Box<VectorSubscriberBatchedStream<V>>>),
}

struct SubS {
    st: St,
    batched: bool,
    waker: Waker,
    replica: Vec<V>,
    ended: bool,
}

type Flags = Rc<RefCell<Vec<(Arc<Flag>, bool)>>>; // (wake flag, last poll returned Pending)
type Lines = Rc<RefCell<Vec<(String, String)>>>;
/// per subscriber: messages published since it was last known to be in sync (`None`: not known)
type Pending = Rc<RefCell<Vec<Option<usize>>>>;

fn woke_text(flags: &Flags) -> String {
    let mut ids = vec![];
    for (i, (f, parked)) in flags.borrow_mut().iter_mut().enumerate() {
        if f.0.swap(false, Ordering::SeqCst) { ids.push(i as V); *parked = false; }
    }
    format!(" woke={}", fmt_list(&ids))
}

fn apply_op(ov: &mut ObservableVector<V>, op: &Op) -> String {
    match op.clone() {
        Op::Append(v) => { ov.append(v.into_iter().collect()); "-".to_string() }
        Op::Clear => { ov.clear(); "-".into() }
        Op::PushF(v) => { ov.push_front(v); "-".into() }
        Op::PushB(v) => { ov.push_back(v); "-".into() }
        Op::PopF => fmt_opt(ov.pop_front()),
        Op::PopB => fmt_opt(ov.pop_back()),
        Op::Ins(i, v) => { ov.insert(i, v); "-".into() }
        Op::Set(i, v) => ov.set(i, v).to_string(),
        Op::Rem(i) => ov.remove(i).to_string(),
        Op::Trunc(n) => { ov.truncate(n); "-".into() }
    }
}

/// perform one injected action on the vector; the produced protocol lines go to `lines`; the C14/C08 wake rule is checked
/// does the committed transaction publish a message (did any of its calls record a diff)?
fn txn_records(ops: &[Op], mut len: usize) -> bool {
    let mut rec = false;
    for o in ops {
        match o {
            Op::Clear => rec = true,
            Op::PopF | Op::PopB => { if len > 0 { rec = true; } }
            Op::Trunc(n) => { if *n < len { rec = true; } }
            _ => rec = true,
        }
        len = predict_len(len, &Act::Op(o.clone()));
    }
    rec
}

fn perform(act: &Act, vs: &Rc<RefCell<Vs>>, flags: &Flags, lines: &Lines, fails: &Rc<RefCell<Vec<(String, String)>>>, pending: &Pending) {
    let mut vs = vs.borrow_mut();
    if vs.ov.is_none() { return; }
    let parked_before: Vec<usize> = flags.borrow().iter().enumerate().filter(|(_, (_, p))| *p).map(|(i, _)| i).collect();
    let mut published = false;
    match act {
        Act::Op(op) => {
            let before = vs.contents();
            let ret = apply_op(vs.ov.as_mut().unwrap(), op);
            let after = vs.contents();
            published = before != after || matches!(op, Op::Append(_) | Op::Set(..));
            if published { for p in pending.borrow_mut().iter_mut() { if let Some(n) = p { *n += 1; } } }
            let w = woke_text(flags);
            lines.borrow_mut().push((op.text(), format!("{ret} vals={}{w}", fmt_list(&after))));
        }
        Act::Txn(ops) => {
            lines.borrow_mut().push(("txn".into(), "ok".into()));
            let ov = vs.ov.as_mut().unwrap();
            let before: Vec<V> = ov.iter().copied().collect();
            let mut t = ov.transaction();
            for op in ops {
                let ret = match op.clone() {
                    Op::Append(v) => { t.append(v.into_iter().collect()); "-".to_string() }
                    Op::Clear => { t.clear(); "-".into() }
                    Op::PushF(v) => { t.push_front(v); "-".into() }
                    Op::PushB(v) => { t.push_back(v); "-".into() }
                    Op::PopF => fmt_opt(t.pop_front()),
                    Op::PopB => fmt_opt(t.pop_back()),
                    Op::Ins(i, v) => { t.insert(i, v); "-".into() }
                    Op::Set(i, v) => t.set(i, v).to_string(),
                    Op::Rem(i) => t.remove(i).to_string(),
                    Op::Trunc(n) => { t.truncate(n); "-".into() }
                };
                let tv: Vec<V> = t.iter().copied().collect();
                lines.borrow_mut().push((format!("t.{}", op.text()), format!("{ret} tvals={}", fmt_list(&tv))));
            }
            t.commit();
            let after = vs.contents();
            published = before != after;
            // one unit: a commit publishes exactly one message (if anything was recorded)
            if txn_records(ops, before.len()) { for p in pending.borrow_mut().iter_mut() { if let Some(n) = p { *n += 1; } } }
            let w = woke_text(flags);
            lines.borrow_mut().push(("t.commit".into(), format!("ok vals={}{w}", fmt_list(&after))));
        }
        Act::DropVec => {
            vs.final_state = Some(vs.contents());
            vs.ov = None;
            published = true;
            // the flags are read below, before `woke_text` clears them
            for i in &parked_before {
                if !flags.borrow()[*i].0 .0.load(Ordering::SeqCst) {
                    fails.borrow_mut().push(("C08".into(), format!("subscriber {i} was Pending and is not woken by the drop of the vector")));
                }
            }
            let w = woke_text(flags);
            lines.borrow_mut().push(("dropvec".into(), format!("ok{w}")));
            return;
        }
    }
    if published {
        for i in parked_before {
            // woke_text has cleared the flag of everybody woken and reset `parked`
            if flags.borrow()[i].1 {
                fails.borrow_mut().push(("C14".into(), format!("subscriber {i} was Pending and is not woken by an update")));
            }
        }
    }
}

pub struct World {
    vs: Rc<RefCell<Vs>>,
    subs: Vec<Option<SubS>>,
    flags: Flags,
    pending: Pending,
    capacity: usize,
}

fn kind_text(k: RecvKind) -> &'static str {
    match k { RecvKind::Ok => "Ok", RecvKind::Empty => "Empty", RecvKind::Closed => "Closed", RecvKind::Lagged => "Lagged" }
}

impl World {
    pub fn new(sink: &mut Sink, capacity: usize) -> World {
        sink.line(&format!("newvec {capacity}"), "ok");
        World {
            vs: Rc::new(RefCell::new(Vs { ov: Some(ObservableVector::with_capacity(capacity)), final_state: None })),
            subs: vec![],
            flags: Rc::new(RefCell::new(vec![])),
            pending: Rc::new(RefCell::new(vec![])),
            capacity,
        }
    }
    pub fn alive(&self) -> bool { self.vs.borrow().ov.is_some() }
    pub fn len(&self) -> usize { self.vs.borrow().contents().len() }

    /// an action outside any poll
    pub fn act(&mut self, sink: &mut Sink, act: &Act) {
        let lines: Lines = Rc::new(RefCell::new(vec![]));
        let fails = Rc::new(RefCell::new(vec![]));
        perform(act, &self.vs, &self.flags, &lines, &fails, &self.pending);
        for (o, r) in lines.borrow().iter() { sink.line(o, r); }
        for (p, w) in fails.borrow().iter() { sink.oracle_fail(p, w); }
    }

    pub fn subscribe(&mut self, sink: &mut Sink, batched: bool) -> usize {
        let id = self.subs.len();
        let (flag, waker) = flag_waker();
        let vs = self.vs.borrow();
        let sub = vs.ov.as_ref().unwrap().subscribe();
        let (snap, st) = if batched {
            let (v, s) = sub.into_values_and_batched_stream();
            (v, St::Batched(Box::pin(s)))
        } else {
            let (v, s) = sub.into_values_and_stream();
            (v, St::Plain(Box::pin(s)))
        };
        let snap: Vec<V> = snap.into_iter().collect();
        if snap != vs.contents() { sink.oracle_fail("C05", &format!("subscribe: snapshot {snap:?} differs from the contents {:?}", vs.contents())); }
        sink.line(&format!("sub {}", if batched { "batched" } else { "plain" }), &format!("{id} vals={}", fmt_list(&snap)));
        drop(vs);
        self.subs.push(Some(SubS { st, batched, waker, replica: snap, ended: false }));
        self.flags.borrow_mut().push((flag, false));
        self.pending.borrow_mut().push(Some(0));
        id
    }

    /// One `poll_next` of subscriber `i`; after its k-th receive operation the actions `script[k]` are performed.
    /// Returns (item text, number of receive operations).
    pub fn poll(&mut self, sink: &mut Sink, i: usize, script: Vec<Vec<Act>>) -> (String, usize) {
        let lines: Lines = Rc::new(RefCell::new(vec![]));
        let fails = Rc::new(RefCell::new(vec![]));
        let count = Rc::new(Cell::new(0usize));
        // the contents at the moment of the latest receive operation (what a Reset decided there must carry)
        let at_recv: Rc<RefCell<Option<Vec<V>>>> = Rc::new(RefCell::new(None));
        let kinds: Rc<RefCell<Vec<RecvKind>>> = Rc::new(RefCell::new(vec![]));
        let injected = script.iter().any(|a| !a.is_empty());
        {
            let (lines, fails, count, vs, flags, at_recv, pending, kinds) = (lines.clone(), fails.clone(), count.clone(), self.vs.clone(), self.flags.clone(), at_recv.clone(), self.pending.clone(), kinds.clone());
            set_recv_hook(Some(Box::new(move |kind| {
                let k = count.get();
                count.set(k + 1);
                *at_recv.borrow_mut() = Some(vs.borrow().contents());
                kinds.borrow_mut().push(kind);
                lines.borrow_mut().push((format!("mrecv {i}"), kind_text(kind).to_string()));
                if let Some(acts) = script.get(k) {
                    for a in acts { perform(a, &vs, &flags, &lines, &fails, &pending); }
                }
            })));
        }
        let s = self.subs[i].as_mut().unwrap();
        // every poll supplies a NEW waker: a wake-up that arrives from now on belongs to the registration of this poll
        { let mut fl = self.flags.borrow_mut(); if fl[i].1 && !fl[i].0 .0.load(Ordering::SeqCst) { let (f, w) = flag_waker(); fl[i].0 = f; s.waker = w; } else { fl[i].0 .0.store(false, Ordering::SeqCst); } }
        let mut cx = Context::from_waker(&s.waker);
        let res: Result<Poll<Option<Vec<VectorDiff<V>>>>, ()> = match &mut s.st {
            St::Plain(st) => catch(|| st.as_mut().poll_next(&mut cx).map(|o| o.map(|d| vec![d]))),
            St::Batched(st) => catch(|| st.as_mut().poll_next(&mut cx)),
        };
        set_recv_hook(None);
        for (o, r) in lines.borrow().iter() { sink.line(o, r); }
        for (p, w) in fails.borrow().iter() { sink.oracle_fail(p, w); }
        let n = count.get();
        sink.stat(&format!("recv_ops.{}", n.min(9)));
        let vs = self.vs.borrow();
        let cur = vs.contents();
        let text = match res {
            Err(()) => { sink.oracle_fail("C05", &format!("poll_next of subscriber {i} panicked")); "panic".to_string() }
            Ok(Poll::Pending) => {
                self.flags.borrow_mut()[i].1 = true;
                if vs.ov.is_none() { sink.oracle_fail("C08", &format!("subscriber {i}: Pending although the vector has been dropped")); }
                if s.replica != cur { sink.oracle_fail("C05,C06", &format!("subscriber {i}: Pending with replica {:?} while the contents are {cur:?}", s.replica)); }
                sink.stat("item.Pending");
                "Pending".into()
            }
            Ok(Poll::Ready(None)) => {
                s.ended = true;
                if vs.ov.is_some() { sink.oracle_fail("C08", &format!("subscriber {i}: end of stream while the vector is alive")); }
                if s.replica != cur { sink.oracle_fail("C08", &format!("subscriber {i}: end of stream with replica {:?}, the final contents are {cur:?}", s.replica)); }
                sink.stat("item.End");
                "End".into()
            }
            Ok(Poll::Ready(Some(ds))) => {
                if ds.is_empty() { sink.oracle_fail("C05,C13", &format!("subscriber {i}: empty batch")); }
                for d in &ds {
                    if let Err(e) = strict_apply(d, &mut s.replica) {
                        sink.oracle_fail("C05", &format!("subscriber {i}: delivered {} is not applicable to the replica: {e}", fmt_diff(d)));
                    }
                    if let VectorDiff::Reset { values } = d {
                        let v: Vec<V> = values.iter().copied().collect();
                        let then = at_recv.borrow().clone().unwrap_or_else(|| cur.clone());
                        if v != then { sink.oracle_fail("C06", &format!("subscriber {i}: Reset carries {v:?} but the contents were {then:?} at the last receive operation of this poll_next")); }
                        sink.stat("item.Reset");
                    }
                }
                sink.stat(if s.batched { "item.Batch" } else { "item.One" });
                if s.batched { format!("Ready{}", fmt_diffs(&ds)) } else { format!("Ready({})", fmt_diff(&ds[0])) }
            }
        };
        drop(vs);
        // message accounting (C06: a Reset only if more than `capacity` messages were pending; C07 / C13: a commit is ONE
        // message, so a batched poll performs exactly one successful receive operation per published message)
        {
            let oks = kinds.borrow().iter().filter(|k| **k == RecvKind::Ok).count();
            let lagged = kinds.borrow().iter().any(|k| *k == RecvKind::Lagged);
            let batched = self.subs[i].as_ref().unwrap().batched;
            let mut pend = self.pending.borrow_mut();
            let before = pend[i];
            pend[i] = if injected { if text == "Pending" { Some(0) } else { None } } else {
                match before {
                    Some(n) => {
                        if lagged {
                            if n <= self.capacity { sink.oracle_fail("C06,C07", &format!("subscriber {i}: lagged (Reset) although only {n} message(s) had been published for it, capacity {}", self.capacity)); }
                            Some(0)
                        } else if text == "Pending" {
                            if n != 0 { sink.oracle_fail("C05,C14", &format!("subscriber {i}: Pending although {n} message(s) are owed to it")); }
                            Some(0)
                        } else if text == "End" || text == "panic" { Some(0) }
                        else if batched {
                            if oks != n { sink.oracle_fail("C07,C13,C06", &format!("batched subscriber {i}: {n} message(s) were published (one per update, one per commit) but this poll_next received {oks}")); }
                            Some(0)
                        } else { Some(n.saturating_sub(oks)) }
                    }
                    None => if text == "Pending" || lagged { Some(0) } else { None },
                }
            };
        }
        sink.line(&format!("mret {i}"), &text);
        let rep = fmt_list(&self.subs[i].as_ref().unwrap().replica);
        sink.line(&format!("replica {i}"), &rep);
        (text, n)
    }

    /// poll every live subscriber (no injections) until Pending / End; then replica = contents
    pub fn settle(&mut self, sink: &mut Sink) {
        for i in 0..self.subs.len() {
            if self.subs[i].is_none() { continue; }
            for _ in 0..10000 {
                let (t, _) = self.poll(sink, i, vec![]);
                if t == "Pending" || t == "End" || t == "panic" { break; }
            }
            let cur = self.vs.borrow().contents();
            let s = self.subs[i].as_ref().unwrap();
            if s.replica != cur { sink.oracle_fail("C05", &format!("subscriber {i}: caught up with replica {:?}, the contents are {cur:?}", s.replica)); }
        }
    }
}

fn pushes(n: usize, next: &mut V) -> Vec<Act> {
    (0..n).map(|_| { *next += 1; Act::Op(Op::PushB(*next)) }).collect()
}

pub fn run(args: &Args, sink: &mut Sink) {
    let thorough = args.tier == "thorough";
    let mut rng = Rng(args.seed ^ 0x5157_4550);
    // X. exhaustive: capacity x flavour x number of messages queued before the poll x what is injected after each of
    //    the first three receive operations (nothing / one update / two / enough to lag / a two-operation transaction /
    //    the drop of the vector)
    let mut nx = 0u64;
    let depth = if thorough { 4 } else { 3 };
    for cap in [1usize, 2, 4] {
        let b = cap.next_power_of_two();
        for batched in [false, true] {
            for queued in 0..=b + 2 {
                let n_scripts = 6usize.pow(depth as u32);
                for code in 0..n_scripts {
                    nx += 1;
                    sink.case(&format!("X{nx}"));
                    let mut w = World::new(sink, cap);
                    let mut next: V = 0;
                    w.act(sink, &Act::Op(Op::Append(vec![100, 101])));
                    let i = w.subscribe(sink, batched);
                    for a in pushes(queued, &mut next) { w.act(sink, &a); }
                    let mut c = code;
                    let mut script = vec![];
                    for _ in 0..depth {
                        let acts = match c % 6 {
                            0 => vec![],
                            1 => pushes(1, &mut next),
                            2 => pushes(2, &mut next),
                            3 => pushes(b + 1, &mut next),
                            4 => { next += 2; vec![Act::Txn(vec![Op::PushF(next - 1), Op::Set(0, next)])] }
                            _ => vec![Act::DropVec],
                        };
                        c /= 6;
                        script.push(acts);
                    }
                    w.poll(sink, i, script);
                    w.settle(sink);
                    if w.alive() { w.act(sink, &Act::DropVec); w.settle(sink); }
                    sink.nontrivial();
                }
            }
        }
    }
    sink.stat_n("exhaustive.X", nx);
    // T. long transactions: ONE message whatever the number of recorded diffs
    let mut nt = 0u64;
    for cap in [1usize, 2, 4] {
        for batched in [false, true] {
            for n in [2usize, 31, 32, 33, 40, 64, 65, 70, 129] {
                nt += 1;
                sink.case(&format!("T{nt}"));
                let mut w = World::new(sink, cap);
                w.act(sink, &Act::Op(Op::Append(vec![100, 101])));
                let i = w.subscribe(sink, batched);
                let ops: Vec<Op> = (0..n).map(|k| Op::Set(k % 2, 200 + k as V)).collect();
                w.act(sink, &Act::Txn(ops));
                let _ = i;
                w.settle(sink);
                w.act(sink, &Act::Op(Op::PushB(7)));
                w.settle(sink);
                sink.nontrivial();
            }
        }
    }
    sink.stat_n("long_txn.T", nt);
    // R. random: several subscribers of both flavours, random operations between the polls, random injections
    let rounds = if thorough { 60000 } else { 1500 };
    for r in 0..rounds {
        sink.case(&format!("R{r}"));
        let cap = [1usize, 2, 3, 4, 5, 8][rng.below(6)];
        let b = cap.next_power_of_two();
        let mut w = World::new(sink, cap);
        let mut next: V = 0;
        let nsub = 1 + rng.below(3);
        for _ in 0..nsub { let bt = rng.chance(1, 2); w.subscribe(sink, bt); }
        let steps = 4 + rng.below(if thorough { 30 } else { 14 });
        for _ in 0..steps {
            if !w.alive() { break; }
            if rng.chance(2, 5) {
                let a = rand_act(&mut rng, w.len(), &mut next, b, false);
                w.act(sink, &a);
            } else {
                let i = rng.below(nsub);
                let mut script = vec![];
                let mut len = w.len();
                let mut dropped = false;
                for _ in 0..rng.below(6) {
                    let mut acts = vec![];
                    let k = if rng.chance(1, 4) { b + rng.below(3) } else { rng.below(3) };
                    for _ in 0..k {
                        if dropped { break; }
                        let a = rand_act(&mut rng, len, &mut next, b, true);
                        len = predict_len(len, &a);
                        if matches!(a, Act::DropVec) { dropped = true; }
                        acts.push(a);
                    }
                    script.push(acts);
                }
                w.poll(sink, i, script);
            }
        }
        w.settle(sink);
        if w.alive() { w.act(sink, &Act::DropVec); w.settle(sink); }
        sink.nontrivial();
    }
}

fn predict_len(len: usize, a: &Act) -> usize {
    let one = |len: usize, o: &Op| match o {
        Op::Append(v) => len + v.len(), Op::Clear => 0, Op::PushF(_) | Op::PushB(_) | Op::Ins(..) => len + 1,
        Op::PopF | Op::PopB => len.saturating_sub(1), Op::Set(..) => len, Op::Rem(_) => len - 1, Op::Trunc(n) => len.min(*n),
    };
    match a { Act::Op(o) => one(len, o), Act::Txn(ops) => ops.iter().fold(len, |l, o| one(l, o)), Act::DropVec => len }
}

fn rand_op(rng: &mut Rng, len: usize, next: &mut V) -> Op {
    *next += 1;
    let v = *next;
    match rng.below(if len == 0 { 5 } else { 11 }) {
        0 => Op::PushB(v), 1 => Op::PushF(v), 2 => Op::Append(vec![v, v + 1000]), 3 => Op::Ins(rng.below(len + 1), v), 4 => Op::Clear,
        5 => Op::PopF, 6 => Op::PopB, 7 => Op::Set(rng.below(len), v), 8 => Op::Rem(rng.below(len)), 9 => Op::Trunc(rng.below(len + 2)),
        _ => Op::PushB(v),
    }
}

fn rand_act(rng: &mut Rng, len: usize, next: &mut V, _b: usize, may_drop: bool) -> Act {
    match rng.below(12) {
        0 if may_drop => Act::DropVec,
        1 | 2 => {
            let mut l = len;
            let mut ops = vec![];
            for _ in 0..1 + rng.below(3) { let o = rand_op(rng, l, next); l = predict_len(l, &Act::Op(o.clone())); ops.push(o); }
            Act::Txn(ops)
        }
        _ => Act::Op(rand_op(rng, len, next)),
    }
}
