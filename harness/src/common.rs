//! Shared plumbing: PRNG, canonical printers, the two-stream sink (ops / impl results), oracle log, stats.
use std::collections::{BTreeMap, HashSet};
use std::fs::File;
use std::hash::{Hash, Hasher};
use std::io::{BufWriter, Write};
use std::path::{Path, PathBuf};

use eyeball_im::VectorDiff;
use imbl::Vector;

pub type V = u64;

/// splitmix64 — every random choice of a run derives from one state (`VERIF_SEED`).
#[derive(Clone)]
pub struct Rng(pub u64);
impl Rng {
    pub fn next(&mut self) -> u64 {
        self.0 = self.0.wrapping_add(0x9E3779B97F4A7C15);
        let mut z = self.0;
        z = (z ^ (z >> 30)).wrapping_mul(0xBF58476D1CE4E5B9);
        z = (z ^ (z >> 27)).wrapping_mul(0x94D049BB133111EB);
        z ^ (z >> 31)
    }
    pub fn below(&mut self, n: usize) -> usize {
        if n == 0 { 0 } else { (self.next() % n as u64) as usize }
    }
    pub fn chance(&mut self, num: u64, den: u64) -> bool {
        self.next() % den < num
    }
    pub fn fork(&mut self) -> Rng {
        Rng(self.next())
    }
}

pub fn fmt_list<'a>(it: impl IntoIterator<Item = &'a V>) -> String {
    let v: Vec<String> = it.into_iter().map(|x| x.to_string()).collect();
    format!("[{}]", v.join(","))
}
pub fn fmt_vec(v: &Vector<V>) -> String {
    fmt_list(v.iter())
}
pub fn fmt_diff(d: &VectorDiff<V>) -> String {
    match d {
        VectorDiff::Append { values } => format!("Append{}", fmt_vec(values)),
        VectorDiff::Clear => "Clear".into(),
        VectorDiff::PushFront { value } => format!("PushFront({value})"),
        VectorDiff::PushBack { value } => format!("PushBack({value})"),
        VectorDiff::PopFront => "PopFront".into(),
        VectorDiff::PopBack => "PopBack".into(),
        VectorDiff::Insert { index, value } => format!("Insert({index},{value})"),
        VectorDiff::Set { index, value } => format!("Set({index},{value})"),
        VectorDiff::Remove { index } => format!("Remove({index})"),
        VectorDiff::Truncate { length } => format!("Truncate({length})"),
        VectorDiff::Reset { values } => format!("Reset{}", fmt_vec(values)),
    }
}
pub fn fmt_diffs(ds: &[VectorDiff<V>]) -> String {
    let v: Vec<String> = ds.iter().map(fmt_diff).collect();
    format!("{{{}}}", v.join(";"))
}
pub fn fmt_opt(o: Option<V>) -> String {
    match o {
        None => "none".into(),
        Some(v) => format!("some({v})"),
    }
}
pub fn diff_kind(d: &VectorDiff<V>) -> &'static str {
    match d {
        VectorDiff::Append { .. } => "Append",
        VectorDiff::Clear => "Clear",
        VectorDiff::PushFront { .. } => "PushFront",
        VectorDiff::PushBack { .. } => "PushBack",
        VectorDiff::PopFront => "PopFront",
        VectorDiff::PopBack => "PopBack",
        VectorDiff::Insert { .. } => "Insert",
        VectorDiff::Set { .. } => "Set",
        VectorDiff::Remove { .. } => "Remove",
        VectorDiff::Truncate { .. } => "Truncate",
        VectorDiff::Reset { .. } => "Reset",
    }
}

/// Strict replica: applies a diff to a plain `Vec`, refusing what a bounds-checking consumer refuses.
/// Independent of the Lean model and of `VectorDiff::apply` (used by the implementation-side oracles).
pub fn strict_apply(d: &VectorDiff<V>, r: &mut Vec<V>) -> Result<(), String> {
    match d {
        VectorDiff::Append { values } => r.extend(values.iter().copied()),
        VectorDiff::Clear => r.clear(),
        VectorDiff::PushFront { value } => r.insert(0, *value),
        VectorDiff::PushBack { value } => r.push(*value),
        VectorDiff::PopFront => {
            if r.is_empty() { return Err("PopFront on empty replica".into()); }
            r.remove(0);
        }
        VectorDiff::PopBack => {
            if r.pop().is_none() { return Err("PopBack on empty replica".into()); }
        }
        VectorDiff::Insert { index, value } => {
            if *index > r.len() { return Err(format!("Insert({index}) on len {}", r.len())); }
            r.insert(*index, *value);
        }
        VectorDiff::Set { index, value } => {
            if *index >= r.len() { return Err(format!("Set({index}) on len {}", r.len())); }
            r[*index] = *value;
        }
        VectorDiff::Remove { index } => {
            if *index >= r.len() { return Err(format!("Remove({index}) on len {}", r.len())); }
            r.remove(*index);
        }
        VectorDiff::Truncate { length } => r.truncate(*length),
        VectorDiff::Reset { values } => {
            r.clear();
            r.extend(values.iter().copied());
        }
    }
    Ok(())
}

pub struct Sink {
    ops: BufWriter<File>,
    imp: BufWriter<File>,
    oracle: BufWriter<File>,
    pub out_dir: PathBuf,
    pub stats: BTreeMap<String, u64>,
    pub cases: u64,
    pub lines: u64,
    cur_case: String,
    cur_ops: Vec<String>,
    cur_res: Vec<String>,
    cur_nontrivial: bool,
    distinct: HashSet<u64>,
    pub oracle_failures: u64,
    pub samples: Vec<String>,
    sample_every: u64,
    pub focus: Option<String>,
    muted: bool,
}

impl Sink {
    pub fn new(out_dir: &Path) -> Self {
        std::fs::create_dir_all(out_dir).unwrap();
        let f = |n: &str| BufWriter::new(File::create(out_dir.join(n)).unwrap());
        Sink {
            ops: f("ops.txt"),
            imp: f("impl.txt"),
            oracle: f("oracle.jsonl"),
            out_dir: out_dir.to_path_buf(),
            stats: BTreeMap::new(),
            cases: 0,
            lines: 0,
            cur_case: String::new(),
            cur_ops: vec![],
            cur_res: vec![],
            cur_nontrivial: false,
            distinct: HashSet::new(),
            oracle_failures: 0,
            samples: vec![],
            sample_every: 1,
            focus: None,
            muted: false,
        }
    }
    fn close_case(&mut self) {
        if self.cur_case.is_empty() { return; }
        if self.cur_nontrivial {
            let mut h = std::collections::hash_map::DefaultHasher::new();
            self.cur_ops.hash(&mut h);
            self.cur_res.hash(&mut h);
            self.distinct.insert(h.finish());
        }
        // keep a thin, evenly spread set of written-out sample cases (at most ~8)
        if self.cases % self.sample_every == 0 && self.cur_nontrivial {
            if self.samples.len() >= 8 {
                self.samples = self.samples.iter().step_by(2).cloned().collect();
                self.sample_every *= 2;
            }
            let body: Vec<String> =
                self.cur_ops.iter().zip(&self.cur_res).map(|(o, r)| format!("{o} => {r}")).collect();
            self.samples.push(format!("{}: {}", self.cur_case, body.join(" | ")));
        }
        self.cur_ops.clear();
        self.cur_res.clear();
        self.cur_nontrivial = false;
    }
    /// start a new case (fresh state on both sides)
    pub fn case(&mut self, id: &str) {
        self.close_case();
        self.cur_case = id.to_string();
        self.muted = matches!(&self.focus, Some(f) if f != id);
        if self.muted { return; }
        // keep the files current: if the implementation crashes or hangs, the last case on disk is the culprit
        let _ = self.ops.flush();
        let _ = self.imp.flush();
        let _ = self.oracle.flush();
        self.cases += 1;
        writeln!(self.ops, "# case {id}").unwrap();
        writeln!(self.imp, "# case {id}").unwrap();
    }
    /// one operation and the implementation's canonical observable result
    pub fn line(&mut self, op: &str, res: &str) {
        debug_assert!(!op.contains('\n') && !res.contains('\n'));
        if self.muted { return; }
        writeln!(self.ops, "{op}").unwrap();
        writeln!(self.imp, "{res}").unwrap();
        self.cur_ops.push(op.to_string());
        self.cur_res.push(res.to_string());
        self.lines += 1;
    }
    pub fn nontrivial(&mut self) {
        self.cur_nontrivial = true;
    }
    pub fn stat(&mut self, k: &str) {
        *self.stats.entry(k.to_string()).or_insert(0) += 1;
    }
    pub fn stat_n(&mut self, k: &str, n: u64) {
        *self.stats.entry(k.to_string()).or_insert(0) += n;
    }
    /// the implementation-side property oracle failed on the current case
    pub fn oracle_fail(&mut self, prop: &str, what: &str) {
        if self.muted { return; }
        self.oracle_failures += 1;
        let ops: Vec<String> = self.cur_ops.iter().map(|s| json_str(s)).collect();
        let res: Vec<String> = self.cur_res.iter().map(|s| json_str(s)).collect();
        writeln!(
            self.oracle,
            "{{\"property\":{},\"case\":{},\"what\":{},\"ops\":[{}],\"impl\":[{}]}}",
            json_str(prop),
            json_str(&self.cur_case),
            json_str(what),
            ops.join(","),
            res.join(",")
        )
        .unwrap();
    }
    pub fn cur_case_id(&self) -> &str {
        &self.cur_case
    }
    pub fn finish(mut self, engine: &str, extra: &[(&str, String)]) {
        self.close_case();
        self.ops.flush().unwrap();
        self.imp.flush().unwrap();
        self.oracle.flush().unwrap();
        let mut s = String::from("{");
        s += &format!("\"engine\":{},", json_str(engine));
        s += &format!("\"cases\":{},\"lines\":{},\"distinct_nontrivial\":{},\"oracle_failures\":{},",
            self.cases, self.lines, self.distinct.len(), self.oracle_failures);
        for (k, v) in extra {
            s += &format!("{}:{},", json_str(k), v);
        }
        let st: Vec<String> = self.stats.iter().map(|(k, v)| format!("{}:{}", json_str(k), v)).collect();
        s += &format!("\"stats\":{{{}}},", st.join(","));
        let sm: Vec<String> = self.samples.iter().map(|x| json_str(x)).collect();
        s += &format!("\"samples\":[{}]}}", sm.join(","));
        std::fs::write(self.out_dir.join("stats.json"), s).unwrap();
    }
}

pub fn json_str(s: &str) -> String {
    let mut o = String::from("\"");
    for c in s.chars() {
        match c {
            '"' => o.push_str("\\\""),
            '\\' => o.push_str("\\\\"),
            '\n' => o.push_str("\\n"),
            c if (c as u32) < 0x20 => o.push_str(&format!("\\u{:04x}", c as u32)),
            c => o.push(c),
        }
    }
    o.push('"');
    o
}

/// run `f`, mapping a panic to `Err(())`; the default panic message is silenced by `main`.
pub fn catch<R>(f: impl FnOnce() -> R) -> Result<R, ()> {
    std::panic::catch_unwind(std::panic::AssertUnwindSafe(f)).map_err(|_| ())
}

pub struct Args {
    pub engine: String,
    pub tier: String,
    pub seed: u64,
    pub out: PathBuf,
    pub replay: Option<PathBuf>,
    pub focus: Option<String>,
}
