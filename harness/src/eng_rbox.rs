//! Engine `rbox` (C20): the crate's private `ReusableBoxFuture` (eyeball-im/src/reusable_box.rs: hand-written `unsafe`
//! in-place replacement of a boxed future) driven directly through the verification hook `eyeball_im::verif::RBox`, with
//! instrumented futures of three different layouts whose destructors may panic — the paths the subscriber streams never
//! take (they store one future type) are exactly those a refactoring of the `unsafe` code would break first.
//! Compared line by line with the Lean model `Model/RBox`; implementation-side oracles: no future dropped twice, none
//! alive after the box is gone unless it is the documented leak, the stored future is the last one set, `set` allocates
//! exactly when the layouts differ.
use crate::common::*;
use eyeball_im::verif::RBox;
use std::alloc::{GlobalAlloc, Layout, System};
use std::cell::RefCell;
use std::future::Future;
use std::pin::Pin;
use std::sync::atomic::{AtomicUsize, Ordering};
use std::task::{Context, Poll};

pub struct Counting;
pub static ALLOCS: AtomicUsize = AtomicUsize::new(0);
unsafe impl GlobalAlloc for Counting {
    unsafe fn alloc(&self, l: Layout) -> *mut u8 { ALLOCS.fetch_add(1, Ordering::Relaxed); System.alloc(l) }
    unsafe fn dealloc(&self, p: *mut u8, l: Layout) { System.dealloc(p, l) }
}

thread_local! {
    /// ids in the order their destructors ran; (id, times dropped) bookkeeping is derived from it
    static DROPPED: RefCell<Vec<u64>> = RefCell::new(Vec::with_capacity(1 << 16));
}

struct Fu<const N: usize> { id: u64, _pad: [u64; N], panics: bool }
impl<const N: usize> Future for Fu<N> {
    type Output = u64;
    fn poll(self: Pin<&mut Self>, _: &mut Context<'_>) -> Poll<u64> { Poll::Ready(self.id) }
}
impl<const N: usize> Drop for Fu<N> {
    fn drop(&mut self) {
        DROPPED.with(|d| d.borrow_mut().push(self.id));
        if self.panics && !std::thread::panicking() { panic!("destructor of future {}", self.id); }
    }
}

#[derive(Clone, Copy, Debug)]
struct F { id: u64, layout: usize, panics: bool }

fn dropped() -> Vec<u64> { DROPPED.with(|d| d.borrow().clone()) }

struct Case { b: Option<RBox<'static, u64>>, given: Vec<u64>, stored: Option<F> }

impl Case {
    fn new(sink: &mut Sink, f: F) -> Case {
        DROPPED.with(|d| d.borrow_mut().clear());
        let b = match f.layout { 1 => RBox::new(Fu::<1> { id: f.id, _pad: [0; 1], panics: f.panics }), 2 => RBox::new(Fu::<2> { id: f.id, _pad: [0; 2], panics: f.panics }), _ => RBox::new(Fu::<3> { id: f.id, _pad: [0; 3], panics: f.panics }) };
        sink.line(&format!("rnew {} {} {}", f.id, f.layout, f.panics as u8), "ok");
        Case { b: Some(b), given: vec![f.id], stored: Some(f) }
    }
    fn poll_text(&mut self) -> String {
        let w = std::task::Waker::noop();
        let mut cx = Context::from_waker(&w);
        match self.b.as_mut().unwrap().poll(&mut cx) { Poll::Ready(id) => format!("Ready({id})"), Poll::Pending => "Pending".into() }
    }
    fn set(&mut self, sink: &mut Sink, f: F) {
        self.given.push(f.id);
        let old = self.stored;
        let b = self.b.as_mut().unwrap();
        let a0 = ALLOCS.load(Ordering::Relaxed);
        let r = catch(move || match f.layout { 1 => b.set(Fu::<1> { id: f.id, _pad: [0; 1], panics: f.panics }), 2 => b.set(Fu::<2> { id: f.id, _pad: [0; 2], panics: f.panics }), _ => b.set(Fu::<3> { id: f.id, _pad: [0; 3], panics: f.panics }) });
        let a1 = ALLOCS.load(Ordering::Relaxed);
        let stored_now = self.poll_text();
        let stored_id = stored_now.strip_prefix("Ready(").and_then(|x| x.strip_suffix(")")).map(|x| x.to_string()).unwrap_or_else(|| "-".into());
        // oracles (independent of the Lean model)
        let d = dropped();
        if let Some(o) = old { if d.iter().filter(|x| **x == o.id).count() != 1 { sink.oracle_fail("C20", &format!("set({}): the replaced future {} was dropped {} times", f.id, o.id, d.iter().filter(|x| **x == o.id).count())); } }
        match (&r, old) {
            (Ok(()), Some(o)) => {
                if stored_id != f.id.to_string() { sink.oracle_fail("C20", &format!("set({}) returned but the box stores {stored_id}", f.id)); }
                let expect = if o.layout == f.layout { 0 } else { 1 };
                if a1 - a0 != expect { sink.oracle_fail("C20", &format!("set({}) replacing layout {} by layout {} made {} allocation(s), expected {expect}", f.id, o.layout, f.layout, a1 - a0)); }
            }
            (Err(()), Some(o)) => {
                if !o.panics { sink.oracle_fail("C20", &format!("set({}) panicked although the destructor of {} does not", f.id, o.id)); }
                // same layout: the guard installs the new future although the old one's destructor panicked
                if o.layout == f.layout && stored_id != f.id.to_string() { sink.oracle_fail("C20", &format!("set({}) unwound from the destructor of {} and the box stores {stored_id}", f.id, o.id)); }
            }
            _ => {}
        }
        self.stored = if stored_id == "-" { None } else if stored_id == f.id.to_string() { Some(f) } else { old };
        let shown = match r { Ok(()) => format!("ok dropped={} stored={stored_id} alloc={}", fmt_list(&d), a1 - a0), Err(()) => format!("panic dropped={} stored={stored_id}", fmt_list(&d)) };
        sink.line(&format!("rset {} {} {}", f.id, f.layout, f.panics as u8), &shown);
        sink.stat(if r.is_ok() { "set.ok" } else { "set.panic" });
        if let Some(o) = old { sink.stat(if o.layout == f.layout { "set.same_layout" } else { "set.other_layout" }); }
    }
    fn poll(&mut self, sink: &mut Sink) { let t = self.poll_text(); sink.line("rpoll", &t); }
    fn drop_box(&mut self, sink: &mut Sink) {
        let b = self.b.take().unwrap();
        let r = catch(move || drop(b));
        let d = dropped();
        sink.line("rdrop", &format!("{} dropped={}", if r.is_ok() { "ok" } else { "panic" }, fmt_list(&d)));
    }
    fn end(&mut self, sink: &mut Sink) {
        if self.b.is_some() { self.drop_box(sink); }
        let d = dropped();
        let mut twice: Vec<u64> = d.iter().copied().filter(|x| d.iter().filter(|y| *y == x).count() > 1).collect();
        twice.dedup();
        if !twice.is_empty() { sink.oracle_fail("C20", &format!("futures {twice:?} were dropped twice")); }
        let leaked: Vec<u64> = self.given.iter().copied().filter(|x| !d.contains(x)).collect();
        sink.line("rend", &format!("dropped={} leaked={} allocs_alive=0", fmt_list(&d), fmt_list(&leaked)));
        sink.nontrivial();
    }
}

pub fn run(args: &Args, sink: &mut Sink) {
    let thorough = args.tier == "thorough";
    let mut n = 0u64;
    // exhaustive: every sequence of up to 3 (thorough 4) `set`s over 3 layouts x {quiet, panicking destructor}, each followed
    // by a poll; never two panicking destructors in a row across a layout change (a second panic while unwinding aborts)
    let kinds: Vec<(usize, bool)> = vec![(1, false), (2, false), (3, false), (1, true), (2, true)];
    let depth = if thorough { 4 } else { 3 };
    for first in &kinds {
        let total = kinds.len().pow(depth as u32);
        for code in 0..total {
            let seq: Vec<(usize, bool)> = (0..depth).map(|d| kinds[(code / kinds.len().pow(d as u32)) % kinds.len()]).collect();
            let mut prev = *first;
            if seq.iter().any(|k| { let bad = prev.1 && k.1 && prev.0 != k.0; prev = *k; bad }) { continue; }
            n += 1;
            sink.case(&format!("X{n}"));
            let mut c = Case::new(sink, F { id: 1, layout: first.0, panics: first.1 });
            for (k, (l, p)) in seq.iter().enumerate() { c.set(sink, F { id: 2 + k as u64, layout: *l, panics: *p }); c.poll(sink); }
            c.end(sink);
        }
    }
    sink.stat_n("exhaustive", n);
    // random: long histories, mostly the crate's own use (one layout, quiet destructors)
    let mut rng = Rng(args.seed ^ 0xB0C5);
    for r in 0..(if thorough { 40000 } else { 1500 }) {
        sink.case(&format!("R{r}"));
        let uniform = rng.chance(1, 2);
        let mut id = 1u64;
        let mut prev = F { id, layout: 1 + rng.below(3), panics: false };
        let mut c = Case::new(sink, prev);
        for _ in 0..rng.below(30) {
            match rng.below(5) {
                0 => c.poll(sink),
                _ => {
                    id += 1;
                    let layout = if prev.layout != 0 && (uniform || rng.chance(2, 3)) { prev.layout } else { 1 + rng.below(3) };
                    let panics = !uniform && rng.chance(1, 6) && !(prev.panics && layout != prev.layout);
                    let f = F { id, layout, panics: panics && !(prev.panics && layout != prev.layout) };
                    c.set(sink, f);
                    // what is stored now decides what may follow
                    prev = c.stored.unwrap_or(F { id: 0, layout: 0, panics: false });
                }
            }
        }
        c.end(sink);
    }
}
