//! evh — harness half of the correspondence check. Runs operation sequences in-process on the real
//! eyeball crates (built from /repo's working tree, hooks on), writes `ops.txt` (one op per line, fed to the
//! Lean model driver) and `impl.txt` (canonical observable results), evaluates the implementation-side
//! property oracles (`oracle.jsonl`) and measured coverage (`stats.json`).
mod common;
mod eng_diff;
mod eng_vec;
mod eng_adp;
mod eng_obs;
mod eng_conc;
mod eng_own;
mod eng_vconc;
mod eng_vstep;
mod eng_rbox;

#[global_allocator]
static GLOBAL: eng_rbox::Counting = eng_rbox::Counting;

use common::*;
use std::path::PathBuf;

fn main() {
    let mut a = Args { engine: String::new(), tier: "quick".into(), seed: 1, out: PathBuf::from("out"), replay: None, focus: None };
    let mut it = std::env::args().skip(1);
    while let Some(x) = it.next() {
        match x.as_str() {
            "--tier" => a.tier = it.next().unwrap(),
            "--seed" => a.seed = it.next().unwrap().parse().unwrap(),
            "--out" => a.out = PathBuf::from(it.next().unwrap()),
            "--replay" => a.replay = Some(PathBuf::from(it.next().unwrap())),
            "--focus" => a.focus = Some(it.next().unwrap()),
            e if a.engine.is_empty() => a.engine = e.to_string(),
            e => panic!("unexpected argument {e}"),
        }
    }
    // panics are data here (`catch`): keep stderr quiet
    std::panic::set_hook(Box::new(|_| {}));
    let mut sink = Sink::new(&a.out);
    sink.focus = a.focus.clone();
    match a.engine.as_str() {
        "diff" => eng_diff::run(&a, &mut sink),
        "vec" => eng_vec::run(&a, &mut sink),
        "adp" => eng_adp::run(&a, &mut sink),
        "obs" => eng_obs::run(&a, &mut sink, false),
        "conc" => eng_conc::run(&a, &mut sink),
        "own" => eng_own::run(&a, &mut sink),
        "vconc" => eng_vconc::run(&a, &mut sink),
        "vstep" => eng_vstep::run(&a, &mut sink),
        "rbox" => eng_rbox::run(&a, &mut sink),
        "obsasync" => eng_obs::run(&a, &mut sink, true),
        e => {
            eprintln!("unknown engine {e}");
            std::process::exit(2);
        }
    }
    let eng = a.engine.clone();
    sink.finish(&eng, &[("seed", a.seed.to_string())]);
}
